(* C11 - CNF conversion (CNFizer, PolarityCNFizer) and Ackermannization preserve satisfiability
   model by model.  Statements only; proofs in proofs/Cnf_proofs.v and proofs/Ackermann_proofs.v.

   Reading guide.  [cnf_convert asimp f st = Some (cl, st')]: CNFizer(env).convert(f) returns the
   clause set cl when the manager is in state st (its _fresh_guess and symbol names) and leaves it
   in st'; [asimp] is the simplifier on theory atoms, assumed to preserve truth values
   ([simp_sound], which is property C01) and, for the shape theorems, to return literals
   ([shape_hyp]).  [start_ok f st]: a new converter object, and the manager knows f's symbols.
   [sat I cl]: every clause has a literal true under I; [as_formula cl] is convert_as_formula's
   result and [as_formula_holds] ties the two.  [introduced st']: the fresh names. *)
From Coq Require Import List String.
From PySMT.core Require Import Syntax Sem.
From PySMT.models Require Import Cnf.
From PySMT.proofs Require Import Cnf_proofs.
Import ListNotations.

(* ---- CNFizer ---- *)
Theorem C11_cnf_shape : forall asimp, simp_sound asimp -> forall f st cl st', shape_hyp asimp ->
  cnf_convert asimp f st = Some (cl, st') -> clauses_of_literals cl.
Proof. exact cnf_shape. Qed.
Print Assumptions C11_cnf_shape.

Theorem C11_cnf_complete : forall asimp, simp_sound asimp -> forall f st cl st' I, start_ok f st ->
  cnf_convert asimp f st = Some (cl, st') -> holds I f ->
  exists I', agrees_off (introduced st') I I' /\ sat I' cl = true /\ holds I' (as_formula cl) /\
             (forall n, In n (introduced st') -> ~ In n (mnames (mgr st))).
Proof. exact cnf_complete. Qed.
Print Assumptions C11_cnf_complete.

(* soundness: every interpretation satisfying the output satisfies the input
   (the clean-up returns FALSE_CNF when it empties a clause: pysmt 7e10806) *)
Theorem C11_cnf_sound : forall asimp, simp_sound asimp -> forall f st cl st' J, start_ok f st ->
  cnf_convert asimp f st = Some (cl, st') -> sat J cl = true -> holds J f.
Proof. exact cnf_sound. Qed.
Print Assumptions C11_cnf_sound.

Theorem C11_as_formula : forall J cl, holds J (as_formula cl) <-> sat J cl = true.
Proof. exact as_formula_holds. Qed.
Print Assumptions C11_as_formula.

(* ---- PolarityCNFizer ---- *)
Theorem C11_pol_shape : forall asimp, simp_sound asimp -> forall f st cl st', shape_hyp asimp ->
  pol_convert asimp f st = Some (cl, st') -> clauses_of_literals cl.
Proof. exact pol_shape. Qed.
Print Assumptions C11_pol_shape.

Theorem C11_pol_complete : forall asimp, simp_sound asimp -> forall f st cl st' I, start_ok f st ->
  pol_convert asimp f st = Some (cl, st') -> holds I f ->
  exists I', agrees_off (introduced st') I I' /\ sat I' cl = true /\ holds I' (as_formula cl) /\
             (forall n, In n (introduced st') -> ~ In n (mnames (mgr st))).
Proof. exact pol_complete. Qed.
Print Assumptions C11_pol_complete.

Theorem C11_pol_sound : forall asimp, simp_sound asimp -> forall f st cl st' J, start_ok f st ->
  pol_convert asimp f st = Some (cl, st') -> sat J cl = true -> holds J f.
Proof. exact pol_sound. Qed.
Print Assumptions C11_pol_sound.

(* ---- Ackermannization (code repaired by build/fixes/C11_ackermann_nested.diff) ----
   Shape, completeness and soundness are theorems (proofs/Ackermann_proofs.v). *)
From PySMT.models Require Import Ackermann.
From PySMT.proofs Require Import Ackermann_proofs.
Theorem C11_ack_shape : forall f guess names,
  has_app (fst (ackermannize f (init_astate guess names))) = false.
Proof. exact ack_shape. Qed.
Print Assumptions C11_ack_shape.

(* completeness: the witness gives every fresh constant the value of its application.
   Side conditions: f quantifier-free, well-typed and in the C01 fragment [okt]; I well-sorted;
   the manager (names) knows f's symbols. *)
From PySMT.core Require Import Sem.
From PySMT.models Require Import TypeChecker Oracles.
From PySMT.proofs Require Import SimplifierSemBase_proofs.
Theorem C11_ack_complete : forall f guess names I,
  is_qf f = true -> okt f = true -> (exists ty, tc f = Some ty) -> incl (symnames f) names -> wf_interp I ->
  holds I f ->
  let r := ackermannize f (init_astate guess names) in
  exists I', agrees_off (ack_constants (snd r)) I I' /\ holds I' (fst r) /\
             (forall n, In n (ack_constants (snd r)) -> ~ In n names).
Proof. exact ack_complete_wf. Qed.
Print Assumptions C11_ack_complete.

(* soundness: from a well-sorted J satisfying the result, an interpretation that differs from J
   only on function symbols (the eliminated functions are read off the constants, which is well
   defined because the consistency implications hold) satisfies the input; nested applications
   included, no typing condition on f *)
Theorem C11_ack_sound : forall f guess names J, is_qf f = true -> wf_interp J ->
  holds J (fst (ackermannize f (init_astate guess names))) ->
  exists I, isym I = isym J /\ rdiv0 I = rdiv0 J /\ idiv0 I = idiv0 J /\ holds I f.
Proof. exact ack_sound_wf. Qed.
Print Assumptions C11_ack_sound.

(* ---- the CNF theorems with the simplifier hypothesis discharged by C01 ----
   [frag_simplify ora] is the simplifier model (models/Simplifier.v, any order oracle) on
   well-typed, division-free Bool terms of C01's fragment ([frag_atom]) and the identity
   elsewhere; interpretations are the well-sorted ones ([wfi] <-> Sem.wf_interp).  No hypothesis
   about the simplifier is left in these four statements; [shape_hyp] is not discharged. *)
From PySMT.models Require Import Simplifier.
From PySMT.proofs Require Import CnfSimp_proofs.
Theorem C11_cnf_complete_simplifier : forall ora f st cl st' I, start_ok f st ->
  cnf_convert (frag_simplify ora) f st = Some (cl, st') -> wfi I -> holds I f ->
  exists I', agrees_off (introduced st') I I' /\ sat I' cl = true /\ holds I' (as_formula cl) /\
             (forall n, In n (introduced st') -> ~ In n (mnames (mgr st))).
Proof. exact cnf_complete_simplifier. Qed.
Print Assumptions C11_cnf_complete_simplifier.
Theorem C11_cnf_sound_simplifier : forall ora f st cl st' J, start_ok f st ->
  cnf_convert (frag_simplify ora) f st = Some (cl, st') -> wfi J -> sat J cl = true -> holds J f.
Proof. exact cnf_sound_simplifier. Qed.
Print Assumptions C11_cnf_sound_simplifier.
Theorem C11_pol_complete_simplifier : forall ora f st cl st' I, start_ok f st ->
  pol_convert (frag_simplify ora) f st = Some (cl, st') -> wfi I -> holds I f ->
  exists I', agrees_off (introduced st') I I' /\ sat I' cl = true /\ holds I' (as_formula cl) /\
             (forall n, In n (introduced st') -> ~ In n (mnames (mgr st))).
Proof. exact pol_complete_simplifier. Qed.
Print Assumptions C11_pol_complete_simplifier.
Theorem C11_pol_sound_simplifier : forall ora f st cl st' J, start_ok f st ->
  pol_convert (frag_simplify ora) f st = Some (cl, st') -> wfi J -> sat J cl = true -> holds J f.
Proof. exact pol_sound_simplifier. Qed.
Print Assumptions C11_pol_sound_simplifier.
Theorem C11_frag_simplify_is_the_simplifier : forall ora t, frag_atom t = true ->
  frag_simplify ora t = simplify_with ora t.
Proof. exact frag_simplify_is_simplify. Qed.
Print Assumptions C11_frag_simplify_is_the_simplifier.

(* ---- shape with NO simplifier hypothesis ----
   [atoms_ok f]: the atoms of f are symbols, constants, function applications, arithmetic /
   bit-vector relations, equalities or string predicates.  The condition cannot be dropped:
   [shape_hyp] is false of the simplifier and the faithful model returns a non-literal for a
   Bool-sorted Select on a constant array value (replayed on pysmt: open finding
   cnf-shape:bool-select-of-array-value). *)
Theorem C11_cnf_shape_simplifier : forall ora f st cl st', atoms_ok f = true ->
  cnf_convert (frag_simplify ora) f st = Some (cl, st') -> clauses_of_literals cl.
Proof. exact cnf_shape_simplifier. Qed.
Print Assumptions C11_cnf_shape_simplifier.
Theorem C11_pol_shape_simplifier : forall ora f st cl st', atoms_ok f = true ->
  pol_convert (frag_simplify ora) f st = Some (cl, st') -> clauses_of_literals cl.
Proof. exact pol_shape_simplifier. Qed.
Print Assumptions C11_pol_shape_simplifier.
Theorem C11_shape_hyp_refuted : ~ shape_hyp (frag_simplify no_oracle).
Proof. exact shape_hyp_refuted. Qed.
Print Assumptions C11_shape_hyp_refuted.
Theorem C11_cnf_shape_refuted :
  exists f st cl st', start_ok f st /\ cnf_convert (frag_simplify no_oracle) f st = Some (cl, st') /\
                      ~ clauses_of_literals cl.
Proof. exact cnf_shape_refuted. Qed.
Print Assumptions C11_cnf_shape_refuted.

(* ---- reused objects: the n-th call of any history ----
   CNF: [cnf_hist asimp st] = st is reached from a new object by successful conversions (either
   converter's walk on the shared table, manager possibly growing in between); then the
   single-call theorems hold for the next call ([reuse_ok]: the manager knows f's symbols and f
   mentions no variable introduced earlier). *)
Theorem C11_cnf_hist_reuse_ok : forall asimp Pi, simp_sound_on Pi asimp -> pi_closed Pi -> forall st f,
  cnf_hist asimp st -> (forall n ty, In (n, ty) (Oracles.fv f) -> In n (mnames (mgr st))) ->
  (forall n, In n (introduced st) -> ~ In (n, TBool) (Oracles.fv f)) -> reuse_ok f st.
Proof. exact cnf_hist_reuse_ok. Qed.
Print Assumptions C11_cnf_hist_reuse_ok.
Theorem C11_cnf_complete_reuse : forall asimp Pi, simp_sound_on Pi asimp -> pi_closed Pi -> forall f st cl st' I,
  reuse_ok f st -> cnf_convert asimp f st = Some (cl, st') -> Pi I -> holds I f ->
  exists I', agrees_off (introduced st') I I' /\ sat I' cl = true /\ holds I' (as_formula cl) /\
             (forall n, In n (introduced st') -> In n (introduced st) \/ ~ In n (mnames (mgr st))).
Proof. exact cnf_complete_reuse. Qed.
Print Assumptions C11_cnf_complete_reuse.
Theorem C11_cnf_sound_reuse : forall asimp Pi, simp_sound_on Pi asimp -> pi_closed Pi -> forall f st cl st' J,
  reuse_ok f st -> cnf_convert asimp f st = Some (cl, st') -> Pi J -> sat J cl = true -> holds J f.
Proof. exact cnf_sound_reuse. Qed.
Print Assumptions C11_cnf_sound_reuse.
Theorem C11_pol_complete_reuse : forall asimp Pi, simp_sound_on Pi asimp -> pi_closed Pi -> forall f st cl st' I,
  reuse_ok f st -> pol_convert asimp f st = Some (cl, st') -> Pi I -> holds I f ->
  exists I', agrees_off (introduced st') I I' /\ sat I' cl = true /\ holds I' (as_formula cl) /\
             (forall n, In n (introduced st') -> In n (introduced st) \/ ~ In n (mnames (mgr st))).
Proof. exact pol_complete_reuse. Qed.
Print Assumptions C11_pol_complete_reuse.
Theorem C11_pol_sound_reuse : forall asimp Pi, simp_sound_on Pi asimp -> pi_closed Pi -> forall f st cl st' J,
  reuse_ok f st -> pol_convert asimp f st = Some (cl, st') -> Pi J -> sat J cl = true -> holds J f.
Proof. exact pol_sound_reuse. Qed.
Print Assumptions C11_pol_sound_reuse.

(* Ackermannization: [ack_hist Q names0 st] = st is reached from a new object by calls on
   formulas satisfying Q (manager possibly growing in between) *)
Theorem C11_ack_sound_history : forall names0 st f J,
  ack_hist (fun t => is_qf t = true) names0 st -> is_qf f = true -> wf_interp J ->
  holds J (fst (ackermannize f st)) ->
  exists I, isym I = isym J /\ rdiv0 I = rdiv0 J /\ idiv0 I = idiv0 J /\ holds I f.
Proof. exact ack_sound_history. Qed.
Print Assumptions C11_ack_sound_history.
Theorem C11_ack_complete_history : forall names0 st f I,
  ack_hist (Qc names0) names0 st ->
  is_qf f = true -> okt f = true -> (exists ty, tc f = Some ty) -> incl (symnames f) names0 -> wf_interp I ->
  holds I f ->
  let r := ackermannize f st in
  exists I', agrees_off (ack_constants (snd r)) I I' /\ holds I' (fst r) /\
             (forall n, In n (ack_constants (snd r)) -> ~ In n names0).
Proof. exact ack_complete_history. Qed.
Print Assumptions C11_ack_complete_history.
