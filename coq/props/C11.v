(* C11 - placeholder while the proofs are being written *)
From PySMT.models Require Import Cnf.
