(* C06 - Derived constructors and infix operators denote what their names say.
   Statements only.  The constructors are the hand models of models/Derived.v (tied to
   pysmt/formula.py, pysmt/shortcuts.py, pysmt/fnode.py by the exact structural correspondence
   of harness/c06.py); core/Sem.v is the meaning.  Every statement is for ALL arities / values /
   widths; sort conditions on operand values are explicit hypotheses.
   [not1 t]: a Not node has one argument; [bv_width a = w]: the width FNode.bv_width() reports. *)
From Coq Require Import List ZArith Bool String Reals.
From PySMT.core Require Import Syntax Sem PyPrims.
From PySMT.models Require Import TypeChecker Ctors Derived.
From PySMT.proofs Require Import Derived_proofs.
Import ListNotations.
Open Scope Z_scope.

(* ---- >=, >, != , xor, equals-or-iff *)
Theorem C06_ge : forall I a b, eval I (mk_ge a b) = eval I (T OLe [b; a]).
Proof. exact ge_sem. Qed.
Theorem C06_ge_int : forall I a b x y, eval I a = VInt x -> eval I b = VInt y -> eval I (mk_ge a b) = VBool (y <=? x).
Proof. exact ge_sem_int. Qed.
Theorem C06_gt_int : forall I a b x y, eval I a = VInt x -> eval I b = VInt y -> eval I (mk_gt a b) = VBool (y <? x).
Proof. exact gt_sem_int. Qed.
Theorem C06_ge_real : forall I a b x y, eval I a = VReal x -> eval I b = VReal y ->
  exists r, eval I (mk_ge a b) = VBool r /\ (r = true <-> (x >= y)%R).
Proof. exact ge_sem_real. Qed.
Theorem C06_gt_real : forall I a b x y, eval I a = VReal x -> eval I b = VReal y ->
  exists r, eval I (mk_gt a b) = VBool r /\ (r = true <-> (x > y)%R).
Proof. exact gt_sem_real. Qed.
Theorem C06_neq : forall I a b, eval I (mk_neq a b) = VBool true <-> eval I a <> eval I b.
Proof. exact neq_sem_prop. Qed.
Theorem C06_xor : forall I a b x y, eval I a = VBool x -> eval I b = VBool y -> eval I (mk_xor a b) = VBool (xorb x y).
Proof. exact xor_sem. Qed.
Theorem C06_equals_or_iff : forall I a b, (tc a = Some TBool -> is_vbool (eval I a) /\ is_vbool (eval I b)) ->
  eval I (mk_equals_or_iff a b) = VBool (veqb (eval I a) (eval I b)).
Proof. exact equals_or_iff_sem. Qed.

(* ---- cardinality constraints, all arities *)
Theorem C06_at_most_one : forall I l bs, Forall not1 l -> map (eval I) l = map VBool bs ->
  eval I (mk_at_most_one l) = VBool (count_true bs <=? 1)%nat.
Proof. exact at_most_one_sem_values. Qed.
Theorem C06_exactly_one : forall I l bs, Forall not1 l -> map (eval I) l = map VBool bs ->
  eval I (mk_exactly_one l) = VBool (count_true bs =? 1)%nat.
Proof. exact exactly_one_sem_values. Qed.
Theorem C06_all_different : forall I l, Forall (eqiff_ok I) l -> one_kind l ->
  eval I (mk_all_different l) = VBool true <-> NoDup (map (eval I) l).
Proof. exact all_different_sem_prop. Qed.

(* ---- min / max by halving, all arities >= 1: a least / greatest element of the argument values *)
Theorem C06_min_int : forall I l zs, l <> [] -> map (eval I) l = map VInt zs ->
  exists t m, mk_min l = Some t /\ eval I t = VInt m /\ In m zs /\ forall z, In z zs -> m <= z.
Proof. exact min_sem_int. Qed.
Theorem C06_max_int : forall I l zs, l <> [] -> map (eval I) l = map VInt zs ->
  exists t m, mk_max l = Some t /\ eval I t = VInt m /\ In m zs /\ forall z, In z zs -> z <= m.
Proof. exact max_sem_int. Qed.
Theorem C06_min_int_fold : forall I l z0 zs, map (eval I) l = map VInt (z0 :: zs) ->
  exists t, mk_min l = Some t /\ eval I t = VInt (fold_right Z.min z0 zs).
Proof. exact min_sem_int_fold. Qed.
Theorem C06_min_real : forall I l rs, l <> [] -> map (eval I) l = map VReal rs ->
  exists t m, mk_min l = Some t /\ eval I t = VReal m /\ In m rs /\ forall z, In z rs -> (m <= z)%R.
Proof. exact min_sem_real. Qed.
Theorem C06_max_real : forall I l rs, l <> [] -> map (eval I) l = map VReal rs ->
  exists t m, mk_max l = Some t /\ eval I t = VReal m /\ In m rs /\ forall z, In z rs -> (z <= m)%R.
Proof. exact max_sem_real. Qed.
Theorem C06_minbv : forall I sign w l xs, l <> [] -> map (eval I) l = map (VBV w) xs ->
  exists t m, mk_minbv sign l = Some t /\ eval I t = VBV w m /\ In m xs /\
              forall z, In z xs -> bvkey sign w m <= bvkey sign w z.
Proof. exact minbv_sem. Qed.
Theorem C06_maxbv : forall I sign w l xs, l <> [] -> map (eval I) l = map (VBV w) xs ->
  exists t m, mk_maxbv sign l = Some t /\ eval I t = VBV w m /\ In m xs /\
              forall z, In z xs -> bvkey sign w z <= bvkey sign w m.
Proof. exact maxbv_sem. Qed.

(* ---- absolute value *)
Theorem C06_abs_int : forall I f x, tc f = Some TInt -> eval I f = VInt x ->
  exists t, mk_abs f = Some t /\ eval I t = VInt (Z.abs x).
Proof. exact abs_sem_int. Qed.
Theorem C06_abs_real : forall I f x, tc f = Some TReal -> eval I f = VReal x ->
  exists t, mk_abs f = Some t /\ eval I t = VReal (Rabs x).
Proof. exact abs_sem_real. Qed.

(* ---- signed constants: exactly the representable range, two's complement *)
Theorem C06_sbv : forall z w, 1 <= w -> - 2 ^ (w - 1) <= z < 2 ^ (w - 1) ->
  exists v, mk_sbv z w = Some (TBVC v w) /\ 0 <= v < 2 ^ w /\ to_signed w v = z.
Proof. exact sbv_sem. Qed.
Theorem C06_sbv_range : forall z w t, mk_sbv z w = Some t -> 1 <= w /\ - 2 ^ (w - 1) <= z < 2 ^ (w - 1).
Proof. exact sbv_range. Qed.

(* ---- bvsmod = SMT-LIB's: floored remainder (sign of the divisor), s when the divisor is 0; all widths *)
Theorem C06_bvsmod : forall I s t w x y, 1 <= w -> bv_width s = w -> bv_width t = w ->
  eval I s = VBV w x -> eval I t = VBV w y -> 0 <= x < 2 ^ w -> 0 <= y < 2 ^ w ->
  exists r, mk_bvsmod s t = Some r /\
            eval I r = VBV w (if y =? 0 then x else (to_signed w x mod to_signed w y) mod 2 ^ w).
Proof. exact bvsmod_sem. Qed.
Theorem C06_bvsmod_signed : forall w x y, 1 <= w -> 0 <= x < 2 ^ w -> 0 <= y < 2 ^ w -> y <> 0 ->
  to_signed w (smod_spec w x y) = to_signed w x mod to_signed w y.
Proof. exact smod_spec_signed. Qed.

(* ---- nand / nor / xnor, bit by bit *)
Theorem C06_bvnand : forall I a b w x y, eval I a = VBV w x -> eval I b = VBV w y ->
  exists v, eval I (mk_bvnand a b) = VBV w v /\ forall i, 0 <= i < w -> Z.testbit v i = negb (Z.testbit x i && Z.testbit y i).
Proof. exact bvnand_bits. Qed.
Theorem C06_bvnor : forall I a b w x y, eval I a = VBV w x -> eval I b = VBV w y ->
  exists v, eval I (mk_bvnor a b) = VBV w v /\ forall i, 0 <= i < w -> Z.testbit v i = negb (Z.testbit x i || Z.testbit y i).
Proof. exact bvnor_bits. Qed.
Theorem C06_bvxnor : forall I a b w x y, eval I a = VBV w x -> eval I b = VBV w y ->
  exists v, eval I (mk_bvxnor a b) = VBV w v /\ forall i, 0 <= i < w -> Z.testbit v i = Bool.eqb (Z.testbit x i) (Z.testbit y i).
Proof. exact bvxnor_bits. Qed.

(* ---- unsigned / signed > and >= *)
Theorem C06_bvugt : forall I a b w x y, eval I a = VBV w x -> eval I b = VBV w y -> eval I (mk_bvugt a b) = VBool (y <? x).
Proof. exact bvugt_sem. Qed.
Theorem C06_bvuge : forall I a b w x y, eval I a = VBV w x -> eval I b = VBV w y -> eval I (mk_bvuge a b) = VBool (y <=? x).
Proof. exact bvuge_sem. Qed.
Theorem C06_bvsgt : forall I a b w x y, eval I a = VBV w x -> eval I b = VBV w y ->
  eval I (mk_bvsgt a b) = VBool (to_signed w y <? to_signed w x).
Proof. exact bvsgt_sem. Qed.
Theorem C06_bvsge : forall I a b w x y, eval I a = VBV w x -> eval I b = VBV w y ->
  eval I (mk_bvsge a b) = VBool (to_signed w y <=? to_signed w x).
Proof. exact bvsge_sem. Qed.

(* ---- repeat: accepted iff count >= 1 and the operand is a bit-vector; then count copies (width count * w) *)
Theorem C06_repeat_domain : forall f count,
  (exists t, mk_bvrepeat f count = Some t) <-> (1 <= count /\ exists w, tc f = Some (TBV w)).
Proof. exact repeat_accept. Qed.
Theorem C06_repeat : forall I f count w x, tc f = Some (TBV w) -> eval I f = VBV w x ->
  ((exists t, mk_bvrepeat f count = Some t) <-> 1 <= count) /\
  (forall t, mk_bvrepeat f count = Some t ->
     eval I t = VBV (count * w) (rep_val w x (Z.to_nat (count - 1)))).
Proof. exact repeat_sem. Qed.
Theorem C06_repeat_bits : forall w x, 0 < w -> 0 <= x < 2 ^ w -> forall n i, 0 <= i < Z.of_nat (S n) * w ->
  Z.testbit (rep_val w x n) i = Z.testbit x (i mod w).
Proof. exact rep_val_bits. Qed.

(* ---- n-ary bit-vector operators, all arities >= 1 (concat: >= 2) *)
Theorem C06_bvand_n : forall I w l x xs, map (eval I) l = map (VBV w) (x :: xs) ->
  exists t, mk_bvand_n l = Some t /\ eval I t = VBV w (fold_left Z.land xs x).
Proof. exact bvand_n_sem. Qed.
Theorem C06_bvor_n : forall I w l x xs, map (eval I) l = map (VBV w) (x :: xs) ->
  exists t, mk_bvor_n l = Some t /\ eval I t = VBV w (fold_left Z.lor xs x).
Proof. exact bvor_n_sem. Qed.
Theorem C06_bvadd_n : forall I w l x xs, 0 <= x < 2 ^ w -> map (eval I) l = map (VBV w) (x :: xs) ->
  exists t, mk_bvadd_n l = Some t /\ eval I t = VBV w ((fold_left Z.add xs x) mod 2 ^ w).
Proof. exact bvadd_n_sem. Qed.
Theorem C06_bvmul_n : forall I w l x xs, 0 <= x < 2 ^ w -> map (eval I) l = map (VBV w) (x :: xs) ->
  exists t, mk_bvmul_n l = Some t /\ eval I t = VBV w ((fold_left Z.mul xs x) mod 2 ^ w).
Proof. exact bvmul_n_sem. Qed.
Theorem C06_bvconcat_n : forall I l p q ps, map (eval I) l = map vbv (p :: q :: ps) ->
  exists t, mk_bvconcat_n l = Some t /\ eval I t = vbv (fold_left cat (q :: ps) p).
Proof. exact bvconcat_n_sem. Qed.

(* ---- shifts by a Python integer n: accepted iff 0 <= n < 2^w, and then the shift by that amount *)
Theorem C06_shift_int_domain : forall I k a n w x, bv_width a = w -> eval I a = VBV w x ->
  (exists t, mk_bvshift_int k a n = Some t) <-> 0 <= n < 2 ^ w.
Proof. exact bvshift_int_sem. Qed.
Theorem C06_shl_int : forall I a n w x t, bv_width a = w -> eval I a = VBV w x -> mk_bvshl_int a n = Some t ->
  eval I t = VBV w (if w <=? n then 0 else (x * 2 ^ n) mod 2 ^ w).
Proof. exact bvshl_int_sem. Qed.
Theorem C06_lshr_int : forall I a n w x t, bv_width a = w -> eval I a = VBV w x -> mk_bvlshr_int a n = Some t ->
  eval I t = VBV w (if w <=? n then 0 else x / 2 ^ n).
Proof. exact bvlshr_int_sem. Qed.
Theorem C06_ashr_int : forall I a n w x t, bv_width a = w -> eval I a = VBV w x -> mk_bvashr_int a n = Some t ->
  eval I t = VBV w ((to_signed w x / 2 ^ Z.min n w) mod 2 ^ w).
Proof. exact bvashr_int_sem. Qed.

(* ---- infix notation: every Python operator, dispatch on the sort of the left operand, literal promotion *)
Theorem C06_infix : forall I self p r t ts vr v,
  tc self = Some ts -> val_sort (eval I self) ts ->
  (forall x, r = OpT x -> realc_ok x) -> (forall n d, r = OpFrac n d -> d <> 0) ->
  infix self (IPy p) r = Some t -> operand_value I ts r = Some vr ->
  pyop_sem p (eval I self) vr = Some v -> eval I t = v.
Proof. exact infix_py_sem. Qed.
Theorem C06_infix_method : forall self c r t ts, tc self = Some ts -> infix self (IMeth c) r = Some t ->
  exists r', prepare_arg r ts = Some r' /\ apply_ctor2 c self r' = Some t.
Proof. exact infix_meth_dispatch. Qed.
Theorem C06_infix_literal : forall I r t r', prepare_arg r t = Some r' -> (forall n d, r = OpFrac n d -> d <> 0) ->
  operand_value I t r = Some (eval I r').
Proof. exact prepare_arg_sem. Qed.
Theorem C06_infix_neg : forall I self ts t, tc self = Some ts -> val_sort (eval I self) ts -> infix_neg self = Some t ->
  match eval I self with
  | VInt x => eval I t = VInt (- x)
  | VReal x => eval I t = VReal (- x)
  | VBV w x => eval I t = VBV w ((- x) mod 2 ^ w)
  | _ => False
  end.
Proof. exact infix_neg_sem. Qed.
Theorem C06_infix_invert : forall I self ts t, tc self = Some ts -> val_sort (eval I self) ts -> not1 self ->
  infix_invert self = Some t ->
  match eval I self with
  | VBool b => vbool (eval I t) = negb b /\ (is_not self = false -> eval I t = VBool (negb b))
  | VBV w x => eval I t = VBV w (2 ^ w - 1 - x)
  | _ => True
  end.
Proof. exact infix_invert_sem. Qed.
Theorem C06_infix_rsub : forall I self ts left t vl,
  tc self = Some ts -> val_sort (eval I self) ts -> (ts = TInt \/ ts = TReal) ->
  (forall n d, left = OpFrac n d -> d <> 0) ->
  infix self IRsub left = Some t -> operand_value I ts left = Some vl ->
  match eval I self, vl with
  | VInt x, VInt y => eval I t = VInt (y - x)
  | VReal x, VReal y => eval I t = VReal (y - x)
  | _, _ => True
  end.
Proof. exact infix_rsub_sem. Qed.
Theorem C06_infix_rsub_bv : forall I self w x left t y,
  tc self = Some (TBV w) -> bv_width self = w -> eval I self = VBV w x ->
  (forall l', left = OpT l' -> tc l' = Some (TBV w)) ->
  infix self IRsub left = Some t -> operand_value I (TBV w) left = Some (VBV w y) ->
  eval I t = VBV w ((y - x) mod 2 ^ w).
Proof. exact infix_rsub_bv_sem. Qed.
Theorem C06_infix_getitem : forall I self w x idx t, tc self = Some (TBV w) -> bv_width self = w -> eval I self = VBV w x ->
  infix_getitem self idx = Some t ->
  let s := match idx with IdxPoint i => i | IdxSlice (Some a) _ => a | IdxSlice None _ => 0 end in
  let e := match idx with IdxPoint i => i | IdxSlice _ (Some b) => b | IdxSlice _ None => w - 1 end in
  0 <= s <= e /\ e - s + 1 <= w /\ eval I t = VBV (e - s + 1) ((x / 2 ^ s) mod 2 ^ (e - s + 1)).
Proof. exact infix_getitem_sem. Qed.

Theorem C06_infix_call : forall I n ps r args t, args <> [] -> infix_call (TSym n (TFun ps r)) args = Some t ->
  (forall n d, In (OpFrac n d) args -> d <> 0) ->
  exists ts, t = T (OFunction n (TFun ps r)) ts /\ eval I t = ifun I n (TFun ps r) (map (eval I) ts) /\
             map (fun ap => operand_value I (snd ap) (fst ap)) (combine args ps) = map (fun t => Some (eval I t)) ts.
Proof. exact infix_call_sem. Qed.

Print Assumptions C06_exactly_one.
Print Assumptions C06_all_different.
Print Assumptions C06_min_int.
Print Assumptions C06_min_real.
Print Assumptions C06_minbv.
Print Assumptions C06_abs_real.
Print Assumptions C06_sbv.
Print Assumptions C06_bvsmod.
Print Assumptions C06_bvnand.
Print Assumptions C06_repeat_domain.
Print Assumptions C06_repeat.
Print Assumptions C06_bvadd_n.
Print Assumptions C06_bvconcat_n.
Print Assumptions C06_shl_int.
Print Assumptions C06_infix.
Print Assumptions C06_infix_rsub.
Print Assumptions C06_infix_getitem.
Print Assumptions C06_infix_call.
