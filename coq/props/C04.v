(* C04 - hash-consing: one object per structure, faithful accessors, faithful copies.
   Statements over core/Manager.v (model of pysmt.formula.FormulaManager); proofs in
   proofs/Manager_proofs.v.  [reachable s]: s is an environment of a world reached from fresh
   environments by ANY list of requests (any interleaving, any address order).
   The one clause the faithful model still falsifies (order of array-value assignments in a copy)
   is stated as a [_refuted] witness, replayed on the implementation by harness/c04.py; the
   clauses repaired by commits 3ff3f2b / 7843d1b are now positive theorems. *)
From Coq Require Import List ZArith Bool String.
From PySMT.core Require Import Syntax PyPrims Manager.
From PySMT.models Require Import TypeChecker.
From PySMT.proofs Require Import Manager_proofs Manager_nf_proofs.
Import ListNotations.

(* no two ids with the same content; ids are dense 1..n *)
Theorem C04_hc_no_dup : forall s, reachable s ->
  NoDup (table s) /\ next_id s = S (List.length (table s)) /\
  (forall i, node s i <> None <-> 1 <= i <= List.length (table s)).
Proof. exact hc_no_dup. Qed.
Print Assumptions C04_hc_no_dup.

(* one object per structure: two nodes have the same tree exactly when they are the same node *)
Theorem C04_hc_same : forall s i j, reachable s -> valid (table s) i -> valid (table s) j ->
  (unfold s i = unfold s j <-> i = j).
Proof. exact hc_same. Qed.
Print Assumptions C04_hc_same.

Theorem C04_unfold_node : forall s i o args, reachable s -> node s i = Some (o, args) ->
  unfold s i = T o (map (unfold s) args).
Proof. exact unfold_node. Qed.
Print Assumptions C04_unfold_node.

(* accessors read back what create_node was given, now and after any further request *)
Theorem C04_accessors_faithful : forall s c s' i, reachable s -> create_node c s = (s', Ok i) ->
  node s' i = Some c /\ node_op s' i = Some (fst c) /\ node_args s' i = Some (snd c) /\
  forall addr srcs r s'' rp, step addr srcs s' r = (s'', rp) -> node s'' i = Some c.
Proof. exact accessors_faithful. Qed.
Print Assumptions C04_accessors_faithful.

(* route independence: in any reachable state a content that exists is returned as it is (no new
   node, state unchanged), and no request changes the tree of an existing node *)
Theorem C04_ctor_route_indep_existing : forall s c i, reachable s -> node s i = Some c ->
  create_node c s = (s, tcheck (table s) i).
Proof. exact create_existing. Qed.
Print Assumptions C04_ctor_route_indep_existing.
Theorem C04_ctor_route_indep_stable : forall addr srcs s r s' rp i, reachable s ->
  step addr srcs s r = (s', rp) -> valid (table s) i -> unfold s' i = unfold s i /\ valid (table s') i.
Proof. exact unfold_stable. Qed.
Print Assumptions C04_ctor_route_indep_stable.
(* ... and the outcome of Int(v) / Real(v) - the exception, or the tree of the node returned - is a
   function of the spelling v alone, whatever was built before (type test before the cache) *)
Theorem C04_int_route_indep : forall s v, reachable s ->
  match int_spec v with
  | Ok t => exists s' i, int v s = (s', Ok i) /\ valid (table s') i /\ unfold s' i = t
  | Err e => int v s = (s, Err e)
  end.
Proof. exact int_route_indep. Qed.
Print Assumptions C04_int_route_indep.
Theorem C04_real_route_indep : forall s v, reachable s ->
  match real_spec v with
  | Ok t => exists s' i, real v s = (s', Ok i) /\ valid (table s') i /\ unfold s' i = t
  | Err e => real v s = (s, Err e)
  end.
Proof. exact real_route_indep. Qed.
Print Assumptions C04_real_route_indep.

(* constant spellings: same object iff same value (and width) *)
Theorem C04_const_spelling_int : forall s z1 z2 s1 s2 i1 i2, reachable s ->
  int (PyInt z1) s = (s1, Ok i1) -> int (PyInt z2) s1 = (s2, Ok i2) -> (i1 = i2 <-> z1 = z2).
Proof. exact int_spelling. Qed.
Print Assumptions C04_const_spelling_int.
Theorem C04_const_spelling_string : forall s z1 z2 s1 s2 i1 i2, reachable s ->
  str (PyStr z1) s = (s1, Ok i1) -> str (PyStr z2) s1 = (s2, Ok i2) -> (i1 = i2 <-> z1 = z2).
Proof. exact string_spelling. Qed.
Print Assumptions C04_const_spelling_string.
Theorem C04_const_spelling_real : forall s v1 v2 s1 s2 i1 i2, reachable s ->
  real v1 s = (s1, Ok i1) -> real v2 s1 = (s2, Ok i2) -> (i1 = i2 <-> real_val v1 = real_val v2).
Proof. exact real_spelling. Qed.
Print Assumptions C04_const_spelling_real.
Theorem C04_const_spelling_bv : forall s v1 w1 v2 w2 s1 s2 i1 i2, reachable s ->
  bv v1 w1 s = (s1, Ok i1) -> bv v2 w2 s1 = (s2, Ok i2) -> (i1 = i2 <-> bv_den v1 w1 = bv_den v2 w2).
Proof. exact bv_spelling. Qed.
Print Assumptions C04_const_spelling_bv.

(* Array(idx, d, m) depends only on m minus its default-valued entries *)
Theorem C04_array_canonical : forall (addr : id -> Z) d (m1 m2 : list (id * id)),
  NoDup (map (fun kv => addr (fst kv)) m1) -> NoDup (map (fun kv => addr (fst kv)) m2) ->
  (forall kv, (In kv m1 /\ snd kv <> d) <-> (In kv m2 /\ snd kv <> d)) ->
  d :: flatten_pairs (filter (fun kv => negb (Nat.eqb (snd kv) d)) (sort_by addr m1)) =
  d :: flatten_pairs (filter (fun kv => negb (Nat.eqb (snd kv) d)) (sort_by addr m2)).
Proof. exact array_canonical. Qed.
Print Assumptions C04_array_canonical.

(* cross-environment copy.  Sorts are copied as they are (TypeManager.normalize after 3ff3f2b) *)
Theorem C04_tnorm_total : forall t, tnorm t = Some t.
Proof. exact tnorm_total. Qed.
Print Assumptions C04_tnorm_total.
(* a symbol of any sort - nested parametric sorts included - is copied unless its name is taken *)
Theorem C04_normalize_symbol_total : forall addr src s2 i n t, reachable s2 ->
  node_tb src i = Some (OSymbol n t, []) -> n <> ""%string -> sym_get n (symbols s2) = None ->
  exists s2' j, normalize addr src i s2 = (s2', Ok j) /\ unfold s2' j = TSym n t /\ valid (table s2') j.
Proof. exact normalize_symbol_total. Qed.
Print Assumptions C04_normalize_symbol_total.
(* the copy: same tree, every node reached from it is in the target table, the target's own
   nodes are untouched.  [copyable]: no array value inside, every node a fixed point of its
   constructor's normalisation (what the public constructors build; checked on every node of
   every history by the correspondence) *)
Theorem C04_normalize_copy : forall addr s1 s2 i s2' j, reachable s1 -> reachable s2 ->
  normalize addr (table s1) i s2 = (s2', Ok j) -> copyable (unfold s1 i) ->
  unfold s2' j = unfold s1 i /\
  (forall k, reach (table s2') j k -> valid (table s2') k) /\
  (forall k, valid (table s2) k -> unfold s2' k = unfold s2 k) /\ Inv s2'.
Proof. exact normalize_copy. Qed.
Print Assumptions C04_normalize_copy.
(* [reachable_api s]: s is reached from fresh environments by any history of requests of the public
   constructors (api_req: a CNode request carries one of the operators and the arity that the
   create_node-only constructors have; a raw create_node call is not a constructor).
   The hypothesis [copyable] of C04_normalize_copy is an INVARIANT of such histories: *)
Theorem C04_constructor_nodes_copyable : forall s i, reachable_api s -> valid (table s) i ->
  array_free (unfold s i) = true -> copyable (unfold s i).
Proof. exact constructor_nodes_copyable. Qed.
Print Assumptions C04_constructor_nodes_copyable.
(* ... hence, for every array-value-free formula of a reachable source environment: *)
Theorem C04_normalize_copy_reachable : forall addr s1 s2 i s2' j, reachable_api s1 -> reachable s2 ->
  valid (table s1) i -> array_free (unfold s1 i) = true ->
  normalize addr (table s1) i s2 = (s2', Ok j) ->
  unfold s2' j = unfold s1 i /\
  (forall k, reach (table s2') j k -> valid (table s2') k) /\
  (forall k, valid (table s2) k -> unfold s2' k = unfold s2 k) /\ Inv s2'.
Proof. exact normalize_copy_reachable. Qed.
Print Assumptions C04_normalize_copy_reachable.
(* normalize is idempotent, and the copy taken back into the first environment is the original node *)
Theorem C04_normalize_idempotent : forall addr addr' s1 s2 i s2' j s2'' j', reachable_api s1 -> reachable s2 ->
  valid (table s1) i -> array_free (unfold s1 i) = true ->
  normalize addr (table s1) i s2 = (s2', Ok j) -> normalize addr' (table s1) i s2' = (s2'', Ok j') -> j' = j.
Proof. exact normalize_idempotent. Qed.
Print Assumptions C04_normalize_idempotent.
Theorem C04_normalize_round_trip : forall addr addr' s1 s2 i s2' j s1' k, reachable_api s1 -> reachable s2 ->
  valid (table s1) i -> array_free (unfold s1 i) = true ->
  normalize addr (table s1) i s2 = (s2', Ok j) -> normalize addr' (table s2') j s1 = (s1', Ok k) -> k = i.
Proof. exact normalize_round_trip. Qed.
Print Assumptions C04_normalize_round_trip.
(* with array values the copy is exact only up to the order of the assignments *)
(* [peq t t']: t and t' differ at most in the order of the (index, value) pairs of array values
   (peq_refl | peq_node: children pairwise peq | peq_arr: same default, pairs permuted).
   For every formula of a reachable source environment whose array values are flat (default, indexes
   and values contain no array value), the copy is the same tree up to that order: *)
Theorem C04_normalize_copy_arrays : forall addr s1 s2 i s2' j, reachable_api s1 -> reachable s2 ->
  valid (table s1) i -> flat_arrays (unfold s1 i) = true ->
  normalize addr (table s1) i s2 = (s2', Ok j) ->
  peq (unfold s1 i) (unfold s2' j) /\
  (forall k, reach (table s2') j k -> valid (table s2') k) /\
  (forall k, valid (table s2) k -> unfold s2' k = unfold s2 k) /\ Inv s2'.
Proof. exact normalize_copy_arrays. Qed.
Print Assumptions C04_normalize_copy_arrays.
(* peq preserves what constructors and the type checker look at *)
Theorem C04_peq_tc : forall t t', peq t t' -> tc t = tc t'.
Proof. exact peq_tc. Qed.
Print Assumptions C04_peq_tc.
(* the exact-order clause stays refuted: *)
Theorem C04_normalize_copy_array_order_refuted :
  exists (h : list (nat * request)) (i j : id),
    let '(w, rps) := wrun addr_id (winit 2) h in
    last rps (Err EOth) = Ok j /\
    unfold (nth 1 w init) j <> unfold (nth 0 w init) i /\
    unfold (nth 0 w init) i = T (OArrayValue TInt) [TIntC 7; TIntC 1; TIntC 2; TIntC 2; TIntC 1] /\
    unfold (nth 1 w init) j = T (OArrayValue TInt) [TIntC 7; TIntC 2; TIntC 1; TIntC 1; TIntC 2].
Proof. exact normalize_copy_array_order_refuted. Qed.
Print Assumptions C04_normalize_copy_array_order_refuted.
