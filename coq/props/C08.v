(* C08 - SMT-LIB import never misreads.  Statements only.
   Specification: core/SmtStd.v (SMT-LIB 2.6 at s-expression level: parallel let, binders shadow
   globals, literals, indexed identifiers) and core/Sem.v.  Models: models/SmtLex.v (Tokenizer),
   models/SmtParser.v (SmtLibParser: execution cache, term reader, command readers).

   FULL STATEMENT (parse_agrees):
     forall s cmds, std_script_ok s -> parse_model (text of s) = Ok cmds ->
       forall I, every asserted term / definition body / command argument t of cmds satisfies
       std_eval Sigma I (the sexp it came from) = Some (eval I t);
     and  lex_model cs = std_lex cs  on standard-conforming characters.
   The faithful model FALSIFIES the clauses "scoping of ... defined names" (capture at the
   application of a defined function), "literals in every notation" (quoted symbols) and "text it
   cannot handle is rejected" (undeclared identifiers): the _refuted theorems below give the witness
   scripts (open findings of C08).  The clauses "simultaneous let-bindings" and "a binder shadows a
   defined name" were refuted by the first model and are repaired in parser.py: their former
   witnesses are now positive theorems (C08_let_parallel, C08_binder_shadows_definition).  Proved parts:
   the tokenizer on plain tokens (lex_agrees_partial) and agreement with the standard on every
   text that is a print-out the reader maps back to its term (parse_agrees_printed_partial; the
   round trip itself is C09's theorem); the stack machine of the term reader against a recursive
   reading for atoms, applications, quantifiers, indexed identifiers and let (C08_machine_simple);
   and agreement with the standard, by induction on the s-expression, on Core + parallel let with
   shadowing (C08_parse_agrees_core_partial, C08_elab_agrees_core).  The remaining instances of
   parse_agrees are carried by the correspondence (model = implementation) and the independent
   reader harness/c08_ref.py. *)
From Coq Require Import List ZArith Bool String Ascii.
From PySMT.core Require Import Syntax Sem SmtStd.
From PySMT.models Require Import TypeChecker SmtLex SmtParser SmtPrinter RoundTrip.
From PySMT.proofs Require Import SmtPrinter_proofs SmtParser_proofs Reader_proofs RoundTrip_ind ParseAgrees_proofs.
Import ListNotations.
Open Scope string_scope.

Theorem C08_lex_agrees_partial : forall toks,
  Forall plain_tok toks -> lex (render_sp toks) = (toks, LexEof).
Proof. exact lex_agrees_partial. Qed.
Print Assumptions C08_lex_agrees_partial.

Theorem C08_lex_src_tokens : forall cs, proj_src (lex_src cs) = lex cs.
Proof. exact lex_src_tokens. Qed.

Theorem C08_lex_agrees_hypothesis_satisfiable :
  Forall plain_tok ["("; "assert"; "("; "bvult"; "#b01"; "x"; ")"; ")"].
Proof. exact lex_agrees_example. Qed.

Theorem C08_parse_agrees_printed_partial : forall Sg I s t t',
  wfp Sg [] t -> wf_interp I ->
  SmtParser_proofs.reads_back s (print_tree t) t' -> t' = t ->
  std_eval Sg I (print_tree t) = Some (eval I t').
Proof. exact parse_agrees_printed_partial. Qed.
Print Assumptions C08_parse_agrees_printed_partial.

(* ---- the reader against std_eval DIRECTLY, by induction on the s-expression (any depth).
   C08_machine_simple: the stack machine does what the recursive reading [elab] does, for every
   s-expression built from atoms, applications, quantifiers (any binder list), applications of an
   indexed identifier and let with any number of bindings, whatever the stack, the state and the
   tokens that follow (e: the iterations a let reserves for reading its bound terms).
   C08_parse_agrees_core_partial: on the fragment Core + let [corelb] (plain names - declared Bool
   constants, true, false, let-bound names -, and / or with >= 2 arguments, =>, not over anything
   (Not(Not a) is a), ite and = on Booleans, and let with distinct plain names, shadowing allowed),
   in a state where the free names of the text mean the same thing for the reader (top of the
   cache stack) and for the standard, whenever that reading succeeds the machine returns its
   result, a term of sort Bool that denotes what core/SmtStd.v says the text denotes - for a let,
   the standard's PARALLEL reading (bound terms in the outer environment), although the reader
   binds names one by one and some of them early (parser.py's extension for a name that means
   nothing outside: proved never to be looked up by a later bound term of the fragment) - and the
   cache stacks are what they were.  C08_parse_agrees_let_example: (let ((p q) (q p)) ...) with an
   inner let shadowing p is read with p and q swapped.
   Outside the proved fragment: arithmetic and every operator that goes through fix_real (needs
   the sorted induction: std_eval is untyped and the parser may coerce Int constants), quantifiers
   in the std_eval theorem, define-fun.  Those stay carried by the correspondence and
   harness/c08_ref.py. *)
Theorem C08_machine_simple : forall x, simpleb x = true ->
  forall fuel' stk s i s' rest,
    elab x s = ROk i s' -> toks s = (flatten x ++ rest)%list ->
    exists e, get_expr (cost x + fuel') stk s = after (fuel' + e) stk i s' /\ toks s' = rest.
Proof. exact machine_simple. Qed.
Print Assumptions C08_machine_simple.

Theorem C08_parse_agrees_core_partial : forall Sg (Sc : scope) x,
  corelb x = true ->
  (forall n, In n (fn x) -> name_agrees Sg (fun _ => nil) Sc n) ->
  forall s i s' rest k, st_ok Sc s -> toks s = (flatten x ++ rest)%list -> elab x s = ROk i s' ->
    get_expr (cost x + k) [] s = ROk (Some i) s' /\ toks s' = rest /\ st_ok Sc s' /\
    exists t, i = ITerm t /\ tc t = Some TBool /\
              forall I, wf_interp I -> std_eval Sg I x = Some (eval I t).
Proof. exact parse_agrees_core_partial. Qed.
Print Assumptions C08_parse_agrees_core_partial.

(* the recursive reading against the standard in any environment R (one per interpretation), any
   cache stacks Sc: the statement the induction proves *)
Theorem C08_elab_agrees_core : forall Sg x, corelb x = true ->
  forall R Sc s i s', heads_free R -> (forall n, In n (fn x) -> name_agrees Sg R Sc n) ->
    st_ok Sc s -> elab x s = ROk i s' ->
    st_ok Sc s' /\ exists t, i = ITerm t /\ tc t = Some TBool /\
      forall I, wf_interp I -> seval Sg I (R I) x = Some (eval I t).
Proof.
  intros Sg x Hc R Sc s i s' HF Hn Hs He.
  destruct (elab_agrees_core Sg x Hc R Sc s i s' HF Hn Hs He) as (H1 & t & -> & (Htc & _) & Hsem).
  split; [exact H1|]. exists t. split; [reflexivity|]. split; [exact Htc | exact Hsem].
Qed.

Theorem C08_parse_agrees_core_hypotheses_satisfiable :
  corelb ex_sexp = true /\ forall n, In n (fn ex_sexp) -> name_agrees ex_sig (fun _ => nil) ex_scope n.
Proof. exact ex_core. Qed.

Theorem C08_parse_agrees_let_example :
  corelb ex_let = true /\
  (forall n, In n (fn ex_let) -> name_agrees ex_sig (fun _ => nil) ex_scope n) /\
  (exists s', get_expression (ex_state ex_let) = ROk (Some (ITerm ex_let_term)) s') /\
  forall I, wf_interp I -> std_eval ex_sig I ex_let = Some (eval I ex_let_term).
Proof. exact ex_let_reads. Qed.

(* simultaneous let-bindings: repaired in parser.py; the former counter-example and the whole
   family of two-binding lets over x, y, true, false are read as the standard says *)
Theorem C08_let_parallel :
  (exists t,
    parse_model let_text = Ok [decl "x" TBool; decl "y" TBool; mkC "assert" [ATerm t]] /\
    fst (lex_string "(assert (let ((x y) (y x)) y))") = ("(" :: "assert" :: flatten let_sexp ++ [")"])%list /\
    forall I, std_eval sig_xy I let_sexp = Some (eval I t)) /\
  Forall let_reads let_family /\ List.length let_family = 32%nat.
Proof. exact (conj let_parallel_witness (conj let_parallel_family eq_refl)). Qed.
Print Assumptions C08_let_parallel.

(* scoping of quantified names against defined names: repaired in parser.py (a binding shadows a
   definition of the same name) *)
Theorem C08_binder_shadows_definition :
  exists t,
    parse_model shadow_text =
      Ok [mkC "define-fun" [AStr "x"; AList []; AType TBool; ATerm TFalse]; mkC "assert" [ATerm t]] /\
    forall I, std_eval (sig_of []) I shadow_sexp = Some (VBool true) /\ eval I t = VBool true.
Proof. exact binder_shadows_definition_witness. Qed.
Print Assumptions C08_binder_shadows_definition.

(* defined names: capture of free variables by the body's binders *)
Theorem C08_definefun_capture_refuted :
  exists body t,
    parse_model capture_text =
      Ok [mkC "define-fun" [AStr "f"; AList [ATerm (TSym "__a0" TBool)]; AType TBool; ATerm body];
          decl "y" TBool; mkC "assert" [ATerm t]] /\
    (forall I, eval I t = VBool false) /\
    exists I, std_eval (sig_of [("y", TBool)]) I capture_expanded = Some (VBool true).
Proof. exact definefun_capture_refuted. Qed.
Print Assumptions C08_definefun_capture_refuted.

(* the same capture with no definition at all: a let-bound term under a quantifier over one of its
   symbols (same open finding; here core/SmtStd.v gives the meaning of the text directly) *)
Theorem C08_let_capture_refuted :
  exists t,
    parse_model let_capture_text = Ok [decl "a" TBool; mkC "assert" [ATerm t]] /\
    (forall I, eval I t = VBool false) /\
    exists I, std_eval (sig_of [("a", TBool)]) I let_capture_sexp = Some (VBool true).
Proof. exact let_capture_refuted. Qed.

(* text that cannot be handled is read as something else *)
Theorem C08_undeclared_identifier_refuted :
  parse_model undeclared_text =
    Ok [decl "s" TStr; mkC "assert" [ATerm (T OEquals [TSym "s" TStr; TStrC [116%Z]])]] /\
  forall I, std_eval (sig_of [("s", TStr)]) I undeclared_sexp = None.
Proof. exact undeclared_identifier_refuted. Qed.
Print Assumptions C08_undeclared_identifier_refuted.

(* literals in every notation: a quoted symbol is not a numeral *)
Theorem C08_quoted_numeral_refuted :
  exists t,
    parse_model quoted_text = Ok [decl "5" TInt; mkC "assert" [ATerm t]] /\
    (forall I, eval I t = VBool true) /\
    exists I, std_eval (sig_of [("5", TInt)]) I quoted_sexp = Some (VBool false).
Proof. exact quoted_numeral_refuted. Qed.
Print Assumptions C08_quoted_numeral_refuted.

Theorem C08_quoted_parenthesis : lex_string "(assert |(|)" = lex_string "(assert ()".
Proof. exact lex_quoted_drops_bars. Qed.
