(* C03 - Every formula that exists is well-typed; ill-typed applications are rejected.
   [tc_rule]/[tc] = hand model of SimpleTypeChecker (models/TypeChecker.v, tied to the code by an
   exhaustive correspondence at the create_node level); [wt_rule]/[wt] = the declarative sorting
   rules (core/Types.v); [ctor_shape] = the arity and width payloads the FormulaManager
   constructors establish before the check runs. *)
From Coq Require Import List ZArith Bool String.
Import ListNotations.
From PySMT.core Require Import Syntax Types.
From PySMT.models Require Import TypeChecker.
From PySMT.proofs Require Import TypeChecker_proofs.

(* the checker accepts every application the sorting rules accept, with that type *)
Theorem C03_tc_complete : forall o args t, wt_rule o args t -> tc_rule o args = Some t.
Proof. exact tc_complete. Qed.
(* whatever it accepts from a constructor is well-typed, with the reported type *)
(* ([fo]: arguments are terms, i.e. not function-typed symbols; the checker does not enforce that:
   tc_sound_refuted_function_argument, known finding) *)
Theorem C03_tc_sound_partial : forall o args t, ctor_shape o args -> Forall fo args ->
  tc_rule o args = Some t -> wt_rule o args t.
Proof. exact tc_sound. Qed.
(* an application to arguments of the wrong sort, width or arity is rejected *)
Theorem C03_tc_rejects_partial : forall o args, ctor_shape o args -> Forall fo args ->
  (forall t, ~ wt_rule o args t) -> tc_rule o args = None.
Proof. exact tc_rejects. Qed.
(* the type is determined by the rules *)
Theorem C03_type_unique : forall o args t1 t2, wt_rule o args t1 -> wt_rule o args t2 -> t1 = t2.
Proof. exact wt_rule_functional. Qed.
(* whole formulas, bottom-up, any depth *)
Theorem C03_tc_complete_term : forall t ty, wt t ty -> tc t = Some ty.
Proof. exact tc_complete_term. Qed.
Theorem C03_tc_sound_term : forall t ty, shaped t -> tc t = Some ty -> wt t ty.
Proof. exact tc_sound_term. Qed.
Theorem C03_tc_sound_refuted_function_argument :
  ctor_shape OEquals [TFun [TInt] TInt; TFun [TInt] TInt] /\
  tc_rule OEquals [TFun [TInt] TInt; TFun [TInt] TInt] = Some TBool /\
  ~ wt_rule OEquals [TFun [TInt] TInt; TFun [TInt] TInt] TBool.
Proof. exact tc_sound_refuted_function_argument. Qed.

Print Assumptions C03_tc_complete.
Print Assumptions C03_tc_sound_partial.
Print Assumptions C03_tc_rejects_partial.
Print Assumptions C03_tc_complete_term.
Print Assumptions C03_tc_sound_term.
