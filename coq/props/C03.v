(* C03 - Every formula that exists is well-typed; ill-typed applications are rejected.
   [tc_rule]/[tc] = hand model of SimpleTypeChecker (models/TypeChecker.v, tied to the code by an
   exhaustive correspondence at the create_node level); [wt_rule]/[wt] = the declarative sorting
   rules (core/Types.v); [ctor_shape] = the arity and width payloads the FormulaManager
   constructors establish before the check runs. *)
From Coq Require Import List ZArith Bool String.
Import ListNotations.
From PySMT.core Require Import Syntax Types.
From PySMT.models Require Import TypeChecker.
From PySMT.proofs Require Import TypeChecker_proofs.

(* the checker accepts every application the sorting rules accept, with that type *)
Theorem C03_tc_complete : forall o args t, wt_rule o args t -> tc_rule o args = Some t.
Proof. exact tc_complete. Qed.
(* whatever it accepts from a constructor is well-typed, with the reported type *)
(* ([fo]: arguments are terms, i.e. not function-typed symbols; the checker does not enforce that:
   tc_sound_refuted_function_argument, known finding) *)
Theorem C03_tc_sound_partial : forall o args t, ctor_shape o args -> Forall fo args ->
  tc_rule o args = Some t -> wt_rule o args t.
Proof. exact tc_sound. Qed.
(* an application to arguments of the wrong sort, width or arity is rejected *)
Theorem C03_tc_rejects_partial : forall o args, ctor_shape o args -> Forall fo args ->
  (forall t, ~ wt_rule o args t) -> tc_rule o args = None.
Proof. exact tc_rejects. Qed.
(* the type is determined by the rules *)
Theorem C03_type_unique : forall o args t1 t2, wt_rule o args t1 -> wt_rule o args t2 -> t1 = t2.
Proof. exact wt_rule_functional. Qed.
(* whole formulas, bottom-up, any depth *)
Theorem C03_tc_complete_term : forall t ty, wt t ty -> tc t = Some ty.
Proof. exact tc_complete_term. Qed.
Theorem C03_tc_sound_term : forall t ty, shaped t -> tc t = Some ty -> wt t ty.
Proof. exact tc_sound_term. Qed.
Theorem C03_tc_sound_refuted_function_argument :
  ctor_shape OEquals [TFun [TInt] TInt; TFun [TInt] TInt] /\
  tc_rule OEquals [TFun [TInt] TInt; TFun [TInt] TInt] = Some TBool /\
  ~ wt_rule OEquals [TFun [TInt] TInt; TFun [TInt] TInt] TBool.
Proof. exact tc_sound_refuted_function_argument. Qed.

Print Assumptions C03_tc_complete.
Print Assumptions C03_tc_sound_partial.
Print Assumptions C03_tc_rejects_partial.
Print Assumptions C03_tc_complete_term.
Print Assumptions C03_tc_sound_term.

(* ---- the case analysis of the model is the dispatch of the source (gen/Operators.v and gen/Dispatch.v are
   REGENERATED from pysmt/operators.py and the walker classes on every run; qualified names only) *)
From PySMT.gen Require Operators Dispatch.
From PySMT.proofs Require Operators_proofs Dispatch_tc_proofs.
Theorem C03_operator_table_matches_source :
  (forall n, List.In n Operators.all_node_types) /\
  (forall a b, Operators.nt_id a = Operators.nt_id b -> a = b) /\
  (forall o, Operators.nt_modelled (Operators.nt_of_op o) = true) /\
  (forall n, Operators.nt_modelled n = false <-> n = Operators.NT_ALGEBRAIC_CONSTANT).
Proof.
  exact (conj Operators_proofs.all_node_types_complete (conj Operators_proofs.nt_id_injective
         (conj Operators_proofs.nt_of_op_modelled Operators_proofs.only_algebraic_constant_unmodelled))).
Qed.

(* the model's rule for an operator is the rule of the walk_* method SimpleTypeChecker dispatches it to *)
Theorem C03_dispatch_matches_source : forall o, exists h,
  Dispatch_tc_proofs.tc_handler_of_name (Dispatch.tc_dispatch (Operators.nt_of_op o)) = Some h /\
  forall args, tc_rule o args = Dispatch_tc_proofs.tc_handler_rule h o args.
Proof. exact Dispatch_tc_proofs.tc_dispatch_matches_source. Qed.
Print Assumptions C03_dispatch_matches_source.
