(* C15 - A failing call leaves no trace: later calls behave as if it never happened.
   Statements only.  The model (models/WalkerFail.v over core/DagWalk.v) keeps exactly what
   pysmt keeps on a long-lived walker: `self.stack` and `self.memoization` survive an
   exception, the one-shot table is cleared only on success.

   The full-strength statement ([failure_transparent_stmt]) is FALSE of the faithful model:
   C15_failure_transparent_refuted (persistent walkers: a later, unrelated call dies with
   KeyError) and C15_failure_transparent_refuted_oneshot (substituter: a later call returns a
   stale VALUE).  The provable part carries the exact side condition: the failure, if any,
   happens at the root of the traversal (nothing is left on the stack). *)
From Coq Require Import List Arith.
From PySMT.core Require Import DagWalk.
From PySMT.models Require Import WalkerFail.
From PySMT.proofs Require Import DagWalk_proofs WalkerFail_proofs.
Import ListNotations.

(* full statement, for reference:
   forall walker (A, P, children, f, early, oneshot), clean empty state w, call c, later calls:
     do_call w c = (w', Err e) -> answers w' later = answers w later *)
Theorem C15_failure_transparent_refuted : ~ failure_transparent_stmt.
Proof. exact failure_transparent_refuted. Qed.

Theorem C15_failure_transparent_refuted_oneshot :
  exists later, answers nat nat Witness.ch Witness.h true true 100 Witness.v1 later
                <> answers nat nat Witness.ch Witness.h true true 100 (init nat) later
                /\ (forall a, In a (answers nat nat Witness.ch Witness.h true true 100 Witness.v1 later) ->
                    exists v, a = Ok v).
Proof. exact failure_transparent_refuted_oneshot. Qed.

(* what exactly a failing call leaves (walk_err): memo still correct and grown, the failing
   node x not memoised, and either x is the root and the stack is empty, or (True, root) and
   the rest of the traversal are still on the stack *)
Theorem C15_walk_err : forall (A : Type) (children : nat -> list nat),
  (forall n c, In c (children n) -> c < n) ->
  forall (f : nat -> list A -> option A) early oneshot w root fuel,
  clean A children f w -> enough_fuel children root <= fuel -> F A children f root = None ->
  exists s x, walk A children f early oneshot fuel w root = (s, Err (ECallback x)) /\
    Mok A children f (mm s) /\ sub A (mm w) (mm s) /\
    reach children root x /\ F A children f x = None /\ inm A (mm s) x = false /\
    (forall c, In c (children x) -> inm A (mm s) c = true) /\
    (forall b y, In (b, y) (stk s) -> reach children root y) /\
    ((x = root /\ stk s = []) \/ (x <> root /\ In (true, root) (stk s))).
Proof. exact walk_err. Qed.

(* provable part, persistent walkers: if every call of the history can only fail at its root
   (all proper sub-terms are fine), the answers after a failing call are those without it ... *)
Theorem C15_failure_transparent_partial : forall (A : Type) (children : nat -> list nat),
  (forall n c, In c (children n) -> c < n) ->
  forall (f : nat -> list A -> option A) early fuel w c later,
  clean A children f w -> call_ok A children f fuel c -> Forall (call_ok A children f fuel) later ->
  Forall2 ans_equiv
    (answers A unit children (fun _ => f) early false fuel
             (fst (do_call A unit children (fun _ => f) early false fuel w c)) later)
    (answers A unit children (fun _ => f) early false fuel w later).
Proof. exact failure_transparent_partial. Qed.

(* ... and those of a fresh environment *)
Theorem C15_later_as_fresh : forall (A : Type) (children : nat -> list nat),
  (forall n c, In c (children n) -> c < n) ->
  forall (f : nat -> list A -> option A) early fuel w c later,
  clean A children f w -> call_ok A children f fuel c -> Forall (call_ok A children f fuel) later ->
  Forall2 ans_equiv
    (answers A unit children (fun _ => f) early false fuel
             (fst (do_call A unit children (fun _ => f) early false fuel w c)) later)
    (map (fresh_answer A unit children (fun _ => f) early false fuel) later).
Proof. exact later_as_fresh. Qed.

(* one-shot walkers: stack and table are empty between calls as long as a call can only
   fail at a leaf root *)
Theorem C15_oneshot_pristine : forall (A P : Type) (children : nat -> list nat),
  (forall n c, In c (children n) -> c < n) ->
  forall (f : P -> nat -> list A -> option A) early fuel w c,
  pristine A w -> enough_fuel children (snd c) <= fuel ->
  (F A children (f (fst c)) (snd c) = None -> children (snd c) = []) ->
  pristine A (fst (do_call A P children f early true fuel w c)).
Proof. exact oneshot_pristine. Qed.

Print Assumptions C15_failure_transparent_refuted.
Print Assumptions C15_failure_transparent_refuted_oneshot.
Print Assumptions C15_walk_err.
Print Assumptions C15_failure_transparent_partial.
Print Assumptions C15_later_as_fresh.
Print Assumptions C15_oneshot_pristine.
