(* C15 - A failing call leaves no trace: later calls behave as if it never happened.
   Statements only.  The model (models/WalkerFail.v over core/DagWalk.v) keeps exactly what
   pysmt keeps on a long-lived walker: `self.stack` and `self.memoization` are instance
   attributes; iter_walk empties the stack when the loop raises, walk clears a one-shot table
   in its `finally` (/repo c824285, 4d718bf).  [call_ok] is only "the loop gets enough fuel"
   (Python's loop has no fuel).  Answers are compared by [ans_equiv]: the same value, or both
   raise from a callback; for the one-shot walker they are equal outright. *)
From Coq Require Import List Arith.
From PySMT.core Require Import DagWalk.
From PySMT.models Require Import WalkerFail.
From PySMT.proofs Require Import DagWalk_proofs WalkerFail_proofs.
Import ListNotations.

(* the state a failing walk leaves (walk_err): the callback raised at a reachable node x whose
   fold fails; the stack is empty and the memo correct; a persistent memo has only grown (it
   keeps the children of x, not x), a one-shot memo is empty *)
Theorem C15_walk_err : forall (A : Type) (children : nat -> list nat),
  (forall n c, In c (children n) -> c < n) ->
  forall (f : nat -> list A -> option A) early oneshot w root fuel,
  clean A children f w -> enough_fuel children root <= fuel -> F A children f root = None ->
  exists s x, walk A children f early oneshot fuel w root = (s, Err (ECallback x)) /\
    (stk s = [] /\ Mok A children f (mm s)) /\
    reach children root x /\ F A children f x = None /\ inm A (mm s) x = false /\
    (oneshot = false -> sub A (mm w) (mm s) /\ forall c, In c (children x) -> inm A (mm s) c = true) /\
    (oneshot = true -> mm s = mempty A).
Proof. exact walk_err. Qed.

(* what the loop alone leaves behind (the residue iter_walk has to drop): kept as the reason
   for the `except: del self.stack[:]` *)
Theorem C15_loop_residue : forall (A : Type) (children : nat -> list nat),
  (forall n c, In c (children n) -> c < n) ->
  forall (f : nat -> list A -> option A) w root fuel,
  clean A children f w -> enough_fuel children root <= fuel -> F A children f root = None ->
  exists s x, run A children f fuel (with_stk A w ((false, root) :: stk w)) = Failed (ECallback x) s /\
    Mok A children f (mm s) /\ sub A (mm w) (mm s) /\
    reach children root x /\ F A children f x = None /\ inm A (mm s) x = false /\
    (forall c, In c (children x) -> inm A (mm s) c = true) /\
    (forall b y, In (b, y) (stk s) -> reach children root y) /\
    ((x = root /\ stk s = []) \/ (x <> root /\ In (true, root) (stk s))).
Proof. exact process_stack_err. Qed.

(* failure_transparent, persistent walkers (env.simplifier, env.stc, the oracles): after a
   call that raised at ANY node the stack is empty, the memo is correct and has only grown, and
   every later history (which may contain further failing calls) answers as it would have
   without the failing call *)
Theorem C15_failure_transparent : forall (A : Type) (children : nat -> list nat),
  (forall n c, In c (children n) -> c < n) ->
  forall (f : nat -> list A -> option A) early fuel w c w' e later,
  clean A children f w -> call_ok children fuel c -> Forall (call_ok children fuel) later ->
  do_call A unit children (fun _ => f) early false fuel w c = (w', Err e) ->
  stk w' = [] /\ Mok A children f (mm w') /\ sub A (mm w) (mm w') /\
  Forall2 ans_equiv (answers A unit children (fun _ => f) early false fuel w' later)
                    (answers A unit children (fun _ => f) early false fuel w later).
Proof. exact failure_transparent. Qed.

(* ... and as a fresh environment would *)
Theorem C15_later_as_fresh : forall (A : Type) (children : nat -> list nat),
  (forall n c, In c (children n) -> c < n) ->
  forall (f : nat -> list A -> option A) early fuel w c later,
  clean A children f w -> call_ok children fuel c -> Forall (call_ok children fuel) later ->
  Forall2 ans_equiv
    (answers A unit children (fun _ => f) early false fuel
             (fst (do_call A unit children (fun _ => f) early false fuel w c)) later)
    (map (fresh_answer A unit children (fun _ => f) early false fuel) later).
Proof. exact later_as_fresh. Qed.

(* failure_transparent, one-shot walkers (env.substituter; the callback depends on the keyword
   arguments p of each call): after a call that raised at ANY node, stack and table are empty
   again and every later history gives exactly the answers it gives without the failing call *)
Theorem C15_failure_transparent_oneshot : forall (A P : Type) (children : nat -> list nat),
  (forall n c, In c (children n) -> c < n) ->
  forall (f : P -> nat -> list A -> option A) early fuel w c w' e later,
  pristine A w -> enough_fuel children (snd c) <= fuel ->
  do_call A P children f early true fuel w c = (w', Err e) ->
  pristine A w' /\
  answers A P children f early true fuel w' later = answers A P children f early true fuel w later.
Proof. exact failure_transparent_oneshot. Qed.

(* every call of a one-shot walker, raising or not, leaves stack and table empty *)
Theorem C15_oneshot_pristine : forall (A P : Type) (children : nat -> list nat),
  (forall n c, In c (children n) -> c < n) ->
  forall (f : P -> nat -> list A -> option A) early fuel w c,
  pristine A w -> enough_fuel children (snd c) <= fuel ->
  pristine A (fst (do_call A P children f early true fuel w c)).
Proof. exact oneshot_pristine. Qed.

Print Assumptions C15_walk_err.
Print Assumptions C15_loop_residue.
Print Assumptions C15_failure_transparent.
Print Assumptions C15_later_as_fresh.
Print Assumptions C15_failure_transparent_oneshot.
Print Assumptions C15_oneshot_pristine.
