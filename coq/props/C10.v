(* C10 - normal forms and Boolean quantifier elimination: statements only. *)
From Coq Require Import List ZArith Bool String Reals Permutation.
From PySMT.core Require Import Syntax Sem.
From PySMT.models Require Import TypeChecker Oracles C10Local Nnf Aig Partition Qelim TimesDist PropTop PropTopSimp Prenex.
From PySMT.models Require Simplifier.
From PySMT.proofs Require SimplifierSem_proofs PropTopSimp_proofs.
From PySMT.proofs Require Import C10Local_proofs Nnf_proofs Aig_proofs Partition_proofs Qelim_proofs TimesDist_proofs PropTop_proofs Prenex_proofs PrenexEquiv_proofs.
Import ListNotations.

(* ---------------- NNF ---------------- *)
Theorem C10_nnf_equiv : forall t I, wf_interp I -> boolish t = true -> eval I (nnf t) = eval I t.
Proof. exact nnf_equiv. Qed.
Print Assumptions C10_nnf_equiv.
Theorem C10_nnf_holds : forall t I, holds I (nnf t) <-> holds I t.
Proof. exact nnf_holds. Qed.
Print Assumptions C10_nnf_holds.
Theorem C10_nnf_shape : forall t, boolish t = true -> nnf_shape (nnf t) = true.
Proof. exact nnf_shape_thm. Qed.
Print Assumptions C10_nnf_shape.

(* ---------------- AIG ---------------- *)
Theorem C10_aig_equiv : forall t I, wf_interp I -> boolish t = true -> eval I (aig t) = eval I t.
Proof. exact aig_equiv. Qed.
Print Assumptions C10_aig_equiv.
Theorem C10_aig_holds : forall t I, holds I (aig t) <-> holds I t.
Proof. exact aig_holds. Qed.
Print Assumptions C10_aig_holds.
Theorem C10_aig_shape : forall t, boolish t = true -> tcb t = true -> aig_shape (aig t) = true.
Proof. exact aig_shape_thm. Qed.
Print Assumptions C10_aig_shape.

(* ---------------- partitions ---------------- *)
Theorem C10_conj_partition : forall t I, wf_interp I -> boolish t = true ->
  forall l, Permutation l (conjunctive_partition t) -> eval I (T OAnd l) = eval I t.
Proof. exact conj_partition. Qed.
Print Assumptions C10_conj_partition.
Theorem C10_disj_partition : forall t I, wf_interp I -> boolish t = true ->
  forall l, Permutation l (disjunctive_partition t) -> eval I (T OOr l) = eval I t.
Proof. exact disj_partition. Qed.
Print Assumptions C10_disj_partition.
Theorem C10_conj_partition_gen : forall t I l, is_vbool (eval I t) -> same_set l (conjunctive_partition t) ->
  eval I (T OAnd l) = eval I t.
Proof. exact conj_partition_gen. Qed.
Print Assumptions C10_conj_partition_gen.
Theorem C10_disj_partition_gen : forall t I l, is_vbool (eval I t) -> same_set l (disjunctive_partition t) ->
  eval I (T OOr l) = eval I t.
Proof. exact disj_partition_gen. Qed.
Print Assumptions C10_disj_partition_gen.

(* ---------------- Boolean quantifier elimination ---------------- *)
Theorem C10_shannon_equiv : forall t I, wf_interp I -> qe_frag t = true -> eval I (shannon t) = eval I t.
Proof. exact shannon_equiv. Qed.
Print Assumptions C10_shannon_equiv.
Theorem C10_shannon_shape : forall t, qe_frag t = true -> is_qf (shannon t) = true.
Proof. exact shannon_shape. Qed.
Print Assumptions C10_shannon_shape.
Theorem C10_selfsub_equiv : forall t I, wf_interp I -> qe_frag t = true -> eval I (selfsub t) = eval I t.
Proof. exact selfsub_equiv. Qed.
Print Assumptions C10_selfsub_equiv.
Theorem C10_selfsub_shape : forall t, qe_frag t = true -> is_qf (selfsub t) = true.
Proof. exact selfsub_shape. Qed.
Print Assumptions C10_selfsub_shape.

(* ---------------- TimesDistributor ---------------- *)
Theorem C10_td_equiv_int : forall I t, arith t = true -> kinded_int I t -> eval I (td t) = eval I t.
Proof. exact td_equiv_int. Qed.
Print Assumptions C10_td_equiv_int.
Theorem C10_td_equiv_real : forall I t, arith t = true -> kinded_real I t -> eval I (td t) = eval I t.
Proof. exact td_equiv_real. Qed.
Print Assumptions C10_td_equiv_real.

(* ---------------- propagate_toplevel (do_simplify=False; models/PropTop.v) ----------------
   full clause: forall order t r I, wf_interp I -> boolish t = true -> normal t = true ->
                  propagate_toplevel order t = Some r -> (holds I r <-> holds I t)
   is FALSE of the model (the substitution is applied under a binder of the representative): *)
Theorem C10_proptop_refuted :
  exists order t r I, wf_interp I /\ boolish t = true /\ normal t = true /\
    propagate_toplevel order t = Some r /\ holds I t /\ ~ holds I r.
Proof. exact proptop_full_refuted. Qed.
Print Assumptions C10_proptop_refuted.
(* proved complement: the substitution is sound whenever no symbol of a top-level definition l = r
   (the only possible keys and replacements) is bound anywhere in the formula; every node-id order;
   both paths (substitution built / two different constants in one class -> FALSE).  defs_const_ok:
   the constants of those definitions carry no arguments and Real constants are in lowest terms
   (what the FormulaManager guarantees). *)
Theorem C10_proptop_equiv_unbound : forall order t r I,
  normal t = true -> boolish t = true -> defs_const_ok t = true -> defs_unbound t -> wf_interp I ->
  propagate_toplevel order t = Some r -> eval I r = eval I t.
Proof. exact proptop_equiv_unbound. Qed.
Print Assumptions C10_proptop_equiv_unbound.
(* quantifier-free inputs: nothing is bound *)
Theorem C10_proptop_equiv_qf : forall order t r I,
  is_qf t = true -> normal t = true -> boolish t = true -> defs_const_ok t = true -> wf_interp I ->
  propagate_toplevel order t = Some r -> eval I r = eval I t.
Proof. exact proptop_equiv_qf. Qed.
Print Assumptions C10_proptop_equiv_qf.

(* do_simplify=True (the default): composition with C01's simplify_sound_partial.  Side conditions of
   C01 on the formula handed to the simplifier, i.e. the unsimplified result r: in C01's fragment,
   Boolean for the type checker, division-safe under I. *)
Theorem C10_proptop_simp_equiv : forall ora order t r s I,
  normal t = true -> boolish t = true -> defs_const_ok t = true -> defs_unbound t -> wf_interp I ->
  propagate_toplevel order t = Some r ->
  SimplifierSem_proofs.in_frag r = true -> tc r = Some TBool -> div_safe I r ->
  propagate_toplevel_simp ora order t = Some s ->
  tc s = Some TBool /\ eval I s = eval I t.
Proof. exact PropTopSimp_proofs.proptop_simp_equiv. Qed.
Print Assumptions C10_proptop_simp_equiv.

(* ---------------- prenex normal form ---------------- *)
Theorem C10_prenex_shape : forall n t r, pq_frag t = true -> prenex n t = Some r -> prenex_shape r = true.
Proof. exact prenex_shape_thm. Qed.
Print Assumptions C10_prenex_shape.
(* semantic clause, in full: inputs whose quantifiers occur in Boolean positions only (pq_frag),
   built by the constructors (normal), binding variables of inhabited first-order sorts
   (binders_ok), with the fresh-name counter above every name of the input *)
Theorem C10_prenex_equiv : forall n t r,
  pq_frag t = true -> normal t = true -> binders_ok t -> (forall v, In v (avars t) -> nbelow n v) ->
  prenex n t = Some r -> forall I, wf_interp I -> (holds I r <-> holds I t).
Proof. exact prenex_equiv. Qed.
Print Assumptions C10_prenex_equiv.
(* quantifier-free inputs: no side condition on names or sorts *)
Theorem C10_prenex_equiv_partial : forall n t, is_qf t = true -> pq_frag t = true ->
  exists r, prenex n t = Some r /\ forall I, holds I r <-> holds I t.
Proof. exact prenex_equiv_partial. Qed.
Print Assumptions C10_prenex_equiv_partial.

(* ---- the case analysis of the model is the dispatch of the source (gen/Operators.v and gen/Dispatch.v are
   REGENERATED from pysmt/operators.py and the walker classes on every run; qualified names only) *)
From PySMT.gen Require Operators Dispatch.
From PySMT.proofs Require Operators_proofs Dispatch_rewriters_proofs.
Theorem C10_operator_table_matches_source :
  (forall n, List.In n Operators.all_node_types) /\
  (forall a b, Operators.nt_id a = Operators.nt_id b -> a = b) /\
  (forall o, Operators.nt_modelled (Operators.nt_of_op o) = true) /\
  (forall n, Operators.nt_modelled n = false <-> n = Operators.NT_ALGEBRAIC_CONSTANT).
Proof.
  exact (conj Operators_proofs.all_node_types_complete (conj Operators_proofs.nt_id_injective
         (conj Operators_proofs.nt_of_op_modelled Operators_proofs.only_algebraic_constant_unmodelled))).
Qed.

Theorem C10_rewriters_dispatch_matches_source : forall n,
  Dispatch_rewriters_proofs.nnf_handler_of_name (Dispatch.nnf_dispatch n) = Dispatch_rewriters_proofs.nnf_expected n /\
  Dispatch_rewriters_proofs.aig_handler_of_name (Dispatch.aig_dispatch n) = Dispatch_rewriters_proofs.aig_expected n /\
  Dispatch_rewriters_proofs.prenex_handler_of_name (Dispatch.prenex_dispatch n) = Dispatch_rewriters_proofs.prenex_expected n /\
  Dispatch_rewriters_proofs.nnf_expected n <> None /\ Dispatch_rewriters_proofs.aig_expected n <> None /\
  Dispatch_rewriters_proofs.prenex_expected n <> None.
Proof.
  intro n.
  destruct (Dispatch_rewriters_proofs.nnf_dispatch_matches_source n) as [A1 A2].
  destruct (Dispatch_rewriters_proofs.aig_dispatch_matches_source n) as [B1 B2].
  destruct (Dispatch_rewriters_proofs.prenex_dispatch_matches_source n) as [C1 C2].
  repeat split; assumption.
Qed.
Theorem C10_nnf_leaf_handlers : forall o h args,
  Dispatch_rewriters_proofs.nnf_handler_of_name (Dispatch.nnf_dispatch (Operators.nt_of_op o)) = Some h ->
  Dispatch_rewriters_proofs.nnf_is_leaf_handler h = true -> nnf_p true (T o args) = T o args.
Proof. intros o h args H1 H2. exact (proj1 (Dispatch_rewriters_proofs.nnf_leaf_handlers_are_the_otherwise_arm o h args H1 H2)). Qed.
Theorem C10_aig_nop_handler : forall o args,
  Dispatch_rewriters_proofs.aig_handler_of_name (Dispatch.aig_dispatch (Operators.nt_of_op o)) = Some Dispatch_rewriters_proofs.G_nop ->
  aig (T o args) = T o args.
Proof. intros o args H. exact (proj1 (Dispatch_rewriters_proofs.aig_nop_is_the_otherwise_arm o args H)). Qed.
Theorem C10_prenex_leaf_handlers : forall o h b args n,
  Dispatch_rewriters_proofs.prenex_handler_of_name (Dispatch.prenex_dispatch (Operators.nt_of_op o)) = Some h ->
  Dispatch_rewriters_proofs.prenex_leaf_rule h o = Some b ->
  pw (T o args) n = (n, if b then Some ([], T o args) else None).
Proof. intros o h b args n H1 H2. exact (proj1 (Dispatch_rewriters_proofs.prenex_leaf_handlers_are_the_otherwise_arm o h b args n H1 H2)). Qed.
Print Assumptions C10_rewriters_dispatch_matches_source.
