(* C10 - normal forms and Boolean quantifier elimination: statements only. *)
From Coq Require Import List ZArith Bool String Reals Permutation.
From PySMT.core Require Import Syntax Sem.
From PySMT.models Require Import C10Local Nnf Aig Partition.
From PySMT.proofs Require Import C10Local_proofs Nnf_proofs Aig_proofs Partition_proofs.
Import ListNotations.

(* ---------------- NNF ---------------- *)
Theorem C10_nnf_equiv : forall t I, wf_interp I -> boolish t = true -> eval I (nnf t) = eval I t.
Proof. exact nnf_equiv. Qed.
Print Assumptions C10_nnf_equiv.
Theorem C10_nnf_holds : forall t I, holds I (nnf t) <-> holds I t.
Proof. exact nnf_holds. Qed.
Print Assumptions C10_nnf_holds.
(* full shape clause [forall t, boolish t = true -> nnf_shape (nnf t) = true] is FALSE of the model: *)
Theorem C10_nnf_shape_refuted : exists t, boolish t = true /\ nnf_shape (nnf t) = false.
Proof. exact nnf_shape_refuted. Qed.
Print Assumptions C10_nnf_shape_refuted.
Theorem C10_nnf_shape_partial : forall t, boolish t = true -> no_neg_ite true t = true -> nnf_shape (nnf t) = true.
Proof. exact nnf_shape_partial. Qed.
Print Assumptions C10_nnf_shape_partial.

(* ---------------- AIG ---------------- *)
Theorem C10_aig_equiv : forall t I, wf_interp I -> boolish t = true -> eval I (aig t) = eval I t.
Proof. exact aig_equiv. Qed.
Print Assumptions C10_aig_equiv.
Theorem C10_aig_holds : forall t I, holds I (aig t) <-> holds I t.
Proof. exact aig_holds. Qed.
Print Assumptions C10_aig_holds.
Theorem C10_aig_shape : forall t, boolish t = true -> tcb t = true -> aig_shape (aig t) = true.
Proof. exact aig_shape_thm. Qed.
Print Assumptions C10_aig_shape.

(* ---------------- partitions ---------------- *)
Theorem C10_conj_partition : forall t I, wf_interp I -> boolish t = true ->
  forall l, Permutation l (conjunctive_partition t) -> eval I (T OAnd l) = eval I t.
Proof. exact conj_partition. Qed.
Print Assumptions C10_conj_partition.
Theorem C10_disj_partition : forall t I, wf_interp I -> boolish t = true ->
  forall l, Permutation l (disjunctive_partition t) -> eval I (T OOr l) = eval I t.
Proof. exact disj_partition. Qed.
Print Assumptions C10_disj_partition.
Theorem C10_conj_partition_gen : forall t I l, is_vbool (eval I t) -> same_set l (conjunctive_partition t) ->
  eval I (T OAnd l) = eval I t.
Proof. exact conj_partition_gen. Qed.
Print Assumptions C10_conj_partition_gen.
Theorem C10_disj_partition_gen : forall t I l, is_vbool (eval I t) -> same_set l (disjunctive_partition t) ->
  eval I (T OOr l) = eval I t.
Proof. exact disj_partition_gen. Qed.
Print Assumptions C10_disj_partition_gen.
