(* C10 - normal forms and Boolean quantifier elimination: statements only. *)
From Coq Require Import List ZArith Bool String Reals Permutation.
From PySMT.core Require Import Syntax Sem.
From PySMT.models Require Import Oracles C10Local Nnf Aig Partition Qelim TimesDist PropTop Prenex.
From PySMT.proofs Require Import C10Local_proofs Nnf_proofs Aig_proofs Partition_proofs Qelim_proofs TimesDist_proofs PropTop_proofs Prenex_proofs PrenexEquiv_proofs.
Import ListNotations.

(* ---------------- NNF ---------------- *)
Theorem C10_nnf_equiv : forall t I, wf_interp I -> boolish t = true -> eval I (nnf t) = eval I t.
Proof. exact nnf_equiv. Qed.
Print Assumptions C10_nnf_equiv.
Theorem C10_nnf_holds : forall t I, holds I (nnf t) <-> holds I t.
Proof. exact nnf_holds. Qed.
Print Assumptions C10_nnf_holds.
Theorem C10_nnf_shape : forall t, boolish t = true -> nnf_shape (nnf t) = true.
Proof. exact nnf_shape_thm. Qed.
Print Assumptions C10_nnf_shape.

(* ---------------- AIG ---------------- *)
Theorem C10_aig_equiv : forall t I, wf_interp I -> boolish t = true -> eval I (aig t) = eval I t.
Proof. exact aig_equiv. Qed.
Print Assumptions C10_aig_equiv.
Theorem C10_aig_holds : forall t I, holds I (aig t) <-> holds I t.
Proof. exact aig_holds. Qed.
Print Assumptions C10_aig_holds.
Theorem C10_aig_shape : forall t, boolish t = true -> tcb t = true -> aig_shape (aig t) = true.
Proof. exact aig_shape_thm. Qed.
Print Assumptions C10_aig_shape.

(* ---------------- partitions ---------------- *)
Theorem C10_conj_partition : forall t I, wf_interp I -> boolish t = true ->
  forall l, Permutation l (conjunctive_partition t) -> eval I (T OAnd l) = eval I t.
Proof. exact conj_partition. Qed.
Print Assumptions C10_conj_partition.
Theorem C10_disj_partition : forall t I, wf_interp I -> boolish t = true ->
  forall l, Permutation l (disjunctive_partition t) -> eval I (T OOr l) = eval I t.
Proof. exact disj_partition. Qed.
Print Assumptions C10_disj_partition.
Theorem C10_conj_partition_gen : forall t I l, is_vbool (eval I t) -> same_set l (conjunctive_partition t) ->
  eval I (T OAnd l) = eval I t.
Proof. exact conj_partition_gen. Qed.
Print Assumptions C10_conj_partition_gen.
Theorem C10_disj_partition_gen : forall t I l, is_vbool (eval I t) -> same_set l (disjunctive_partition t) ->
  eval I (T OOr l) = eval I t.
Proof. exact disj_partition_gen. Qed.
Print Assumptions C10_disj_partition_gen.

(* ---------------- Boolean quantifier elimination ---------------- *)
Theorem C10_shannon_equiv : forall t I, wf_interp I -> qe_frag t = true -> eval I (shannon t) = eval I t.
Proof. exact shannon_equiv. Qed.
Print Assumptions C10_shannon_equiv.
Theorem C10_shannon_shape : forall t, qe_frag t = true -> is_qf (shannon t) = true.
Proof. exact shannon_shape. Qed.
Print Assumptions C10_shannon_shape.
Theorem C10_selfsub_equiv : forall t I, wf_interp I -> qe_frag t = true -> eval I (selfsub t) = eval I t.
Proof. exact selfsub_equiv. Qed.
Print Assumptions C10_selfsub_equiv.
Theorem C10_selfsub_shape : forall t, qe_frag t = true -> is_qf (selfsub t) = true.
Proof. exact selfsub_shape. Qed.
Print Assumptions C10_selfsub_shape.

(* ---------------- TimesDistributor ---------------- *)
Theorem C10_td_equiv_int : forall I t, arith t = true -> kinded_int I t -> eval I (td t) = eval I t.
Proof. exact td_equiv_int. Qed.
Print Assumptions C10_td_equiv_int.
Theorem C10_td_equiv_real : forall I t, arith t = true -> kinded_real I t -> eval I (td t) = eval I t.
Proof. exact td_equiv_real. Qed.
Print Assumptions C10_td_equiv_real.

(* ---------------- propagate_toplevel (do_simplify=False; models/PropTop.v) ----------------
   full clause: forall order t r I, wf_interp I -> boolish t = true -> normal t = true ->
                  propagate_toplevel order t = Some r -> (holds I r <-> holds I t)
   is FALSE of the model (the substitution is applied under a binder of the representative): *)
Theorem C10_proptop_refuted :
  exists order t r I, wf_interp I /\ boolish t = true /\ normal t = true /\
    propagate_toplevel order t = Some r /\ holds I t /\ ~ holds I r.
Proof. exact proptop_full_refuted. Qed.
Print Assumptions C10_proptop_refuted.
(* proved part: quantifier-free inputs (the open finding cannot occur), every node-id order, on the
   path that builds a substitution.  The other path (two different constants in one class: the
   result is FALSE) additionally needs "different constant nodes denote different values" and is
   carried by correspondence + oracle. *)
Theorem C10_proptop_equiv_partial : forall order t r I,
  is_qf t = true -> normal t = true -> boolish t = true -> wf_interp I ->
  propagate_toplevel order t = Some r -> r <> TFalse -> eval I r = eval I t.
Proof. exact proptop_equiv_partial'. Qed.
Print Assumptions C10_proptop_equiv_partial.

(* ---------------- prenex normal form ---------------- *)
Theorem C10_prenex_shape : forall n t r, pq_frag t = true -> prenex n t = Some r -> prenex_shape r = true.
Proof. exact prenex_shape_thm. Qed.
Print Assumptions C10_prenex_shape.
(* semantic clause, in full: inputs whose quantifiers occur in Boolean positions only (pq_frag),
   built by the constructors (normal), binding variables of inhabited first-order sorts
   (binders_ok), with the fresh-name counter above every name of the input *)
Theorem C10_prenex_equiv : forall n t r,
  pq_frag t = true -> normal t = true -> binders_ok t -> (forall v, In v (avars t) -> nbelow n v) ->
  prenex n t = Some r -> forall I, wf_interp I -> (holds I r <-> holds I t).
Proof. exact prenex_equiv. Qed.
Print Assumptions C10_prenex_equiv.
(* quantifier-free inputs: no side condition on names or sorts *)
Theorem C10_prenex_equiv_partial : forall n t, is_qf t = true -> pq_frag t = true ->
  exists r, prenex n t = Some r /\ forall I, holds I r <-> holds I t.
Proof. exact prenex_equiv_partial. Qed.
Print Assumptions C10_prenex_equiv_partial.
