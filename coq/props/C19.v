(* C19 - Portfolio answer is independent of the race and never blocks forever.
   Statements only; each is closed by `exact` of a lemma proved in proofs/Portfolio_proofs.v.
   The model is the protocol as repaired by build/fixes/C19_all_fail_raise.diff and
   C19_silent_death.diff (failure counter + liveness poll in Portfolio._solve).
   `run c sched` is the state of the protocol model (models/Portfolio.v) after the schedule
   `sched` (ANY list of parent / child / kill choices) for configuration `c` (ANY number of
   members with ANY behaviours, exit_on_exception flag, signal-latency flag, query script). *)
From Coq Require Import Bool List.
From PySMT.models Require Import AssertStack StackPrims TrackSolver.
From PySMT.proofs Require Import TrackSolver_proofs.
From PySMT.models Require Import Portfolio.
From PySMT.proofs Require Import Portfolio_proofs.
Import ListNotations.

(* whenever _solve has returned, it returned the answer of the member it kept ... *)
Theorem C19_verdict_from_member : forall c sched w b,
  returned (run c sched) = Some (w, b) -> nth_error (members c) w = Some (BAns b).
Proof. exact verdict_from_member. Qed.

(* ... hence the verdict the answering members agree on, whichever of them wins the race *)
Theorem C19_verdict_agreed : forall c b,
  (forall i b', nth_error (members c) i = Some (BAns b') -> b' = b) ->
  forall sched w b', returned (run c sched) = Some (w, b') -> b' = b.
Proof. exact verdict_agreed. Qed.

(* failing / unknown members never turn the call into an error while another member
   answers (exit_on_exception off): an error means that EVERY member failed *)
Theorem C19_failures_ignored : forall c, eoe c = false ->
  forall sched i, par (run c sched) = PErr i -> all_fail c = true.
Proof. exact failures_ignored. Qed.

Theorem C19_no_answer_error_only_if_all_fail : forall c, latency c = false ->
  forall sched, par (run c sched) = PDead -> all_fail c = true.
Proof. exact no_answer_error_only_if_all_fail. Qed.

(* an error is the exception of a member that raised / answered unknown, raised because
   exit_on_exception asks for it or because nobody is left *)
Theorem C19_error_only_from_failure : forall c sched i,
  par (run c sched) = PErr i ->
  (exists bh, nth_error (members c) i = Some bh /\ raises bh = true) /\
  (eoe c = true \/ all_fail c = true).
Proof. exact error_only_from_failure. Qed.

(* get_model / get_value are served by the member whose verdict was returned
   (default SIGTERM semantics: a signalled process executes no further action) *)
Theorem C19_model_from_winner : forall c, latency c = false ->
  forall sched w b i, returned (run c sched) = Some (w, b) -> In i (resp (run c sched)) ->
  i = w /\ nth_error (members c) w = Some (BAns b).
Proof. exact model_from_winner. Qed.

(* under arbitrary signal latency: still by a member that answered the returned verdict *)
Theorem C19_model_from_agreeing_member : forall c b,
  (forall i b', nth_error (members c) i = Some (BAns b') -> b' = b) ->
  forall sched w b' i, returned (run c sched) = Some (w, b') -> In i (resp (run c sched)) ->
  nth_error (members c) i = Some (BAns b') /\ b' = b.
Proof. exact model_from_agreeing_member. Qed.

(* no reachable deadlock, for every configuration: every state in which nothing can move is
   one where the call has finished (returned, or raised) *)
Theorem C19_no_stuck_state : forall c, latency c = false ->
  forall sched, stuck c (run c sched) = true -> final (run c sched) = true.
Proof. exact no_stuck_state. Qed.

(* every enabled step strictly decreases a natural-number measure: with C19_no_stuck_state,
   every maximal execution ends in a finished call *)
Theorem C19_every_step_decreases : forall c s l s',
  step c s l = Some s' -> measure c s' < measure c s.
Proof. exact step_decreases. Qed.

(* every member fails -> the call reports an error (a member's exception, or "nobody is
   left") instead of blocking: the only states in which nothing can move are error states *)
Theorem C19_all_fail_reports : forall c, latency c = false -> all_fail c = true ->
  forall sched, stuck c (run c sched) = true ->
  (exists i, par (run c sched) = PErr i) \/ par (run c sched) = PDead.
Proof. exact all_fail_reports. Qed.

(* the single shared control pipe: with signal latency a loser can take the query and die *)
Theorem C19_no_stuck_state_latency_refuted :
  exists c sched, latency c = true /\
    (forall i, i < length (members c) -> exists b, nth_error (members c) i = Some (BAns b)) /\
    stuck c (run c sched) = true /\ final (run c sched) = false /\
    outcome_of c (run c sched) = OBlockedQuery true 0 [].
Proof. exact no_stuck_state_latency_refuted. Qed.

(* repeated solve / push-pop cycles: Portfolio keeps its assertions with the
   IncrementalTrackingSolver bookkeeping (models/TrackSolver.v, proved for C16; Portfolio's
   _add_assertion/_push/_pop/_solve carry @clear_pending_pop like the modelled subclass).
   After every prefix of a legal command history - one-shot queries (is_sat / is_valid /
   is_unsat, which leave a pending pop) and pop(n) anywhere in it - what `assertions` returns,
   i.e. what the next _solve round conjoins and hands to every member, is exactly the live
   assertions of the reference frame stack.  Each round is then covered by the theorems above. *)
Theorem C19_rounds_solve_live_assertions : forall (F : Type) (fnot : F -> F) (cs1 cs2 : list (scmd F)),
  legal (map to_spec (cs1 ++ cs2)) ->
  exists s c c', s_run s_init (map to_spec cs1) = Some s /\
                 t_run fnot t_init cs1 = Ok c /\ assertions c = Ok (c', live_assertions s).
Proof. exact solver_tracks_live_every_step. Qed.

Print Assumptions C19_rounds_solve_live_assertions.
Print Assumptions C19_verdict_from_member.
Print Assumptions C19_verdict_agreed.
Print Assumptions C19_failures_ignored.
Print Assumptions C19_no_answer_error_only_if_all_fail.
Print Assumptions C19_error_only_from_failure.
Print Assumptions C19_model_from_winner.
Print Assumptions C19_model_from_agreeing_member.
Print Assumptions C19_no_stuck_state.
Print Assumptions C19_every_step_decreases.
Print Assumptions C19_all_fail_reports.
Print Assumptions C19_no_stuck_state_latency_refuted.
