(* C13 - Detected logic covers the formula; logic ordering and selection are sound.
   Statements only; each is closed by `exact` of a lemma proved in proofs/. *)
From Coq Require Import Bool List String.
From PySMT.gen Require Import Logics.
From PySMT.models Require Import LogicSelect.
From PySMT.core Require Import Syntax.
From PySMT.models Require Import Oracles TheoryOracle.
From PySMT.proofs Require Import Logics_proofs LogicSelect_proofs C13_select_proofs TheoryOracle_proofs.

(* `Theory.__le__` (as translated from the source on this run) is a partial order on
   well-formed theories (ID -> IA, RD -> RA, arrays_const -> arrays; all 1728 of them). *)
Theorem C13_theory_le_refl : forall a, t_le a a = true.
Proof. exact t_le_refl. Qed.
Theorem C13_theory_le_antisym : forall a b, wf a = true -> wf b = true ->
  t_le a b = true -> t_le b a = true -> a = b.
Proof. exact t_le_antisym. Qed.
Theorem C13_theory_le_trans : forall a b c, wf a = true -> wf b = true -> wf c = true ->
  t_le a b = true -> t_le b c = true -> t_le a c = true.
Proof. exact t_le_trans. Qed.
(* combine is an upper bound of both arguments and stays well-formed *)
Theorem C13_combine_upper : forall a b, wf a = true -> wf b = true ->
  t_le a (t_combine a b) = true /\ t_le b (t_combine a b) = true.
Proof. exact t_combine_upper. Qed.
Theorem C13_combine_wf : forall a b, wf a = true -> wf b = true -> wf (t_combine a b) = true.
Proof. exact t_combine_wf. Qed.
(* Logic.__le__ *)
Theorem C13_logic_le_refl : forall a, l_le a a = true.
Proof. exact l_le_refl. Qed.
Theorem C13_logic_le_trans : forall a b c, lwf a = true -> lwf b = true -> lwf c = true ->
  l_le a b = true -> l_le b c = true -> l_le a c = true.
Proof. exact l_le_trans. Qed.
Theorem C13_logic_le_antisym : forall a b, lwf a = true -> lwf b = true ->
  l_le a b = true -> l_le b a = true -> ltheory a = ltheory b /\ lqf a = lqf b.
Proof. exact l_le_antisym_upto_name. Qed.
(* the named tables: well-formed theories, and antisymmetric including the name *)
Theorem C13_tables : table_facts LOGICS = true /\ table_facts PYSMT_LOGICS = true /\
  table_facts SMTLIB2_LOGICS = true.
Proof. exact tables_wf_antisym. Qed.
(* selection: for EVERY admissible list of supported logics (every sub-list of a named table is
   one: table_admissible) the chosen logic is supported, above the target, with nothing
   supported strictly in between; failure happens only when no supported logic is above. *)
Theorem C13_sublists_admissible : forall L, table_facts L = true -> forall S, incl S L -> admissible S.
Proof. exact table_admissible. Qed.
Theorem C13_closer_logic_sound : forall S t r, admissible S -> lwf t = true ->
  closer S t = SelOk r ->
  In r S /\ l_le t r = true /\
  forall k, In k S -> l_le t k = true -> ~ (l_ne r k = true /\ l_le k r = true).
Proof. exact closer_logic_sound. Qed.
Theorem C13_closer_logic_fails_only_without_candidate : forall S t, admissible S -> lwf t = true ->
  (closer S t = SelNoLogic <-> forall l, In l S -> l_le t l = false) /\
  closer S t <> SelIndexError.
Proof. exact closer_logic_fails_only_without_candidate. Qed.
Theorem C13_most_generic_sound : forall S r, most_generic S = SelOk r ->
  In r S /\ forall x, In x S -> l_le x r = true.
Proof. exact most_generic_sound. Qed.

(* DETECTION.  [theory_of] = hand model of TheoryOracle over the generated Theory operations;
   [features] = what the formula uses, stated independently: sorts of symbols, constants, bound
   variables, applied functions' results and array values (with component sorts), integer-valued
   string/bit-vector operators, int.to.str, to_real, uninterpreted applications, constant arrays,
   non-linear products / powers / divisions.  For every term: *)
Theorem C13_detect_covers : forall t th, theory_of t = Some th ->
  f_le (features t) (of_theory th) = true.
Proof. exact detect_covers. Qed.
Theorem C13_detect_covers_flags : forall t th, theory_of t = Some th ->
  let f := features t in
  (f_arr f = true -> arrays th = true) /\ (f_arrc f = true -> arrays_const th = true) /\
  (f_bv f = true -> bit_vectors th = true) /\ (f_ia f = true -> integer_arithmetic th = true) /\
  (f_ra f = true -> real_arithmetic th = true) /\ (f_uf f = true -> uninterpreted th = true) /\
  (f_ct f = true -> custom_type th = true) /\ (f_str f = true -> strings th = true) /\
  (f_nl f = true -> linear th = false).
Proof. exact detect_covers_flags. Qed.
(* detected theories are well-formed, so the order theorems above apply to them *)
Theorem C13_detected_wf : forall t th, theory_of t = Some th -> wf th = true.
Proof. exact theory_of_wf. Qed.
(* get_logic: ANY logic above the detected (theory, qf) pair - in particular the one
   get_closer_pysmt_logic returns, by C13_closer_logic_sound - enables every feature of the
   formula and is a quantified logic when the formula has a quantifier *)
Theorem C13_get_logic_covers : forall t th (r : logic), theory_of t = Some th -> lwf r = true ->
  l_le (mkL "Detected Logic" (is_qf t) th) r = true ->
  f_le (features t) (of_theory (ltheory r)) = true /\ (lqf r = true -> is_qf t = true).
Proof. exact get_logic_covers. Qed.

Print Assumptions C13_detect_covers.
Print Assumptions C13_get_logic_covers.
Print Assumptions C13_theory_le_trans.
Print Assumptions C13_theory_le_antisym.
Print Assumptions C13_combine_upper.
Print Assumptions C13_tables.
Print Assumptions C13_closer_logic_sound.
Print Assumptions C13_closer_logic_fails_only_without_candidate.
Print Assumptions C13_most_generic_sound.

(* ---- the case analysis of the model is the dispatch of the source (gen/Operators.v and gen/Dispatch.v are
   REGENERATED from pysmt/operators.py and the walker classes on every run; qualified names only) *)
From PySMT.gen Require Operators Dispatch.
From PySMT.proofs Require Operators_proofs Dispatch_theory_proofs.
Theorem C13_operator_table_matches_source :
  (forall n, List.In n Operators.all_node_types) /\
  (forall a b, Operators.nt_id a = Operators.nt_id b -> a = b) /\
  (forall o, Operators.nt_modelled (Operators.nt_of_op o) = true) /\
  (forall n, Operators.nt_modelled n = false <-> n = Operators.NT_ALGEBRAIC_CONSTANT).
Proof.
  exact (conj Operators_proofs.all_node_types_complete (conj Operators_proofs.nt_id_injective
         (conj Operators_proofs.nt_of_op_modelled Operators_proofs.only_algebraic_constant_unmodelled))).
Qed.

Theorem C13_theoryo_dispatch_matches_source : forall o, exists h,
  Dispatch_theory_proofs.theoryo_handler_of_name (Dispatch.theoryo_dispatch (Operators.nt_of_op o)) = Some h /\
  forall targs args, theory_rule o targs args = Dispatch_theory_proofs.theoryo_handler_rule h o targs args.
Proof. exact Dispatch_theory_proofs.theoryo_dispatch_matches_source. Qed.
Print Assumptions C13_theoryo_dispatch_matches_source.
