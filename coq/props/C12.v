(* C12 - Formula analyses (free symbols, atoms, qf-ness, sorts, sizes) are exact.
   Statements only.  The analyses are the hand models of pysmt.oracles in models/Oracles.v
   (tied to the code by the correspondence run of harness/c12.py). *)
From Coq Require Import List ZArith Bool String Reals.
From PySMT.core Require Import Syntax Sem.
From PySMT.models Require Import TypeChecker Oracles OraclesCustom.
From PySMT.proofs Require Import Coincidence Oracles_proofs OraclesCustom_proofs.

(* free symbols = the textbook definition (binders remove, applied function names count) *)
Theorem C12_fv_def : forall t v, In v (fv t) <-> free_in v t.
Proof. exact fv_def. Qed.

(* the value of a formula depends only on the symbols reported free - every term, every pair
   of interpretations ([fo_binders]: leaves have no children and no quantifier binds the name
   of an applied function, i.e. no higher-order quantification) *)
Theorem C12_coincidence : forall t I I', fo_binders t ->
  rdiv0 I = rdiv0 I' -> idiv0 I = idiv0 I' ->
  (forall n ty, In (n, ty) (fv t) -> isym I n ty = isym I' n ty /\ ifun I n ty = ifun I' n ty) ->
  eval I t = eval I' t.
Proof. exact coincidence. Qed.

(* the truth value of a quantifier-free Boolean formula is a function of the truth values of
   the atoms reported *)
Theorem C12_atoms_truth_functional : forall t I I' A,
  is_qf t = true -> tc t = Some TBool -> atoms t = Some A ->
  (forall a, In a A -> eval I a = eval I' a) -> eval I t = eval I' t.
Proof. exact atoms_truth_functional. Qed.

(* quantifier-freeness = no quantifier node anywhere *)
Theorem C12_qf_def : forall t, is_qf t = true <-> ~ has_quantifier t.
Proof. exact qf_def. Qed.

(* tree size against the independent definition of core/Syntax.v; leaves and depth bounded *)
Theorem C12_size_tree_def : forall t, size_tree t = tsize t.
Proof. exact size_tree_def. Qed.
Theorem C12_size_bounds : forall t,
  (1 <= size_leaves t <= size_tree t /\ 1 <= size_depth t <= size_tree t)%nat.
Proof. exact size_bounds. Qed.

(* the reported sorts = the sorts of symbols, applied functions' signatures, bound variables,
   constants and array-value index sorts occurring in the term, closed under component sorts *)
Theorem C12_types_walk_def : forall t s, In s (types_walk t) <-> sort_occurs s t.
Proof. exact types_walk_def. Qed.
Theorem C12_get_types_def : forall t s,
  In s (get_types t) <-> exists u, sort_occurs u t /\ In s (subtypes u).
Proof. exact get_types_def. Qed.
(* custom_only=True: exactly the members of that closed set that are not SMT-LIB built-in sorts
   (so a user sort occurring only as index / element of an array sort, at any depth, is reported) *)
Theorem C12_get_types_custom_def : forall t s,
  In s (get_types_custom t) <->
  (exists u, sort_occurs u t /\ In s (subtypes u)) /\ is_base_type s = false.
Proof. exact get_types_custom_def. Qed.
Theorem C12_get_types_custom_filter : forall t s,
  In s (get_types_custom t) <-> In s (get_types t) /\ is_base_type s = false.
Proof. exact get_types_custom_filter. Qed.

Print Assumptions C12_fv_def.
Print Assumptions C12_get_types_def.
Print Assumptions C12_get_types_custom_def.
Print Assumptions C12_coincidence.
Print Assumptions C12_atoms_truth_functional.
Print Assumptions C12_qf_def.
Print Assumptions C12_size_tree_def.

(* ---- the case analysis of the model is the dispatch of the source (gen/Operators.v and gen/Dispatch.v are
   REGENERATED from pysmt/operators.py and the walker classes on every run; qualified names only) *)
From PySMT.gen Require Operators Dispatch.
From PySMT.proofs Require Operators_proofs Dispatch_oracles_proofs.
Theorem C12_operator_table_matches_source :
  (forall n, List.In n Operators.all_node_types) /\
  (forall a b, Operators.nt_id a = Operators.nt_id b -> a = b) /\
  (forall o, Operators.nt_modelled (Operators.nt_of_op o) = true) /\
  (forall n, Operators.nt_modelled n = false <-> n = Operators.NT_ALGEBRAIC_CONSTANT).
Proof.
  exact (conj Operators_proofs.all_node_types_complete (conj Operators_proofs.nt_id_injective
         (conj Operators_proofs.nt_of_op_modelled Operators_proofs.only_algebraic_constant_unmodelled))).
Qed.

Theorem C12_qfo_dispatch_matches_source : forall o, exists h,
  Dispatch_oracles_proofs.qfo_handler_of_name (Dispatch.qfo_dispatch (Operators.nt_of_op o)) = Some h /\
  forall args, is_qf (T o args) = Dispatch_oracles_proofs.qfo_handler_rule h (map is_qf args).
Proof. exact Dispatch_oracles_proofs.qfo_dispatch_matches_source. Qed.
Theorem C12_fvo_dispatch_matches_source : forall o, exists h,
  Dispatch_oracles_proofs.fvo_handler_of_name (Dispatch.fvo_dispatch (Operators.nt_of_op o)) = Some h /\
  forall args, Some (fv (T o args)) = Dispatch_oracles_proofs.fvo_handler_rule h o (map fv args).
Proof. exact Dispatch_oracles_proofs.fvo_dispatch_matches_source. Qed.
Theorem C12_ao_dispatch_matches_source : forall o, exists h,
  Dispatch_oracles_proofs.ao_handler_of_name (Dispatch.ao_dispatch (Operators.nt_of_op o)) = Some h /\
  forall args, atoms (T o args) = Dispatch_oracles_proofs.ao_handler_rule h (T o args) (map atoms args).
Proof. exact Dispatch_oracles_proofs.ao_dispatch_matches_source. Qed.
Theorem C12_typeso_dispatch_matches_source : forall o, exists h,
  Dispatch_oracles_proofs.typeso_handler_of_name (Dispatch.typeso_dispatch (Operators.nt_of_op o)) = Some h /\
  forall args, Some (types_walk (T o args)) = Dispatch_oracles_proofs.typeso_handler_rule h o (map types_walk args).
Proof. exact Dispatch_oracles_proofs.typeso_dispatch_matches_source. Qed.
Theorem C12_sizeo_dispatch_uniform : forall m n n', Dispatch.sizeo_dispatch m n = Dispatch.sizeo_dispatch m n'.
Proof. exact Dispatch_oracles_proofs.sizeo_dispatch_uniform. Qed.
Theorem C12_relations_group_matches_source : forall o,
  is_theory_relation o = Operators.nt_in Operators.G_RELATIONS (Operators.nt_of_op o).
Proof. exact Dispatch_oracles_proofs.is_theory_relation_is_RELATIONS. Qed.
Print Assumptions C12_fvo_dispatch_matches_source.
