(* C07 - SMT-LIB export is well-formed and means the same.  Statements only.
   Specification: core/SmtStd.v (SMT-LIB 2.6 at s-expression level) and core/Sem.v.
   Models: models/SmtPrinter.v (SmtPrinter, SmtDagPrinter), models/SmtScript.v. *)
From Coq Require Import List ZArith String.
From PySMT.core Require Import Syntax Sem SmtStd.
From PySMT.models Require Import TypeChecker Oracles SmtPrinter SmtScript.
From PySMT.proofs Require Import SmtPrinter_proofs SmtScript_proofs.
Import ListNotations.
Open Scope string_scope.

(* FULL STATEMENT (false of the faithful model, see the _refuted theorems):
     forall t ty I, tc t = Some ty -> printable_names t ->
       std_eval Sigma_t I (print_tree t) = Some (eval I t).
   Proved part: every term of the fragment [wfp Sg [] t] - EVERY operator except Pow (refuted),
   with: constructor arities, constants in range, good symbol names declared in Sg, string
   constants printable ASCII without backslash (open finding), array values assigned at pairwise
   distinct Bool/Int/Real/BV/String constants (Real in lowest terms) and whose printed sort reads back with the SAME index
   sort (core/Sem.v's array values are canonical outside their index sort, so `as const` must
   be read at that sort; excludes e.g. a declared sort printed as "Bool"), and the arguments of Iff / extract / rotate / extend
   typed by tc and inside C01's fragment okt - every signature, every well-formed
   interpretation, any nesting of binders. *)
Theorem C07_print_tree_sound_partial : forall Sg I t,
  wfp Sg [] t -> wf_interp I -> std_eval Sg I (print_tree t) = Some (eval I t).
Proof. exact print_tree_sound_partial. Qed.
Print Assumptions C07_print_tree_sound_partial.

(* the same under any enclosing binders: [bound] = variables bound outside, [rho] their values in
   the text's environment, [J] the interpretation that binds them *)
Theorem C07_print_tree_sound_under_binders : forall Sg I t bound rho J,
  wfp Sg bound t -> env_rel I bound rho J -> bound_good bound -> wf_interp J ->
  seval Sg I rho (print_tree t) = Some (eval J t).
Proof. exact print_tree_sound_gen. Qed.
Print Assumptions C07_print_tree_sound_under_binders.

Theorem C07_print_tree_sound_hypotheses_satisfiable :
  (wfp ex_sig [] ex_term /\ tc ex_term = Some TBool) /\ (wfp ex_sig [] ex_term3 /\ tc ex_term3 = Some TBool).
Proof. exact (conj (conj ex_term_wfp ex_term_typed) ex_term3_wfp). Qed.

(* the spellings repaired in 2026-09 (str.to_int, str.from_int, div on Int operands) are in the
   fragment: a term using them satisfies the hypotheses, is printed with the SMT-LIB 2.6 names and
   its text is well-sorted *)
Theorem C07_print_tree_repaired_spellings :
  wfp sig_sxr [] ex_term2 /\ tc ex_term2 = Some TBool /\
  flatten (print_tree ex_term2) =
    ["("; "and"; "("; "="; "("; "str.to_int"; "s"; ")"; "("; "div"; "x"; "y"; ")"; ")";
     "("; "="; "("; "str.from_int"; "x"; ")"; "s"; ")";
     "("; "<"; "("; "/"; "r"; "r"; ")"; "("; "/"; "1.0"; "2.0"; ")"; ")"; ")"] /\
  std_sort sig_sxr (print_tree ex_term2) = Some TBool.
Proof. exact print_tree_repaired_spellings. Qed.

(* still refuted: Pow has no SMT-LIB spelling *)
Theorem C07_print_tree_sound_refuted_pow :
  exists t, tc t = Some TReal /\ print_tree t = SList [Atom "pow"; Atom "r"; Atom "2.0"] /\
            forall I, std_eval sig_sxr I (print_tree t) = None.
Proof. exact print_tree_sound_refuted_pow. Qed.
Print Assumptions C07_print_tree_sound_refuted_pow.

(* FULL STATEMENT: ... std_eval Sigma_t I (print_dag t) = Some (eval I t).  Proved for the same
   fragment [wfp] as the tree printer (every operator except Pow; same side conditions), all
   interpretations: the let-DAG text has the value of the formula.  Invariant (proofs file): every
   let-name .def_N is fresh for all names the printed term can look up (its free symbols, which the
   printer avoids, and theory symbols); each memoised text evaluates, in the environment built by
   the lets written so far, to the value of its term; quantifier bodies are printed by a fresh
   printer whose let-names may shadow outer ones but never a name the body uses. *)
Theorem C07_print_dag_sound_partial : forall Sg I t,
  wfp Sg [] t -> wf_interp I -> std_eval Sg I (print_dag t) = Some (eval I t).
Proof. exact print_dag_sound_partial. Qed.
Print Assumptions C07_print_dag_sound_partial.

(* the same in any scope: under binders, and in an environment rho1 that already contains other
   bindings (outer lets) as long as it agrees with a clean one on the names t can look up *)
Theorem C07_print_dag_sound_in_scope : forall Sg I t bound rho2 J rho1,
  wfp Sg bound t -> env_rel I bound rho2 J -> bound_good bound -> wf_interp J ->
  (forall n, relevant (Oracles.fv t) n -> assoc n rho1 = assoc n rho2) ->
  seval Sg I rho1 (print_dag t) = Some (eval J t).
Proof. intros Sg I t. exact (dag_sound Sg I (tsize t) t (Nat.le_refl _)). Qed.

(* the let-names the printer picks are never taken *)
Theorem C07_new_symbol_fresh : forall names seed,
  let '(sym, seed') := new_symbol names seed in
  exists k, sym = def_name k /\ seed' = S k /\ (seed <= k)%nat /\ ~ In sym names.
Proof. exact new_symbol_fresh. Qed.

(* ---------------------------------------------------------------------------------------------
   STATIC HALF.  The text of the tree printer is WELL-SORTED in the SMT-LIB reading (core/SmtStd.v:
   ssort), at the sort the type checker gives the formula, in any scope of binders.  Side conditions
   beyond [wfp]: [srt] - no term of a function sort (C03's open finding lets Equals / Ite take
   function-typed symbols, SMT-LIB's = and ite do not), extract indices ordered, the sort of an
   array value reads back exactly. *)
Theorem C07_print_tree_sorted : forall Sg t bound ty,
  wfp Sg bound t -> srt Sg t -> tc t = Some ty -> bound_good bound ->
  ssort Sg bound (print_tree t) = Some ty.
Proof. exact print_tree_sorted_gen. Qed.
Print Assumptions C07_print_tree_sorted.
(* ... and so is the let-DAG text (sort-level twin of the freshness invariant of print_dag_sound), in
   any sort environment G1 that agrees with [bound] on the names t can look up *)
Theorem C07_print_dag_sorted : forall Sg t bound G1 ty,
  wfp Sg bound t -> srt Sg t -> tc t = Some ty -> bound_good bound ->
  (forall n, relevant (Oracles.fv t) n -> assoc n G1 = assoc n bound) ->
  ssort Sg G1 (print_dag t) = Some ty.
Proof. intros Sg t. exact (print_dag_sorted_gen Sg (tsize t) t (Nat.le_refl _)). Qed.
Print Assumptions C07_print_dag_sorted.

(* FULL STATEMENT: forall t dag logic, printable_names t -> std_script_ok (script_of dag logic t) = true.
   Proved for BOTH printers (dag = false / true), with every side condition explicit:
     - the logic name is a symbol;
     - each custom sort declaration reported by the (repaired) TypesOracle model has a name that
       reads back and is not a theory sort; no two declarations share a name;
     - each free symbol has a good name, names are pairwise distinct, and its sort (parameter and
       result sorts of a function symbol, which has at least one parameter) reads back over the
       declared sorts;
     - the formula is Bool-typed, lies in [wfp] over the signature [script_sig t] that the
       declarations build (so every sort used by a binder or an array value is declared, every
       free symbol is declared at its sort), and satisfies [srt].
   Conclusion: set-logic first; every declare-sort and declare-fun is accepted (declared once,
   before use, never a theory symbol); the asserted text is well-sorted of sort Bool; check-sat. *)
Theorem C07_script_wellformed_partial : forall dag logic t,
  sym_name logic <> None ->
  Forall sort_decl_ok (sort_decls t) -> NoDup (map fst (sort_decls t)) ->
  Forall (fun_decl_ok (script_sig t)) (fv t) -> NoDup (map fst (fv t)) ->
  wfp (script_sig t) [] t -> srt (script_sig t) t -> tc t = Some TBool ->
  std_script_ok (script_of dag logic t) = true.
Proof. exact script_wellformed_partial. Qed.
Print Assumptions C07_script_wellformed_partial.

(* the hypotheses are satisfiable: a custom sort S that occurs only two levels deep inside built-in
   array sorts (a : Array Int (Array Int S)), a quantifier, a sub-term shared between the matrix and
   the quantifier body; and both printers' scripts for it are well-formed (by computation) *)
Theorem C07_script_wellformed_hypotheses_satisfiable :
  sym_name "ALL" <> None /\
  Forall sort_decl_ok (sort_decls ex_term4) /\ NoDup (map fst (sort_decls ex_term4)) /\
  Forall (fun_decl_ok (script_sig ex_term4)) (fv ex_term4) /\ NoDup (map fst (fv ex_term4)) /\
  wfp (script_sig ex_term4) [] ex_term4 /\ srt (script_sig ex_term4) ex_term4 /\ tc ex_term4 = Some TBool /\
  sort_decls ex_term4 = [("S", 0%nat)].
Proof. exact ex_term4_hyps. Qed.
Theorem C07_script_wellformed_example4 :
  std_script_ok (script_of false "ALL" ex_term4) = true /\ std_script_ok (script_of true "ALL" ex_term4) = true /\
  map flatten (firstn 3 (script_of false "ALL" ex_term4)) =
    [["("; "set-logic"; "ALL"; ")"]; ["("; "declare-sort"; "S"; "0"; ")"];
     ["("; "declare-fun"; "a"; "("; ")"; "("; "Array"; "Int"; "("; "Array"; "Int"; "S"; ")"; ")"; ")"]].
Proof. exact ex_term4_script. Qed.

(* TypesOracle COMPLETENESS (reusing C12's Oracles_proofs.get_types_def; models/SmtScript.v now uses
   models/Oracles.v's get_types): every sort that has to be read - an occurring sort (sort of a
   symbol, part of a function signature, sort of a bound variable, index sort of an array value,
   sort of a constant) or the sort of an array value, anywhere in t - reads back over the signature
   the script's declarations build, provided it is well-formed (positive widths, no function sort
   inside) and the declared sort names read back and are pairwise distinct: every custom sub-sort
   of it is reported by the oracle, hence declared, with its arity. *)
Theorem C07_needed_sorts_read_back : forall t,
  Forall sort_decl_ok (sort_decls t) -> NoDup (map fst (sort_decls t)) ->
  forall s, need s t -> sort_wf s -> rb (script_sig t) s.
Proof. exact needed_sorts_read_back. Qed.
Print Assumptions C07_needed_sorts_read_back.

(* ... so the `sorts read back' hypotheses of C07_script_wellformed_partial are discharged.  What
   remains: the logic / sort / symbol NAMES read back and are pairwise distinct, function symbols
   have parameters, the sorts to be read are well-formed, the formula is Bool-typed, and the
   per-node conditions of wfp and srt - given in the form `they hold as soon as the needed sorts
   read back' ([rbs t]), which is what the theorem establishes on the way. *)
Theorem C07_script_wellformed : forall dag logic t,
  sym_name logic <> None ->
  Forall sort_decl_ok (sort_decls t) -> NoDup (map fst (sort_decls t)) ->
  Forall (fun v : var => good_name (fst v) = true /\ match snd v with TFun ps _ => ps <> [] | _ => True end) (fv t) ->
  NoDup (map fst (fv t)) ->
  (forall s, need s t -> sort_wf s) ->
  (rbs t -> wfp (script_sig t) [] t) -> (rbs t -> srt (script_sig t) t) -> tc t = Some TBool ->
  std_script_ok (script_of dag logic t) = true.
Proof. exact script_wellformed. Qed.
Print Assumptions C07_script_wellformed.
Theorem C07_script_wellformed_hypotheses_satisfiable2 :
  Forall (fun v : var => good_name (fst v) = true /\ match snd v with TFun ps _ => ps <> [] | _ => True end) (fv ex_term4) /\
  (rbs ex_term4 -> wfp (script_sig ex_term4) [] ex_term4) /\ (rbs ex_term4 -> srt (script_sig ex_term4) ex_term4).
Proof. exact ex_term4_script_hyps. Qed.

(* ONE statement for the term level: under one set of hypotheses, for both printers, the text is
   well-sorted at the sort of the formula AND has the value of the formula under every well-formed
   interpretation. *)
Theorem C07_print_wellsorted_and_sound : forall Sg I t ty,
  wfp Sg [] t -> srt Sg t -> tc t = Some ty -> wf_interp I ->
  (std_sort Sg (print_tree t) = Some ty /\ std_eval Sg I (print_tree t) = Some (eval I t)) /\
  (std_sort Sg (print_dag t) = Some ty /\ std_eval Sg I (print_dag t) = Some (eval I t)).
Proof. exact print_wellsorted_and_sound. Qed.
Print Assumptions C07_print_wellsorted_and_sound.

(* the two witnesses that refuted script well-formedness before the repairs of 2026-09 (a parametric
   sort used at two instances; custom sorts occurring only under a function application / as the
   index sort of an array value, one of them with a name that needs quoting) and the example terms
   of the soundness theorems, by computation, both printers: *)
Theorem C07_script_wellformed_param_sort :
  tc param_witness = Some TBool /\
  (forall dag, std_script_ok (script_of dag "QF_UF" param_witness) = true) /\
  map flatten (firstn 3 (script_of false "QF_UF" param_witness)) =
    [["("; "set-logic"; "QF_UF"; ")"]; ["("; "declare-sort"; "List"; "1"; ")"];
     ["("; "declare-fun"; "l1"; "("; ")"; "("; "List"; "Int"; ")"; ")"]].
Proof. exact script_wellformed_param_sort. Qed.
Theorem C07_script_wellformed_sorts_declared :
  tc undeclared_sort_witness = Some TBool /\
  (forall dag, std_script_ok (script_of dag "QF_UFLIA" undeclared_sort_witness) = true) /\
  map flatten (firstn 2 (List.tl (script_of false "QF_UFLIA" undeclared_sort_witness))) =
    [["("; "declare-sort"; "U"; "0"; ")"]; ["("; "declare-sort"; "|my sort|"; "0"; ")"]].
Proof. exact script_wellformed_sorts_declared. Qed.
Theorem C07_script_wellformed_example :
  std_script_ok (script_of false "ALL" ex_term) = true /\ std_script_ok (script_of true "ALL" ex_term) = true /\
  std_script_ok (script_of false "ALL" ex_term2) = true /\ std_script_ok (script_of true "ALL" ex_term2) = true.
Proof. exact script_wellformed_example. Qed.
Print Assumptions C07_script_wellformed_param_sort.

(* lexical layer used by the theorems above *)
Theorem C07_numeral_roundtrip : forall n, (0 <= n)%Z -> numeral_val (dec_string n) = Some n.
Proof. exact numeral_dec. Qed.
Theorem C07_bvliteral_roundtrip : forall w v, (0 < w)%Z -> (0 <= v < 2 ^ w)%Z -> bvlit_val (bv_string w v) = Some (w, v).
Proof. exact bvlit_bv. Qed.
Print Assumptions C07_bvliteral_roundtrip.

(* ---- the case analysis of the model is the dispatch of the source (gen/Operators.v and gen/Dispatch.v are
   REGENERATED from pysmt/operators.py and the walker classes on every run; qualified names only) *)
From PySMT.gen Require Operators Dispatch.
From PySMT.proofs Require Operators_proofs Dispatch_common Dispatch_printers_proofs.
Theorem C07_operator_table_matches_source :
  (forall n, List.In n Operators.all_node_types) /\
  (forall a b, Operators.nt_id a = Operators.nt_id b -> a = b) /\
  (forall o, Operators.nt_modelled (Operators.nt_of_op o) = true) /\
  (forall n, Operators.nt_modelled n = false <-> n = Operators.NT_ALGEBRAIC_CONSTANT).
Proof.
  exact (conj Operators_proofs.all_node_types_complete (conj Operators_proofs.nt_id_injective
         (conj Operators_proofs.nt_of_op_modelled Operators_proofs.only_algebraic_constant_unmodelled))).
Qed.

Theorem C07_printer_spellings_match_source :
  (forall o s, Dispatch.smtprinter_nary_symbol (Operators.nt_of_op o) = Some s -> op_head o = Some (Atom s)) /\
  (forall n, Dispatch.smtprinter_nary_symbol n = Dispatch.smtdagprinter_nary_symbol n).
Proof. exact (conj Dispatch_printers_proofs.smtprinter_spellings_match_source Dispatch_printers_proofs.smt_printers_agree). Qed.
Theorem C07_printer_dispatch_matches_source :
  (forall n, Dispatch.smtprinter_dispatch n = Dispatch_printers_proofs.smt_expected "write_annotations" n) /\
  (forall n, Dispatch.smtdagprinter_dispatch n = Dispatch_printers_proofs.smt_expected "write_annotations_dag" n).
Proof. exact (conj Dispatch_printers_proofs.smtprinter_dispatch_matches_source Dispatch_printers_proofs.smtdagprinter_dispatch_matches_source). Qed.
Print Assumptions C07_printer_spellings_match_source.
