(* C07 - SMT-LIB export is well-formed and means the same.  Statements only.
   Specification: core/SmtStd.v (SMT-LIB 2.6 at s-expression level) and core/Sem.v.
   Models: models/SmtPrinter.v (SmtPrinter, SmtDagPrinter), models/SmtScript.v. *)
From Coq Require Import List ZArith String.
From PySMT.core Require Import Syntax Sem SmtStd.
From PySMT.models Require Import TypeChecker SmtPrinter SmtScript.
From PySMT.proofs Require Import SmtPrinter_proofs.
Import ListNotations.
Open Scope string_scope.

(* FULL STATEMENT (false of the faithful model, see the _refuted theorems):
     forall t ty I, tc t = Some ty -> printable_names t ->
       std_eval Sigma_t I (print_tree t) = Some (eval I t).
   Proved part: every term of the fragment [wfp Sg [] t] (all operators except Pow - refuted -
   and, not proved yet, the indexed BV operators, string constants and array values), every signature declaring its free symbols, every well-formed interpretation, any
   nesting of binders. *)
Theorem C07_print_tree_sound_partial : forall Sg I t,
  wfp Sg [] t -> wf_interp I -> std_eval Sg I (print_tree t) = Some (eval I t).
Proof. exact print_tree_sound_partial. Qed.
Print Assumptions C07_print_tree_sound_partial.

(* the same under any enclosing binders: [bound] = variables bound outside, [rho] their values in
   the text's environment, [J] the interpretation that binds them *)
Theorem C07_print_tree_sound_under_binders : forall Sg I t bound rho J,
  wfp Sg bound t -> env_rel I bound rho J -> bound_good bound -> wf_interp J ->
  seval Sg I rho (print_tree t) = Some (eval J t).
Proof. exact print_tree_sound_gen. Qed.
Print Assumptions C07_print_tree_sound_under_binders.

Theorem C07_print_tree_sound_hypotheses_satisfiable : wfp ex_sig [] ex_term /\ tc ex_term = Some TBool.
Proof. exact (conj ex_term_wfp ex_term_typed). Qed.

(* the spellings repaired in 2026-09 (str.to_int, str.from_int, div on Int operands) are in the
   fragment: a term using them satisfies the hypotheses, is printed with the SMT-LIB 2.6 names and
   its text is well-sorted *)
Theorem C07_print_tree_repaired_spellings :
  wfp sig_sxr [] ex_term2 /\ tc ex_term2 = Some TBool /\
  flatten (print_tree ex_term2) =
    ["("; "and"; "("; "="; "("; "str.to_int"; "s"; ")"; "("; "div"; "x"; "y"; ")"; ")";
     "("; "="; "("; "str.from_int"; "x"; ")"; "s"; ")";
     "("; "<"; "("; "/"; "r"; "r"; ")"; "("; "/"; "1.0"; "2.0"; ")"; ")"; ")"] /\
  std_sort sig_sxr (print_tree ex_term2) = Some TBool.
Proof. exact print_tree_repaired_spellings. Qed.

(* still refuted: Pow has no SMT-LIB spelling *)
Theorem C07_print_tree_sound_refuted_pow :
  exists t, tc t = Some TReal /\ print_tree t = SList [Atom "pow"; Atom "r"; Atom "2.0"] /\
            forall I, std_eval sig_sxr I (print_tree t) = None.
Proof. exact print_tree_sound_refuted_pow. Qed.
Print Assumptions C07_print_tree_sound_refuted_pow.

(* FULL STATEMENT: ... std_eval Sigma_t I (print_dag t) = Some (eval I t).  Proved part, for ALL
   terms: the DAG printer's output is a chain of single-binding lets around the root's text and
   means that text in the environment the lets build in order; that every bound text denotes its
   term (freshness of let-names) is not proved - covered by the correspondence and the reader. *)
Theorem C07_print_dag_sound_partial : forall Sg I t rho',
  let st := dag_visit (names_of t) t dst0 in
  lets_env Sg I (List.rev (d_lets st)) [] = Some rho' ->
  std_eval Sg I (print_dag t) =
  seval Sg I rho' (match memo_get t (d_memo st) with Some r => r | None => Atom "?" end).
Proof. exact print_dag_sound_partial. Qed.
Print Assumptions C07_print_dag_sound_partial.

(* FULL STATEMENT: forall t dag logic, printable_names t -> std_script_ok (script_of dag logic t) = true.
   Not proved in general (it needs the static-sorting half); the two witnesses that refuted it
   before the repairs of 2026-09 (a parametric sort used at two instances; custom sorts occurring
   only under a function application / as the index sort of an array value, one of them with a
   name that needs quoting) are now well-formed scripts, like the example terms: *)
Theorem C07_script_wellformed_param_sort :
  tc param_witness = Some TBool /\
  (forall dag, std_script_ok (script_of dag "QF_UF" param_witness) = true) /\
  map flatten (firstn 3 (script_of false "QF_UF" param_witness)) =
    [["("; "set-logic"; "QF_UF"; ")"]; ["("; "declare-sort"; "List"; "1"; ")"];
     ["("; "declare-fun"; "l1"; "("; ")"; "("; "List"; "Int"; ")"; ")"]].
Proof. exact script_wellformed_param_sort. Qed.
Theorem C07_script_wellformed_sorts_declared :
  tc undeclared_sort_witness = Some TBool /\
  (forall dag, std_script_ok (script_of dag "QF_UFLIA" undeclared_sort_witness) = true) /\
  map flatten (firstn 2 (List.tl (script_of false "QF_UFLIA" undeclared_sort_witness))) =
    [["("; "declare-sort"; "U"; "0"; ")"]; ["("; "declare-sort"; "|my sort|"; "0"; ")"]].
Proof. exact script_wellformed_sorts_declared. Qed.
Theorem C07_script_wellformed_example :
  std_script_ok (script_of false "ALL" ex_term) = true /\ std_script_ok (script_of true "ALL" ex_term) = true /\
  std_script_ok (script_of false "ALL" ex_term2) = true /\ std_script_ok (script_of true "ALL" ex_term2) = true.
Proof. exact script_wellformed_example. Qed.
Print Assumptions C07_script_wellformed_param_sort.

(* lexical layer used by the theorems above *)
Theorem C07_numeral_roundtrip : forall n, (0 <= n)%Z -> numeral_val (dec_string n) = Some n.
Proof. exact numeral_dec. Qed.
Theorem C07_bvliteral_roundtrip : forall w v, (0 < w)%Z -> (0 <= v < 2 ^ w)%Z -> bvlit_val (bv_string w v) = Some (w, v).
Proof. exact bvlit_bv. Qed.
Print Assumptions C07_bvliteral_roundtrip.
