(* C07 - SMT-LIB export is well-formed and means the same.  Statements only.
   Specification: core/SmtStd.v (SMT-LIB 2.6 at s-expression level) and core/Sem.v.
   Models: models/SmtPrinter.v (SmtPrinter, SmtDagPrinter), models/SmtScript.v. *)
From Coq Require Import List ZArith String.
From PySMT.core Require Import Syntax Sem SmtStd.
From PySMT.models Require Import TypeChecker SmtPrinter SmtScript.
From PySMT.proofs Require Import SmtPrinter_proofs.
Import ListNotations.
Open Scope string_scope.

(* FULL STATEMENT (false of the faithful model, see the _refuted theorems):
     forall t ty I, tc t = Some ty -> printable_names t ->
       std_eval Sigma_t I (print_tree t) = Some (eval I t).
   Proved part: every term of the fragment [wfp Sg [] t] (all operators except Pow, StrToInt,
   IntToStr - refuted - and, not proved yet, the indexed BV operators, string constants and array
   values), every signature declaring its free symbols, every well-formed interpretation, any
   nesting of binders. *)
Theorem C07_print_tree_sound_partial : forall Sg I t,
  wfp Sg [] t -> wf_interp I -> std_eval Sg I (print_tree t) = Some (eval I t).
Proof. exact print_tree_sound_partial. Qed.
Print Assumptions C07_print_tree_sound_partial.

(* the same under any enclosing binders: [bound] = variables bound outside, [rho] their values in
   the text's environment, [J] the interpretation that binds them *)
Theorem C07_print_tree_sound_under_binders : forall Sg I t bound rho J,
  wfp Sg bound t -> env_rel I bound rho J -> bound_good bound -> wf_interp J ->
  seval Sg I rho (print_tree t) = Some (eval J t).
Proof. exact print_tree_sound_gen. Qed.
Print Assumptions C07_print_tree_sound_under_binders.

Theorem C07_print_tree_sound_hypotheses_satisfiable : wfp ex_sig [] ex_term /\ tc ex_term = Some TBool.
Proof. exact (conj ex_term_wfp ex_term_typed). Qed.

Theorem C07_print_tree_sound_refuted_str_to_int :
  exists t, tc t = Some TInt /\ print_tree t = SList [Atom "str.to.int"; Atom "s"] /\
            forall I, std_eval sig_sxr I (print_tree t) = None.
Proof. exact print_tree_sound_refuted_str_to_int. Qed.
Theorem C07_print_tree_sound_refuted_int_to_str :
  exists t, tc t = Some TStr /\ print_tree t = SList [Atom "int.to.str"; Atom "x"] /\
            forall I, std_eval sig_sxr I (print_tree t) = None.
Proof. exact print_tree_sound_refuted_int_to_str. Qed.
Theorem C07_print_tree_sound_refuted_pow :
  exists t, tc t = Some TReal /\ print_tree t = SList [Atom "pow"; Atom "r"; Atom "2.0"] /\
            forall I, std_eval sig_sxr I (print_tree t) = None.
Proof. exact print_tree_sound_refuted_pow. Qed.
Theorem C07_print_tree_sorted_refuted_int_div :
  exists t, tc t = Some TInt /\ print_tree t = SList [Atom "/"; Atom "x"; Atom "y"] /\
            std_sort sig_sxr (print_tree t) = None.
Proof. exact print_tree_sorted_refuted_int_div. Qed.
Print Assumptions C07_print_tree_sound_refuted_str_to_int.
Print Assumptions C07_print_tree_sorted_refuted_int_div.

(* FULL STATEMENT: ... std_eval Sigma_t I (print_dag t) = Some (eval I t).  Proved part, for ALL
   terms: the DAG printer's output is a chain of single-binding lets around the root's text and
   means that text in the environment the lets build in order; that every bound text denotes its
   term (freshness of let-names) is not proved - covered by the correspondence and the reader. *)
Theorem C07_print_dag_sound_partial : forall Sg I t rho',
  let st := dag_visit (names_of t) t dst0 in
  lets_env Sg I (List.rev (d_lets st)) [] = Some rho' ->
  std_eval Sg I (print_dag t) =
  seval Sg I rho' (match memo_get t (d_memo st) with Some r => r | None => Atom "?" end).
Proof. exact print_dag_sound_partial. Qed.
Print Assumptions C07_print_dag_sound_partial.

(* FULL STATEMENT: forall t dag logic, printable_names t -> std_script_ok (script_of dag logic t) = true.
   False of the faithful model: *)
Theorem C07_script_wellformed_refuted_param_sort :
  tc param_witness = Some TBool /\
  (forall dag, std_script_ok (script_of dag "QF_UF" param_witness) = false) /\
  map flatten (firstn 3 (script_of false "QF_UF" param_witness)) =
    [["("; "set-logic"; "QF_UF"; ")"]; ["("; "declare-sort"; "List"; "1"; ")"]; ["("; "declare-sort"; "List"; "1"; ")"]].
Proof. exact script_wellformed_refuted_param_sort. Qed.
Theorem C07_script_wellformed_refuted_sort_not_declared :
  tc undeclared_sort_witness = Some TBool /\
  (forall dag, std_script_ok (script_of dag "QF_UFLIA" undeclared_sort_witness) = false) /\
  custom_types undeclared_sort_witness = [].
Proof. exact script_wellformed_refuted_sort_not_declared. Qed.
Theorem C07_script_wellformed_example :
  std_script_ok (script_of false "ALL" ex_term) = true /\ std_script_ok (script_of true "ALL" ex_term) = true.
Proof. exact script_wellformed_example. Qed.
Print Assumptions C07_script_wellformed_refuted_param_sort.

(* lexical layer used by the theorems above *)
Theorem C07_numeral_roundtrip : forall n, (0 <= n)%Z -> numeral_val (dec_string n) = Some n.
Proof. exact numeral_dec. Qed.
Theorem C07_bvliteral_roundtrip : forall w v, (0 < w)%Z -> (0 <= v < 2 ^ w)%Z -> bvlit_val (bv_string w v) = Some (w, v).
Proof. exact bvlit_bv. Qed.
Print Assumptions C07_bvliteral_roundtrip.
