(* C01 - Simplification preserves type and meaning: what is proved about the executable model
   models/Simplifier.v without a semantic domain.  Statements only. *)
From Coq Require Import List ZArith Bool String.
From PySMT.core Require Import Syntax PyPrims.
From PySMT.models Require Import TypeChecker Oracles Ctors Simplifier.
From PySMT.proofs Require Import Simplifier_proofs.
Import ListNotations.

Theorem C01_simplify_idempotent_on_constants : forall ora o,
  match o with OBoolC _ | OIntC _ | ORealC _ _ | OBVC _ _ | OStrC _ => True | _ => False end ->
  simplify_opt ora (T o []) = Some (T o []).
Proof. exact simplify_constant. Qed.

Print Assumptions C01_simplify_idempotent_on_constants.
