(* C01 - Simplification preserves type and meaning.  Theorems about the executable model
   models/Simplifier.v (tied to pysmt/simplifier.py by harness/c01.py on every run).  Statements
   only; every statement holds for EVERY order oracle [ora], i.e. for every order in which the
   implementation may emit the arguments of And / Or / Times and the quantified variables.

   Full statement (the goal):
     forall ora I t ty r, tc t = Some ty -> wf_interp I -> div_safe I t ->
       simplify_opt ora t = Some r -> tc r = Some ty /\ eval I r = eval I t
   Proved so far for the fragment [in_frag] (proofs/SimplifierSem_proofs.v, [ok_node]):
     stage 1: And Or Not Implies Iff Ite Equals, symbols, the five kinds of constants, function
     applications, ForAll / Exists;
     stage 2: Plus Times Minus LE LT ToReal Div on Int and Real, and Pow with an integer constant
     exponent of either sign (Sem.vpow: x ^ (-n) = 1 / x ^ n; 0 ^ (-n) is a division by zero, with
     the unconstrained value rdiv0 I 1 - the simplifier folds a negative power only of a non-zero
     constant and RAISES on 0 ^ negative, which is the open finding: simplify_opt = None there);
     stage 3: bit-vector not neg and or xor add sub mul udiv urem sdiv srem shl lshr ashr concat
     comp, ult ule slt sle, bv2nat, extract rol ror zext sext - every bit-vector operator (the
     bit-string rules go through core/PyPrimsLemmas.v: bin_str / int_of_bits / slices against
     div and mod by powers of two).  For zext / sext [in_frag] asks that the payload width is
     the argument width plus the extension (what the constructor computes);
     stage 4: Select Store ArrayValue and Equals on arrays (proofs/SimplifierSemArr_proofs.v).
     Array VALUES of the fragment are in the canonical form of the constructor Array() and of the
     model ([arr_node_ok]): the index sort is not an array sort, the indices are constants of
     Bool / Int / Real / BV / String sort, strictly increasing in the model's order of index
     constants (Ctors.const_key; the implementation keeps a dict, the model and the harness keep
     this order), and no assigned value is syntactically the default.  walk_equals decides the equality of two
     constant array values extensionally (const_eqb_sound): over Bool / BV(w) two values whose
     assigned indices cover the sort are equal whatever their defaults - core/Sem.v's array
     values are canonical outside their index sort, so this is Leibniz equality there too (a
     counting argument over the keys of the sort).  Array-sorted
     symbols, Select, Store, Ite, Equals on arrays are unrestricted;
     stage 5: the string operators length concat contains indexof replace substr prefixof
     suffixof to_int from_int charat (proofs/SimplifierSemStr_proofs.v), with the arities of the
     constructors (concat: at least two arguments).  Python's find / replace / startswith /
     endswith / slices / int() / str() as modelled in core/PyPrims.v are related to Sem.v's
     sfind sreplace sprefix ssuffix ssub sto_int sfrom_int there (str(): the model prints 16
     digits per long division, Sem.v one digit at a time; both are the decimal digits).
   Every operator of the term language is now in the fragment; what [in_frag] leaves out: Pow
   with a non-integer or non-constant exponent, and array values outside the canonical
   form above (array-sorted indices, non-constant / unsorted / duplicate indices, a value that is
   syntactically the default).
   [in_frag] also asks what the constructors guarantee and tc does not check: arities, BV
   constants in range with positive width, Real constants with positive denominator IN LOWEST
   TERMS (Real() makes a Fraction; lowest_terms_inj: such constants denote different reals), and that
   the sorts of symbols, bound variables and function results are inhabited first-order sorts
   ([inhb]: positive widths, no function sort inside) - the hypothesis used by the rules that
   drop unused quantified variables.
   Interpretations: [wfi I] is the boolean form of Sem.wf_interp (equivalent: wf_interp_wfi);
   the theorem is stated under both. *)
From Coq Require Import List ZArith Bool String.
From PySMT.core Require Import Syntax PyPrims.
From PySMT.models Require Import TypeChecker Oracles Ctors Simplifier.
From PySMT.core Require Import Sem.
From PySMT.proofs Require Import Simplifier_proofs SimplifierFold_proofs SimplifierSem_proofs SimplifierFoldComplete_proofs SimplifierFoldWide_proofs.
Import ListNotations.

(* "It never mentions a symbol that is not free in the original" - for all terms (no fragment
   restriction), function names counted as symbols; [None] = the implementation raises. *)
Theorem C01_simplify_no_new_symbols : forall ora t r,
  simplify_opt ora t = Some r -> incl (fv r) (fv t).
Proof. exact simplify_no_new_symbols. Qed.
Theorem C01_simplify_total_no_new_symbols : forall ora t, incl (fv (simplify_with ora t)) (fv t).
Proof. exact simplify_with_no_new_symbols. Qed.

(* type and value preservation on the fragment *)
Theorem C01_simplify_sound_partial : forall ora I t ty r,
  in_frag t = true -> tc t = Some ty -> wfi I -> div_safe I t -> simplify_opt ora t = Some r ->
  tc r = Some ty /\ eval I r = eval I t.
Proof. exact simplify_sound_partial. Qed.
Theorem C01_simplify_sound_partial_wf : forall ora I t ty r,
  in_frag t = true -> tc t = Some ty -> wf_interp I -> div_safe I t -> simplify_opt ora t = Some r ->
  tc r = Some ty /\ eval I r = eval I t.
Proof. exact simplify_sound_partial_wf. Qed.
Theorem C01_simplify_frag_closed : forall ora t ty r,
  in_frag t = true -> tc t = Some ty -> simplify_opt ora t = Some r -> in_frag r = true.
Proof. exact simplify_frag_closed. Qed.
(* (for C02) closed, quantifier-free, UF-free terms of the fragment - [cfrag]: operators And Or Not
   Implies Iff Ite Equals Plus Times Minus LE LT ToReal Div Pow (non-negative exponents only:
   [pownn], since 0 ^ negative raises), every bit-vector operator and
   relation of the fragment, bv2nat, and constants only - in which no
   divisor evaluates to 0 ([nodiv0], every branch counted) simplify to a CONSTANT of the same
   sort with the same value *)
Theorem C01_fold_complete_partial : forall ora I t ty,
  cfrag t = true -> tc t = Some ty -> wfi I -> nodiv0 I t ->
  exists c, simplify_opt ora t = Some c /\ is_const c = true /\ tc c = Some ty /\ eval I c = eval I t.
Proof. exact fold_complete_partial. Qed.
(* (for C02) the same on a WIDER fragment [wfrag] (proofs/SimplifierFoldWide_proofs.v): additionally every string
   operator and Select / Store / ArrayValue / Equals / Ite over constant array values; the result is a constant in
   the sense of Ctors.is_constant (a scalar constant, or an array value all of whose components are constants),
   of the sort of the term, inside the fragment, with the value of the term.  Extra side condition [strlim]: the
   argument of every str.to_int has at most 4300 characters and the argument of every str.from_int is below
   10^4300 (CPython's int <-> str limit modelled by core/PyPrims.v, beyond which the rule leaves the node). *)
Theorem C01_fold_complete_wide_partial : forall ora I t ty,
  wfrag t = true -> tc t = Some ty -> wfi I -> nodiv0 I t -> strlim I t ->
  exists c, simplify_opt ora t = Some c /\ is_constant c = true /\ okt c = true /\ tc c = Some ty /\ eval I c = eval I t.
Proof. exact fold_complete_wide. Qed.
Theorem C01_cfrag_in_wfrag : forall t, cfrag t = true -> wfrag t = true.
Proof. exact cfrag_wfrag. Qed.
Theorem C01_wfi_satisfiable : wfi I0.
Proof. exact wfi_I0. Qed.

(* constants are fixed points *)
Theorem C01_simplify_idempotent_on_constants : forall ora o,
  match o with OBoolC _ | OIntC _ | ORealC _ _ | OBVC _ _ | OStrC _ => True | _ => False end ->
  simplify_opt ora (T o []) = Some (T o []).
Proof. exact simplify_constant. Qed.

(* for the operators of [fold_op] (all bit-vector operators and relations, bv2nat, Not, Iff,
   Implies): constant arguments are folded to a constant whenever the rule returns *)
Theorem C01_simplify_const_args_fold : forall ora o args r,
  fold_op o = true -> Forall (fun a => arg_const_for o a = true) args ->
  rule ora o args = Some r -> is_const r = true.
Proof. exact const_args_fold. Qed.

Print Assumptions C01_simplify_sound_partial.
Print Assumptions C01_simplify_frag_closed.
Print Assumptions C01_fold_complete_partial.
Print Assumptions C01_fold_complete_wide_partial.
Print Assumptions C01_simplify_no_new_symbols.
Print Assumptions C01_simplify_total_no_new_symbols.
Print Assumptions C01_simplify_idempotent_on_constants.
Print Assumptions C01_simplify_const_args_fold.

(* ---- the case analysis of the model is the dispatch of the source (gen/Operators.v and gen/Dispatch.v are
   REGENERATED from pysmt/operators.py and the walker classes on every run; qualified names only) *)
From PySMT.gen Require Operators Dispatch.
From PySMT.proofs Require Operators_proofs Dispatch_common Dispatch_simplifier_proofs.
Theorem C01_operator_table_matches_source :
  (forall n, List.In n Operators.all_node_types) /\
  (forall a b, Operators.nt_id a = Operators.nt_id b -> a = b) /\
  (forall o, Operators.nt_modelled (Operators.nt_of_op o) = true) /\
  (forall n, Operators.nt_modelled n = false <-> n = Operators.NT_ALGEBRAIC_CONSTANT).
Proof.
  exact (conj Operators_proofs.all_node_types_complete (conj Operators_proofs.nt_id_injective
         (conj Operators_proofs.nt_of_op_modelled Operators_proofs.only_algebraic_constant_unmodelled))).
Qed.

Theorem C01_simplifier_dispatch_matches_source :
  (forall n, Dispatch.simplifier_dispatch n =
             if (Operators.nt_eqb n Operators.NT_SYMBOL || Operators.nt_in Operators.G_CONSTANTS n)%bool
             then "walk_identity"%string else Dispatch_common.default_handler n) /\
  (forall ora o args, Dispatch.simplifier_dispatch (Operators.nt_of_op o) = "walk_identity"%string ->
                      rule ora o args = Some (T o args)).
Proof.
  exact (conj Dispatch_simplifier_proofs.simplifier_dispatch_matches_source
              Dispatch_simplifier_proofs.walk_identity_is_the_leaf_arm).
Qed.
Print Assumptions C01_simplifier_dispatch_matches_source.
