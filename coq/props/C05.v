(* C05 - substitution obeys the substitution lemma and the documented replacement order.
   Statements + exact + Print Assumptions only.  Models: models/Substituter.v (tied to
   pysmt/substituter.py + walkers/identitydag.py by harness/c05.py, exact structural equality).

   FULL statement aimed at (kept visible; the proved part carries the explicit fragment):
     subst_lemma : sym_keys s -> no_capture s t -> tc t = Some ty -> map_typed s -> wf I ->
                   subst_mgs s t = Some t' -> eval I t' = eval (upd I s) t          (all operators)
     the same for subst_mss, and  mgs_mss_sym : sym_keys s -> subst_mgs s t = subst_mss s t
     interp_lemma : eval I (subst_interp p t) = eval (I with f := fun vs => eval (I + params := vs) body) t
     subst_typed  : map_typed s -> tc t = Some ty -> subst_mgs s t = Some t' -> tc t' = Some ty
   Proved here:
   * the lemma for MGS (the default strategy) on the fragment [frag] (every operator except Pow,
     array values, ToReal, BV rotate/extend; n-ary nodes with >= 2 arguments; no negation directly
     under a negation or as a divisor) for replacement terms whose negations are Bool-valued by
     construction ([neg_values_ok]) - C05_subst_lemma_partial;
   * the MSS statement and mgs_mss_sym are REFUTED by the faithful model (C05_subst_lemma_mss_refuted,
     C05_mgs_mss_sym_refuted; witness replayed on the implementation by harness/c05.py, listed in
     known_findings.json); they hold when no replacement term is a negation
     (C05_mgs_mss_sym_partial, C05_subst_lemma_mss_partial);
   * bound occurrences are never replaced, both strategies (C05_bound_untouched_mgs/_mss);
   * most-general: a key is replaced as a whole whenever the call returns (C05_mgs_key_first); the
     call can raise below a key (C05_mgs_key_raises_witness, known finding).
   interp_lemma and subst_typed are NOT proved: covered by the correspondence (exact structural
   equality, create_node's type check is part of the model) and the refeval search oracle only. *)
From Coq Require Import List ZArith Bool String.
From PySMT.core Require Import Syntax Sem.
From PySMT.models Require Import TypeChecker Oracles Substituter.
From PySMT.proofs Require Import Substituter_proofs.
Import ListNotations.

(* substitution lemma, most-general substitution (default), for all terms of the fragment, all
   symbol-keyed maps satisfying the proviso, all interpretations whose Bool symbols are Boolean *)
Theorem C05_subst_lemma_partial : forall s t I t',
  sym_keys s -> neg_values_ok s -> frag t = true -> no_capture s t -> bool_interp I ->
  subst_mgs s t = Some t' -> eval I t' = eval (upd I s) t.
Proof. exact subst_lemma_partial. Qed.
Print Assumptions C05_subst_lemma_partial.

(* the same statement for the most-specific substitution is false of the faithful model *)
Theorem C05_subst_lemma_mss_refuted :
  exists s t t' I, sym_keys s /\ neg_values_ok s /\ frag t = true /\ no_capture s t /\ bool_interp I /\
                   subst_mss s t = Some t' /\ eval I t' <> eval (upd I s) t.
Proof. exact subst_lemma_mss_refuted. Qed.
Print Assumptions C05_subst_lemma_mss_refuted.

(* on symbol keys the two strategies do NOT coincide (type-correct map, node of the manager) *)
Theorem C05_mgs_mss_sym_refuted :
  exists s t, sym_keys s /\ canon t = true /\ (forall k v, In (k, v) s -> tc v = tc k) /\
              subst_mgs s t <> subst_mss s t.
Proof. exact mgs_mss_sym_refuted. Qed.
Print Assumptions C05_mgs_mss_sym_refuted.

(* occurrences bound by a quantifier are never replaced (both strategies, any interpretations):
   an entry whose key mentions a bound variable does not affect the quantified formula *)
Theorem C05_bound_untouched_mgs : forall p s k v fa vs b x,
  In x vs -> In x (fv k) -> k <> T (quant_op fa vs) [b] ->
  subst_mgs_i p ((k, v) :: s) (T (quant_op fa vs) [b]) = subst_mgs_i p s (T (quant_op fa vs) [b]).
Proof. exact bound_untouched_mgs. Qed.
Print Assumptions C05_bound_untouched_mgs.

Theorem C05_bound_untouched_mss : forall p s k v fa vs b x,
  In x vs -> In x (fv k) ->
  subst_mss_i p ((k, v) :: s) (T (quant_op fa vs) [b]) = subst_mss_i p s (T (quant_op fa vs) [b]).
Proof. exact bound_untouched_mss. Qed.
Print Assumptions C05_bound_untouched_mss.

(* the hypotheses of the lemma are satisfiable by a non-trivial instance, and the proviso matters *)
Theorem C05_subst_lemma_example :
  sym_keys ex_s /\ neg_values_ok ex_s /\ frag ex_t = true /\ no_capture ex_s ex_t /\ bool_interp ex_I /\
  subst_mgs ex_s ex_t
  = Some (T OAnd [T (OForall [("y"%string, TInt)]) [T OLt [T OPlus [ex_z; TIntC 1]; ex_y]]; ex_c]).
Proof. exact subst_lemma_example. Qed.
Print Assumptions C05_subst_lemma_example.

(* most-general replacement: when the call returns, a key is replaced as a whole ... *)
Theorem C05_mgs_key_first : forall p s t t' v,
  subst_mgs_i p s t = Some t' -> lookup s t = Some v -> t' = v.
Proof. exact mgs_key_first. Qed.
Print Assumptions C05_mgs_key_first.

(* ... but the call may raise below a key (type-correct map, node of the manager) *)
Theorem C05_mgs_key_raises_witness :
  exists s t v, lookup s t = Some v /\ (forall k v', In (k, v') s -> tc v' = tc k) /\ canon t = true /\
                args_ok s t = true /\ subst_mgs s t = None.
Proof. exact mgs_key_raises_witness. Qed.
Print Assumptions C05_mgs_key_raises_witness.

(* where the two strategies do coincide on symbol keys: no replacement term is a negation *)
Theorem C05_mgs_mss_sym_partial : forall t s,
  sym_keys s -> no_neg_values s -> frag t = true -> subst_mgs s t = subst_mss s t.
Proof. exact mgs_mss_sym_partial. Qed.
Print Assumptions C05_mgs_mss_sym_partial.

(* and there the most-specific substitution obeys the lemma too *)
Theorem C05_subst_lemma_mss_partial : forall s t I t',
  sym_keys s -> no_neg_values s -> (forall k v, In (k, v) s -> realc_ok v) ->
  frag t = true -> no_capture s t -> bool_interp I ->
  subst_mss s t = Some t' -> eval I t' = eval (upd I s) t.
Proof. exact subst_lemma_mss_partial. Qed.
Print Assumptions C05_subst_lemma_mss_partial.
