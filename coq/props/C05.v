(* C05 - substitution obeys the substitution lemma and the documented replacement order.
   Statements + exact + Print Assumptions only.  Models: models/Substituter.v (tied to
   pysmt/substituter.py + walkers/identitydag.py by harness/c05.py, exact structural equality).

   FULL statement aimed at (kept visible; the proved part carries the explicit fragment):
     subst_lemma : sym_keys s -> no_capture s t -> tc t = Some ty -> map_typed s -> wf I ->
                   subst_mgs s t = Some t' -> eval I t' = eval (upd I s) t          (all operators)
     the same for subst_mss, and  mgs_mss_sym : sym_keys s -> subst_mgs s t = subst_mss s t
     interp_lemma : eval I (subst_interp p t) = eval (I with f := fun vs => eval (I + params := vs) body) t
     subst_typed  : map_typed s -> tc t = Some ty -> subst_mgs s t = Some t' -> tc t' = Some ty
   Proved here:
   * the lemma for MGS (the default strategy) on the fragment [frag] (every operator except Pow,
     array values, ToReal, BV rotate/extend; n-ary nodes with >= 2 arguments; no negation directly
     under a negation or as a divisor) for replacement terms whose negations are Bool-valued by
     construction ([neg_values_ok]) - C05_subst_lemma_partial;
   * the MSS statement and mgs_mss_sym are REFUTED by the faithful model (C05_subst_lemma_mss_refuted,
     C05_mgs_mss_sym_refuted; witness replayed on the implementation by harness/c05.py, listed in
     known_findings.json); they hold when no replacement term is a negation
     (C05_mgs_mss_sym_partial, C05_subst_lemma_mss_partial);
   * bound occurrences are never replaced, both strategies (C05_bound_untouched_mgs/_mss);
   * most-general: a key is replaced as a whole whenever the call returns (C05_mgs_key_first); the
     call can raise below a key (C05_mgs_key_raises_witness, known finding).
   interp_lemma and subst_typed are NOT proved: covered by the correspondence (exact structural
   equality, create_node's type check is part of the model) and the refeval search oracle only. *)
From Coq Require Import List ZArith Bool String.
From PySMT.core Require Import Syntax Sem.
From PySMT.models Require Import TypeChecker Oracles Substituter.
From PySMT.proofs Require Import Substituter_proofs.
Import ListNotations.

(* substitution lemma, most-general substitution (default), for all terms of the fragment, all
   symbol-keyed maps satisfying the proviso, all interpretations whose Bool symbols are Boolean *)
Theorem C05_subst_lemma_partial : forall s t I t',
  sym_keys s -> neg_values_ok s -> frag t = true -> no_capture s t -> bool_interp I ->
  subst_mgs s t = Some t' -> eval I t' = eval (upd I s) t.
Proof. exact subst_lemma_partial. Qed.
Print Assumptions C05_subst_lemma_partial.

(* the same statement for the most-specific substitution is false of the faithful model *)
Theorem C05_subst_lemma_mss_refuted :
  exists s t t' I, sym_keys s /\ neg_values_ok s /\ frag t = true /\ no_capture s t /\ bool_interp I /\
                   subst_mss s t = Some t' /\ eval I t' <> eval (upd I s) t.
Proof. exact subst_lemma_mss_refuted. Qed.
Print Assumptions C05_subst_lemma_mss_refuted.

(* on symbol keys the two strategies do NOT coincide (type-correct map, node of the manager) *)
Theorem C05_mgs_mss_sym_refuted :
  exists s t, sym_keys s /\ canon t = true /\ (forall k v, In (k, v) s -> tc v = tc k) /\
              subst_mgs s t <> subst_mss s t.
Proof. exact mgs_mss_sym_refuted. Qed.
Print Assumptions C05_mgs_mss_sym_refuted.

(* occurrences bound by a quantifier are never replaced (both strategies, any interpretations):
   an entry whose key mentions a bound variable does not affect the quantified formula *)
Theorem C05_bound_untouched_mgs : forall p s k v fa vs b x,
  In x vs -> In x (fv k) -> k <> T (quant_op fa vs) [b] ->
  subst_mgs_i p ((k, v) :: s) (T (quant_op fa vs) [b]) = subst_mgs_i p s (T (quant_op fa vs) [b]).
Proof. exact bound_untouched_mgs. Qed.
Print Assumptions C05_bound_untouched_mgs.

Theorem C05_bound_untouched_mss : forall p s k v fa vs b x,
  In x vs -> In x (fv k) ->
  subst_mss_i p ((k, v) :: s) (T (quant_op fa vs) [b]) = subst_mss_i p s (T (quant_op fa vs) [b]).
Proof. exact bound_untouched_mss. Qed.
Print Assumptions C05_bound_untouched_mss.

(* the hypotheses of the lemma are satisfiable by a non-trivial instance, and the proviso matters *)
Theorem C05_subst_lemma_example :
  sym_keys ex_s /\ neg_values_ok ex_s /\ frag ex_t = true /\ no_capture ex_s ex_t /\ bool_interp ex_I /\
  subst_mgs ex_s ex_t
  = Some (T OAnd [T (OForall [("y"%string, TInt)]) [T OLt [T OPlus [ex_z; TIntC 1]; ex_y]]; ex_c]).
Proof. exact subst_lemma_example. Qed.
Print Assumptions C05_subst_lemma_example.

(* most-general replacement: when the call returns, a key is replaced as a whole ... *)
Theorem C05_mgs_key_first : forall p s t t' v,
  subst_mgs_i p s t = Some t' -> lookup s t = Some v -> t' = v.
Proof. exact mgs_key_first. Qed.
Print Assumptions C05_mgs_key_first.

(* ... but the call may raise below a key (type-correct map, node of the manager) *)
Theorem C05_mgs_key_raises_witness :
  exists s t v, lookup s t = Some v /\ (forall k v', In (k, v') s -> tc v' = tc k) /\ canon t = true /\
                args_ok s t = true /\ subst_mgs s t = None.
Proof. exact mgs_key_raises_witness. Qed.
Print Assumptions C05_mgs_key_raises_witness.

(* where the two strategies do coincide on symbol keys: no replacement term is a negation *)
Theorem C05_mgs_mss_sym_partial : forall t s,
  sym_keys s -> no_neg_values s -> frag t = true -> subst_mgs s t = subst_mss s t.
Proof. exact mgs_mss_sym_partial. Qed.
Print Assumptions C05_mgs_mss_sym_partial.

(* and there the most-specific substitution obeys the lemma too *)
Theorem C05_subst_lemma_mss_partial : forall s t I t',
  sym_keys s -> no_neg_values s -> (forall k v, In (k, v) s -> realc_ok v) ->
  frag t = true -> no_capture s t -> bool_interp I ->
  subst_mss s t = Some t' -> eval I t' = eval (upd I s) t.
Proof. exact subst_lemma_mss_partial. Qed.
Print Assumptions C05_subst_lemma_mss_partial.

(* ====================================================================================================
   Second part (proofs/SubstituterTyped_proofs.v), using the well-formedness predicate okt and its
   lemmas okt_sound / bv_width_ok / r_array_value_sound of the C01 development
   (proofs/SimplifierSemBase_proofs.v, SimplifierSemArr_proofs.v).
   okt t = "t is built through the FormulaManager": CLOSURE is proved (C05_ctor_okt, C05_quant_okt:
   whatever the modelled constructors return from okt arguments, with a payload Python can pass -
   inhabited sorts, Fraction denominators > 0, positive BV widths, well-sorted canonically
   ordered array indexes - and accepted by create_node's type check, is okt again; Pow excluded), so
   the okt hypotheses below hold of every term obtained from symbols and constants through the
   manager's constructors.  Concretely okt asks: arities, constants in range, Real
   constants with positive denominator, inhabited sorts, zero/sign-extension payload = operand
   width + increase, array values in canonical form (constant indexes in the model's order, no
   default-valued pair).  map_ok s = every replacement term is okt and has the sort of its key.
   tfrag0 t = no Pow node and no array-value node in t;  afrag t = no Pow node in t (every other
   operator, array values included);  no_const_keys s = no key is an index constant (true of symbol keys).
   The substitution lemma (C05_subst_lemma_all_but_pow) and the interpretation lemma now cover EVERY
   operator except Pow; still _partial because of okt (well-formedness beyond tc), Pow, and - for
   interpretations - quantifier-free bodies. *)
From PySMT.proofs Require Import SimplifierSemBase_proofs SubstituterTyped_proofs.

(* subst_typed: type-correct maps - symbol keys AND arbitrary compound keys - preserve the sort
   and the well-formedness, for both strategies *)
Theorem C05_subst_typed_partial : forall t s ty t',
  map_ok s -> okt t = true -> tfrag0 t = true -> tc t = Some ty ->
  subst_mgs_i [] s t = Some t' -> okt t' = true /\ tc t' = Some ty.
Proof. exact subst_typed_mgs0. Qed.
Theorem C05_subst_typed_mss_partial : forall t s ty t',
  map_ok s -> okt t = true -> tfrag0 t = true -> tc t = Some ty ->
  subst_mss_i [] s t = Some t' -> okt t' = true /\ tc t' = Some ty.
Proof. exact subst_typed_mss0. Qed.
(* ... with array values, when no key is an index constant *)
Theorem C05_subst_typed_arr_partial : forall t s ty t',
  map_ok s -> no_const_keys s -> okt t = true -> afrag t = true -> tc t = Some ty ->
  subst_mgs_i [] s t = Some t' -> okt t' = true /\ tc t' = Some ty.
Proof. exact subst_typed_mgs_arr. Qed.
Theorem C05_subst_typed_mss_arr_partial : forall t s ty t',
  map_ok s -> no_const_keys s -> okt t = true -> afrag t = true -> tc t = Some ty ->
  subst_mss_i [] s t = Some t' -> okt t' = true /\ tc t' = Some ty.
Proof. exact subst_typed_mss_arr. Qed.

(* the substitution lemma for every operator except Pow: no arity or negation side conditions,
   replacement terms arbitrary well-formed terms of the symbol's sort, every well-formed interpretation *)
Theorem C05_subst_lemma_all_but_pow_partial : forall s t I ty t',
  sym_keys s -> map_ok s -> okt t = true -> afrag t = true -> tc t = Some ty ->
  no_capture s t -> wf_interp I -> subst_mgs s t = Some t' -> eval I t' = eval (upd I s) t.
Proof. exact subst_lemma_all_but_pow. Qed.

(* interp_lemma: substituting function interpretations = evaluating with the interpreted functions.
   with_interp I p = I with every interpreted f := fun vs => eval (I + formals := vs) body.
   interps_ok true p = every interpretation has formals of the function's parameter sorts and an okt,
   Pow-free body of the result sort that is closed except for the formals (function names
   included: what FunctionInterpretation checks).  Bodies quantifier-free (bodies_qf), or - below -
   arbitrary bodies under the capture-freeness proviso icap. *)
Theorem C05_interp_lemma_partial : forall p t ty t' I,
  interps_ok true p -> bodies_qf p -> okt t = true -> afrag t = true -> tc t = Some ty -> wf_interp I ->
  subst_interp p t = Some t' ->
  tc t' = Some ty /\ eval I t' = eval (with_interp I p) t.
Proof. exact interp_lemma_all_but_pow. Qed.
(* bodies WITH quantifiers, under the capture-freeness proviso icap p t: at every call site no bound
   variable of the body captures a free symbol of an actual parameter (the analogue of no_capture) *)
Theorem C05_interp_lemma_capture_free_partial : forall p t ty t' I,
  interps_ok true p -> icap p t -> okt t = true -> afrag t = true -> tc t = Some ty -> wf_interp I ->
  subst_interp p t = Some t' ->
  tc t' = Some ty /\ eval I t' = eval (with_interp I p) t.
Proof. exact interp_lemma_capture_free. Qed.
Theorem C05_interp_lemma_quantified_body_example :
  interps_ok true e8_p /\ icap e8_p e8_t /\ okt e8_t = true /\ afrag e8_t = true /\ tc e8_t = Some TBool /\
  subst_interp e8_p e8_t = Some e8_res /\ ~ icap e8_p (e8_even e8_u).
Proof. exact interp_lemma_quantified_body_example. Qed.

(* the hypotheses are satisfiable (computed results) *)
Theorem C05_subst_lemma_typed_example :
  sym_keys e2_s /\ map_ok e2_s /\ okt e2_t = true /\ afrag e2_t = true /\ tc e2_t = Some TBool /\
  no_capture e2_s e2_t /\ subst_mgs e2_s e2_t = Some e2_res /\ subst_mss e2_s e2_t = Some e2_res.
Proof. exact subst_lemma_typed_example. Qed.
Theorem C05_subst_typed_example :
  map_ok e3_s /\ okt e3_t = true /\ afrag e3_t = true /\ tc e3_t = Some (TBV 8) /\
  subst_mgs e3_s e3_t = Some (T (OBV BAdd 8) [T (OBV BMul 8) [e2_w; e2_w]; e2_w]) /\
  subst_mss e3_s e3_t = Some (T (OBV BAdd 8) [T (OBVZext 8 4) [TBVC 3 4]; e2_w]).
Proof. exact subst_typed_example. Qed.
Theorem C05_subst_lemma_array_example :
  sym_keys e5_s /\ map_ok e5_s /\ okt e5_t = true /\ afrag e5_t = true /\ tc e5_t = Some TBool /\
  no_capture e5_s e5_t /\ subst_mgs e5_s e5_t = Some e5_res.
Proof. exact subst_lemma_array_example. Qed.
Theorem C05_interp_lemma_example :
  interps_ok true e4_p /\ bodies_qf e4_p /\ okt e4_t = true /\ afrag e4_t = true /\ tc e4_t = Some TBool /\
  subst_interp e4_p e4_t = Some e4_res.
Proof. exact interp_lemma_example. Qed.

(* compound keys (step 4): replacing sub-terms by terms that denote the same value under I does not
   change the value, quantifiers included - the keys that survive a binder (none of their free
   symbols is bound) are replaced under it.  eq_keys I s = every key and its replacement have the
   same value under I; no_capture_all s t = the property's proviso for every surviving entry. *)
Theorem C05_subst_congruence_partial : forall s t I ty t',
  map_ok s -> no_const_keys s -> okt t = true -> afrag t = true -> tc t = Some ty ->
  no_capture_all s t -> wf_interp I -> eq_keys I s -> subst_mgs s t = Some t' -> eval I t' = eval I t.
Proof. exact subst_congruence_partial. Qed.
Theorem C05_subst_congruence_example :
  map_ok e6_s /\ no_const_keys e6_s /\ okt e6_t = true /\ afrag e6_t = true /\ tc e6_t = Some TBool /\
  no_capture_all e6_s e6_t /\ wf_interp e6_I /\ eq_keys e6_I e6_s /\
  subst_mgs e6_s e6_t = Some (T (OForall [("y"%string, TInt)]) [T OAnd [T OLe [e6_w; e2_y]; T OEquals [e6_w; e2_z]]]).
Proof. exact subst_congruence_example. Qed.
Print Assumptions C05_subst_congruence_partial.

(* ---- MSS: exact characterisation.  mss_ok s t (computable): at no node of t is the node REBUILT
   from the substituted children itself a key that is mapped to something else (the constructor
   collapsed it onto a key symbol: not(not y) -> y, 1-ary And/Or/Plus/Times, empty prefix). *)
(* sufficient: under mss_ok the two strategies coincide - every operator, no typing needed *)
Theorem C05_mss_ok_coincide : forall t s, sym_keys s -> mss_ok s t = true -> subst_mss s t = subst_mgs s t.
Proof. exact mss_ok_coincide. Qed.
(* tight: at the first node where it fails (all arguments ok) the two strategies differ *)
Theorem C05_mss_ok_tight : forall o args s,
  sym_keys s -> is_quant o = None -> Forall (fun a => mss_ok s a = true) args ->
  mss_ok s (T o args) = false -> subst_mss s (T o args) <> subst_mgs s (T o args).
Proof. exact mss_ok_tight. Qed.
(* hence the substitution lemma for the most-specific strategy, every operator except Pow *)
Theorem C05_subst_lemma_mss_ok_partial : forall s t I ty t',
  sym_keys s -> map_ok s -> okt t = true -> afrag t = true -> tc t = Some ty ->
  no_capture s t -> wf_interp I -> mss_ok s t = true ->
  subst_mss s t = Some t' -> eval I t' = eval (upd I s) t.
Proof. exact subst_lemma_mss_ok. Qed.
(* the earlier side condition (no replacement is a negation, fragment frag) implies mss_ok *)
Theorem C05_mss_ok_of_no_neg : forall t s, sym_keys s -> no_neg_values s -> frag t = true -> mss_ok s t = true.
Proof. exact mss_ok_of_no_neg. Qed.
(* and mss_ok cannot be dropped: the open finding Not(b) with b := Not(b) satisfies every other
   hypothesis and violates the conclusion *)
Theorem C05_mss_ok_needed :
  sym_keys mssw_s /\ map_ok mssw_s /\ okt mssw_t = true /\ afrag mssw_t = true /\ tc mssw_t = Some TBool /\
  no_capture mssw_s mssw_t /\ wf_interp e7_I /\ mss_ok mssw_s mssw_t = false /\
  subst_mss mssw_s mssw_t = Some (T ONot [ex_b]) /\ eval e7_I (T ONot [ex_b]) <> eval (upd e7_I mssw_s) mssw_t.
Proof. exact mss_ok_needed. Qed.

(* ---- okt is closed under the modelled constructors *)
Theorem C05_ctor_okt : forall o args r,
  is_quant o = None -> payload_ok o args = true -> Forall (fun a => okt a = true) args ->
  checked (rebuild o args) = Some r -> okt r = true.
Proof. exact ctor_okt. Qed.
Theorem C05_quant_okt : forall fa vs b r,
  forallb (fun v => inhb (snd v)) vs = true -> okt b = true ->
  checked (Some (mk_quant fa vs b)) = Some r -> okt r = true.
Proof. exact quant_okt. Qed.

Print Assumptions C05_mss_ok_coincide.
Print Assumptions C05_mss_ok_tight.
Print Assumptions C05_subst_lemma_mss_ok_partial.
Print Assumptions C05_interp_lemma_capture_free_partial.
Print Assumptions C05_ctor_okt.
Print Assumptions C05_subst_typed_partial.
Print Assumptions C05_subst_typed_mss_partial.
Print Assumptions C05_subst_typed_arr_partial.
Print Assumptions C05_subst_lemma_all_but_pow_partial.
Print Assumptions C05_interp_lemma_partial.
Print Assumptions C05_subst_lemma_array_example.

(* ---- the case analysis of the model is the dispatch of the source (gen/Operators.v and gen/Dispatch.v are
   REGENERATED from pysmt/operators.py and the walker classes on every run; qualified names only) *)
From PySMT.gen Require Operators Dispatch.
From PySMT.proofs Require Operators_proofs Dispatch_common Dispatch_subst_proofs.
Theorem C05_operator_table_matches_source :
  (forall n, List.In n Operators.all_node_types) /\
  (forall a b, Operators.nt_id a = Operators.nt_id b -> a = b) /\
  (forall o, Operators.nt_modelled (Operators.nt_of_op o) = true) /\
  (forall n, Operators.nt_modelled n = false <-> n = Operators.NT_ALGEBRAIC_CONSTANT).
Proof.
  exact (conj Operators_proofs.all_node_types_complete (conj Operators_proofs.nt_id_injective
         (conj Operators_proofs.nt_of_op_modelled Operators_proofs.only_algebraic_constant_unmodelled))).
Qed.

Theorem C05_substituter_dispatch_matches_source :
  (forall o, Dispatch.mgsubst_dispatch (Operators.nt_of_op o) =
             match is_quant o with Some (true, _) => "walk_forall" | Some (false, _) => "walk_exists"
                                 | None => "walk_identity_or_replace" end%string) /\
  (forall o, Dispatch.mssubst_dispatch (Operators.nt_of_op o) =
             match is_quant o with Some (true, _) => "walk_forall" | Some (false, _) => "walk_exists"
                                 | None => "walk_replace" end%string) /\
  (forall n, Dispatch.subst_dispatch n = Dispatch_common.default_handler n) /\
  (forall n, Dispatch.subst_origin n = if Operators.nt_eqb n Operators.NT_FUNCTION then "Substituter" else "IdentityDagWalker")%string.
Proof.
  exact (conj Dispatch_subst_proofs.mgsubst_dispatch_matches_source (conj Dispatch_subst_proofs.mssubst_dispatch_matches_source
        (conj Dispatch_subst_proofs.subst_dispatch_is_by_name Dispatch_subst_proofs.subst_origin_matches_source))).
Qed.
Print Assumptions C05_substituter_dispatch_matches_source.
