From Coq Require Import List ZArith Bool String.
From PySMT.core Require Import Syntax.
From PySMT.models Require Import Substituter.
From PySMT.proofs Require Import Substituter_proofs.
Import ListNotations.

Theorem C05_stub : forall t, lookup [] t = None.
Proof. exact lookup_nil. Qed.
Print Assumptions C05_stub.
