(* C20 - Work is linear in DAG size and independent of nesting depth.
   Statements only; each is closed by `exact` of a lemma proved in proofs/DagWalk_proofs.v.
   The model (core/DagWalk.v) is the loop of pysmt/walkers/dag.py; `children` is whatever
   `_get_children`/`_get_key` induce (plain sub-terms, NNF's virtual children, (formula,
   polarity) pairs, (measure, formula) pairs), `f` the per-node callback, which may raise.
   All statements hold for EVERY such DAG (children smaller than parents), EVERY callback,
   EVERY memo content reachable on a walker object ([clean]: every call, raising or not,
   re-establishes it, see C20_terminates_memo_correct). *)
From Coq Require Import List Arith.
From PySMT.core Require Import DagWalk.
From PySMT.proofs Require Import DagWalk_proofs.
Import ListNotations.

(* the callback is invoked exactly once per distinct reachable key that is not memoised yet,
   never on another key, and the invocation order is a duplicate-free list of those keys *)
Theorem C20_calls_exact : forall (A : Type) (children : nat -> list nat),
  (forall n c, In c (children n) -> c < n) ->
  forall (f : nat -> list A -> option A) early oneshot w root fuel s v,
  clean A children f w -> enough_fuel children root <= fuel ->
  walk A children f early oneshot fuel w root = (s, Ok v) ->
  exists new, (NoDup new /\ forall x, In x new <-> reach children root x /\ inm A (mm w) x = false) /\
              calls s = calls w + length new /\ log s = rev new ++ log w.
Proof. exact walk_calls. Qed.

(* hence at most once per node of ANY enumeration of the DAG: linear in the number of
   distinct nodes, whatever the tree size *)
Theorem C20_calls_linear : forall (A : Type) (children : nat -> list nat),
  (forall n c, In c (children n) -> c < n) ->
  forall (f : nat -> list A -> option A) early oneshot w root fuel s v univ,
  clean A children f w -> enough_fuel children root <= fuel ->
  walk A children f early oneshot fuel w root = (s, Ok v) ->
  (forall x, reach children root x -> In x univ) -> calls s <= calls w + length univ.
Proof. exact walk_calls_le. Qed.

(* the explicit-stack loop runs at most 2 * (1 + edges leaving the visited nodes) iterations;
   2 * (1 + all edges below the root) units of fuel always suffice *)
Theorem C20_pops_linear : forall (A : Type) (children : nat -> list nat),
  (forall n c, In c (children n) -> c < n) ->
  forall (f : nat -> list A -> option A) early oneshot w root fuel s v,
  clean A children f w -> enough_fuel children root <= fuel ->
  walk A children f early oneshot fuel w root = (s, Ok v) ->
  exists new, (NoDup new /\ forall x, In x new <-> reach children root x /\ inm A (mm w) x = false) /\
              pops s <= pops w + 2 * (1 + edges children new) /\
              pops s <= pops w + enough_fuel children root.
Proof. exact walk_pops. Qed.

(* with that fuel the loop always terminates by itself (success or exception), the memo stays
   correct, a persistent memo only grows, and the walker is left with an EMPTY stack after
   every call, also after one that raised *)
Theorem C20_terminates_memo_correct : forall (A : Type) (children : nat -> list nat),
  (forall n c, In c (children n) -> c < n) ->
  forall (f : nat -> list A -> option A) early oneshot w root fuel s a,
  clean A children f w -> enough_fuel children root <= fuel ->
  walk A children f early oneshot fuel w root = (s, a) ->
  (stk s = [] /\ Mok A children f (mm s)) /\ (oneshot = false -> sub A (mm w) (mm s)) /\ a <> NoFuel.
Proof. exact walk_memo_inv. Qed.

(* and what it computes is the naive recursive fold *)
Theorem C20_refines : forall (A : Type) (children : nat -> list nat),
  (forall n c, In c (children n) -> c < n) ->
  forall (f : nat -> list A -> option A) early oneshot w root fuel s a,
  clean A children f w -> enough_fuel children root <= fuel ->
  walk A children f early oneshot fuel w root = (s, a) ->
  match F A children f root with
  | Some v => a = Ok v
  | None => exists x, a = Err (ECallback x) /\ reach children root x /\ F A children f x = None
  end.
Proof. exact walk_refines. Qed.

(* type check at creation: the children of a new node are memoised, so one callback and
   O(arity) loop iterations per created node *)
Theorem C20_typecheck_at_creation : forall (A : Type) (children : nat -> list nat),
  (forall n c, In c (children n) -> c < n) ->
  forall (f : nat -> list A -> option A) early oneshot w root fuel s v,
  clean A children f w -> enough_fuel children root <= fuel ->
  (forall c, In c (children root) -> inm A (mm w) c = true) ->
  walk A children f early oneshot fuel w root = (s, Ok v) ->
  calls s <= calls w + 1 /\ pops s <= pops w + 2 * (1 + length (children root)).
Proof. exact walk_children_memoised. Qed.

Print Assumptions C20_calls_exact.
Print Assumptions C20_calls_linear.
Print Assumptions C20_pops_linear.
Print Assumptions C20_terminates_memo_correct.
Print Assumptions C20_refines.
Print Assumptions C20_typecheck_at_creation.
