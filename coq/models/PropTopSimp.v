(* propagate_toplevel with its default do_simplify=True: the result of models/PropTop.v handed to
   the model of the simplifier (models/Simplifier.v, property C01).  [ora] is C01's order oracle
   (orders that the implementation takes from Python sets / node ids). *)
From Coq Require Import List ZArith Bool String.
From PySMT.core Require Import Syntax.
From PySMT.models Require Import PropTop.
From PySMT.models Require Simplifier.
Import ListNotations.

Definition propagate_toplevel_simp (ora : Simplifier.oracle) (order : list term) (t : term) : option term :=
  match propagate_toplevel order t with
  | Some r => Simplifier.simplify_opt ora r
  | None => None
  end.
