(* Hand model (H) of pysmt.solvers.eager.EagerModel.get_value / _complete_model and of
   pysmt.solvers.solver.Model.satisfies (without the div-by-0 solver round trip), on top of the
   models of the substituter (models/Substituter.v) and the simplifier (models/Simplifier.v). *)
From Coq Require Import List ZArith Bool String.
From PySMT.core Require Import Syntax.
From PySMT.models Require Import Oracles Ctors Substituter Simplifier.
Import ListNotations.
Open Scope bool_scope.

(* an assignment: symbols (as terms) to constant terms *)
Definition assignment := list (term * term).

(* documented defaults: false, 0, 0.0, the zero bit-vector; anything else is an error *)
Definition default_value (t : ty) : option term :=
  match t with
  | TBool => Some (TBoolC false)
  | TReal => Some (TRealC 0 1)
  | TInt => Some (TIntC 0)
  | TBV w => Some (TBVC 0 w)
  | _ => None
  end.

Definition assigned (m : assignment) (s : term) : bool := existsb (fun kv => term_eqb (fst kv) s) m.

(* _complete_model: every free symbol (function names included) that has no value gets the
   default of its sort; None = PysmtTypeError("Unhandled type") *)
Fixpoint complete (m : assignment) (syms : list var) : option assignment :=
  match syms with
  | [] => Some m
  | (n, t) :: r =>
      let s := TSym n t in
      if assigned m s then complete m r
      else match default_value t with
           | Some d => complete (m ++ [(s, d)]) r
           | None => None
           end
  end.

(* get_value(formula, model_completion): substitute, simplify, insist on a constant *)
Definition get_value (ora : oracle) (m : assignment) (f : term) (completion : bool) : option term :=
  match (if completion then complete m (fv f) else Some m) with
  | None => None
  | Some m' =>
      match substitute_mgs [] m' f with
      | None => None
      | Some r =>
          match simplify_opt ora r with
          | None => None
          | Some res => if is_constant res then Some res else None
          end
      end
  end.

(* Model.satisfies(formula) with solver=None: get_values of the free symbols (with completion),
   substitute, simplify; True iff the result is TRUE *)
Fixpoint values_of (ora : oracle) (m : assignment) (syms : list var) : option assignment :=
  match syms with
  | [] => Some []
  | (n, t) :: r =>
      match get_value ora m (TSym n t) true, values_of ora m r with
      | Some v, Some rest => Some ((TSym n t, v) :: rest)
      | _, _ => None
      end
  end.

Definition satisfies (ora : oracle) (m : assignment) (f : term) : option bool :=
  match values_of ora m (fv f) with
  | None => None
  | Some subs =>
      match substitute_mgs [] subs f with
      | None => None
      | Some r => match simplify_opt ora r with
                  | None => None
                  | Some s => Some (is_true s)
                  end
      end
  end.
