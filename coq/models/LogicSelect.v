(* Hand model (H) of pysmt.logics.get_closer_logic / most_generic_logic, generic in the
   element type so that the theorems hold for every list of supported logics. *)
From Coq Require Import Bool List String Ascii.
Import ListNotations.
Open Scope bool_scope.

Inductive sel_result (A : Type) := SelOk (a : A) | SelNoLogic | SelIndexError.
Arguments SelOk {A} a. Arguments SelNoLogic {A}. Arguments SelIndexError {A}.

(* Python compares str by code point; names are compared as lists of byte codes. *)
Fixpoint str_ltb (a b : string) : bool :=
  match a, b with
  | EmptyString, EmptyString => false
  | EmptyString, String _ _ => true
  | String _ _, EmptyString => false
  | String x a', String y b' =>
      let nx := nat_of_ascii x in let ny := nat_of_ascii y in
      if Nat.ltb nx ny then true else if Nat.ltb ny nx then false else str_ltb a' b'
  end.

Section Select.
  Variable A : Type.
  Variable le : A -> A -> bool.      (* a <= b *)
  Variable ne : A -> A -> bool.      (* a != b *)
  Variable name : A -> string.

  (* candidates = [l for l in supported if logic <= l] *)
  Definition candidates (supported : list A) (target : A) : list A :=
    filter (fun l => le target l) supported.

  (* res = [l for l in candidates if not any(l != k and k <= l for k in candidates)] *)
  Definition minimal (cands : list A) : list A :=
    filter (fun l => negb (existsb (fun k => ne l k && le k l) cands)) cands.

  (* sorted(res, key=str)[0]: the first element whose name is minimal *)
  Fixpoint first_min (best : A) (l : list A) : A :=
    match l with
    | [] => best
    | x :: r => if str_ltb (name x) (name best) then first_min x r else first_min best r
    end.

  Definition get_closer_logic (supported : list A) (target : A) : sel_result A :=
    match candidates supported target with
    | [] => SelNoLogic
    | c => match minimal c with
           | [] => SelIndexError
           | x :: r => SelOk (first_min x r)
           end
    end.

  (* res = [l for l in logics if all(l >= x for x in logics)]; exactly one, else error *)
  Definition most_generic_logic (logics : list A) : sel_result A :=
    match filter (fun l => forallb (fun x => le x l) logics) logics with
    | [r] => SelOk r
    | _ => SelNoLogic
    end.
End Select.
