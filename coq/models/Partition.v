(* Hand model (H) of pysmt.rewritings.conjunctive_partition / disjunctive_partition
   (rewritings.py 1024-1057).

   The code is a worklist: to_process is a Python list used as a stack (pop() takes the LAST
   element, `+= cur.args()` appends the arguments in order), `seen` is a set of nodes
   (hash-consed, so node identity = structural equality), non-And nodes are yielded when first
   popped.  [part_wl] is that loop with explicit fuel; [conjunctive_partition] is the closed form:
   the And-leaves in right-to-left depth-first order, first occurrences only.  (A node met a
   second time is skipped together with everything below it; since a node is never its own
   descendant, everything below it has been processed by then, so skipping it removes only
   repetitions.)  The correspondence check compares BOTH with the implementation's yield order. *)
From Coq Require Import List ZArith Bool String.
From PySMT.core Require Import Syntax.
From PySMT.models Require Import Oracles.
Import ListNotations.
Open Scope bool_scope.

Definition is_op (o : op) (t : term) : bool := op_eqb (top t) o.

(* the loop, literally: stack with its top at the END of the Python list = head of [stack] *)
Fixpoint part_wl (o : op) (fuel : nat) (stack seen out : list term) : option (list term) :=
  match stack with
  | [] => Some out
  | cur :: rest =>
      match fuel with
      | O => None
      | S f =>
          if mem term_eqb cur seen then part_wl o f rest seen out
          else if is_op o cur then part_wl o f (rev (targs cur) ++ rest) (cur :: seen) out
               else part_wl o f rest (cur :: seen) (out ++ [cur])
      end
  end.

(* closed form *)
Fixpoint and_leaves (t : term) : list term :=
  match t with T OAnd l => List.concat (rev (map and_leaves l)) | _ => [t] end.
Fixpoint or_leaves (t : term) : list term :=
  match t with T OOr l => List.concat (rev (map or_leaves l)) | _ => [t] end.

Definition conjunctive_partition (t : term) : list term := dedupe term_eqb (and_leaves t).
Definition disjunctive_partition (t : term) : list term := dedupe term_eqb (or_leaves t).

(* fuel that always suffices: every pop consumes one occurrence of a node of the tree unfolding *)
Definition conjunctive_partition_wl (t : term) : option (list term) :=
  part_wl OAnd (2 * tsize t + 2) [t] [] [].
Definition disjunctive_partition_wl (t : term) : option (list term) :=
  part_wl OOr (2 * tsize t + 2) [t] [] [].
