(* Hand model (H) of pysmt.smtlib.solver.SmtLibSolver (the textual SMT-LIB wrapper), of the
   Solver base-class shortcuts it inherits (is_sat / is_valid / is_unsat with pending_pop and
   the clear_pending_pop decorator), and of the STRICT SMT-LIB solver it talks to (the spec).

   The model mirrors the code that exists (after the C17 fixes a-d), quirks included:
     - push(levels) / pop(levels) append / remove `levels` sets of declarations;
     - get_model queries the symbols of every level of declared_vars;
     - reset_assertions resets declared_vars to one empty level after the command succeeded;
     - every silent command and check-sat read ONE LINE of the reply pipe, get-value reads ONE
       S-EXPRESSION and then the rest of its line;
     - get_value / get_model are not decorated with clear_pending_pop; get_value gives symbols
       that are not declared their model-completion default instead of sending them;
     - list.pop() / list[-1] on an empty Python list raise IndexError (werr below).
   Abstractions: symbols are numbers; a formula is an opaque atom with its list of free symbols
   (after `formula.simplify()`), or the negation of a formula; reply texts are abstracted to
   success / error / verdict / value.  Custom sorts of arity 0 are modelled (declared_sorts, declare-sort,
   separate name space); parametric sorts are not.  A history ends at the first exception the wrapper
   raises (the behaviour of a caller that goes on after an exception is not modelled). *)
From Coq Require Import List Bool Arith.
Import ListNotations.
Open Scope bool_scope.

(* Two SEPARATE name spaces, as in SMT-LIB: function symbols and sort symbols.  The same number
   may be the name of a symbol and of a (custom, arity 0) sort at once. *)
Definition sym := nat.
Definition sort := nat.

(* An opaque atom with its free symbols, each with its custom sort if it has one (None: Bool,
   Int, BitVec), and the custom sorts that occur elsewhere in it (sorts of quantifier-bound
   variables, index / element sorts of constant array values); or the negation of a formula. *)
Inductive form :=
| FAtom (id : nat) (fv : list (sym * option sort)) (bound_sorts : list sort)
| FNot (f : form).
Fixpoint fva (f : form) : list (sym * option sort) :=
  match f with FAtom _ fv _ => fv | FNot g => fva g end.
Fixpoint fbound (f : form) : list sort :=
  match f with FAtom _ _ bs => bs | FNot g => fbound g end.
Definition fvs (f : form) : list sym := map fst (fva f).
Fixpoint sorts_of (l : list (sym * option sort)) : list sort :=
  match l with
  | [] => []
  | (_, Some s) :: r => s :: sorts_of r
  | (_, None) :: r => sorts_of r
  end.
(* self.to.get_types(formula, custom_only=True): the sorts of the free symbols and those that
   occur only in binders / array constants *)
Definition fsorts (f : form) : list sort := sorts_of (fva f) ++ fbound f.
(* symbols of built-in sorts *)
Definition plain (l : list sym) : list (sym * option sort) := map (fun x => (x, None)) l.

Inductive command :=
| CSetOption | CSetLogic
| CDeclareSort (s : sort)
| CDeclare (x : sym) (so : option sort)
| CAssert (f : form)
| CPush (n : nat)
| CPop (n : nat)
| CCheckSat
| CGetValue (t : list sym)        (* free symbols of the queried term *)
| CResetAssertions
| CExit.

Definition mem (x : sym) (l : list sym) : bool := existsb (Nat.eqb x) l.
(* all(d not in dv for dv in self.declared_vars) = negb (declared_in d declared_vars) *)
Definition declared_in (x : sym) (st : list (list sym)) : bool := existsb (mem x) st.

(* ------------------------------------------------------------------ wrapper *)
(* declared_vars and declared_sorts, top of the Python lists (index -1) first; pending_pop;
   werr = an IndexError was raised inside the wrapper (absorbing: nothing is done afterwards). *)
Record wstate := mkW { decl : list (list sym); sdecl : list (list sort); pending : bool; werr : bool }.
Definition w_init : wstate := mkW [[]] [[]] false false.

Definition M := wstate -> wstate * list command.
Definition ret : M := fun w => (w, []).
Definition seq (a b : M) : M := fun w =>
  let (w1, c1) := a w in let (w2, c2) := b w1 in (w2, c1 ++ c2).
Definition guard (a : M) : M := fun w => if werr w then (w, []) else a w.
Definition raise (w : wstate) : wstate := mkW (decl w) (sdecl w) (pending w) true.

(* _send_command + the reply read that belongs to it (see `reads`) *)
Definition emit (c : command) : M := guard (fun w => (w, [c])).
(* self.declared_vars.append(set()); self.declared_sorts.append(set()) *)
Definition w_push_level : M :=
  guard (fun w => (mkW ([] :: decl w) ([] :: sdecl w) (pending w) false, [])).
(* self.declared_vars.pop(); self.declared_sorts.pop() *)
Definition w_pop_level : M := guard (fun w =>
  match decl w, sdecl w with
  | _ :: r, _ :: rs => (mkW r rs (pending w) false, [])
  | _, _ => (raise w, [])
  end).
(* self.declared_vars[-1].add(symbol) *)
Definition w_record (s : sym) : M := guard (fun w =>
  match decl w with
  | [] => (raise w, [])
  | top :: r => (mkW ((s :: top) :: r) (sdecl w) (pending w) false, [])
  end).
(* self.declared_sorts[-1].add(sort) *)
Definition w_record_sort (s : sort) : M := guard (fun w =>
  match sdecl w with
  | [] => (raise w, [])
  | top :: r => (mkW (decl w) ((s :: top) :: r) (pending w) false, [])
  end).
Definition set_pending (b : bool) : M := guard (fun w => (mkW (decl w) (sdecl w) b false, [])).

(* _declare_sort *)
Definition declare_sort (s : sort) : M := seq (emit (CDeclareSort s)) (w_record_sort s).
(* for s in sorts: if all(s not in ds for ds in self.declared_sorts): self._declare_sort(s) *)
Fixpoint declare_missing_sorts (ss : list sort) : M :=
  match ss with
  | [] => ret
  | d :: r => seq (guard (fun w => if declared_in d (sdecl w) then (w, []) else declare_sort d w))
                  (declare_missing_sorts r)
  end.
(* _declare_variable *)
Definition declare_var (d : sym * option sort) : M :=
  seq (emit (CDeclare (fst d) (snd d))) (w_record (fst d)).
(* for d in deps: if all(d not in dv for dv in self.declared_vars): self._declare_variable(d) *)
Fixpoint declare_missing (fv : list (sym * option sort)) : M :=
  match fv with
  | [] => ret
  | d :: r => seq (guard (fun w => if declared_in (fst d) (decl w) then (w, []) else declare_var d w))
                  (declare_missing r)
  end.

(* decorator clear_pending_pop: if self.pending_pop: self.pending_pop = False; self.pop() *)
Definition clear_pending : M := guard (fun w =>
  if pending w then seq (set_pending false) (seq (emit (CPop 1)) w_pop_level) w else (w, [])).

Fixpoint repeat_m (n : nat) (a : M) : M :=
  match n with 0 => ret | S k => seq a (repeat_m k a) end.
(* self.declared_vars = [set()]; self.declared_sorts = [set()] *)
Definition w_reset_record : M := guard (fun w => (mkW [[]] [[]] (pending w) false, [])).

(* sorts first, then symbols, then the assertion *)
Definition add_assertion (f : form) : M :=
  seq clear_pending
      (seq (declare_missing_sorts (fsorts f)) (seq (declare_missing (fva f)) (emit (CAssert f)))).
(* push: for _ in range(levels): append;  then the command *)
Definition push (n : nat) : M :=
  seq clear_pending (seq (repeat_m n w_push_level) (emit (CPush n))).
(* pop: the command first; the record follows only what the solver accepted *)
Definition pop (n : nat) : M :=
  seq clear_pending (seq (emit (CPop n)) (repeat_m n w_pop_level)).
Definition solve : M := seq clear_pending (emit CCheckSat).
Definition reset_assertions : M :=
  seq clear_pending (seq (emit CResetAssertions) w_reset_record).
(* not decorated.  Symbols of the term that the wrapper has not declared (no assertion mentions
   them) are replaced by default constants before the query is sent: the query mentions only
   declared symbols *)
Definition get_value (t : list sym) : M :=
  guard (fun w => (w, [CGetValue (filter (fun x => declared_in x (decl w)) t)])).
(* for level in self.declared_vars: for s in level: self.get_value(s) *)
Definition get_model : M := guard (fun w =>
  (w, map (fun s => CGetValue [s]) (concat (decl w)))).
(* Solver.is_sat (options.incremental = True): push(); add_assertion(f); solve(); pending_pop = True *)
Definition is_sat (f : form) : M :=
  seq (push 1) (seq (add_assertion f) (seq solve (set_pending true))).
Definition exit_ : M := emit CExit.

Inductive api_call :=
| AAdd (f : form) | APush (n : nat) | APop (n : nat) | ASolve
| AGetValue (t : list sym) | AGetModel | AReset
| AIsSat (f : form) | AIsValid (f : form) | AIsUnsat (f : form)
| AExit.

Definition api_step (w : wstate) (a : api_call) : wstate * list command :=
  match a with
  | AAdd f => add_assertion f w
  | APush n => push n w
  | APop n => pop n w
  | ASolve => solve w
  | AGetValue t => get_value t w
  | AGetModel => get_model w
  | AReset => reset_assertions w
  | AIsSat f => is_sat f w
  | AIsValid f => is_sat (FNot f) w          (* not self.is_sat(Not(formula)) *)
  | AIsUnsat f => is_sat f w                 (* not self.is_sat(formula) *)
  | AExit => exit_ w
  end.

Fixpoint run_api (w : wstate) (h : list api_call) : wstate * list command :=
  match h with
  | [] => (w, [])
  | a :: r => let (w1, c1) := api_step w a in let (w2, c2) := run_api w1 r in (w2, c1 ++ c2)
  end.

(* __init__: set-option :print-success, :diagnostic-output-channel, :produce-models; set-logic *)
Definition preamble : list command := [CSetOption; CSetOption; CSetOption; CSetLogic].
Definition stream (h : list api_call) : list command := preamble ++ snd (run_api w_init h).
Definition final (h : list api_call) : wstate := fst (run_api w_init h).

(* ------------------------------------------------------------ strict solver *)
(* SMT-LIB 2.6 assertion stack with :global-declarations false: a non-empty list of levels (top
   first), each with the symbols declared, the formulas asserted and the sorts declared at that
   level.  Sorts and function symbols live in separate name spaces. *)
Record level := mkL { ldecl : list sym; lasserts : list form; lsorts : list sort }.
Definition sstate := list level.
Definition s_init : sstate := [mkL [] [] []].

Inductive reply := RSuccess | RError | RVerdict (b : bool) | RValue (t : list sym).
Definition is_error (r : reply) : bool := match r with RError => true | _ => false end.

Definition s_declared (x : sym) (s : sstate) : bool := existsb (fun l => mem x (ldecl l)) s.
Definition s_sort_declared (x : sort) (s : sstate) : bool := existsb (fun l => mem x (lsorts l)) s.
Definition sort_ok (so : option sort) (s : sstate) : bool :=
  match so with None => true | Some x => s_sort_declared x s end.
Definition live (s : sstate) : list form := flat_map lasserts s.

Section Spec.
  (* the solver's decision procedure: any function of the live assertions *)
  Variable decide : list form -> bool.

  Definition spec_step (s : sstate) (c : command) : sstate * reply :=
    match c with
    | CSetOption | CSetLogic | CExit => (s, RSuccess)
    | CDeclareSort x =>
        if s_sort_declared x s then (s, RError)     (* a sort is declared once while in scope *)
        else match s with
             | [] => (s, RError)
             | l :: r => (mkL (ldecl l) (lasserts l) (x :: lsorts l) :: r, RSuccess)
             end
    | CDeclare x so =>
        if s_declared x s then (s, RError)          (* declared exactly once while in scope *)
        else if sort_ok so s                         (* its sort is declared before *)
        then match s with
             | [] => (s, RError)
             | l :: r => (mkL (x :: ldecl l) (lasserts l) (lsorts l) :: r, RSuccess)
             end
        else (s, RError)
    | CAssert f =>
        if forallb (fun x => s_declared x s) (fvs f) (* declared before use: symbols ... *)
           && forallb (fun x => s_sort_declared x s) (fsorts f)   (* ... and sorts, binders included *)
        then match s with
             | [] => (s, RError)
             | l :: r => (mkL (ldecl l) (f :: lasserts l) (lsorts l) :: r, RSuccess)
             end
        else (s, RError)
    | CPush n => (repeat (mkL [] [] []) n ++ s, RSuccess)
    | CPop n => if n <? length s then (skipn n s, RSuccess) else (s, RError)
    | CCheckSat => (s, RVerdict (decide (live s)))
    | CGetValue t =>
        if forallb (fun x => s_declared x s) t then (s, RValue t) else (s, RError)
    | CResetAssertions => (s_init, RSuccess)
    end.

  Fixpoint spec_exec (s : sstate) (cmds : list command) : sstate * list reply :=
    match cmds with
    | [] => (s, [])
    | c :: r => let (s1, rp) := spec_step s c in
                let (s2, rps) := spec_exec s1 r in (s2, rp :: rps)
    end.
  Definition spec_run (cmds : list command) : list reply := snd (spec_exec s_init cmds).
  Definition no_error (rs : list reply) : bool := forallb (fun r => negb (is_error r)) rs.
  (* the stream is legal SMT-LIB: the strict solver answers no command with an error *)
  Definition accepted (cmds : list command) : bool := no_error (spec_run cmds).
End Spec.

(* ------------------------------------------------------------- reply pipe *)
(* The solver answers command number k with the text of reply k followed by a newline. *)
Inductive chunk := Body (k : nat) | NL.
Inductive read_kind := ReadLine | ReadSexp | NoRead.
(* _send_silent_command -> _check_success -> readline; solve -> readline;
   get_value -> parser.get_assignment_list (tokenizer stops at the closing parenthesis), then
   readline for the rest of the line;  _exit reads nothing *)
Definition reads (c : command) : read_kind :=
  match c with CGetValue _ => ReadSexp | CExit => NoRead | _ => ReadLine end.

(* readline(): everything up to and including the next newline; None = would block *)
Fixpoint read_line (p : list chunk) : option (list nat * list chunk) :=
  match p with
  | [] => None
  | NL :: r => Some ([], r)
  | Body k :: r => match read_line r with Some (l, r') => Some (k :: l, r') | None => None end
  end.
(* tokenizer: skips white space, consumes one s-expression *)
Fixpoint read_sexp (p : list chunk) : option (nat * list chunk) :=
  match p with
  | [] => None
  | NL :: r => read_sexp r
  | Body k :: r => Some (k, r)
  end.

Definition line_is (l : list nat) (k : nat) : bool :=
  match l with [j] => Nat.eqb j k | _ => false end.

(* for each command, whether what the wrapper read for it is exactly its own reply *)
Fixpoint sync_flags (k : nat) (pipe : list chunk) (cmds : list command) : list bool :=
  match cmds with
  | [] => []
  | c :: r =>
      let pipe1 := pipe ++ [Body k; NL] in
      match reads c with
      | ReadLine => match read_line pipe1 with
                    | Some (l, p') => line_is l k :: sync_flags (S k) p' r
                    | None => false :: sync_flags (S k) pipe1 r
                    end
      | ReadSexp => match read_sexp pipe1 with
                    | Some (j, p') =>
                        match read_line p' with
                        | Some (l, p'') =>
                            (Nat.eqb j k && match l with [] => true | _ => false end)
                              :: sync_flags (S k) p'' r
                        | None => false :: sync_flags (S k) p' r
                        end
                    | None => false :: sync_flags (S k) pipe1 r
                    end
      | NoRead => true :: sync_flags (S k) pipe1 r
      end
  end.
Definition in_sync (cmds : list command) : bool := forallb (fun b => b) (sync_flags 0 [] cmds).

(* exact criterion (proved equivalent in the proofs file): the pipe is empty before every
   command unless an unread reply (the one to `exit`) sits in it. *)
Inductive pstate := PClean | PBroken.
Fixpoint sync_ok (st : pstate) (cmds : list command) : bool :=
  match cmds with
  | [] => true
  | c :: r => match reads c, st with
              | NoRead, _ => sync_ok PBroken r
              | _, PClean => sync_ok PClean r
              | _, PBroken => false
              end
  end.

(* ----------------------------------------------- what is actually observed *)
(* The wrapper raises at the first command whose read is not its own reply or is an error reply
   (UnknownSolverAnswerError / PysmtSyntaxError); nothing is sent afterwards. *)
Fixpoint cut (cmds : list command) (rs : list reply) (fl : list bool) : list command * bool :=
  match cmds, rs, fl with
  | c :: cr, r :: rr, f :: fr =>
      if is_error r || negb f then ([c], true)
      else let (cs, bad) := cut cr rr fr in (c :: cs, bad)
  | _, _, _ => ([], false)
  end.

(* (commands that reach the solver, whether the history ended with an exception) *)
Definition observed (h : list api_call) : list command * bool :=
  let cmds := stream h in
  let (cs, bad) := cut cmds (spec_run (fun _ => true) cmds) (sync_flags 0 [] cmds) in
  (cs, bad || werr (final h)).

(* ---------------------------------------------------------- user's view *)
(* Legal use of the API: never pop more levels than were pushed (reset_assertions returns to
   level 0); exit is the last call. *)
Fixpoint user_legal (d : nat) (h : list api_call) : bool :=
  match h with
  | [] => true
  | APush n :: r => user_legal (d + n) r
  | APop n :: r => (n <=? d) && user_legal (d - n) r
  | AReset :: r => user_legal 0 r
  | AExit :: r => match r with [] => true | _ => false end
  | _ :: r => user_legal d r
  end.

(* the assertion stack the user means (top first): what an ideal incremental solver holds *)
Definition ideal := list (list form).
Definition ideal_init : ideal := [[]].
Definition ideal_step (i : ideal) (a : api_call) : ideal :=
  match a with
  | AAdd f => match i with [] => [[f]] | t :: r => (f :: t) :: r end
  | APush n => repeat [] n ++ i
  | APop n => skipn n i
  | AReset => ideal_init
  | _ => i                                   (* solve, queries and the one-shot checks *)
  end.
Definition ideal_live (i : ideal) : list form := concat i.

(* the formula a one-shot check asserts on top of the live assertions *)
Definition check_formula (a : api_call) : option form :=
  match a with
  | AIsSat f | AIsUnsat f => Some f
  | AIsValid f => Some (FNot f)
  | _ => None
  end.
(* what the call returns to the user, from the verdict read for its check-sat *)
Definition shortcut_result (a : api_call) (verdict : bool) : bool :=
  match a with AIsValid _ | AIsUnsat _ => negb verdict | _ => verdict end.
(* check-sat is the last command a solving call sends: its reply is the last one *)
Definition verdict_of (rs : list reply) : option bool :=
  match last rs RSuccess with RVerdict b => Some b | _ => None end.

(* symbols get_model asks the solver about *)
Definition model_queries (w : wstate) : list sym := concat (decl w).

(* ------------------------------------- comparison with the implementation *)
(* The implementation iterates Python sets (free variables of a formula, declared_vars[-1]); the
   order is not part of the behaviour.  Runs of consecutive declarations and runs of consecutive
   single-symbol value queries are compared as sorted runs; assertions are compared by their
   set of free symbols (the harness checks their meaning separately). *)
Fixpoint list_nat_eqb (a b : list nat) : bool :=
  match a, b with
  | [], [] => true
  | x :: a', y :: b' => Nat.eqb x y && list_nat_eqb a' b'
  | _, _ => false
  end.
Fixpoint insert_nat (x : nat) (l : list nat) : list nat :=
  match l with
  | [] => [x]
  | y :: r => if Nat.leb x y then x :: l else y :: insert_nat x r
  end.
Definition sort_nat (l : list nat) : list nat := fold_right insert_nat [] l.
Definition set_eqb (a b : list nat) : bool := list_nat_eqb (sort_nat a) (sort_nat b).
Definition run_key (c : command) : option (nat * nat) :=
  match c with
  | CDeclare s _ => Some (0, s)
  | CGetValue [s] => Some (1, s)
  | CDeclareSort s => Some (2, s)
  | _ => None
  end.
Fixpoint insert_cmd (c : command) (l : list command) : list command :=
  match l with
  | [] => [c]
  | d :: r => match run_key c, run_key d with
              | Some (kc, sc), Some (kd, sd) =>
                  if Nat.eqb kc kd && Nat.ltb sd sc then d :: insert_cmd c r else c :: l
              | _, _ => c :: l
              end
  end.
Fixpoint canon (l : list command) : list command :=
  match l with [] => [] | c :: r => insert_cmd c (canon r) end.
Definition cmd_eqb (a b : command) : bool :=
  match a, b with
  | CSetOption, CSetOption | CSetLogic, CSetLogic | CCheckSat, CCheckSat
  | CResetAssertions, CResetAssertions | CExit, CExit => true
  | CDeclare x so, CDeclare y so' =>
      Nat.eqb x y && match so, so' with
                     | None, None => true
                     | Some a, Some b => Nat.eqb a b
                     | _, _ => false
                     end
  | CDeclareSort x, CDeclareSort y => Nat.eqb x y
  | CAssert f, CAssert g => set_eqb (fvs f) (fvs g)   (* the harness checks sorts via the declare-sort commands *)
  | CPush n, CPush m | CPop n, CPop m => Nat.eqb n m
  | CGetValue t, CGetValue u => set_eqb t u
  | _, _ => false
  end.
Fixpoint cmds_eqb (a b : list command) : bool :=
  match a, b with
  | [], [] => true
  | x :: a', y :: b' => cmd_eqb x y && cmds_eqb a' b'
  | _, _ => false
  end.
(* When the run ended with an exception inside a run of declarations (add_assertion iterating the
   free variables) or of single-symbol value queries (get_model iterating declared_vars[-1]),
   which elements of the Python set were handled before the failing one depends on the set's
   iteration order: that trailing run is compared by kind and presence only. *)
Definition run_kind (c : command) : option nat := option_map fst (run_key c).
Definition same_kind (k : option nat) (c : command) : bool :=
  match k, run_kind c with
  | Some a, Some b => Nat.eqb a b
  | _, _ => false
  end.
Fixpoint drop_run (k : option nat) (l : list command) : list command :=
  match l with [] => [] | c :: r => if same_kind k c then drop_run k r else l end.
Definition strip_run (l : list command) : list command * option nat :=
  let r := rev l in
  let k := match r with c :: _ => run_kind c | [] => None end in
  (rev (drop_run k r), k).
Definition kind_eqb (a b : option nat) : bool :=
  match a, b with
  | None, None => true
  | Some x, Some y => Nat.eqb x y
  | _, _ => false
  end.

(* one correspondence case: history, commands seen by the reference solver, exception raised *)
Definition case_ok (c : list api_call * list command * bool) : bool :=
  let '(h, cs, raised) := c in
  let '(cs', raised') := observed h in
  Bool.eqb raised' raised &&
  if raised then
    let '(a, qa) := strip_run (canon cs') in
    let '(b, qb) := strip_run (canon cs) in
    cmds_eqb a b && kind_eqb qa qb
  else cmds_eqb (canon cs') (canon cs).
