(* Hand model (H) of the memo-table machine of an Environment (C14): a family of long-lived
   persistent walkers (env.stc, env.simplifier, env.fvo, env.qfo, env.ao, env.typeso,
   env.theoryo, env.sizeo with (measure, formula) keys), each with its own memo and stack
   (core/DagWalk.v), addressed by a walker id.  An API call = (walker id, root key).
   The one-shot walker (env.substituter) is models/WalkerFail.v with oneshot = true.
   What this functional model cannot express is aliasing of mutable cached answers (a Theory
   object): that part of C14 is carried by the correspondence (harness/c14.py).
   No proofs here. *)
From Coq Require Import List Arith Bool.
From PySMT.core Require Import DagWalk.
Import ListNotations.

Section EnvHistory.
  Variable A : Type.
  Variable children : nat -> nat -> list nat.           (* walker id -> traversal DAG *)
  Variable f : nat -> nat -> list A -> option A.        (* walker id -> callback *)
  Variable early : nat -> bool.
  Variable fuel : nat.

  Definition env := nat -> st A.
  Definition env_init : env := fun _ => init A.
  Definition upd_env (e : env) (w : nat) (s : st A) : env :=
    fun k => if Nat.eqb k w then s else e k.

  Definition api_call := (nat * nat)%type.              (* walker id, root *)

  Definition env_call (e : env) (c : api_call) : env * answer A :=
    let '(s, a) := walk A (children (fst c)) (f (fst c)) (early (fst c)) false fuel (e (fst c)) (snd c) in
    (upd_env e (fst c) s, a).

  Fixpoint env_run (e : env) (cs : list api_call) : env :=
    match cs with
    | [] => e
    | c :: r => env_run (fst (env_call e c)) r
    end.

  (* the result of query q after history h, and in a fresh environment *)
  Definition result_after (h : list api_call) (q : api_call) : answer A :=
    snd (env_call (env_run env_init h) q).
  Definition result_fresh (q : api_call) : answer A := snd (env_call env_init q).
End EnvHistory.
