(* Hand model (H) of pysmt.rewritings.Ackermannizer (rewritings.py:847-934), quirks included.

   - IdentityDagWalker rebuilds every node from its (already rewritten) children, children from
     right to left; [walk_function] replaces an application by a fresh constant "ack%d" of the
     function's return type (one per distinct application, memoised in [_terms_dict]) and
     records the ORIGINAL argument tuple in [_funs_to_args].
   - The functional-consistency implications are built from the recorded argument tuples, each
     argument rewritten by [self.walk] (memoised: the result the walk already computed for it), so
     applications nested anywhere inside an argument are replaced by their constants
     (build/fixes/C11_ackermann_nested.diff; before it only arguments that were applications
     themselves were replaced and f(f(x)+1) = x kept f(x)).
   - [_fresh_guess] and the symbol table are the manager's ([mstate] of models/Cnf.v), so the
     fresh names equal the implementation's.
   - The implication set and the conjunct sets are Python sets: order and the orientation of
     each pair are compared up to permutation / symmetry ([sac_eqb]). *)
From Coq Require Import List ZArith Bool String.
From PySMT.core Require Import Syntax.
From PySMT.models Require Import TypeChecker Oracles Cnf.
Import ListNotations.
Open Scope bool_scope.

Record astate : Type := {
  amgr : mstate;
  terms : list (term * term);                 (* _terms_dict: application -> constant *)
  funs : list (var * list (list term))        (* _funs_to_args: function symbol -> set of argument tuples *)
}.

Fixpoint assoc_t (t : term) (l : list (term * term)) : option term :=
  match l with
  | [] => None
  | (g, c) :: r => if term_eqb t g then Some c else assoc_t t r
  end.

Definition tuple_eqb (a b : list term) : bool := list_eqb term_eqb a b.

(* self._funs_to_args.setdefault(function_name, set()).add(args) *)
Fixpoint add_args (fn : var) (args : list term) (fs : list (var * list (list term))) : list (var * list (list term)) :=
  match fs with
  | [] => [(fn, [args])]
  | (g, opts) :: r => if var_eqb fn g then (g, add tuple_eqb args opts) :: r else (g, opts) :: add_args fn args r
  end.

Section AckList.
  Variable w : term -> astate -> term * astate.
  (* children from right to left, results in argument order *)
  Fixpoint ack_list (l : list term) (st : astate) : list term * astate :=
    match l with
    | [] => ([], st)
    | x :: r => let (rs, st1) := ack_list r st in
                let (x', st2) := w x st1 in
                (x' :: rs, st2)
    end.
End AckList.

Definition ret_type (fty : ty) : ty := match fty with TFun _ r => r | _ => fty end.

Fixpoint ack_walk (t : term) (st : astate) {struct t} : term * astate :=
  match t with
  | T o args =>
      let (nargs, st1) := ack_list ack_walk args st in
      match o with
      | OFunction n fty =>
          match assoc_t t (terms st1) with
          | Some c => (c, st1)
          | None =>
              let (nm, m') := new_fresh "ack" (amgr st1) in
              let c := TSym nm (ret_type fty) in
              (c, {| amgr := m'; terms := terms st1 ++ [(t, c)]; funs := add_args (n, fty) args (funs st1) |})
          end
      | _ => (T o nargs, st1)
      end
  end.

(* ---- functional consistency ---- *)
Definition is_app (t : term) : bool := match t with T (OFunction _ _) _ => true | _ => false end.
(* self._terms_dict[app] *)
Definition repl (st : astate) (t : term) : term :=
  if is_app t then match assoc_t t (terms st) with Some c => c | None => t end else t.
(* FormulaManager.EqualsOrIff *)
Definition eq_or_iff (a b : term) : term :=
  match tc a with Some TBool => T OIff [a; b] | _ => T OEquals [a; b] end.

(* self.walk(term) after the walk: the memoised result; re-walking allocates nothing because
   every application under the term already has its constant *)
Definition sub (st : astate) (t : term) : term := fst (ack_walk t st).

Definition implication (st : astate) (fn : var) (o1 o2 : list term) : term :=
  let conj := dedupe term_eqb (map (fun p => eq_or_iff (sub st (fst p)) (sub st (snd p))) (combine o1 o2)) in
  let app1 := T (OFunction (fst fn) (snd fn)) o1 in
  let app2 := T (OFunction (fst fn) (snd fn)) o2 in
  T OImplies [mk_and conj; eq_or_iff (repl st app1) (repl st app2)].

(* itertools.combinations(l, 2) *)
Fixpoint pairs {A} (l : list A) : list (A * A) :=
  match l with
  | [] => []
  | x :: r => map (fun y => (x, y)) r ++ pairs r
  end.

Definition implications (st : astate) : list term :=
  dedupe term_eqb
    (flat_map (fun e : var * list (list term) =>
                 map (fun p => implication st (fst e) (fst p) (snd p)) (pairs (snd e))) (funs st)).

Definition init_astate (guess : nat) (names : list string) : astate :=
  {| amgr := {| fresh_guess := guess; mnames := names |}; terms := []; funs := [] |}.

(* do_ackermannization on a new Ackermannizer *)
Definition ackermannize (f : term) (st : astate) : term * astate :=
  let (sub, st') := ack_walk f st in
  match implications st' with
  | [] => (sub, st')
  | imps => (T OAnd [mk_and imps; sub], st')
  end.

(* ---- comparison up to the order of And/Or arguments and the orientation of = / <-> ---- *)
Fixpoint sac_eqb_fuel (fuel : nat) (a b : term) : bool :=
  match fuel with
  | O => false
  | S f =>
      match a, b with
      | T o1 l1, T o2 l2 =>
          op_ac_eqb o1 o2 &&
          (if ac_op o1 then perm_eqb (sac_eqb_fuel f) l1 l2
           else match o1, l1, l2 with
                | OEquals, [x1; y1], [x2; y2] | OIff, [x1; y1], [x2; y2] =>
                    (sac_eqb_fuel f x1 x2 && sac_eqb_fuel f y1 y2) || (sac_eqb_fuel f x1 y2 && sac_eqb_fuel f y1 x2)
                | _, _, _ => list_eqb (sac_eqb_fuel f) l1 l2
                end)
      end
  end.
Definition sac_eqb (a b : term) : bool := sac_eqb_fuel (S (tsize a)) a b.

(* ---- predicates used by the theorems ---- *)
Fixpoint has_app (t : term) : bool :=
  match t with
  | T (OFunction _ _) _ => true
  | T _ args => existsb has_app args
  end.
(* every argument of every application is an application or contains none *)
Fixpoint ack_flat (t : term) : bool :=
  match t with
  | T o args =>
      forallb ack_flat args &&
      match o with
      | OFunction _ _ => forallb (fun a => is_app a || negb (has_app a)) args
      | _ => true
      end
  end.
