(* Hand model (H) of pysmt.simplifier.Simplifier: one function per walk_* method, taking the
   ORIGINAL node's operator (with its payload) and the already simplified children, and
   [simplify_opt] = their bottom-up application.  The code is mirrored as it is, including the
   rules that look wrong.  [None] = the implementation raises (an assertion, a constructor's
   check, float overflow, or the type check that create_node performs on every new node).

   Orders that depend on node ids.  walk_and / walk_or / walk_forall / walk_exists build their
   result from a Python set of FNodes (iteration order = hash order = node-id order modulo the
   table size) and walk_times sorts by node id.  These orders are not a function of the input
   term, and they matter: node equality is identity, so And(a,b) and And(b,a) are different
   nodes, and walk_plus looks at the LAST argument of a Times.  The model therefore takes an
   [oracle]: for such a rule and its (simplified) arguments it may propose the node the
   implementation built; the proposal is used only if it is a permutation of what the model
   computed itself ([same_upto_order]), so for EVERY oracle the model's result equals its own
   result up to that permutation.  Theorems quantify over all oracles; the correspondence
   check instantiates the oracle with the orders observed in the run. *)
From Coq Require Import List ZArith Bool String.
From PySMT.core Require Import Syntax PyPrims.
From PySMT.models Require Import TypeChecker Oracles Ctors.
Import ListNotations.
Open Scope bool_scope.
Open Scope Z_scope.

Definition oracle := op -> list term -> option term.
Definition no_oracle : oracle := fun _ _ => None.

Definition same_upto_order (r r' : term) : bool :=
  match r, r' with
  | T o l, T o' l' =>
      match o, o' with
      | OAnd, OAnd | OOr, OOr | OTimes, OTimes => perm_eqb term_eqb l l'
      | OForall v, OForall v' | OExists v, OExists v' =>
          perm_eqb var_eqb v v' && list_eqb term_eqb l l'
      | _, _ => false
      end
  end.
Definition reorder (ora : oracle) (o : op) (args : list term) (r : term) : term :=
  match ora o args with
  | Some r' => if same_upto_order r r' then r' else r
  | None => r
  end.

Definition bind {A B} (x : option A) (f : A -> option B) : option B :=
  match x with Some a => f a | None => None end.
Notation "x <- e ;; f" := (bind e (fun x => f)) (at level 61, e at next level, right associativity).

(* ---------------------------------------------------------------- Boolean rules *)
(* walk_not *)
Definition r_not (a : term) : term :=
  match top a with
  | OBoolC b => mk_bool (negb b)
  | ONot => arg a 0
  | _ => mk_not a
  end.

(* the inner part of the walk_and / walk_or loops: new_args is a set, here a duplicate-free
   list in insertion order; None = the complement of an element is already present *)
Fixpoint add_lits (ls acc : list term) : option (list term) :=
  match ls with
  | [] => Some acc
  | s :: r => if mem term_eqb (r_not s) acc then None else add_lits r (add term_eqb s acc)
  end.
Fixpoint nary_loop (skip absorb flat : term -> bool) (args acc : list term) : option (list term) :=
  match args with
  | [] => Some acc
  | a :: r =>
      if skip a then nary_loop skip absorb flat r acc
      else if absorb a then None
      else match add_lits (if flat a then targs a else [a]) acc with
           | None => None
           | Some acc' => nary_loop skip absorb flat r acc'
           end
  end.
Definition same_pair (args : list term) : option term :=
  match args with [a; b] => if term_eqb a b then Some a else None | _ => None end.
(* walk_and *)
Definition r_and (ora : oracle) (args : list term) : term :=
  match same_pair args with
  | Some a => a
  | None =>
      match nary_loop is_true is_false is_and args [] with
      | None => TFalse
      | Some l => reorder ora OAnd args (mk_and l)
      end
  end.
(* walk_or *)
Definition r_or (ora : oracle) (args : list term) : term :=
  match same_pair args with
  | Some a => a
  | None =>
      match nary_loop is_false is_true is_or args [] with
      | None => TTrue
      | Some l => reorder ora OOr args (mk_or l)
      end
  end.
(* walk_iff *)
Definition r_iff (sl sr : term) : term :=
  match top sl, top sr with
  | OBoolC l, OBoolC r => mk_bool (Bool.eqb l r)
  | OBoolC l, _ => if l then sr else mk_not sr
  | _, OBoolC r => if r then sl else mk_not sl
  | _, _ => if term_eqb sl sr then TTrue else mk_iff sl sr
  end.
(* walk_implies *)
Definition r_implies (sl sr : term) : term :=
  match top sl, top sr with
  | OBoolC l, _ => if l then sr else TTrue
  | _, OBoolC r => if r then TTrue else mk_not sl
  | _, _ => if term_eqb sl sr then TTrue else mk_implies sl sr
  end.

(* the Python object returned by constant_value(): a number (int, Fraction, bool, the value of
   a BV constant), a str, or - for an array value - the payload of the node, its INDEX TYPE *)
Inductive pyval := PNum (f : frac) | PStr (s : list Z) | PTy (t : ty).
Definition constant_value (t : term) : option pyval :=
  match top t with
  | OBoolC b => Some (PNum ((if b then 1 else 0), 1))
  | OIntC z => Some (PNum (z, 1))
  | ORealC n d => Some (PNum (n, d))
  | OBVC v _ => Some (PNum (v, 1))
  | OStrC s => Some (PStr s)
  | OArrayValue it => Some (PTy it)
  | _ => None
  end.
Definition pyval_eqb (a b : pyval) : bool :=
  match a, b with
  | PNum x, PNum y => fr_eqb x y
  | PStr x, PStr y => list_eqb Z.eqb x y
  | PTy x, PTy y => ty_eqb x y
  | _, _ => false
  end.
(* _constants_equal: whether two constants of the same sort denote the same value (None: not
   decided).  Two array values are equal iff they agree at every index either of them assigns
   and - when some index is left to the default by both: always over an infinite index sort,
   over Bool / BV(w) unless the assigned indices cover the sort - their defaults agree.
   [fuel] bounds the nesting of array sorts (the elements are compared by the same procedure). *)
Definition arr_get (k : term) (ps : list (term * term)) (d : term) : term :=
  match assoc_get k ps with Some v => v | None => d end.
Definition idx_covered (it : ty) (n : Z) : bool :=
  match it with TBool => 2 <=? n | TBV w => Z.pow 2 w <=? n | _ => false end.
Definition union_keys (a b : list term) : list term :=
  a ++ filter (fun k => negb (existsb (term_eqb k) a)) b.
(* `False in results`, else `None in results`, else all True *)
Definition combine_results (rs : list (option bool)) : option bool :=
  if existsb (fun r => match r with Some false => true | _ => false end) rs then Some false
  else if existsb (fun r => match r with None => true | _ => false end) rs then None
  else Some true.
Fixpoint const_eqb (fuel : nat) (l r : term) {struct fuel} : option bool :=
  match fuel with
  | O => None
  | S f =>
      if term_eqb l r then Some true
      else if negb (is_constant l) || negb (is_constant r) then None
      else match l, r with
           | T (OArrayValue it) (dl :: rl), T (OArrayValue _) (dr :: rr) =>
               let pl := pairs_of rl in
               let pr := pairs_of rr in
               let keys := union_keys (map fst pl) (map fst pr) in
               match combine_results (map (fun k => const_eqb f (arr_get k pl dl) (arr_get k pr dr)) keys) with
               | Some true => if idx_covered it (zlen keys) then Some true else const_eqb f dl dr
               | x => x
               end
           | T (OArrayValue _) _, _ | _, T (OArrayValue _) _ => None
           | _, _ => match constant_value l, constant_value r with
                     | Some a, Some b => Some (pyval_eqb a b)
                     | _, _ => None
                     end
           end
  end.
(* walk_equals: constants other than array values are compared by value; identical nodes are
   equal; two DISTINCT constant array values are compared extensionally (_constants_equal) *)
Definition r_equals (sl sr : term) : option term :=
  if is_constant sl && is_constant sr && negb (is_array_value sl) && negb (is_array_value sr) then
    match constant_value sl, constant_value sr with
    | Some l, Some r => Some (mk_bool (pyval_eqb l r))
    | _, _ => None
    end
  else if term_eqb sl sr then Some TTrue
  else if is_constant sl && is_constant sr then
    match const_eqb (S (tsize sl)) sl sr with
    | Some b => Some (mk_bool b)
    | None => None          (* cannot happen: the fuel bounds the nesting of the array sort *)
    end
  else Some (mk_equals sl sr).
(* walk_ite *)
Definition r_ite (si st se : term) : term :=
  if term_eqb st se then st
  else match top si with
       | OBoolC b => if b then st else se
       | _ => mk_ite si st se
       end.
(* `l <= r` / `l < r` on constant values: numbers only (anything else: TypeError) *)
Definition num_cmp (f : frac -> frac -> bool) (sl sr : term) : option term :=
  match constant_value sl, constant_value sr with
  | Some (PNum l), Some (PNum r) => Some (mk_bool (f l r))
  | _, _ => None
  end.
(* walk_le; the third test (`sr.is_zero() and sr.is_minus()`) can never hold: kept as written *)
Definition r_le (sl sr : term) : option term :=
  if is_constant sl && is_constant sr then num_cmp fr_leb sl sr
  else if is_zero sl && is_minus sr then Some (mk_le (arg sr 1) (arg sr 0))
  else if is_zero sr && is_minus sr then Some (mk_le (arg sr 0) (arg sr 1))
  else Some (mk_le sl sr).
(* walk_lt *)
Definition r_lt (sl sr : term) : option term :=
  if is_constant sl && is_constant sr then num_cmp fr_ltb sl sr
  else Some (mk_lt sl sr).
(* walk_forall / walk_exists: keep the quantified variables that are free in the body *)
Definition r_quant (ora : oracle) (o : op) (mk : list var -> term -> term) (vs : list var) (sf : term) : term :=
  let fvs := fv sf in
  let varset := filter (fun v => mem var_eqb v fvs) (dedupe var_eqb vs) in
  match varset with
  | [] => sf
  | _ => reorder ora o [sf] (mk varset sf)
  end.

(* ---------------------------------------------------------------- arithmetic rules *)
Definition const_of_type (ttype : option ty) (v : frac) : option term :=
  match ttype with
  | Some TReal => Some (mk_real v)
  | Some TInt => if fr_is_int v then Some (mk_int (fst v)) else None
  | _ => None
  end.

Record pstate := { to_sum : list term; to_sub : list term; cadd : frac; perr : bool }.
Definition p_sum (st : pstate) (x : term) :=
  {| to_sum := to_sum st ++ [x]; to_sub := to_sub st; cadd := cadd st; perr := perr st |}.
Definition p_sub (st : pstate) (x : term) :=
  {| to_sum := to_sum st; to_sub := to_sub st ++ [x]; cadd := cadd st; perr := perr st |}.
Definition p_err (st : pstate) :=
  {| to_sum := to_sum st; to_sub := to_sub st; cadd := cadd st; perr := true |}.
Definition last_opt (l : list term) : option term :=
  match l with [] => None | _ => Some (last l TTrue) end.
(* one iteration of walk_plus's loop for the popped element x; a Plus pushes its arguments,
   which are then popped last-to-first: structural recursion instead of the explicit stack *)
Fixpoint plus_walk (ttype : option ty) (x : term) (st : pstate) {struct x} : pstate :=
  match x with
  | T o xs =>
      if is_constant x then
        match num_value x with
        | Some v => {| to_sum := to_sum st; to_sub := to_sub st; cadd := fr_add (cadd st) v; perr := perr st |}
        | None => p_err st
        end
      else
        match o with
        | OPlus => (fix go (l : list term) (st : pstate) : pstate :=
                      match l with [] => st | y :: r => plus_walk ttype y (go r st) end) xs st
        | OMinus => match xs with
                    | a :: b :: _ => p_sub (p_sum st a) b
                    | _ => p_err st
                    end
        | OTimes =>
            match last_opt xs with
            | Some c =>
                if is_constant c then
                  match num_value c with
                  | Some cv =>
                      if fr_ltb cv (0, 1) then
                        let front := removelast xs in
                        let new_args :=
                          if fr_eqb cv (-1, 1) then Some front
                          else match const_of_type ttype (fr_neg cv) with
                               | Some c' => Some (front ++ [c'])
                               | None => None
                               end in
                        match new_args with
                        | Some na => match mk_times na with
                                     | Some nt => p_sub st nt
                                     | None => p_err st
                                     end
                        | None => p_err st
                        end
                      else p_sum st x
                  | None => p_err st
                  end
                else p_sum st x
            | None => p_sum st x
            end
        | _ => p_sum st x
        end
  end.
(* walk_plus *)
Definition r_plus (args : list term) : option term :=
  match args with
  | [] => None
  | a0 :: _ =>
      let ttype := tc a0 in
      let st := fold_right (plus_walk ttype) {| to_sum := []; to_sub := []; cadd := (0, 1); perr := false |} args in
      if perr st then None
      else
        constant <- const_of_type ttype (cadd st) ;;
        match to_sum st, to_sub st with
        | [], [] => Some constant
        | _, _ =>
            let ts := if is_zero constant then to_sum st else to_sum st ++ [constant] in
            match to_sub st with
            | [] => mk_plus ts
            | _ =>
                sub <- mk_plus (to_sub st) ;;
                match ts with
                | [] => m1 <- const_of_type ttype (-1, 1) ;; mk_times [m1; sub]
                | _ => res <- mk_plus ts ;; Some (mk_minus res sub)
                end
            end
        end
  end.

Record tstate := { t_args : list term; cmul : frac; tzero : bool; terr : bool }.
Fixpoint times_walk (x : term) (st : tstate) {struct x} : tstate :=
  match x with
  | T o xs =>
      if is_constant x then
        if is_zero x then {| t_args := t_args st; cmul := cmul st; tzero := true; terr := terr st |}
        else match num_value x with
             | Some v => {| t_args := t_args st; cmul := fr_mul (cmul st) v; tzero := tzero st; terr := terr st |}
             | None => {| t_args := t_args st; cmul := cmul st; tzero := tzero st; terr := true |}
             end
      else
        match o with
        | OTimes => (fix go (l : list term) (st : tstate) : tstate :=
                       match l with [] => st | y :: r => times_walk y (go r st) end) xs st
        | _ => {| t_args := t_args st ++ [x]; cmul := cmul st; tzero := tzero st; terr := terr st |}
        end
  end.
(* walk_times.  The loop's `break` on a zero constant only skips work: the result is the
   constant 0 whatever else is in the product.  The sort by node id is the oracle's. *)
Definition r_times (ora : oracle) (args : list term) : option term :=
  match args with
  | [] => None
  | a0 :: _ =>
      let ttype := tc a0 in
      let st := fold_right times_walk {| t_args := []; cmul := (1, 1); tzero := false; terr := false |} args in
      if tzero st then const_of_type ttype (0, 1)
      else if terr st then None
      else
        const <- const_of_type ttype (cmul st) ;;
        if is_zero const then Some const
        else match t_args st with
             | [] => Some const
             | _ =>
                 let na := if is_one const then t_args st else t_args st ++ [const] in
                 r <- mk_times na ;; Some (reorder ora OTimes args r)
             end
  end.
(* walk_pow: an Int or Real constant base l with exponent r is folded to Real(Fraction(l) ** r)
   unless l = 0 and r < 0; that case falls through to the constructor Pow, which raises
   ZeroDivisionError on constants.  Not modelled (None, although Python computes a float): a
   non-integer exponent. *)
Definition r_pow (a e : term) : option term :=
  match num_value a with
  | Some l =>
      match constant_value e with
      | Some (PNum p) =>
          if negb (fst l =? 0) || fr_leb (0, 1) p then
            if fr_is_int p then r <- fr_pow_int l (fst p) ;; Some (mk_real r) else None
          else mk_pow a e
      | _ => None
      end
  | None => mk_pow a e
  end.
(* walk_minus *)
Definition r_minus (sl sr : term) : option term :=
  match top sl, top sr with
  | ORealC n1 d1, ORealC n2 d2 => Some (mk_real (fr_sub (n1, d1) (n2, d2)))
  | OIntC l, OIntC r => Some (mk_int (l - r))
  | _, _ =>
      if is_constant sr && is_zero sr then Some sl
      else if term_eqb sl sr then
             match tc sl with
             | Some TReal => Some (mk_real (0, 1))
             | Some _ => Some (mk_int 0)
             | None => None
             end
           else Some (mk_minus sl sr)
  end.
(* walk_toreal *)
Definition r_toreal (a : term) : option term :=
  if is_constant a then
    match top a with OIntC z => Some (mk_real (z, 1)) | _ => None end
  else mk_toreal a.
(* walk_div.  Int constants: l // r for r > 0 and -(l // -r) for r < 0 (Python floor division). *)
Definition r_div (sl sr : term) : option term :=
  if is_constant sl && is_constant sr && negb (is_zero sr) then
    match top sl with
    | ORealC n d =>
        match num_value sr with
        | Some r => q <- fr_div (n, d) r ;; Some (mk_real q)
        | None => None
        end
    | OIntC l =>
        match top sr with
        | OIntC r => if 0 <? r then q <- py_floordiv l r ;; Some (mk_int q)
                     else q <- py_floordiv l (- r) ;; Some (mk_int (- q))
        | _ => None
        end
    | _ => None
    end
  else if is_constant sl && is_zero sl then Some sl
  else if is_constant sr && is_one sr then Some sl
  else mk_div sl sr.

(* ---------------------------------------------------------------- bit-vector rules
   [w] is formula.bv_width() of the ORIGINAL node (its payload). *)
Definition mask (w : Z) : Z := Z.pow 2 w - 1.
Definition r_bv_and (w : Z) (a b : term) : option term :=
  match bv_value a with
  | Some lhs =>
      if lhs =? 0 then mk_bvzero w
      else if lhs =? mask w then Some b
      else match bv_value b with
           | Some rhs => mk_bv (py_and lhs rhs) w
           | None => Some (mk_bvop BAnd a b)
           end
  | None =>
      match bv_value b with
      | Some rhs => if rhs =? 0 then mk_bvzero w
                    else if rhs =? mask w then Some a
                    else Some (mk_bvop BAnd a b)
      | None => Some (mk_bvop BAnd a b)
      end
  end.
Definition r_bv_not (w : Z) (a : term) : option term :=
  match bv_value a with
  | Some v => mk_bv (py_and (py_invert v) (mask w)) w
  | None => Some (mk_bvun BNot a)
  end.
Definition r_bv_neg (w : Z) (a : term) : option term :=
  match bv_value a with
  | Some v => mk_bv ((Z.pow 2 w - v) mod Z.pow 2 w) w
  | None => Some (mk_bvun BNeg a)
  end.
Definition r_bv_or (w : Z) (a b : term) : option term :=
  match bv_value a with
  | Some lhs =>
      if lhs =? 0 then Some b
      else if lhs =? mask w then mk_bv (mask w) w
      else if is_constant b then
             match bv_value b with
             | Some rhs => mk_bv (py_or lhs rhs) w
             | None => None
             end
           else Some (mk_bvop BOr a b)
  | None =>
      match bv_value b with
      | Some rhs => if rhs =? 0 then Some a
                    else if rhs =? mask w then mk_bv (mask w) w
                    else Some (mk_bvop BOr a b)
      | None => Some (mk_bvop BOr a b)
      end
  end.
Definition r_bv_xor (w : Z) (a b : term) : option term :=
  match bv_value a, bv_value b with
  | Some x, Some y => mk_bv (py_xor x y) w
  | _, _ => Some (mk_bvop BXor a b)
  end.
Definition r_bv_add (w : Z) (a b : term) : option term :=
  match bv_value a with
  | Some lhs =>
      if lhs =? 0 then Some b
      else match bv_value b with
           | Some rhs => mk_bv ((lhs + rhs) mod Z.pow 2 w) w
           | None => Some (mk_bvop BAdd a b)
           end
  | None =>
      match bv_value b with
      | Some 0 => Some a
      | _ => Some (mk_bvop BAdd a b)
      end
  end.
Definition r_bv_mul (w : Z) (a b : term) : option term :=
  match bv_value a with
  | Some lhs =>
      if lhs =? 0 then mk_bvzero w
      else if lhs =? 1 then Some b
      else match bv_value b with
           | Some rhs => mk_bv ((lhs * rhs) mod Z.pow 2 w) w
           | None => Some (mk_bvop BMul a b)
           end
  | None =>
      match bv_value b with
      | Some rhs => if rhs =? 0 then mk_bvzero w
                    else if rhs =? 1 then Some a
                    else Some (mk_bvop BMul a b)
      | None => Some (mk_bvop BMul a b)
      end
  end.
Definition r_bv_udiv (w : Z) (a b : term) : option term :=
  match bv_value b with
  | Some rhs =>
      if rhs =? 0 then mk_bv (mask w) w
      else if rhs =? 1 then Some a
      else match bv_value a with
           | Some lhs => mk_bv ((lhs / rhs) mod Z.pow 2 w) w
           | None => Some (mk_bvop BUdiv a b)
           end
  | None => Some (mk_bvop BUdiv a b)
  end.
Definition r_bv_urem (w : Z) (a b : term) : option term :=
  match bv_value b with
  | Some rhs =>
      if rhs =? 0 then Some a
      else if rhs =? 1 then mk_bvzero w
      else match bv_value a with
           | Some lhs => mk_bv (lhs mod rhs) w
           | None => Some (mk_bvop BUrem a b)
           end
  | None =>
      match bv_value a with
      | Some 0 => mk_bvzero w
      | _ => Some (mk_bvop BUrem a b)
      end
  end.
Definition r_bv_ult (a b : term) : option term :=
  if term_eqb a b then Some TFalse
  else match bv_value b with
       | Some rhs =>
           if rhs =? 0 then Some TFalse
           else match bv_value a with
                | Some lhs => Some (mk_bool (lhs <? rhs))
                | None => Some (mk_bvrel BUlt a b)
                end
       | None => Some (mk_bvrel BUlt a b)
       end.
Definition r_bv_ule (a b : term) : option term :=
  if term_eqb a b then Some TTrue
  else match bv_value a with
       | Some lhs =>
           if lhs =? 0 then Some TTrue
           else match bv_value b with
                | Some rhs => Some (mk_bool (lhs <=? rhs))
                | None => Some (mk_bvrel BUle a b)
                end
       | None => Some (mk_bvrel BUle a b)
       end.
(* bv_bin_str(): '{0:0<width>b}' of the constant (MSB first); reverse=True gives LSB first *)
Definition bv_bin_str (a : term) : option (list bool) :=
  match top a with OBVC v w => Some (bin_str w v) | _ => None end.
Definition r_bv_extract (s e : Z) (a : term) : option term :=
  if is_bv_constant a then
    bits <- bv_bin_str a ;;
    let res := py_reverse (py_slice (py_reverse bits) (Some s) (Some (e + 1))) in
    mk_bv_bits res (Some (e + 1 - s))
  else mk_bvextract a s (Some e).
Definition r_bv_ror (k : Z) (a : term) : option term :=
  if is_bv_constant a then
    bits <- bv_bin_str a ;;
    let bitstr := py_reverse bits in
    let slice1 := py_slice bitstr (Some 0) (Some k) in
    let slice2 := py_slice bitstr (Some k) None in
    mk_bv_bits (py_reverse (slice2 ++ slice1)) None
  else Some (mk_bvror a k).
Definition r_bv_rol (k : Z) (a : term) : option term :=
  if is_bv_constant a then
    bits <- bv_bin_str a ;;
    let bitstr := py_reverse bits in
    let slice1 := py_slice bitstr (Some 0) (Some (- k)) in
    let slice2 := py_slice bitstr (Some (- k)) None in
    mk_bv_bits (py_reverse (slice2 ++ slice1)) None
  else Some (mk_bvrol a k).
Definition r_bv_sext (w k : Z) (a : term) : option term :=
  if is_bv_constant a then
    bits <- bv_bin_str a ;;
    match bits with
    | [] => None
    | f :: _ => mk_bv_bits (py_repeat [f] k ++ bits) (Some w)
    end
  else Some (mk_bvsext a k).
Definition r_bv_zext (w k : Z) (a : term) : option term :=
  if is_bv_constant a then
    bits <- bv_bin_str a ;;
    mk_bv_bits (py_repeat [false] k ++ bits) (Some w)
  else Some (mk_bvzext a k).
Definition r_bv_concat (a b : term) : option term :=
  match top a, top b with
  | OBVC v0 w0, OBVC v1 w1 => mk_bv (Z.pow 2 w1 * v0 + v1) (w1 + w0)
  | _, _ => Some (mk_bvconcat a b)
  end.
Definition r_bv_shift (k : bvop) (sh : Z -> Z -> Z) (a b : term) : option term :=
  match bv_value b with
  | Some rhs =>
      if rhs =? 0 then Some a
      else let width := bv_width a in
           if width <=? rhs then mk_bvzero width
           else match bv_value a with
                | Some v => mk_bv ((sh v rhs) mod Z.pow 2 width) width
                | None => Some (mk_bvop k a b)
                end
  | None =>
      match bv_value a with
      | Some 0 => Some a
      | _ => Some (mk_bvop k a b)
      end
  end.
Definition r_bv_lshl := r_bv_shift BLshl py_shl.
Definition r_bv_lshr := r_bv_shift BLshr py_shr.
(* walk_bv_sub: the second `if` (not elif) may overwrite the x - x result *)
Definition r_bv_sub (w : Z) (a b : term) : option term :=
  let s1 := if term_eqb a b then Some (mk_bvzero w) else None in
  let s2 := match bv_value b with
            | Some rhs =>
                if rhs =? 0 then Some (Some a)
                else match bv_value a with
                     | Some lhs => Some (mk_bv ((lhs - rhs) mod Z.pow 2 w) w)
                     | None => s1
                     end
            | None => s1
            end in
  match s2 with
  | Some r => r
  | None => Some (mk_bvop BSub a b)
  end.
Definition bv_signed_value (a : term) : option Z :=
  match top a with OBVC v w => Some (twos_complement v w) | _ => None end.
Definition r_bv_scmp (k : bvrel) (f : Z -> Z -> bool) (refl : bool) (a b : term) : option term :=
  match bv_signed_value a, bv_signed_value b with
  | Some x, Some y => Some (mk_bool (f x y))
  | _, _ => if term_eqb a b then Some (mk_bool refl) else Some (mk_bvrel k a b)
  end.
Definition r_bv_comp (sl sr : term) : option term :=
  if term_eqb sl sr then mk_bv 1 1
  else if is_bv_constant sl && is_bv_constant sr then mk_bv 0 1
  else Some (mk_bvcomp sl sr).
(* the rules below call other rules on freshly built nodes BVNeg(x) / BVUDiv(x, y) / ..., whose
   bv_width() is x.bv_width() *)
Definition neg_c (x : term) : option term := r_bv_neg (bv_width x) x.
Definition r_bv_sdiv (l r : term) : option term :=
  match bv_signed_value l, bv_signed_value r with
  | Some sl, Some sr =>
      let l_sign := sl <? 0 in
      let r_sign := sr <? 0 in
      if negb l_sign && negb r_sign then r_bv_udiv (bv_width l) l r
      else if l_sign && negb r_sign then
             nl <- neg_c l ;; div <- r_bv_udiv (bv_width nl) nl r ;; neg_c div
      else if negb l_sign && r_sign then
             nr <- neg_c r ;; div <- r_bv_udiv (bv_width l) l nr ;; neg_c div
      else nl <- neg_c l ;; nr <- neg_c r ;; r_bv_udiv (bv_width nl) nl nr
  | _, _ => Some (mk_bvop BSdiv l r)
  end.
Definition r_bv_srem (a b : term) : option term :=
  match bv_signed_value a, bv_signed_value b with
  | Some sa, Some sb =>
      l <- (if sa <? 0 then neg_c a else Some a) ;;
      r <- (if sb <? 0 then neg_c b else Some b) ;;
      res <- r_bv_urem (bv_width l) l r ;;
      if sa <? 0 then neg_c res else Some res
  | _, _ => Some (mk_bvop BSrem a b)
  end.
Definition zrange (lo hi : Z) : list Z := map (fun i => lo + Z.of_nat i) (seq 0 (Z.to_nat (hi - lo))).
Definition r_bv_ashr (w : Z) (l r : term) : option term :=
  match bv_signed_value l, bv_value r with
  | Some sl, Some rv =>
      ret <- r_bv_lshr l r ;;
      if sl <? 0 then
        n <- bv_value ret ;;
        let padlen := if rv <? w then rv else w in
        mk_bv (fold_left (fun n i => set_bit n i true) (zrange (w - padlen) w) n) w
      else Some ret
  | _, _ => Some (mk_bvop BAshr l r)
  end.
Definition r_bv_tonatural (a : term) : option term :=
  match bv_value a with
  | Some v => Some (mk_int v)
  | None => Some (T OBVToNat [a])
  end.

(* ---------------------------------------------------------------- string rules *)
Definition r_str (k : strop) (args : list term) : option term :=
  match k, args with
  | SLength, [s] =>
      match str_value s with
      | Some v => Some (mk_int (zlen v))
      | None => Some (mk_strop SLength [s])
      end
  | SConcat, _ =>
      if forallb is_string_constant args
      then Some (mk_string (List.concat (map (fun x => match str_value x with Some v => v | None => [] end) args)))
      else mk_strconcat args
  | SCharAt, [s; i] =>
      match str_value s, top i with
      | Some v, OIntC iv => Some (mk_string (if 0 <=? iv then py_slice v (Some iv) (Some (iv + 1)) else []))
      | _, _ => Some (mk_strop SCharAt [s; i])
      end
  | SContains, [s; t] =>
      match str_value s, str_value t with
      | Some sv, Some tv => Some (mk_bool (py_in tv sv))
      | _, _ => Some (mk_strop SContains [s; t])
      end
  | SIndexOf, [s; t; i] =>
      match str_value s, str_value t, top i with
      | Some sv, Some tv, OIntC iv =>
          Some (mk_int (if (0 <=? iv) && (iv <=? zlen sv) then py_find sv tv iv else -1))
      | _, _, _ => Some (mk_strop SIndexOf [s; t; i])
      end
  | SReplace, [s; t1; t2] =>
      match str_value s, str_value t1, str_value t2 with
      | Some sv, Some v1, Some v2 => Some (mk_string (py_replace1 sv v1 v2))
      | _, _, _ => Some (mk_strop SReplace [s; t1; t2])
      end
  | SSubstr, [s; i; j] =>
      match str_value s, top i, top j with
      | Some sv, OIntC iv, OIntC jv =>
          Some (mk_string (if (0 <=? iv) && (0 <? jv) then py_slice sv (Some iv) (Some (iv + jv)) else []))
      | _, _, _ => Some (mk_strop SSubstr [s; i; j])
      end
  | SPrefixOf, [s; t] =>
      match str_value s, str_value t with
      | Some sv, Some tv => Some (mk_bool (py_startswith tv sv))
      | _, _ => Some (mk_strop SPrefixOf [s; t])
      end
  | SSuffixOf, [s; t] =>
      match str_value s, str_value t with
      | Some sv, Some tv => Some (mk_bool (py_endswith tv sv))
      | _, _ => Some (mk_strop SSuffixOf [s; t])
      end
  | SToInt, [s] =>
      match str_value s with
      | Some sv =>
          if (zlen sv =? 0) || negb (forallb is_digit sv) then Some (mk_int (-1))
          else match py_int_of_str sv with
               | Some v => Some (mk_int v)
               | None => Some (mk_strop SToInt [s])     (* more than 4300 digits: left unfolded *)
               end
      | None => Some (mk_strop SToInt [s])
      end
  | SFromInt, [i] =>
      match top i with
      | OIntC iv => if iv <? 0 then Some (mk_string [])
                    else match py_str_of_int iv with
                         | Some ds => Some (mk_string ds)
                         | None => Some (mk_strop SFromInt [i])   (* more than 4300 digits: left unfolded *)
                         end
      | _ => Some (mk_strop SFromInt [i])
      end
  | _, _ => None
  end.

(* ---------------------------------------------------------------- array rules *)
(* walk_array_select; array_value_get is a lookup among the assignments, else the default *)
Definition r_select (a i : term) : option term :=
  if is_array_value a && is_constant i then
    match targs a with
    | d :: rest => Some (match assoc_get i (pairs_of rest) with Some v => v | None => d end)
    | [] => None
    end
  else Some (mk_select a i).
Definition r_store (a i v : term) : option term :=
  match a with
  | T (OArrayValue it) (d :: rest) =>
      if is_constant i then mk_array it d (assoc_set i v (dict_of_pairs (pairs_of rest)))
      else Some (mk_store a i v)
  | _ => Some (mk_store a i v)
  end.
Definition r_array_value (it : ty) (args : list term) : option term :=
  match args with
  | d :: rest => mk_array it d (dict_of_pairs (pairs_of rest))
  | [] => None
  end.

(* ---------------------------------------------------------------- dispatch *)
Definition un (f : term -> option term) (args : list term) : option term :=
  match args with [a] => f a | _ => None end.
Definition bin (f : term -> term -> option term) (args : list term) : option term :=
  match args with [a; b] => f a b | _ => None end.
Definition tern (f : term -> term -> term -> option term) (args : list term) : option term :=
  match args with [a; b; c] => f a b c | _ => None end.

Definition rule (ora : oracle) (o : op) (args : list term) : option term :=
  match o with
  | OAnd => Some (r_and ora args)
  | OOr => Some (r_or ora args)
  | ONot => un (fun a => Some (r_not a)) args
  | OIff => bin (fun a b => Some (r_iff a b)) args
  | OImplies => bin (fun a b => Some (r_implies a b)) args
  | OEquals => bin r_equals args
  | OIte => tern (fun a b c => Some (r_ite a b c)) args
  | OLe => bin r_le args
  | OLt => bin r_lt args
  | OForall vs => un (fun a => Some (r_quant ora o mk_forall vs a)) args
  | OExists vs => un (fun a => Some (r_quant ora o mk_exists vs a)) args
  | OPlus => r_plus args
  | OTimes => r_times ora args
  | OPow => match args with a :: e :: _ => r_pow a e | _ => None end
  | OMinus => bin r_minus args
  | OFunction n fty => mk_function n fty args
  | OToReal => un r_toreal args
  | ODiv => match args with a :: b :: _ => r_div a b | _ => None end
  | OBV BAnd w => match args with a :: b :: _ => r_bv_and w a b | _ => None end
  | OBV BNot w => match args with a :: _ => r_bv_not w a | _ => None end
  | OBV BNeg w => match args with a :: _ => r_bv_neg w a | _ => None end
  | OBV BOr w => match args with a :: b :: _ => r_bv_or w a b | _ => None end
  | OBV BXor w => match args with a :: b :: _ => r_bv_xor w a b | _ => None end
  | OBV BAdd w => match args with a :: b :: _ => r_bv_add w a b | _ => None end
  | OBV BMul w => match args with a :: b :: _ => r_bv_mul w a b | _ => None end
  | OBV BUdiv w => match args with a :: b :: _ => r_bv_udiv w a b | _ => None end
  | OBV BUrem w => match args with a :: b :: _ => r_bv_urem w a b | _ => None end
  | OBVRel BUlt => match args with a :: b :: _ => r_bv_ult a b | _ => None end
  | OBVRel BUle => match args with a :: b :: _ => r_bv_ule a b | _ => None end
  | OBVExtract _ s e => match args with a :: _ => r_bv_extract s e a | _ => None end
  | OBVRor _ k => match args with a :: _ => r_bv_ror k a | _ => None end
  | OBVRol _ k => match args with a :: _ => r_bv_rol k a | _ => None end
  | OBVSext w k => match args with a :: _ => r_bv_sext w k a | _ => None end
  | OBVZext w k => match args with a :: _ => r_bv_zext w k a | _ => None end
  | OBV BConcat _ => match args with a :: b :: _ => r_bv_concat a b | _ => None end
  | OBV BLshl _ => match args with a :: b :: _ => r_bv_lshl a b | _ => None end
  | OBV BLshr _ => match args with a :: b :: _ => r_bv_lshr a b | _ => None end
  | OBV BSub w => match args with a :: b :: _ => r_bv_sub w a b | _ => None end
  | OBVRel BSlt => match args with a :: b :: _ => r_bv_scmp BSlt Z.ltb false a b | _ => None end
  | OBVRel BSle => match args with a :: b :: _ => r_bv_scmp BSle Z.leb true a b | _ => None end
  | OBV BComp _ => bin r_bv_comp args
  | OBV BSdiv _ => bin r_bv_sdiv args
  | OBV BSrem _ => match args with a :: b :: _ => r_bv_srem a b | _ => None end
  | OBV BAshr w => bin (r_bv_ashr w) args
  | OStr k => r_str k args
  | OBVToNat => match args with a :: _ => r_bv_tonatural a | _ => None end
  | OSelect => bin r_select args
  | OStore => tern r_store args
  | OArrayValue it => r_array_value it args
  | OSymbol _ _ | OBoolC _ | OIntC _ | ORealC _ _ | OBVC _ _ | OStrC _ => Some (T o args)
  end.

(* the rule, followed by create_node's type check of what was built (the children were
   checked when they were built; re-checking the whole result is equivalent) *)
Definition simp_rule (ora : oracle) (o : op) (args : list term) : option term :=
  r <- rule ora o args ;;
  match tc r with Some _ => Some r | None => None end.

Fixpoint simplify_opt (ora : oracle) (t : term) {struct t} : option term :=
  match t with
  | T o args =>
      match (fix go (l : list term) : option (list term) :=
               match l with
               | [] => Some []
               | x :: r => match simplify_opt ora x, go r with
                           | Some a, Some b => Some (a :: b)
                           | _, _ => None
                           end
               end) args with
      | Some args' => simp_rule ora o args'
      | None => None
      end
  end.

(* the simplified term; the input itself where the implementation raises *)
Definition simplify_with (ora : oracle) (t : term) : term :=
  match simplify_opt ora t with Some r => r | None => t end.
Definition simplify (t : term) : term := simplify_with no_oracle t.
