(* Hand model (H) of pysmt.rewritings.CNFizer and PolarityCNFizer (rewritings.py:32-374), quirks
   included, and of FormulaManager.new_fresh_symbol (formula.py:119-128).

   - The manager state ([mstate]: _fresh_guess and the names in [symbols]) is threaded through
     the walk, so the model's fresh names are EQUAL to the implementation's when both start
     from the same manager state (no renaming in the correspondence).
   - The DAG walker (walkers/dag.py) computes every distinct node once, children from right to
     left (stack).  The model is the tree recursion in the same order; re-walking a shared
     sub-formula returns the same result and leaves the state unchanged because
     [_introduced_variables] is keyed by the formula (licensed by core/DagWalk.v: walk_refines).
   - CNFizer walks INSIDE theory atoms too (and allocates fresh symbols for Boolean structure
     nested in them, discarding the clauses); PolarityCNFizer does not.
   - [Not(a).simplify()] calls the full simplifier.  On negations, symbols and Boolean constants
     it is modelled here ([simplify]); on every other term (theory atoms) it is the parameter
     [asimp] (the correspondence instantiates it with the table of the implementation's
     answers; the theorems assume it preserves truth values, which is property C01).
   - [None] = the implementation raises. *)
From Coq Require Import List ZArith Bool String DecimalString.
From PySMT.core Require Import Syntax.
From PySMT.models Require Import TypeChecker Oracles.
Import ListNotations.
Open Scope bool_scope.

(* ------------------------------------------------------------------ FormulaManager: fresh names *)
Record mstate : Type := { fresh_guess : nat; mnames : list string }.

Definition decimal (n : nat) : string := NilEmpty.string_of_uint (Nat.to_uint n).
(* base % count  for the templates "FV%d" / "ack%d": [prefix] is the text before %d *)
Definition fresh_name (prefix : string) (n : nat) : string := (prefix ++ decimal n)%string.

(* while (base % count) in self.symbols: count += 1     (fuel = |symbols| + 1 is enough) *)
Fixpoint first_unused (prefix : string) (used : list string) (fuel c : nat) : nat :=
  match fuel with
  | O => c
  | S f => if mem String.eqb (fresh_name prefix c) used then first_unused prefix used f (S c) else c
  end.

Definition new_fresh (prefix : string) (m : mstate) : string * mstate :=
  let c := first_unused prefix (mnames m) (S (List.length (mnames m))) (fresh_guess m) in
  let n := fresh_name prefix c in
  (n, {| fresh_guess := S c; mnames := mnames m ++ [n] |}).

(* ------------------------------------------------------------------ literals *)
(* FormulaManager.Not *)
Definition mk_not (x : term) : term :=
  match x with T ONot [y] => y | _ => T ONot [x] end.
(* is_true() / is_false() (constants have no children) *)
Definition ctrue (t : term) : bool := match t with T (OBoolC true) [] => true | _ => false end.
Definition cfalse (t : term) : bool := match t with T (OBoolC false) [] => true | _ => false end.

Section WithSimplifier.
  Variable asimp : term -> term.     (* Simplifier on anything but Not / Symbol / Bool constant *)

  (* Simplifier.walk_not on the simplified argument *)
  Definition negate (x : term) : term :=
    match x with
    | T (OBoolC b) [] => TBoolC (negb b)
    | T ONot [y] => y
    | _ => T ONot [x]
    end.
  Fixpoint simplify (t : term) : term :=
    match t with
    | T ONot [a] => negate (simplify a)
    | T (OSymbol _ _) _ => t
    | T (OBoolC _) [] => t
    | _ => asimp t
    end.
  (* self.mgr.Not(a).simplify() *)
  Definition neg_lit (a : term) : term := simplify (mk_not a).

  (* ---------------------------------------------------------------- CNFizer state and results *)
  Definition clause := list term.
  Definition mkclause (l : list term) : clause := dedupe term_eqb l.       (* frozenset(list) *)

  Record cstate : Type := { mgr : mstate; intro : list (term * string) }.  (* _introduced_variables *)

  Fixpoint assoc_term (t : term) (l : list (term * string)) : option string :=
    match l with
    | [] => None
    | (g, n) :: r => if term_eqb t g then Some n else assoc_term t r
    end.

  Definition key_var (f : term) (st : cstate) : term * cstate :=
    match assoc_term f (intro st) with
    | Some n => (TSym n TBool, st)
    | None => let (n, m') := new_fresh "FV" (mgr st) in
              (TSym n TBool, {| mgr := m'; intro := intro st ++ [(f, n)] |})
    end.

  (* result of a walk_* : THEORY_PLACEHOLDER or (key, clauses) *)
  Inductive res : Type := PH | R (key : term) (cl : list clause).

  Definition is_ph (r : res) : bool := match r with PH => true | _ => false end.
  (* "for a, c in args": fails on a placeholder *)
  Fixpoint unpack (rs : list res) : option (list (term * list clause)) :=
    match rs with
    | [] => Some []
    | R k c :: r => match unpack r with Some l => Some ((k, c) :: l) | None => None end
    | PH :: _ => None
    end.

  Definition nk (k : term) : term := T ONot [k].        (* self.mgr.Not(k), k a symbol *)

  (* leaves and theory atoms, common to both converters *)
  Definition bool_symbol (t : term) : res :=
    match t with T (OSymbol _ ty) _ => if ty_eqb ty TBool then R t [] else PH | _ => PH end.
  Definition walk_function (t : term) : option res :=
    match t with
    | T (OFunction _ (TFun _ r)) _ => Some (if ty_eqb r TBool then R t [] else PH)
    | _ => None
    end.
  Definition walk_constant (t : term) : res :=
    match t with T (OBoolC _) _ => R t [] | _ => PH end.
  Definition walk_theory_op (t : term) : option res :=
    match tc t with Some TBool => Some (R t []) | Some _ => Some PH | None => None end.
  Definition walk_not (rs : list res) : option res :=
    match rs with
    | [R a c] => Some (if ctrue a then R TFalse [] else if cfalse a then R TTrue [] else R (neg_lit a) c)
    | _ => None
    end.

  Definition is_connective (o : op) : bool :=
    match o with OAnd | OOr | ONot | OImplies | OIff | OIte => true | _ => false end.
  Definition is_str_operator (o : op) : bool :=
    match o with
    | OStr SLength | OStr SConcat | OStr SIndexOf | OStr SReplace | OStr SSubstr | OStr SCharAt
    | OStr SToInt | OStr SFromInt => true
    | _ => false
    end.

  (* ---------------------------------------------------------------- CNFizer.walk_* *)
  Definition cnf_node (t : term) (rs : list res) (st : cstate) : option (res * cstate) :=
    match t with
    | T o _ =>
        match o with
        | OForall _ | OExists _ => None
        | OAnd =>
            match rs with
            | [r] => Some (r, st)
            | _ => match unpack rs with
                   | None => None
                   | Some ps =>
                       let (k, st') := key_var t st in
                       Some (R k (mkclause (k :: map (fun p => neg_lit (fst p)) ps)
                                  :: flat_map (fun p => mkclause [fst p; nk k] :: snd p) ps), st')
                   end
            end
        | OOr =>
            match rs with
            | [r] => Some (r, st)
            | _ => match unpack rs with
                   | None => None
                   | Some ps =>
                       let (k, st') := key_var t st in
                       Some (R k (mkclause (nk k :: map fst ps)
                                  :: flat_map (fun p => mkclause [k; mk_not (fst p)] :: snd p) ps), st')
                   end
            end
        | ONot => match walk_not rs with Some r => Some (r, st) | None => None end
        | OImplies =>
            match rs with
            | [R a ca; R b cb] =>
                let (k, st') := key_var t st in
                Some (R k (ca ++ cb ++ [mkclause [neg_lit a; b; nk k]; mkclause [a; k]; mkclause [neg_lit b; k]]), st')
            | _ => None
            end
        | OIff =>
            match rs with
            | [R a ca; R b cb] =>
                let (k, st') := key_var t st in
                Some (R k (ca ++ cb ++ [mkclause [neg_lit a; neg_lit b; k]; mkclause [neg_lit a; b; nk k];
                                        mkclause [a; neg_lit b; nk k]; mkclause [a; b; k]]), st')
            | _ => None
            end
        | OIte =>
            if existsb is_ph rs then Some (PH, st)
            else match rs with
                 | [R i ci; R th ct; R e ce] =>
                     let (k, st') := key_var t st in
                     Some (R k (ci ++ ct ++ ce ++
                                [mkclause [neg_lit i; neg_lit th; k]; mkclause [neg_lit i; th; nk k];
                                 mkclause [i; neg_lit e; k]; mkclause [i; e; nk k]]), st')
                 | _ => None
                 end
        | OSymbol _ _ => Some (bool_symbol t, st)
        | OFunction _ _ => match walk_function t with Some r => Some (r, st) | None => None end
        | OBoolC _ | OIntC _ | ORealC _ _ | OBVC _ _ | OStrC _ => Some (walk_constant t, st)
        | _ =>
            if is_theory_relation o
            then (if forallb is_ph rs then Some (R t [], st) else None)   (* assert all(a == PLACEHOLDER) *)
            else match walk_theory_op t with Some r => Some (r, st) | None => None end
        end
    end.

  (* children from right to left, results in argument order *)
  Section WalkList.
    Variable w : term -> cstate -> option (res * cstate).
    Fixpoint walk_list (l : list term) (st : cstate) : option (list res * cstate) :=
      match l with
      | [] => Some ([], st)
      | x :: r =>
          match walk_list r st with
          | None => None
          | Some (rs, st1) =>
              match w x st1 with
              | None => None
              | Some (rx, st2) => Some (rx :: rs, st2)
              end
          end
      end.
  End WalkList.

  Fixpoint cnf_walk (t : term) (st : cstate) {struct t} : option (res * cstate) :=
    match t with
    | T o args =>
        match walk_list cnf_walk args st with
        | None => None
        | Some (rs, st1) => cnf_node (T o args) rs st1
        end
    end.

  (* ---------------------------------------------------------------- convert: top-level clean-up *)
  Definition is_nil {A} (l : list A) : bool := match l with [] => true | _ => false end.

  (* None = the clause is pruned (contains TRUE or the top literal) *)
  Definition clean_clause (tl ntl : term) (c : clause) : option clause :=
    if existsb (fun l => ctrue l || term_eqb l tl) c then None
    else Some (filter (fun l => negb (term_eqb l ntl) && negb (cfalse l)) c).

  (* the clean-up leaves no literal of the clause: "if len(simp) == 0: return FALSE_CNF" *)
  Definition has_emptied (tl : term) (cl : list clause) : bool :=
    existsb (fun c => match clean_clause tl (neg_lit tl) c with Some [] => true | _ => false end) cl.

  (* the loop returns FALSE_CNF at the first clause that is empty or becomes empty (whatever the
     iteration order of the frozenset), skips pruned clauses and keeps the others *)
  Definition cleanup (tl : term) (cl : list clause) : list clause :=
    match cl with
    | [] => [[tl]]
    | _ => if existsb is_nil cl || has_emptied tl cl then [[]]
           else flat_map (fun c => match clean_clause tl (neg_lit tl) c with
                                   | Some (x :: r) => [x :: r]
                                   | _ => []           (* "if simp is None: continue" *)
                                   end) cl
    end.

  Definition convert_with (walk : term -> cstate -> option (res * cstate)) (f : term) (st : cstate)
    : option (list clause * cstate) :=
    match walk f st with
    | Some (R tl cl, st') => Some (cleanup tl cl, st')
    | _ => None
    end.
  Definition cnf_convert := convert_with cnf_walk.

  (* convert_as_formula: And over the frozenset of clauses of Or over each frozenset of literals *)
  Definition mk_and (l : list term) : term := match l with [] => TTrue | [x] => x | _ => T OAnd l end.
  Definition mk_or (l : list term) : term := match l with [] => TFalse | [x] => x | _ => T OOr l end.
  Definition clause_eqb (a b : clause) : bool := set_eqb term_eqb a b.
  Definition as_formula (cl : list clause) : term := mk_and (map mk_or (dedupe clause_eqb cl)).

  (* ---------------------------------------------------------------- PolarityCNFizer *)
  Definition pol_node (t : term) (pol : bool) (rs : list res) (st : cstate) : option (res * cstate) :=
    match t with
    | T o _ =>
        match o with
        | OForall _ | OExists _ => None
        | OAnd =>
            match rs with
            | [r] => Some (r, st)
            | _ => match unpack rs with
                   | None => None
                   | Some ps =>
                       let (k, st') := key_var t st in
                       Some (R k (flat_map snd ps ++
                                  (if pol then map (fun p => mkclause [fst p; nk k]) ps
                                   else [mkclause (k :: map (fun p => neg_lit (fst p)) ps)])), st')
                   end
            end
        | OOr =>
            match rs with
            | [r] => Some (r, st)
            | _ => match unpack rs with
                   | None => None
                   | Some ps =>
                       let (k, st') := key_var t st in
                       Some (R k (flat_map snd ps ++
                                  (if pol then [mkclause (nk k :: map fst ps)]
                                   else map (fun p => mkclause [k; neg_lit (fst p)]) ps)), st')
                   end
            end
        | ONot => match walk_not rs with Some r => Some (r, st) | None => None end
        | OImplies =>
            match rs with
            | [R a ca; R b cb] =>
                let (k, st') := key_var t st in
                Some (R k (ca ++ cb ++ (if pol then [mkclause [neg_lit a; b; nk k]]
                                        else [mkclause [a; k]; mkclause [neg_lit b; k]])), st')
            | _ => None
            end
        | OIff =>
            match rs with
            | [R a cap; R b cbp; R _ can; R _ cbn] =>
                let (k, st') := key_var t st in
                Some (R k (cap ++ can ++ cbp ++ cbn ++
                           [mkclause [neg_lit a; neg_lit b; k]; mkclause [neg_lit a; b; nk k];
                            mkclause [a; neg_lit b; nk k]; mkclause [a; b; k]]), st')
            | _ => None
            end
        | OIte =>
            if existsb is_ph rs then Some (PH, st)
            else match rs with
                 | [R i cip; R _ cin; R th ct; R e ce] =>
                     let (k, st') := key_var t st in
                     Some (R k (cip ++ cin ++ ct ++ ce ++
                                (if pol then [mkclause [neg_lit i; th; nk k]; mkclause [i; e; nk k]]
                                 else [mkclause [neg_lit i; neg_lit th; k]; mkclause [i; neg_lit e; k]])), st')
                 | _ => None
                 end
        | OSymbol _ _ => Some (bool_symbol t, st)
        | OFunction _ _ => match walk_function t with Some r => Some (r, st) | None => None end
        | OBoolC _ => Some (walk_constant t, st)
        | _ =>
            (* _get_children asserts: str op, symbol, application, Bool constant or relation *)
            if is_theory_relation o then Some (R t [], st)
            else if is_str_operator o then Some (PH, st)
            else None
        end
    end.

  (* _get_children(formula, pol), walked from right to left *)
  Fixpoint pol_walk (t : term) (pol : bool) (st : cstate) {struct t} : option (res * cstate) :=
    match t with
    | T o args =>
        let node := pol_node (T o args) pol in
        match o, args with
        | ONot, [a] =>
            match pol_walk a (negb pol) st with
            | Some (ra, s1) => node [ra] s1
            | None => None
            end
        | OImplies, [a; b] =>
            match pol_walk b pol st with
            | Some (rb, s1) =>
                match pol_walk a (negb pol) s1 with
                | Some (ra, s2) => node [ra; rb] s2
                | None => None
                end
            | None => None
            end
        | OIff, [a; b] =>
            match pol_walk b (negb pol) st with
            | Some (rbn, s1) =>
                match pol_walk a (negb pol) s1 with
                | Some (ran, s2) =>
                    match pol_walk b pol s2 with
                    | Some (rbp, s3) =>
                        match pol_walk a pol s3 with
                        | Some (rap, s4) => node [rap; rbp; ran; rbn] s4
                        | None => None
                        end
                    | None => None
                    end
                | None => None
                end
            | None => None
            end
        | OIte, [i; th; e] =>
            match pol_walk e pol st with
            | Some (re, s1) =>
                match pol_walk th pol s1 with
                | Some (rt, s2) =>
                    match pol_walk i (negb pol) s2 with
                    | Some (rin, s3) =>
                        match pol_walk i pol s3 with
                        | Some (rip, s4) => node [rip; rin; rt; re] s4
                        | None => None
                        end
                    | None => None
                    end
                | None => None
                end
            | None => None
            end
        | ONot, _ | OImplies, _ | OIff, _ | OIte, _ => None        (* such nodes cannot be built *)
        | OAnd, _ | OOr, _ =>
            match walk_list (fun x s => pol_walk x pol s) args st with
            | Some (rs, s1) => node rs s1
            | None => None
            end
        | _, _ => node [] st
        end
    end.

  Definition pol_convert := convert_with (fun f st => pol_walk f true st).
End WithSimplifier.

(* the simplifier given as the finite table of the implementation's answers (correspondence) *)
Definition MISSING : term := TSym "__missing_simplifier_entry__" TBool.
Fixpoint table_simp (tab : list (term * term)) (t : term) : term :=
  match tab with
  | [] => MISSING
  | (a, b) :: r => if term_eqb t a then b else table_simp r t
  end.

Definition init_state (guess : nat) (names : list string) : cstate :=
  {| mgr := {| fresh_guess := guess; mnames := names |}; intro := [] |}.
