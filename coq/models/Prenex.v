(* Hand model (H) of pysmt.rewritings.PrenexNormalizer (rewritings.py 535-702).

   The walker returns, per node, None (not a Boolean formula: non-Boolean symbol / constant /
   application, theory operator) or a pair (L, m): a quantifier-free matrix m and a list L of
   (Q, variables) with the INNERMOST quantifier first; normalize() wraps m accordingly.
   - walk_conj_disj: reserved := free variables of the node; for every argument, for every
     (Q, vs) of its list: the variables of vs that are reserved are replaced, in the argument's
     matrix, by fresh symbols (FormulaManager.FreshSymbol, "FV%d"); the new variable set becomes
     reserved.  The lists are concatenated, the matrices joined by And / Or.
   - walk_not inverts the quantifiers and negates the matrix (FormulaManager.Not);
     walk_implies / walk_iff / walk_ite re-use walk_not / walk_conj_disj on the synthesised
     formulas Or(Not a, b), And(a -> b, b -> a), And(i -> t, Not i -> e) (only their free
     variables matter).
   - walk_quantifier appends (Q, vs minus the variables already bound by the body's list);
     nothing is appended when that set is empty.
   - relations and Boolean-valued applications are atoms ([], node); their arguments are walked
     by the DAG walker but the results are discarded, so the model does not descend into them
     (this can only change which fresh NUMBERS are used, and whether the call raises TypeError
     on a Boolean array read nested in an atom: such inputs are outside the modelled domain).
   Fresh names: the model threads a counter n and uses "FV<n>", "FV<n+1>", ...; the
   implementation takes them from the manager (skipping used names, allocating once per shared
   node, and in the iteration order of a Python set).  The correspondence therefore compares up
   to a CONSISTENT RENAMING OF THE FV-NAMES ([canon] below); the theorems assume nothing about
   which fresh names are chosen beyond what they state.
   Variable sets are lists (order irrelevant: compared as multisets). *)
From Coq Require Import List ZArith Bool String DecimalString.
From PySMT.core Require Import Syntax.
From PySMT.models Require Import Oracles C10Local.
Import ListNotations.
Open Scope bool_scope.

Definition qpref := list (bool * list var).     (* true = Exists *)
Definition pres := (qpref * term)%type.

Definition decimal (n : nat) : string := NilEmpty.string_of_uint (Nat.to_uint n).
Definition fresh_name (n : nat) : string := ("FV" ++ decimal n)%string.

Definition invert (L : qpref) : qpref := map (fun q => (negb (fst q), snd q)) L.
Definition p_not (r : pres) : pres := (invert (fst r), mk_not (snd r)).

Fixpoint fresh_for (n : nat) (vs : list var) : nat * list (var * var) :=
  match vs with
  | [] => (n, [])
  | v :: r => let '(n', s) := fresh_for (S n) r in (n', (v, (fresh_name n, snd v)) :: s)
  end.

(* the renamed variable set keeps the positions of the old one (sets in the implementation) *)
Fixpoint rn_var (sub : list (var * var)) (v : var) : var :=
  match sub with
  | [] => v
  | (k, f) :: r => if var_eqb k v then f else rn_var r v
  end.
Definition sub_terms (sub : list (var * var)) : list (var * term) :=
  map (fun p => (fst p, TSym (fst (snd p)) (snd (snd p)))) sub.

(* the inner loop of walk_conj_disj for one argument *)
Fixpoint rename_quants (n : nat) (reserved : list var) (subL : qpref) (subm : term)
  : nat * list var * qpref * term :=
  match subL with
  | [] => (n, reserved, [], subm)
  | (q, qvars) :: rest =>
      let needs := filter (fun v => mem var_eqb v reserved) qvars in
      let '(n1, sub) := fresh_for n needs in
      let subm1 := match needs with
                   | [] => subm
                   | _ => vsubst (sub_terms sub) subm
                   end in
      let new_q := map (rn_var sub) qvars in
      let '(n2, reserved2, restL, subm2) := rename_quants n1 (union var_eqb reserved new_q) rest subm1 in
      (n2, reserved2, (q, new_q) :: restL, subm2)
  end.

Fixpoint cd_args (n : nat) (reserved : list var) (args : list pres) : nat * qpref * list term :=
  match args with
  | [] => (n, [], [])
  | (subL, subm) :: rest =>
      let '(n1, res1, L1, m1) := rename_quants n reserved subL subm in
      let '(n2, L2, ms) := cd_args n1 res1 rest in
      (n2, L1 ++ L2, m1 :: ms)
  end.
Definition conj_disj (is_and : bool) (fvs : list var) (n : nat) (args : list pres) : nat * pres :=
  let '(n', L, ms) := cd_args n fvs args in (n', (L, if is_and then mk_and ms else mk_or ms)).

(* walk_implies(Implies(a, b), [ra, rb]) *)
Definition p_implies (n : nat) (a b : term) (ra rb : pres) : nat * pres :=
  conj_disj false (fv (T OOr [mk_not a; b])) n [p_not ra; rb].
Definition p_iff (n : nat) (a b : term) (ra rb : pres) : nat * pres :=
  let '(n1, r1) := p_implies n a b ra rb in
  let '(n2, r2) := p_implies n1 b a rb ra in
  conj_disj true (fv (T OAnd [T OImplies [a; b]; T OImplies [b; a]])) n2 [r1; r2].
Definition p_ite (n : nat) (i t e : term) (ri rt re : pres) : nat * pres :=
  let ni := mk_not i in
  let '(n1, r1) := p_implies n i t ri rt in
  let '(n2, r2) := p_implies n1 ni e (p_not ri) re in
  conj_disj true (fv (T OAnd [T OImplies [i; t]; T OImplies [ni; e]])) n2 [r1; r2].

Definition p_quant (ex : bool) (vs : list var) (r : pres) : pres :=
  let qvars := flat_map snd (fst r) in
  let nq := dedupe var_eqb (diff var_eqb vs qvars) in
  match nq with [] => r | _ => (fst r ++ [(ex, nq)], snd r) end.

Definition is_atom_bool (o : op) : bool :=
  match o with
  | OLe | OLt | OEquals | OBVRel _ | OStr SContains | OStr SPrefixOf | OStr SSuffixOf => true
  | OBoolC _ => true
  | OSymbol _ TBool => true
  | OFunction _ (TFun _ TBool) => true
  | _ => false
  end.

Definition pws_with (f : term -> nat -> nat * option pres) : list term -> nat -> nat * option (list pres) :=
  fix go (l : list term) (n : nat) {struct l} : nat * option (list pres) :=
    match l with
    | [] => (n, Some [])
    | x :: r =>
        let '(n1, rx) := f x n in
        let '(n2, rr) := go r n1 in
        (n2, match rx, rr with Some a, Some b => Some (a :: b) | _, _ => None end)
    end.

Fixpoint pw (t : term) (n : nat) {struct t} : nat * option pres :=
  match t with
  | T OAnd l =>
      let '(n1, rs) := pws_with (fun x k => pw x k) l n in
      match rs with Some rs => let '(n2, r) := conj_disj true (fv t) n1 rs in (n2, Some r) | None => (n1, None) end
  | T OOr l =>
      let '(n1, rs) := pws_with (fun x k => pw x k) l n in
      match rs with Some rs => let '(n2, r) := conj_disj false (fv t) n1 rs in (n2, Some r) | None => (n1, None) end
  | T ONot [a] =>
      let '(n1, ra) := pw a n in (n1, option_map p_not ra)
  | T OImplies [a; b] =>
      let '(n1, ra) := pw a n in let '(n2, rb) := pw b n1 in
      match ra, rb with
      | Some ra, Some rb => let '(n3, r) := p_implies n2 a b ra rb in (n3, Some r)
      | _, _ => (n2, None)
      end
  | T OIff [a; b] =>
      let '(n1, ra) := pw a n in let '(n2, rb) := pw b n1 in
      match ra, rb with
      | Some ra, Some rb => let '(n3, r) := p_iff n2 a b ra rb in (n3, Some r)
      | _, _ => (n2, None)
      end
  | T OIte [i; th; el] =>
      let '(n1, ri) := pw i n in let '(n2, rt) := pw th n1 in let '(n3, re) := pw el n2 in
      match ri, rt, re with
      | Some ri, Some rt, Some re => let '(n4, r) := p_ite n3 i th el ri rt re in (n4, Some r)
      | _, _, _ => (n3, None)
      end
  | T (OForall vs) [b] => let '(n1, rb) := pw b n in (n1, option_map (p_quant false vs) rb)
  | T (OExists vs) [b] => let '(n1, rb) := pw b n in (n1, option_map (p_quant true vs) rb)
  | T o _ => (n, if is_atom_bool o then Some ([], t) else None)
  end.

Definition normalize (L : qpref) (m : term) : term :=
  fold_left (fun (res : term) (q : bool * list var) => if fst q then mk_exists (snd q) res else mk_forall (snd q) res) L m.

(* None = the implementation raises TypeError (the walk returned None somewhere it is unpacked) *)
Definition prenex (n : nat) (t : term) : option term :=
  match snd (pw t n) with Some r => Some (normalize (fst r) (snd r)) | None => None end.

(* ---- shape: a quantifier prefix over a quantifier-free matrix ---- *)
Fixpoint strip (t : term) : term :=
  match t with T (OForall _) [b] | T (OExists _) [b] => strip b | _ => t end.
Definition prenex_shape (t : term) : bool := is_qf (strip t).

(* inputs whose quantifiers occur in Boolean positions only: a Boolean skeleton over
   quantifier-free atoms *)
Fixpoint pq_frag (t : term) : bool :=
  match t with
  | T OAnd l | T OOr l => forallb pq_frag l
  | T ONot [a] => pq_frag a
  | T OImplies [a; b] | T OIff [a; b] => pq_frag a && pq_frag b
  | T OIte [c; a; b] => pq_frag c && pq_frag a && pq_frag b
  | T (OForall _) [b] | T (OExists _) [b] => pq_frag b
  | T o args => is_atom_bool o && forallb is_qf args
  end.

(* ---- comparison up to a consistent renaming of the fresh (FV...) names ---- *)
Definition is_fv_name (s : string) : bool := String.prefix "FV" s.
Fixpoint fv_occ (t : term) : list string :=
  match t with
  | T (OSymbol n _) _ => if is_fv_name n then [n] else []
  | T _ args => flat_map fv_occ args
  end.
Fixpoint index_of (s : string) (l : list string) (i : nat) : option nat :=
  match l with [] => None | x :: r => if String.eqb x s then Some i else index_of s r (S i) end.
Definition canon_name (names : list string) (s : string) : string :=
  if is_fv_name s then match index_of s names 0 with Some i => ("FV#" ++ decimal i)%string | None => "FV?"%string end
  else s.
Definition rename_vars (f : string -> string) (vs : list var) : list var := map (fun v => (f (fst v), snd v)) vs.
Fixpoint rename (f : string -> string) (t : term) : term :=
  match t with
  | T (OSymbol n ty) args => T (OSymbol (f n) ty) (map (rename f) args)
  | T (OForall vs) args => T (OForall (rename_vars f vs)) (map (rename f) args)
  | T (OExists vs) args => T (OExists (rename_vars f vs)) (map (rename f) args)
  | T o args => T o (map (rename f) args)
  end.
Definition canon (t : term) : term :=
  rename (canon_name (dedupe String.eqb (fv_occ (strip t)))) t.
