(* C16 - SPEC: the SMT-LIB 2.6 assertion stack (Standard, section 4.1.4 / 4.2.2), with the
   objective commands of the OMT extension scoped the same way.  Independent of pysmt's
   bookkeeping: no backtrack points, no positions, no pending pops.

   The stack is a non-empty list of levels: the current level and the enclosing ones
   (innermost first).  assert / assert-soft / minimize.. add an item to the current level;
   push n opens n empty levels; pop n discards the n innermost levels and is legal only
   when n levels have been pushed (the first level cannot be popped); reset-assertions
   goes back to the single empty first level.  Everything else leaves the stack alone. *)
From Coq Require Import List Arith Bool.
Import ListNotations.

Inductive okind := KMin | KMax | KMinMax | KMaxMin.

Section Spec.
  Variables F W : Type.                       (* formulas, soft-clause weights: opaque *)

  Inductive item :=
  | IAssert (f : F)
  | IObj (k : okind) (f : F)                  (* minimize / maximize / minmax / maxmin *)
  | ISoft (id : nat) (f : F) (w : W).         (* assert-soft f :id id :weight w *)

  Definition level := list item.
  Definition astack := (level * list level)%type.

  Definition s_init : astack := ([], []).
  Definition s_add (x : item) (s : astack) : astack := (fst s ++ [x], snd s).
  Definition s_push1 (s : astack) : astack := ([], fst s :: snd s).
  Definition s_pop1 (s : astack) : option astack :=
    match snd s with [] => None | l :: e => Some (l, e) end.
  Fixpoint s_push (n : nat) (s : astack) : astack :=
    match n with 0 => s | S m => s_push m (s_push1 s) end.
  Fixpoint s_pop (n : nat) (s : astack) : option astack :=
    match n with
    | 0 => Some s
    | S m => match s_pop1 s with None => None | Some s' => s_pop m s' end
    end.

  (* the commands the property speaks about *)
  Inductive cmd :=
  | CAssert (f : F) | CAssertSoft (id : nat) (f : F) (w : W) | CObj (k : okind) (f : F)
  | CPush (n : nat) | CPop (n : nat) | CReset
  | CCheckSat | COther.                      (* check-sat; any other command *)

  (* None = the command is not legal here *)
  Definition s_step (s : astack) (c : cmd) : option astack :=
    match c with
    | CAssert f => Some (s_add (IAssert f) s)
    | CAssertSoft i f w => Some (s_add (ISoft i f w) s)
    | CObj k f => Some (s_add (IObj k f) s)
    | CPush n => Some (s_push n s)
    | CPop n => s_pop n s
    | CReset => Some s_init
    | CCheckSat | COther => Some s
    end.
  Fixpoint s_run (s : astack) (cs : list cmd) : option astack :=
    match cs with
    | [] => Some s
    | c :: r => match s_step s c with None => None | Some s' => s_run s' r end
    end.
  Definition legal (cs : list cmd) : Prop := s_run s_init cs <> None.

  (* what is live: the items of all levels, oldest first *)
  Definition items (s : astack) : list item := concat (rev (snd s)) ++ fst s.

  Fixpoint asserts (l : list item) : list F :=
    match l with
    | [] => []
    | IAssert f :: r => f :: asserts r
    | _ :: r => asserts r
    end.
  Definition live_assertions (s : astack) : list F := asserts (items s).

  (* live goals: one goal per live objective command and one MaxSMT goal per assert-soft id,
     in the order of their first live occurrence; the MaxSMT goal of an id holds every live
     soft clause with that id, in order. *)
  Inductive goal := GObj (k : okind) (f : F) | GSoft (id : nat) (softs : list (F * W)).
  Inductive slot := SObj (k : okind) (f : F) | SSoft (id : nat).

  Definition is_ssoft (i : nat) (x : slot) : bool :=
    match x with SSoft j => Nat.eqb j i | SObj _ _ => false end.
  Definition skstep (acc : list slot) (x : item) : list slot :=
    match x with
    | IAssert _ => acc
    | IObj k f => acc ++ [SObj k f]
    | ISoft i _ _ => if existsb (is_ssoft i) acc then acc else acc ++ [SSoft i]
    end.
  Definition slots (l : list item) : list slot := fold_left skstep l [].
  Fixpoint softs (i : nat) (l : list item) : list (F * W) :=
    match l with
    | [] => []
    | ISoft j f w :: r => if Nat.eqb j i then (f, w) :: softs i r else softs i r
    | _ :: r => softs i r
    end.
  Definition fill (l : list item) (x : slot) : goal :=
    match x with SObj k f => GObj k f | SSoft i => GSoft i (softs i l) end.
  Definition goals_of (l : list item) : list goal := map (fill l) (slots l).
  Definition live_goals (s : astack) : list goal := goals_of (items s).
End Spec.

Arguments IAssert {F W}. Arguments IObj {F W}. Arguments ISoft {F W}.
Arguments CAssert {F W}. Arguments CAssertSoft {F W}. Arguments CObj {F W}.
Arguments CPush {F W}. Arguments CPop {F W}. Arguments CReset {F W}.
Arguments CCheckSat {F W}. Arguments COther {F W}.
Arguments GObj {F W}. Arguments GSoft {F W}.
Arguments s_init {F W}. Arguments s_add {F W}. Arguments s_push1 {F W}. Arguments s_pop1 {F W}.
Arguments s_push {F W}. Arguments s_pop {F W}. Arguments s_step {F W}. Arguments s_run {F W}.
Arguments legal {F W}. Arguments items {F W}. Arguments asserts {F W}.
Arguments live_assertions {F W}. Arguments SObj {F}. Arguments SSoft {F}. Arguments is_ssoft {F}.
Arguments skstep {F W}. Arguments slots {F W}. Arguments softs {F W}. Arguments fill {F W}.
Arguments goals_of {F W}. Arguments live_goals {F W}.
