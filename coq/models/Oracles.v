(* Hand model (H) of pysmt.oracles: FreeVarsOracle, AtomsOracle, QuantifierOracle, TypesOracle,
   SizeOracle.  Sets are lists; results are compared as sets. *)
From Coq Require Import List ZArith Bool String.
From PySMT.core Require Import Syntax.
From PySMT.models Require Import TypeChecker.
Import ListNotations.
Open Scope bool_scope.

Section Sets.
  Context {A : Type} (eqb : A -> A -> bool).
  Definition mem (x : A) (l : list A) : bool := existsb (eqb x) l.
  Definition add (x : A) (l : list A) : list A := if mem x l then l else l ++ [x].
  Definition union (a b : list A) : list A := fold_left (fun acc x => add x acc) b a.
  Definition unions (ls : list (list A)) : list A := fold_left union ls [].
  Definition diff (a b : list A) : list A := filter (fun x => negb (mem x b)) a.
  Definition subset (a b : list A) : bool := forallb (fun x => mem x b) a.
  Definition set_eqb (a b : list A) : bool := subset a b && subset b a.
  Definition dedupe (l : list A) : list A := union [] l.
End Sets.

(* ---------------- free variables (function names count as symbols) ---------------- *)
Fixpoint fv (t : term) : list var :=
  match t with
  | T o args =>
      let rec := unions var_eqb (map fv args) in
      match o with
      | OSymbol n ty => [(n, ty)]
      | OFunction n ty => union var_eqb [(n, ty)] rec
      | OForall vs | OExists vs => diff var_eqb rec vs
      | OBoolC _ | OIntC _ | ORealC _ _ | OBVC _ _ | OStrC _ => []
      | _ => rec
      end
  end.

(* ---------------- atoms: None = "theory term" ---------------- *)
Fixpoint all_some {A} (l : list (option A)) : option (list A) :=
  match l with
  | [] => Some []
  | Some x :: r => match all_some r with Some r' => Some (x :: r') | None => None end
  | None :: _ => None
  end.

Definition result_is_bool (t : term) : bool :=
  match tc t with Some TBool => true | _ => false end.

Fixpoint atoms (t : term) : option (list term) :=
  match t with
  | T o args =>
      let rec := map atoms args in
      match o with
      | OAnd | OOr | ONot | OImplies | OIff | OForall _ | OExists _ =>
          (* assert_not_none on every child: a theory child makes the call fail *)
          match all_some rec with Some ls => Some (unions term_eqb ls) | None => None end
      | OEquals | OLe | OLt | OBVRel _ | OStr SContains | OStr SPrefixOf | OStr SSuffixOf => Some [t]
      | OSelect => if result_is_bool t then Some [t] else None
      | OBoolC _ => Some []
      | OIntC _ | ORealC _ _ | OBVC _ _ | OStrC _ => None
      | OSymbol _ ty => if ty_eqb ty TBool then Some [t] else None
      | OFunction _ (TFun _ r) => if ty_eqb r TBool then Some [t] else None
      | OFunction _ _ => None
      | OIte => match all_some rec with Some ls => Some (unions term_eqb ls) | None => None end
      | _ => None
      end
  end.

(* ---------------- quantifier-freeness ---------------- *)
Fixpoint is_qf (t : term) : bool :=
  match t with
  | T (OForall _) _ | T (OExists _) _ => false
  | T _ args => forallb is_qf args
  end.

(* ---------------- types ---------------- *)
Definition const_type (o : op) : list ty :=
  match o with
  | OBoolC _ => [TBool] | OIntC _ => [TInt] | ORealC _ _ => [TReal] | OStrC _ => [TStr]
  | OBVC _ w => [TBV w] | _ => []
  end.

Fixpoint types_walk (t : term) : list ty :=
  match t with
  | T o args =>
      let rec := unions ty_eqb (map types_walk args) in
      match o with
      | OSymbol _ ty => [ty]
      | OFunction _ (TFun ps r) => union ty_eqb (dedupe ty_eqb (r :: ps)) rec
      | OFunction _ _ => rec
      | OArrayValue it => union ty_eqb [it] rec
      | OForall vs | OExists vs => union ty_eqb (dedupe ty_eqb (map snd vs)) rec
      | OBoolC _ | OIntC _ | ORealC _ _ | OBVC _ _ | OStrC _ => const_type o
      | _ => rec
      end
  end.

(* closure under component types (arrays: index, element; custom sorts: arguments);
   function types have arity 0 in pySMT and are not expanded *)
Fixpoint subtypes (t : ty) : list ty :=
  match t with
  | TArr i e => t :: subtypes i ++ subtypes e
  | TUser _ args => t :: flat_map subtypes args
  | _ => [t]
  end.
Definition get_types (t : term) : list ty :=
  dedupe ty_eqb (flat_map subtypes (types_walk t)).

(* ---------------- sizes ---------------- *)
Definition sum_nat (l : list nat) := fold_right Nat.add 0%nat l.
Definition max_nat (l : list nat) := fold_right Nat.max 0%nat l.

Fixpoint size_tree (t : term) : nat := match t with T _ args => S (sum_nat (map size_tree args)) end.
Fixpoint size_leaves (t : term) : nat :=
  match t with T _ [] => 1%nat | T _ args => sum_nat (map size_leaves args) end.
Fixpoint size_depth (t : term) : nat :=
  match t with T _ [] => 1%nat | T _ args => S (max_nat (map size_depth args)) end.

Fixpoint subterms (t : term) : list term :=
  match t with T _ args => union term_eqb [t] (unions term_eqb (map subterms args)) end.
Definition size_dag (t : term) : nat := List.length (subterms t).

Fixpoint symbols_in (t : term) : list term :=
  match t with
  | T (OSymbol _ _) args => union term_eqb [t] (unions term_eqb (map symbols_in args))
  | T _ args => unions term_eqb (map symbols_in args)
  end.
Definition size_symbols (t : term) : nat := List.length (symbols_in t).

Definition is_theory_relation (o : op) : bool :=
  match o with
  | OEquals | OLe | OLt | OBVRel _ | OStr SContains | OStr SPrefixOf | OStr SSuffixOf => true
  | _ => false
  end.
Fixpoint bool_dag (t : term) : list term :=
  match t with
  | T o args => if is_theory_relation o then [t]
                else union term_eqb [t] (unions term_eqb (map bool_dag args))
  end.
Definition size_bool_dag (t : term) : nat := List.length (bool_dag t).
