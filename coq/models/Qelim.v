(* Hand model (H) of pysmt.solvers.qelim.ShannonQuantifierEliminator and
   SelfSubstitutionQuantifierEliminator (qelim.py 70-153) and of pysmt.utils.all_assignments.

   Both are IdentityDagWalkers: every node is re-created through the FormulaManager from the
   rewritten children (models/C10Local.v : rebuild), quantifiers are replaced bottom-up, so the
   body handed to walk_forall / walk_exists is already quantifier-free.
   - Shannon:  Forall vs. f -> And [f.substitute(s) | s in all_assignments(vs)],  Exists -> Or;
     all_assignments enumerates itertools.combinations(vs, r) for r = 0..len(vs) and maps each
     variable to Bool(v in chosen); a non-Boolean bound variable raises InternalSolverError
     ([qe_vars_bool] is the exception-free domain).
   - Self-substitution: for v in reversed(vs): f := f.substitute({v: f.substitute({v: token})}),
     token = FALSE for Forall, TRUE for Exists.  Nothing checks that the variables are Boolean.
   f.substitute is the MGSubstituter of the *global* environment (models/C10Local.v : vsubst). *)
From Coq Require Import List ZArith Bool String.
From PySMT.core Require Import Syntax.
From PySMT.models Require Import Oracles C10Local.
Import ListNotations.
Open Scope bool_scope.

(* itertools.combinations(l, r), in its order *)
Fixpoint combs (r : nat) (l : list var) : list (list var) :=
  match r, l with
  | O, _ => [[]]
  | S _, [] => []
  | S r', x :: l' => map (cons x) (combs r' l') ++ combs r l'
  end.
Definition powerset (l : list var) : list (list var) :=
  flat_map (fun r => combs r l) (seq 0 (S (List.length l))).
Definition assignment (vs chosen : list var) : list (var * term) :=
  map (fun v => (v, TBoolC (mem var_eqb v chosen))) vs.
Definition all_assignments (vs : list var) : list (list (var * term)) :=
  map (assignment vs) (powerset vs).

Fixpoint shannon (t : term) {struct t} : term :=
  match t with
  | T (OForall vs) [b] => let f := shannon b in mk_and (map (fun s => vsubst s f) (all_assignments vs))
  | T (OExists vs) [b] => let f := shannon b in mk_or (map (fun s => vsubst s f) (all_assignments vs))
  | T o args => rebuild o (map shannon args)
  end.

Definition self_substitute1 (token : term) (f : term) (v : var) : term :=
  vsubst [(v, vsubst [(v, token)] f)] f.
Definition self_substitute (token : term) (vs : list var) (f : term) : term :=
  fold_left (self_substitute1 token) (rev vs) f.

Fixpoint selfsub (t : term) {struct t} : term :=
  match t with
  | T (OForall vs) [b] => self_substitute TFalse vs (selfsub b)
  | T (OExists vs) [b] => self_substitute TTrue vs (selfsub b)
  | T o args => rebuild o (map selfsub args)
  end.

(* every bound variable is Boolean (anywhere in the term: the walkers descend into atoms) *)
Definition vars_bool (vs : list var) : bool := forallb (fun v => ty_eqb (snd v) TBool) vs.
Fixpoint qe_vars_bool (t : term) : bool :=
  match t with
  | T (OForall vs) args | T (OExists vs) args => vars_bool vs && forallb qe_vars_bool args
  | T _ args => forallb qe_vars_bool args
  end.

(* the fragment of the theorems: a Boolean skeleton (C10Local.boolish) of constructor-normal
   nodes whose quantifiers bind Boolean variables and whose atoms are quantifier-free *)
Fixpoint qe_skel (t : term) : bool :=
  match t with
  | T OAnd l | T OOr l => forallb qe_skel l
  | T ONot [a] => qe_skel a
  | T OImplies [a; b] | T OIff [a; b] => qe_skel a && qe_skel b
  | T (OForall vs) [b] | T (OExists vs) [b] => vars_bool vs && qe_skel b
  | T OIte [c; a; b] => qe_skel c && qe_skel a && qe_skel b
  | T o args => bool_atom_op o args && forallb is_qf args
  end.
Definition qe_frag (t : term) : bool := qe_skel t && normal t.
