(* Executable glue used by the generated correspondence case files of C20/C15/C14: runs the
   walker model (core/DagWalk.v) on a DAG given as a table of children lists and compares
   everything that can be observed on the implementation from outside: the answer kind, the
   callback invocation order, the number of loop iterations, the stack and the set of
   memoised keys left behind.  No proofs here. *)
From Coq Require Import List Arith Bool.
From PySMT.core Require Import DagWalk.
Import ListNotations.

Definition tbl_children (tbl : list (list nat)) (n : nat) : list nat := nth n tbl [].

Fixpoint nat_list_eqb (a b : list nat) : bool :=
  match a, b with
  | [], [] => true
  | x :: a', y :: b' => Nat.eqb x y && nat_list_eqb a' b'
  | _, _ => false
  end.
Fixpoint stack_eqb (a b : list (bool * nat)) : bool :=
  match a, b with
  | [], [] => true
  | (p, x) :: a', (q, y) :: b' => Bool.eqb p q && Nat.eqb x y && stack_eqb a' b'
  | _, _ => false
  end.

(* the callback: raises exactly on the nodes listed in [bad]; values do not matter *)
Definition fail_on (bad : list nat) (n : nat) (_ : list unit) : option unit :=
  if existsb (Nat.eqb n) bad then None else Some tt.

(* answer kinds: 0 = returned, 1 = the callback raised at node, 2 = KeyError at node *)
Definition ans_code (a : answer unit) : nat * nat :=
  match a with
  | Ok _ => (0, 0)
  | Err (ECallback n) => (1, n)
  | Err (EKey n) => (2, n)
  | NoFuel => (3, 0)
  end.

(* root, bad, (answer kind, node), log of this walk, pops of this walk, stack after (top first),
   memoised keys after (any order) *)
Definition walk_exp := (nat * list nat * (nat * nat) * list nat * nat * list (bool * nat) * list nat)%type.

Definition memo_dom_ok (m : memo unit) (n : nat) (keys : list nat) : bool :=
  forallb (fun i => Bool.eqb (inm unit m i) (existsb (Nat.eqb i) keys)) (seq 0 n).

(* fuel: generous multiple of the bound proved in walk_pops plus what a dirty stack may add *)
Definition fuel_for (tbl : list (list nat)) (w : st unit) : nat :=
  4 * (2 + length tbl + list_sum (map (@length nat) tbl)) * (2 + length (stk w)).

Fixpoint check_walks (tbl : list (list nat)) (early oneshot : bool) (w : st unit)
         (walks : list walk_exp) : bool :=
  match walks with
  | [] => true
  | (root, bad, code, elog, epops, estk, ememo) :: r =>
      let w0 := mkSt (mm w) (stk w) 0 0 [] in
      let '(s, a) := walk unit (tbl_children tbl) (fail_on bad) early oneshot (fuel_for tbl w) w0 root in
      let '(k1, n1) := ans_code a in let '(k2, n2) := code in
      Nat.eqb k1 k2 && (Nat.eqb k1 2 || Nat.eqb n1 n2) && nat_list_eqb (rev (log s)) elog && Nat.eqb (pops s) epops
      && Nat.eqb (calls s) (length elog)
      && stack_eqb (stk s) estk && memo_dom_ok (mm s) (length tbl) ememo
      && check_walks tbl early oneshot s r
  end.

(* a case: children table, early flag, one-shot flag, the walks of one walker object *)
Definition wcase := (list (list nat) * bool * bool * list walk_exp)%type.
Definition wcase_ok (c : wcase) : bool :=
  let '(tbl, early, oneshot, walks) := c in check_walks tbl early oneshot (init unit) walks.

(* children must be smaller than parents (hypothesis children_lt of the theorems) *)
Definition tbl_wf (tbl : list (list nat)) : bool :=
  forallb (fun p => forallb (fun c => Nat.ltb c (fst p)) (snd p)) (combine (seq 0 (length tbl)) tbl).
Definition wcase_wf (c : wcase) : bool := let '(tbl, _, _, _) := c in tbl_wf tbl.
