(* C16 - hand model (H) of the bookkeeping of pysmt/solvers/solver.py:
   IncrementalTrackingSolver (_assertion_stack, _backtrack_points), Solver.is_sat /
   is_valid / is_unsat in incremental mode (options.incremental = True, the default) with
   `pending_pop`, and pysmt/decorators.py:clear_pending_pop, for a subclass written the way
   the native wrappers are (z3.py, msat.py): @clear_pending_pop on _reset_assertions,
   _add_assertion, _solve, _push, _pop; _solve(assumptions) asserts the conjunction of the
   non-literal assumptions on a fresh level and sets pending_pop.
   The native solver behind the proxy methods is not part of this model (it is the
   SMT-LIB stack itself in the harness). *)
From Coq Require Import List Arith Bool.
From PySMT.models Require Import AssertStack StackPrims.
Import ListNotations.

Section TrackSolver.
  Variable F : Type.
  Variable fnot : F -> F.            (* mgr.Not *)

  Record tst := mkT {
    astk : list F;                   (* _assertion_stack *)
    bpts : list nat;                 (* _backtrack_points *)
    pending : bool                   (* pending_pop *)
  }.
  Definition t_init : tst := mkT [] [] false.

  (* body of IncrementalTrackingSolver.pop after the call of self._pop:
       for _ in range(levels): point = self._backtrack_points.pop()
                               self._assertion_stack = self._assertion_stack[0:point] *)
  Definition pop_core1 (c : tst) : result tst :=
    match pop_last (bpts c) with
    | None => Err IndexError
    | Some (b', point) => Ok (mkT (firstn point (astk c)) b' (pending c))
    end.
  Definition pop_core (n : nat) (c : tst) : result tst := iter_res n pop_core1 c.

  (* clear_pending_pop: if self.pending_pop: self.pending_pop = False; self.pop()
     (the nested self.pop() runs the decorated _pop with pending_pop already False, so its
     own clear_pending_pop does nothing: the recursion is unfolded once here) *)
  Definition cpp (c : tst) : result tst :=
    if pending c then pop_core 1 (mkT (astk c) (bpts c) false) else Ok c.

  (* add_assertion: tracked = self._add_assertion(f) [decorated]; _assertion_stack.append(tracked) *)
  Definition add_assertion (f : F) (c : tst) : result tst :=
    bind (cpp c) (fun c => Ok (mkT (astk c ++ [f]) (bpts c) (pending c))).
  (* push: self._push(levels) [decorated]; point = len(stack); levels times: points.append(point) *)
  Definition push (n : nat) (c : tst) : result tst :=
    bind (cpp c) (fun c => Ok (mkT (astk c) (bpts c ++ repeat (length (astk c)) n) (pending c))).
  Definition pop (n : nat) (c : tst) : result tst := bind (cpp c) (pop_core n).
  (* reset_assertions: self._reset_assertions() [decorated]; self._assertion_stack = []
     (the backtrack points are kept) *)
  Definition reset_assertions (c : tst) : result tst :=
    bind (cpp c) (fun c => Ok (mkT [] (bpts c) (pending c))).
  (* solve(assumptions): _solve [decorated]; `other` = And of the non-literal assumptions,
     if any: self.push(); self.add_assertion(And(other)); self.pending_pop = True *)
  Definition solve (other : option F) (c : tst) : result tst :=
    bind (cpp c) (fun c =>
      match other with
      | None => Ok c
      | Some f => bind (push 1 c) (fun c => bind (add_assertion f c) (fun c =>
                    Ok (mkT (astk c) (bpts c) true)))
      end).
  (* Solver.is_sat: self.push(); try: self.add_assertion(f); res = self.solve()
                     finally: self.pending_pop = True *)
  Definition is_sat (f : F) (c : tst) : result tst :=
    bind (push 1 c) (fun c => bind (add_assertion f c) (fun c => bind (solve None c) (fun c =>
      Ok (mkT (astk c) (bpts c) true)))).
  Definition is_valid (f : F) (c : tst) : result tst := is_sat (fnot f) c.
  Definition is_unsat (f : F) (c : tst) : result tst := is_sat f c.
  (* the `assertions` property [decorated]: returns _assertion_stack *)
  Definition assertions (c : tst) : result (tst * list F) :=
    bind (cpp c) (fun c => Ok (c, astk c)).

  Inductive scmd :=
  | SAdd (f : F) | SPush (n : nat) | SPop (n : nat) | SReset
  | SSolve (other : option F) | SIsSat (f : F) | SIsValid (f : F) | SIsUnsat (f : F)
  | SObserve                         (* reading solver.assertions *)
  (* the same calls when the native solver answers "unknown": _solve raises
     SolverReturnedUnknownResultError after its bookkeeping, the exception propagates to the
     caller; the step is the state the call leaves behind *)
  | SSolveUnk (other : option F) | SIsSatUnk (f : F) | SIsValidUnk (f : F) | SIsUnsatUnk (f : F).

  (* the SMT-LIB command a call stands for; queries are not assertion-stack commands *)
  Definition to_spec (x : scmd) : cmd F unit :=
    match x with
    | SAdd f => CAssert f
    | SPush n => CPush n
    | SPop n => CPop n
    | SReset => CReset
    | _ => COther
    end.
  Definition oneshot (x : scmd) : bool :=
    match x with
    | SSolve _ | SIsSat _ | SIsValid _ | SIsUnsat _
    | SSolveUnk _ | SIsSatUnk _ | SIsValidUnk _ | SIsUnsatUnk _ => true
    | _ => false
    end.

  Definition t_step (c : tst) (x : scmd) : result tst :=
    match x with
    | SAdd f => add_assertion f c
    | SPush n => push n c
    | SPop n => pop n c
    | SReset => reset_assertions c
    | SSolve o => solve o c
    | SIsSat f => is_sat f c
    | SIsValid f => is_valid f c
    | SIsUnsat f => is_unsat f c
    | SObserve => bind (assertions c) (fun r => Ok (fst r))
    (* IncrementalTrackingSolver.solve only records _last_result = "unknown" and re-raises;
       Solver.is_sat sets pending_pop in a `finally`, so the pushed level goes also then *)
    | SSolveUnk o => solve o c
    | SIsSatUnk f => is_sat f c
    | SIsValidUnk f => is_valid f c
    | SIsUnsatUnk f => is_unsat f c
    end.
  Fixpoint t_run (c : tst) (cs : list scmd) : result tst :=
    match cs with
    | [] => Ok c
    | x :: r => bind (t_step c x) (fun c' => t_run c' r)
    end.

  (* for the correspondence: the raw state after every step, up to the first exception *)
  Fixpoint t_trace (c : tst) (cs : list scmd) : list (result tst) :=
    match cs with
    | [] => []
    | x :: r => match t_step c x with
                | Err e => [Err e]
                | Ok c' => Ok c' :: t_trace c' r
                end
    end.
End TrackSolver.

Arguments SAdd {F}. Arguments SPush {F}. Arguments SPop {F}. Arguments SReset {F}.
Arguments SSolve {F}. Arguments SIsSat {F}. Arguments SIsValid {F}. Arguments SIsUnsat {F}.
Arguments SObserve {F}. Arguments SSolveUnk {F}. Arguments SIsSatUnk {F}. Arguments SIsValidUnk {F}.
Arguments SIsUnsatUnk {F}.
Arguments mkT {F}. Arguments astk {F}. Arguments bpts {F}. Arguments pending {F}.
Arguments t_init {F}. Arguments t_step {F}. Arguments t_run {F}. Arguments t_trace {F}.
Arguments assertions {F}. Arguments to_spec {F}. Arguments oneshot {F}.
Arguments cpp {F}. Arguments pop_core {F}. Arguments pop_core1 {F}.
