(* Hand model (H) of pysmt.smtlib.parser.SmtLibParser (parser.py) over the token list produced by
   models/SmtLex.v: the execution cache (SmtLibExecutionCache: [keys] stacks, [definitions], their
   look-up priority), [atom] (cache first, then literals typed by the declared logic, the result
   cached under its token), the stack-based term reader [get_expression] with its special forms
   (let - parallel -, forall/exists, !, _, as), the [interpreted] operator table with the fix_real coercion,
   parse_type / parse_atoms / parse_params, and the command readers.  Every term is built through
   the FormulaManager constructor models of models/Ctors.v followed by the type check that
   create_node performs (models/TypeChecker.v).  Quirks are kept (see the comments marked QUIRK).

   Results carry the parser state also when an exception is raised ([RErr e s]) because
   parse_expr_list swallows PysmtSyntaxError and goes on with whatever state was reached.

   Exceptions are mapped to a small enumeration:
     ESyntax = PysmtSyntaxError, EType = PysmtTypeError, EValue = PysmtValueError,
     ENotImpl = NotImplementedError, EUnknownCmd = UnknownSmtLibCommandError,
     EStop = StopIteration (internal: the token stream ended),
     EOther = anything else (TypeError, AssertionError, IndexError, AttributeError, ValueError,
              ZeroDivisionError, PysmtModeError, RuntimeError),
     EUnmodelled = the input leaves the modelled fragment (listed at the end of this file).

   Not modelled: the optimisation extension commands (assert-soft, maximize, minimize, minmax,
   maxmin, check-allsat, get-objectives, load-objective-model), the annotation store (annotations
   do not change the term), calling a parametric define-sort in term position, the interactive
   reader.  Annotation values in parentheses are skipped on raw characters as in the code when the
   state carries the source ([srcs], filled by [parse_chars]); a state built from a bare token list
   (proofs, round trip) falls back to counting parenthesis TOKENS, which is the same unless the value
   contains a parenthesis inside a quoted symbol, a string literal or a comment. *)
From Coq Require Import List ZArith Bool String Ascii.
From PySMT.core Require Import Syntax PyPrims.
From PySMT.gen Require Import Logics.
From PySMT.models Require Import TypeChecker Oracles Ctors Substituter SmtLex.
Import ListNotations.
Open Scope bool_scope.
Open Scope string_scope.
Open Scope Z_scope.
Open Scope list_scope.

(* ================================================================ strings *)
Definition codes (s : string) : list Z := map (fun c => Z.of_nat (nat_of_ascii c)) (list_ascii_of_string s).
Definition str_of_codes (l : list Z) : string :=
  string_of_list_ascii (map (fun z => ascii_of_nat (Z.to_nat z)) l).
Fixpoint drop (n : nat) (s : string) : string :=
  match n, s with O, _ => s | S k, String _ r => drop k r | S _, EmptyString => EmptyString end.
Definition starts_with (p s : string) : bool := String.prefix p s.
Fixpoint str_mem (c : ascii) (s : string) : bool :=
  match s with EmptyString => false | String d r => Ascii.eqb c d || str_mem c r end.
Definition str_in (x : string) (l : list string) : bool := existsb (String.eqb x) l.
Definition lower_ascii (c : ascii) : ascii :=
  let n := nat_of_ascii c in if (65 <=? n)%nat && (n <=? 90)%nat then ascii_of_nat (n + 32) else c.
Fixpoint lower (s : string) : string :=
  match s with EmptyString => EmptyString | String c r => String (lower_ascii c) (lower r) end.
Definition zlen_s (s : string) : Z := Z.of_nat (String.length s).

(* str(n) for n >= 0 *)
Definition dec_string (n : Z) : string :=
  match py_str_of_int n with Some l => str_of_codes l | None => "" end.

(* ================================================================ Python number syntax *)
(* int(s) in base 10: PyPrims.py_int_of_str *)
Definition py_int (s : string) : option Z := py_int_of_str (codes s).

(* int("0" + s, base) where s starts with the letter of the base prefix (b / x): [rest] is what
   follows that letter.  CPython: an underscore may follow the prefix, single underscores between
   digits, trailing white space is stripped.  None = ValueError. *)
Definition digit_val (base : Z) (c : Z) : option Z :=
  let v := if (48 <=? c) && (c <=? 57) then c - 48
           else if (97 <=? c) && (c <=? 102) then c - 87
           else if (65 <=? c) && (c <=? 70) then c - 55
           else 99 in
  if v <? base then Some v else None.
Fixpoint based_digits (base : Z) (l : list Z) (acc : Z) (last_digit : bool) : option Z :=
  match l with
  | [] => if last_digit then Some acc else None
  | c :: r =>
      if c =? 95 then (if last_digit then based_digits base r acc false else None)
      else match digit_val base c with
           | Some v => based_digits base r (acc * base + v) true
           | None => None
           end
  end.
Definition py_int_prefixed (base : Z) (rest : string) : option Z :=
  let body := rev (drop_space (rev (codes rest))) in
  match body with
  | 95 :: r => based_digits base r 0 false
  | _ => based_digits base body 0 false
  end.

(* fractions.Fraction(str) of CPython 3.12 (_RATIONAL_FORMAT), ASCII white space and digits.
   FrBad = ValueError, FrZeroDiv = ZeroDivisionError *)
Inductive frres := FrOk (f : frac) | FrBad | FrZeroDiv.
Definition re_space (c : Z) : bool := ((9 <=? c) && (c <=? 13)) || ((28 <=? c) && (c <=? 32)).
Fixpoint drop_re_space (l : list Z) : list Z :=
  match l with c :: r => if re_space c then drop_re_space r else l | [] => [] end.
(* longest prefix matching \d+(_\d+)* : value, number of digits, rest; None if no digit first *)
Fixpoint digits_us (l : list Z) (acc : Z) (n : nat) (started : bool) : option (Z * nat * list Z) :=
  match l with
  | c :: r =>
      if PyPrims.is_digit c then digits_us r (acc * 10 + (c - 48)) (S n) true
      else if (c =? 95) && started then
             match r with
             | d :: _ => if PyPrims.is_digit d then digits_us r acc n true else Some (acc, n, l)
             | [] => Some (acc, n, l)
             end
           else if started then Some (acc, n, l) else None
  | [] => if started then Some (acc, n, l) else None
  end.
Definition end_ok (l : list Z) : bool := match drop_re_space l with [] => true | _ => false end.
Definition py_fraction (s : string) : frres :=
  let l0 := drop_re_space (codes s) in
  let '(neg, l1) := match l0 with
                    | c :: r => if (c =? 45)%Z then (true, r) else if (c =? 43)%Z then (false, r) else (false, l0)
                    | [] => (false, l0)
                    end in
  let look := match l1 with
              | c :: r => PyPrims.is_digit c ||
                          ((c =? 46) && match r with d :: _ => PyPrims.is_digit d | [] => false end)
              | [] => false
              end in
  if negb look then FrBad else
  let '(num, l2) := match digits_us l1 0 0 false with
                    | Some (v, _, r) => (v, r)
                    | None => (0%Z, l1)
                    end in
  let sign (f : frac) := if neg then (- fst f, snd f)%Z else f in
  (* alternative 1: optional denominator *)
  let alt_den :=
      match drop_re_space l2 with
      | 47 :: r => match digits_us (drop_re_space r) 0 0 false with
                   | Some (d, _, r') => if end_ok r' then Some (if (d =? 0)%Z then FrZeroDiv
                                                                else FrOk (fr_norm (fst (sign (num, d))) d))
                                        else None
                   | None => None
                   end
      | _ => None
      end in
  match alt_den with
  | Some r => r
  | None =>
      (* alternative 2: optional fractional part, optional exponent *)
      let '(num2, den2, l3) :=
          match l2 with
          | 46 :: r => match digits_us r 0 0 false with
                       | Some (d, n, r') => ((num * 10 ^ Z.of_nat n + d)%Z, (10 ^ Z.of_nat n)%Z, r')
                       | None => (num, 1%Z, r)
                       end
          | _ => (num, 1%Z, l2)
          end in
      let with_exp :=
          match l3 with
          | c :: r =>
              if (c =? 69) || (c =? 101) then
                let '(eneg, r1) := match r with 45 :: q => (true, q) | 43 :: q => (false, q) | _ => (false, r) end in
                match digits_us r1 0 0 false with
                | Some (e, _, r') =>
                    Some (if eneg then (num2, (den2 * 10 ^ e)%Z, r') else ((num2 * 10 ^ e)%Z, den2, r'))
                | None => None
                end
              else Some (num2, den2, l3)
          | [] => Some (num2, den2, l3)
          end in
      match with_exp with
      | Some (n, d, r) => if end_ok r then FrOk (fr_norm (fst (sign (n, d))) d) else FrBad
      | None => FrBad
      end
  end.

(* ================================================================ dynamic values *)
Inductive err := ESyntax | EType | EValue | ENotImpl | EUnknownCmd | EStop | EOther | EUnmodelled.

(* indexed bit-vector functions: lambda x: mgr.BVExtract(x, start, end) ... *)
Inductive idxfun := FExtract (s e : Z) | FZext (k : Z) | FSext (k : Z) | FRepeat (k : Z)
                  | FRol (k : Z) | FRor (k : Z).

(* the callables of the [interpreted] table *)
Inductive opname :=
| PPlus | PMinus | PTimes | PDiv | PIntDiv | PPow | PGt | PLt | PGe | PLe | PEq
| PNot | PAnd | POr | PXor | PImplies | PIff | PIte | PDistinct | PToReal
| PConcat | PBv1 (k : bvop) | PBvN (k : bvop) | PBv2 (k : bvop) | PBvRel (k : bvrel) (swap : bool)
| PBvNand | PBvNor | PBvXnor | PBvSmod
| PStr (k : strop) | PBv2Nat | PSelect | PStore.

(* whatever may sit in the cache or on the reader's stack *)
Inductive item :=
| ITerm (t : term)
| IFunc (n : string) (fty : ty)            (* partial(_function_call_helper, Symbol(n, fty)) *)
| IDef (ps : list var) (body : term)       (* _define_adapter(formal_parameters, expression) *)
| ITypeDecl (n : string) (arity : Z)       (* _TypeDecl *)
| IType (t : ty)                           (* PySMTType *)
| IPartial                                 (* PartialType *)
| IOp (o : opname)
| IExitLet | IKeys (ks : list string)
| IExitQuant | IQuant (fa : bool) | IVars (vs : list (string * var))
| IThunkTerm (t : term)                    (* lambda: term *)
| IThunkIdx (f : idxfun) | IIdx (f : idxfun)
| IThunkSym (n : string) (t : ty)          (* (as n T): handler creating the symbol when called *)
| IThunkConst (t : ty) | IConstArr (t : ty).  (* (as const T) *)

(* ================================================================ parser state *)
Record pstate := mkS {
  toks : list string;                          (* tokens not consumed yet (pushed-back ones in front) *)
  tend : lex_end;                              (* how the token generator ends *)
  keys : list (string * list item);            (* cache.keys: stacks, top first *)
  defs : list (string * (list var * item));    (* cache.definitions *)
  logic_ia : option bool;                      (* None: no logic; Some b: logic.theory.integer_arithmetic *)
  symtab : list (string * ty);                 (* FormulaManager.symbols *)
  fresh : Z;                                   (* FormulaManager._fresh_guess *)
  sorts : list (string * Z);                   (* TypeManager._custom_types_decl: name, arity *)
  srcs : list (option (list ascii))            (* for every token of [toks]: the source after it, if known *)
}.

Definition set_toks (s : pstate) (l : list string) (e : lex_end) : pstate :=
  mkS l e (keys s) (defs s) (logic_ia s) (symtab s) (fresh s) (sorts s) (map (fun _ => None) l).
Definition set_toks_src (s : pstate) (l : list (string * list ascii)) (e : lex_end) : pstate :=
  mkS (map fst l) e (keys s) (defs s) (logic_ia s) (symtab s) (fresh s) (sorts s) (map (fun p => Some (snd p)) l).
Definition set_keys (s : pstate) (k : list (string * list item)) : pstate :=
  mkS (toks s) (tend s) k (defs s) (logic_ia s) (symtab s) (fresh s) (sorts s) (srcs s).
Definition set_defs (s : pstate) (d : list (string * (list var * item))) : pstate :=
  mkS (toks s) (tend s) (keys s) d (logic_ia s) (symtab s) (fresh s) (sorts s) (srcs s).
Definition set_logic (s : pstate) (l : option bool) : pstate :=
  mkS (toks s) (tend s) (keys s) (defs s) l (symtab s) (fresh s) (sorts s) (srcs s).
Definition set_syms (s : pstate) (t : list (string * ty)) (f : Z) : pstate :=
  mkS (toks s) (tend s) (keys s) (defs s) (logic_ia s) t f (sorts s) (srcs s).
Definition set_sorts (s : pstate) (t : list (string * Z)) : pstate :=
  mkS (toks s) (tend s) (keys s) (defs s) (logic_ia s) (symtab s) (fresh s) t (srcs s).

Inductive res (A : Type) := ROk (a : A) (s : pstate) | RErr (e : err) (s : pstate).
Arguments ROk {A}. Arguments RErr {A}.
Definition bind {A B} (r : res A) (f : A -> pstate -> res B) : res B :=
  match r with ROk a s => f a s | RErr e s => RErr e s end.
Notation "'do' x , s <- r ;; k" := (bind r (fun x s => k)) (at level 200, x name, s name, r at level 100, k at level 200).

(* stateless results *)
Inductive er (A : Type) := Ok (a : A) | Er (e : err).
Arguments Ok {A}. Arguments Er {A}.
Definition lift {A} (r : er A) (s : pstate) : res A :=
  match r with Ok a => ROk a s | Er e => RErr e s end.
Definition ebind {A B} (r : er A) (f : A -> er B) : er B := match r with Ok a => f a | Er e => Er e end.

(* ---------------------------------------------------------------- association lists *)
Fixpoint alookup {A} (k : string) (l : list (string * A)) : option A :=
  match l with [] => None | (k', v) :: r => if String.eqb k k' then Some v else alookup k r end.
Fixpoint aset {A} (k : string) (v : A) (l : list (string * A)) : list (string * A) :=
  match l with
  | [] => [(k, v)]
  | (k', v') :: r => if String.eqb k k' then (k, v) :: r else (k', v') :: aset k v r
  end.

(* cache.bind / cache.unbind (KeyError / IndexError when there is nothing to pop) / cache.get *)
Definition cache_bind (k : string) (v : item) (s : pstate) : pstate :=
  set_keys s (aset k (v :: match alookup k (keys s) with Some l => l | None => [] end) (keys s)).
Definition cache_unbind (k : string) (s : pstate) : res unit :=
  match alookup k (keys s) with
  | Some (_ :: l) => ROk tt (set_keys s (aset k l (keys s)))
  | _ => RErr EOther s
  end.
(* cache.get: a live binding in [keys] (let / quantifier / parameter bindings, declarations)
   shadows a definition of the same name; cache.define drops the older bindings of the name *)
Definition cache_get (k : string) (s : pstate) : option item :=
  match alookup k (keys s) with
  | Some (x :: _) => Some x
  | _ =>
      match alookup k (defs s) with
      | Some ([], body) => Some body
      | Some (ps, ITerm b) => Some (IDef ps b)
      | Some (_, _) => Some IPartial        (* unreachable: parameters only come with a term body *)
      | None => None
      end
  end.
Fixpoint aremove {A} (k : string) (l : list (string * A)) : list (string * A) :=
  match l with
  | [] => []
  | (k', v) :: r => if String.eqb k k' then r else (k', v) :: aremove k r
  end.
Definition cache_define (k : string) (ps : list var) (body : item) (s : pstate) : pstate :=
  set_keys (set_defs s (aset k (ps, body) (defs s))) (aremove k (keys s)).
Fixpoint unbind_all (ks : list string) (s : pstate) : res unit :=
  match ks with
  | [] => ROk tt s
  | k :: r => do _ , s1 <- cache_unbind k s ;; unbind_all r s1
  end.

(* ---------------------------------------------------------------- tokens *)
(* consume_maybe: StopIteration at the end; a tokenizer error is raised once, after which the
   finished generator raises StopIteration *)
Definition pop_tok (s : pstate) (r : list string) : pstate :=
  mkS r (tend s) (keys s) (defs s) (logic_ia s) (symtab s) (fresh s) (sorts s) (tl (srcs s)).
Definition next_maybe (s : pstate) : res string :=
  match toks s with
  | t :: r => ROk t (pop_tok s r)
  | [] => match tend s with
          | LexErr => RErr ESyntax (set_toks s [] LexEof)
          | LexEof => RErr EStop s
          end
  end.
(* consume: StopIteration becomes PysmtSyntaxError *)
Definition next_tok (s : pstate) : res string :=
  match next_maybe s with RErr EStop s' => RErr ESyntax s' | r => r end.
Definition push_back (t : string) (s : pstate) : pstate :=
  mkS (t :: toks s) (tend s) (keys s) (defs s) (logic_ia s) (symtab s) (fresh s) (sorts s) (None :: srcs s).
(* enough steps for every loop over the rest of the input: one per remaining token, plus one per
   remaining character when the source is known (re-tokenising after a raw read can split a token) *)
Definition fuel_of (s : pstate) : nat :=
  S (List.length (toks s) + match srcs s with Some r :: _ => S (List.length r) | _ => 0 end).
(* the source after the token that [next_*] is about to return *)
Definition next_src (s : pstate) : option (list ascii) := match srcs s with Some r :: _ => Some r | _ => None end.
(* consume_opening (consume_maybe: StopIteration passes through) / consume_closing *)
Definition consume_opening (s : pstate) : res unit :=
  do t , s1 <- next_maybe s ;; if String.eqb t "(" then ROk tt s1 else RErr ESyntax s1.
Definition consume_closing (s : pstate) : res unit :=
  do t , s1 <- next_tok s ;; if String.eqb t ")" then ROk tt s1 else RErr ESyntax s1.
(* parse_atom *)
Definition parse_atom (s : pstate) : res string :=
  do t , s1 <- next_tok s ;;
  if String.eqb t "(" || String.eqb t ")" then RErr ESyntax s1 else ROk t s1.

(* parse_atoms(tokens, command, min_size, max_size) *)
Fixpoint atoms_min (n : nat) (acc : list string) (s : pstate) : res (list string) :=
  match n with
  | O => ROk acc s
  | S k => do t , s1 <- next_tok s ;;
           if String.eqb t ")" || String.eqb t "(" then RErr ESyntax s1 else atoms_min k (acc ++ [t]) s1
  end.
Fixpoint atoms_opt (n : nat) (acc : list string) (s : pstate) : res (list string) :=
  match n with
  | O => RErr ESyntax s
  | S k => do t , s1 <- next_tok s ;;
           if String.eqb t ")" then ROk acc s1
           else if String.eqb t "(" then RErr ESyntax s1 else atoms_opt k (acc ++ [t]) s1
  end.
Definition parse_atoms (mn mx : nat) (s : pstate) : res (list string) :=
  do l , s1 <- atoms_min mn [] s ;; atoms_opt (S (mx - mn)) l s1.

(* ---------------------------------------------------------------- symbols *)
(* FormulaManager.get_or_create_symbol *)
Definition mk_symbol (n : string) (t : ty) (s : pstate) : res term :=
  match alookup n (symtab s) with
  | Some t' => if ty_eqb t' t then ROk (TSym n t) s else RErr EType s
  | None => if String.eqb n "" then RErr EValue s
            else ROk (TSym n t) (set_syms s (symtab s ++ [(n, t)]) (fresh s))
  end.
(* FormulaManager.new_fresh_symbol(typename, pre + "%d") *)
Fixpoint fresh_from (fuel : nat) (pre : string) (c : Z) (tab : list (string * ty)) : Z :=
  match fuel with
  | O => c
  | S f => match alookup (pre ++ dec_string c)%string tab with
           | Some _ => fresh_from f pre (c + 1)%Z tab
           | None => c
           end
  end.
Definition fresh_symbol (pre : string) (t : ty) (s : pstate) : res term :=
  if str_mem "%"%char pre then RErr EUnmodelled s else
  let c := fresh_from (S (List.length (symtab s))) pre (fresh s) (symtab s) in
  mk_symbol (pre ++ dec_string c)%string t (set_syms s (symtab s) (c + 1)%Z).
(* _get_quantified_var *)
Definition quantified_var (n : string) (t : ty) (s : pstate) : res term :=
  match mk_symbol n t s with
  | RErr EType s1 => fresh_symbol n t s1
  | r => r
  end.

(* ================================================================ types *)
Inductive ptype := PTy (t : ty) | PPartial | PParam (n : string).
Definition as_ty (p : ptype) : option ty := match p with PTy t => Some t | _ => None end.
Fixpoint all_tys (l : list ptype) : option (list ty) :=
  match l with
  | [] => Some []
  | p :: r => match as_ty p, all_tys r with Some t, Some ts => Some (t :: ts) | _, _ => None end
  end.

(* parse_type(tokens, command, type_params, additional_token) *)
Fixpoint parse_type (fuel : nat) (tparams : list string) (tok : option string) (s : pstate) : res ptype :=
  match fuel with
  | O => RErr EUnmodelled s
  | S f =>
      do var , s1 <- match tok with Some t => ROk t s | None => next_tok s end ;;
      if str_in var tparams then ROk (PParam var) s1
      else if String.eqb var "(" then
        do op , s2 <- next_tok s1 ;;
        if String.eqb op "Array" then
          do it , s3 <- parse_type f [] None s2 ;;
          do et , s4 <- parse_type f [] None s3 ;;
          do _ , s5 <- consume_closing s4 ;;
          match as_ty it, as_ty et with
          | Some i, Some e => ROk (PTy (TArr i e)) s5
          | _, _ => RErr EValue s5
          end
        else if String.eqb op "_" then
          do ts , s3 <- next_tok s2 ;;
          if negb (String.eqb ts "BitVec") then RErr ESyntax s3 else
          do dim , s4 <- next_tok s3 ;;
          match py_int dim with
          | None => RErr ESyntax s4
          | Some w => do _ , s5 <- consume_closing s4 ;; ROk (PTy (TBV w)) s5
          end
        else
          match cache_get op s2 with
          | Some (ITypeDecl n ar) =>
              (fix params (k : nat) (acc : list ptype) (st : pstate) {struct k} : res ptype :=
                 match k with
                 | O =>
                     if existsb (fun p => match p with PParam _ => true | _ => false end) acc
                     then do _ , st1 <- consume_closing st ;; ROk PPartial st1
                     else match all_tys acc with
                          | None => RErr EValue st
                          | Some ts =>
                              if negb (Z.of_nat (List.length ts) =? ar)%Z || (ar =? 0)%Z then RErr EValue st
                              else do _ , st1 <- consume_closing st ;; ROk (PTy (TUser n ts)) st1
                          end
                 | S k' => do p , st1 <- parse_type f tparams None st ;; params k' (acc ++ [p]) st1
                 end) (Z.to_nat ar) [] s2
          | _ => RErr ESyntax s2
          end
      else if String.eqb var "Bool" then ROk (PTy TBool) s1
      else if String.eqb var "Int" then ROk (PTy TInt) s1
      else if String.eqb var "Real" then ROk (PTy TReal) s1
      else if String.eqb var "String" then ROk (PTy TStr) s1
      else match cache_get var s1 with
           | None => RErr ESyntax s1
           | Some (ITypeDecl n ar) => if (ar =? 0)%Z then ROk (PTy (TUser n [])) s1 else RErr EValue s1
           | Some (IType t) => ROk (PTy t) s1
           | Some IPartial => ROk PPartial s1
           | Some _ => RErr EOther s1
           end
  end.

(* a type that must be a PySMTType *)
Definition parse_ty (fuel : nat) (s : pstate) : res ptype := parse_type fuel [] None s.

(* ================================================================ constructors + type check *)
Definition chk (t : term) : er term := match tc t with Some _ => Ok t | None => Er EType end.
Definition chko (o : option term) (e : err) : er term :=
  match o with Some t => chk t | None => Er e end.
Definition ty_of (t : term) : option ty := tc t.

Fixpoint terms_of (l : list item) : option (list term) :=
  match l with
  | [] => Some []
  | ITerm t :: r => match terms_of r with Some ts => Some (t :: ts) | None => None end
  | _ :: _ => None
  end.

(* fix_real(op, *args) *)
Definition closed_int (t : term) : bool :=
  match tc t with Some TInt => match fv t with [] => true | _ => false end | _ => false end.
Fixpoint to_real_args (l : list term) : er (list term) :=
  match l with
  | [] => Ok []
  | x :: r =>
      ebind (if closed_int x then chko (mk_toreal x) EType else Ok x) (fun x' =>
      ebind (to_real_args r) (fun r' => Ok (x' :: r')))
  end.
Definition fix_real (op : list term -> er term) (args : list term) : er term :=
  match op args with
  | Er EType =>
      if existsb closed_int args
      then ebind (to_real_args args) op
      else Er EType
  | r => r
  end.

(* arity errors of Python calls are TypeError *)
Definition bin (f : term -> term -> er term) (l : list term) : er term :=
  match l with [a; b] => f a b | _ => Er EOther end.
Definition un (f : term -> er term) (l : list term) : er term :=
  match l with [a] => f a | _ => Er EOther end.
Definition tern (f : term -> term -> term -> er term) (l : list term) : er term :=
  match l with [a; b; c] => f a b c | _ => Er EOther end.

Definition is_bool_t (t : term) : bool := match tc t with Some TBool => true | _ => false end.
Definition is_int_t (t : term) : bool := match tc t with Some TInt => true | _ => false end.

(* mgr.EqualsOrIff *)
Definition equals_or_iff (a b : term) : er term :=
  if is_bool_t a then chk (mk_iff a b) else chk (mk_equals a b).
(* mgr.AllDifferent *)
Fixpoint all_diff_row (a : term) (l : list term) : er (list term) :=
  match l with
  | [] => Ok []
  | b :: r => ebind (equals_or_iff a b) (fun e => ebind (chk (mk_not e)) (fun n =>
              ebind (all_diff_row a r) (fun r' => Ok (n :: r'))))
  end.
Fixpoint all_diff (l : list term) : er (list term) :=
  match l with
  | [] => Ok []
  | a :: r => ebind (all_diff_row a r) (fun x => ebind (all_diff r) (fun y => Ok (x ++ y)))
  end.

(* left-nested binary bit-vector operators: mgr.BVAnd / BVOr / BVAdd / BVMul *)
Fixpoint bv_fold (k : bvop) (acc : term) (l : list term) : er term :=
  match l with
  | [] => Ok acc
  | x :: r => ebind (chk (mk_bvop k acc x)) (fun a => bv_fold k a r)
  end.
Fixpoint concat_fold (acc : term) (l : list term) : er term :=
  match l with
  | [] => Ok acc
  | x :: r => ebind (chk (mk_bvconcat acc x)) (fun a => concat_fold a r)
  end.
Fixpoint repeat_fold (n : nat) (acc x : term) : er term :=
  match n with
  | O => Ok acc
  | S k => ebind (chk (mk_bvconcat acc x)) (fun a => repeat_fold k a x)
  end.

(* mgr.SBV(value, width) for a Python int *)
Definition mk_sbv (v w : Z) : option term :=
  if (v <? - 2 ^ (w - 1))%Z || (2 ^ (w - 1) - 1 <? v)%Z then None
  else if (0 <=? v)%Z then mk_bv v w else mk_bv (2 ^ w + v) w.

(* mgr.BVSMod: the SMT-LIB definition unfolded *)
Definition mk_bvsmod (s t : term) : er term :=
  match tc s, tc t with
  | Some (TBV m), Some (TBV m') =>
      if negb (m =? m')%Z || (m <=? 0)%Z then Er EType else
      let zero1 := TBVC 0 1 in
      let one1 := TBVC 1 1 in
      let msb_s := T (OBVExtract 1 (m - 1) (m - 1)) [s] in
      let msb_t := T (OBVExtract 1 (m - 1) (m - 1)) [t] in
      let abs_s := mk_ite (mk_equals msb_s zero1) s (mk_bvun BNeg s) in
      let abs_t := mk_ite (mk_equals msb_t zero1) t (mk_bvun BNeg t) in
      let u := mk_bvop BUrem abs_s abs_t in
      let cond1 := mk_equals u (TBVC 0 m) in
      let cond2 := mk_and [mk_equals msb_s zero1; mk_equals msb_t zero1] in
      let cond3 := mk_and [mk_equals msb_s one1; mk_equals msb_t zero1] in
      let cond4 := mk_and [mk_equals msb_s zero1; mk_equals msb_t one1] in
      let case3 := mk_bvop BAdd (mk_bvun BNeg u) t in
      let case4 := mk_bvop BAdd u t in
      let case5 := mk_bvun BNeg u in
      chk (mk_ite (mk_or [cond1; cond2]) u (mk_ite cond3 case3 (mk_ite cond4 case4 case5)))
  | _, _ => Er EType
  end.

(* Fraction(constant_value()) in _division: Int / Real / BV / Bool constants; a String constant
   goes through the string syntax of Fraction (QUIRK) *)
Definition const_fraction (t : term) : er frac :=
  match top t with
  | OIntC z => Ok (z, 1%Z)
  | ORealC n d => Ok (n, d)
  | OBVC v _ => Ok (v, 1%Z)
  | OBoolC b => Ok ((if b then 1 else 0)%Z, 1%Z)
  | OStrC l => match py_fraction (str_of_codes l) with FrOk f => Ok f | _ => Er EOther end
  | _ => Er EUnmodelled
  end.

Definition str_arity_ok (k : strop) (n : nat) : bool := Nat.eqb n (str_arity k).

(* the callables of the table applied to FNode arguments *)
Definition apply_op (o : opname) (args : list term) : er term :=
  match o with
  | PPlus => fix_real (fun l => chko (mk_plus l) EType) args
  | PTimes => fix_real (fun l => chko (mk_times l) EType) args
  | PMinus =>
      match args with
      | [a] =>
          match tc a with
          | Some TInt => match top a with
                         | OIntC z => Ok (mk_int (- z))
                         | _ => chko (mk_times [mk_int (-1); a]) EType
                         end
          | _ => match top a with
                 | ORealC n d => Ok (mk_real ((- n)%Z, d))
                 | _ => chko (mk_times [mk_real ((-1)%Z, 1%Z); a]) EType
                 end
          end
      | [a; b] => fix_real (bin (fun x y => chk (mk_minus x y))) args
      | _ => Er EOther
      end
  | PDiv =>
      bin (fun a b =>
             if is_constant a && is_constant b then
               ebind (const_fraction a) (fun fa => ebind (const_fraction b) (fun fb =>
               match fr_div fa fb with Some q => Ok (mk_real q) | None => Er EOther end))
             else fix_real (bin (fun x y => chko (mk_div x y) EOther)) [a; b]) args
  | PIntDiv => bin (fun a b => if is_int_t a && is_int_t b then chko (mk_div a b) EOther else Er EType) args
  | PPow => bin (fun a b => if negb (is_constant b) then Er EValue else chko (mk_pow a b) EOther) args
  | PGt => fix_real (bin (fun a b => chk (mk_lt b a))) args
  | PLt => fix_real (bin (fun a b => chk (mk_lt a b))) args
  | PGe => fix_real (bin (fun a b => chk (mk_le b a))) args
  | PLe => fix_real (bin (fun a b => chk (mk_le a b))) args
  | PEq => bin (fun a b => if is_bool_t a then chk (mk_iff a b)
                           else fix_real (bin (fun x y => chk (mk_equals x y))) [a; b]) args
  | PNot => un (fun a => if is_not a then Ok (arg a 0) else chk (T ONot [a])) args
  | PAnd => match args with [] | [_] => Ok (mk_and args) | _ => chk (mk_and args) end
  | POr => match args with [] | [_] => Ok (mk_or args) | _ => chk (mk_or args) end
  | PXor => bin (fun a b => ebind (chk (mk_iff a b)) (fun i => chk (T ONot [i]))) args
  | PImplies => bin (fun a b => chk (mk_implies a b)) args
  | PIff => bin (fun a b => chk (mk_iff a b)) args
  | PIte => fix_real (tern (fun c a b => chk (mk_ite c a b))) args
  | PDistinct => fix_real (fun l => ebind (all_diff l) (fun ds =>
                                     match ds with [] | [_] => Ok (mk_and ds) | _ => chk (mk_and ds) end)) args
  | PToReal => un (fun a => chko (mk_toreal a) EType) args
  | PConcat => match args with a :: b :: r => ebind (chk (mk_bvconcat a b)) (fun c => concat_fold c r)
                             | _ => Er EOther end
  | PBv1 k => un (fun a => chk (mk_bvun k a)) args
  | PBvN k => match args with [] => Er EValue | a :: r => bv_fold k a r end
  | PBv2 BComp => bin (fun a b => chk (mk_bvcomp a b)) args
  | PBv2 k => bin (fun a b => chk (mk_bvop k a b)) args
  | PBvRel k sw => bin (fun a b => chk (if sw then mk_bvrel k b a else mk_bvrel k a b)) args
  | PBvNand => bin (fun a b => ebind (chk (mk_bvop BAnd a b)) (fun x => chk (mk_bvun BNot x))) args
  | PBvNor => bin (fun a b => ebind (chk (mk_bvop BOr a b)) (fun x => chk (mk_bvun BNot x))) args
  | PBvXnor => bin (fun a b => ebind (chk (mk_bvop BXor a b)) (fun x => chk (mk_bvun BNot x))) args
  | PBvSmod => bin mk_bvsmod args
  | PStr SConcat => chko (mk_strconcat args) EOther
  | PStr k => if str_arity_ok k (List.length args) then chk (mk_strop k args) else Er EOther
  | PBv2Nat => un (fun a => chk (T OBVToNat [a])) args
  | PSelect => bin (fun a i => chk (mk_select a i)) args
  | PStore => tern (fun a i v => chk (mk_store a i v)) args
  end.

Definition apply_idx (f : idxfun) (x : term) : er term :=
  match f with
  | FExtract s e => chko (mk_bvextract x s (Some e)) EOther
  | FZext k => chk (mk_bvzext x k)
  | FSext k => chk (mk_bvsext x k)
  | FRol k => chk (mk_bvrol x k)
  | FRor k => chk (mk_bvror x k)
  | FRepeat k =>                  (* BVRepeat: PysmtValueError for count < 1, PysmtTypeError unless x is a bit-vector *)
      if (k <? 1)%Z then Er EValue
      else match tc x with
           | Some (TBV _) => repeat_fold (Z.to_nat (k - 1)) x x
           | _ => Er EType
           end
  end.

(* ================================================================ calling an item: the call of fun on lst *)
(* _exit_quantifier: the variables in textual order, repetitions kept *)
Definition dedupe_vars (vs : list (string * var)) : list var := map snd vs.

Definition call (f : item) (args : list item) (s : pstate) : res item :=
  match f with
  | IOp o => match terms_of args with
             | Some ts => do t , s1 <- lift (apply_op o ts) s ;; ROk (ITerm t) s1
             | None => RErr EOther s
             end
  | IFunc n fty =>
      match terms_of args with
      | Some ts => match mk_function n fty ts with
                   | Some t => do t' , s1 <- lift (chk t) s ;; ROk (ITerm t') s1
                   | None => RErr EValue s
                   end
      | None => RErr EOther s
      end
  | IDef ps body =>
      match terms_of args with
      | Some ts =>
          if negb (Nat.eqb (List.length ts) (List.length ps)) then RErr EOther s
          else match substitute_mgs [] (bind_params ps ts) body with
               | Some t => ROk (ITerm t) s
               | None => RErr EType s
               end
      | None => RErr EOther s
      end
  | IExitLet =>
      match args with
      | [IKeys ks; body] => do _ , s1 <- unbind_all ks s ;; ROk body s1
      | _ => RErr EOther s
      end
  | IExitQuant =>
      match args with
      | [IQuant fa; IVars vrs; body] =>
          do _ , s1 <- unbind_all (map fst vrs) s ;;
          match body with
          | ITerm b => let vs := dedupe_vars vrs in
                       match vs with
                       | [] => ROk (ITerm b) s1
                       | _ => do t , s2 <- lift (chk (if fa then T (OForall vs) [b] else T (OExists vs) [b])) s1 ;;
                              ROk (ITerm t) s2
                       end
          | _ => match vrs with [] => ROk body s1 | _ => RErr EOther s1 end
          end
      | _ => RErr EOther s
      end
  | IThunkTerm t => match args with [] => ROk (ITerm t) s | _ => RErr EOther s end
  | IThunkIdx g => match args with [] => ROk (IIdx g) s | _ => RErr EOther s end
  | IIdx g => match args with
              | [ITerm x] => do t , s1 <- lift (apply_idx g x) s ;; ROk (ITerm t) s1
              | _ => RErr EOther s
              end
  | IThunkSym n t => match args with
                     | [] => do v , s1 <- mk_symbol n t s ;; ROk (ITerm v) s1
                     | _ => RErr EOther s
                     end
  | IThunkConst t => match args with [] => ROk (IConstArr t) s | _ => RErr EOther s end
  | IConstArr t =>
      match args, t with
      | [ITerm d], TArr it _ => do a , s1 <- lift (chk (T (OArrayValue it) [d])) s ;; ROk (ITerm a) s1
      | _, _ => RErr EOther s
      end
  | IType _ => RErr ENotImpl s               (* not callable: "Unknown function" *)
  | IPartial => RErr EUnmodelled s           (* PartialType.__call__ *)
  | ITerm _ | ITypeDecl _ _ | IKeys _ | IQuant _ | IVars _ => RErr EOther s
  end.

(* ================================================================ atom *)
Definition replace_dq (l : list Z) : list Z :=
  (fix go (l : list Z) : list Z :=
     match l with
     | 34 :: 34 :: r => 34 :: go r
     | c :: r => c :: go r
     | [] => []
     end)%Z l.
Definition strip_ends (l : list Z) : list Z := match l with [] => [] | _ :: r => removelast r end.

Definition literal (tk : string) (s : pstate) : res term :=
  match tk with
  | EmptyString => RErr EOther s                              (* token[0]: IndexError *)
  | String c rest =>
      if Ascii.eqb c "#" then
        match rest with
        | EmptyString => RErr EOther s                        (* token[1]: IndexError *)
        | String k digits =>
            if Ascii.eqb k "b" then
              match py_int_prefixed 2 digits with
              | Some v => lift (chko (mk_bv v (zlen_s tk - 2)) EValue) s
              | None => RErr EOther s
              end
            else if Ascii.eqb k "x" then
              match py_int_prefixed 16 digits with
              | Some v => lift (chko (mk_bv v ((zlen_s tk - 2) * 4)) EValue) s
              | None => RErr EOther s
              end
            else RErr ESyntax s
        end
      else if Ascii.eqb c c_dq then ROk (mk_string (replace_dq (strip_ends (codes tk)))) s
      else match py_fraction tk with
           | FrOk f =>
               if (snd f =? 1)%Z then
                 match logic_ia s with
                 | None | Some true => if str_mem "." tk then ROk (mk_real f) s else ROk (mk_int (fst f)) s
                 | Some false => ROk (mk_real f) s
                 end
               else ROk (mk_real f) s
           | FrZeroDiv => RErr EOther s
           | FrBad => ROk (mk_string (codes tk)) s            (* QUIRK: unknown identifier = string constant *)
           end
  end.

(* atom(token): the cache first; a literal is cached under its token (QUIRK: for ever, whatever
   logic is set later) *)
Definition atom (tk : string) (s : pstate) : res item :=
  match cache_get tk s with
  | Some v => ROk v s
  | None => do t , s1 <- literal tk s ;; ROk (ITerm t) (cache_bind tk (ITerm t) s1)
  end.

(* ================================================================ the interpreted table *)
Inductive handler := HLet | HAnnot | HQuant (fa : bool) | HUnderscore | HAs | HOp (o : opname).

Definition interpreted_table : list (string * handler) :=
  [ ("let", HLet); ("!", HAnnot); ("exists", HQuant false); ("forall", HQuant true);
    ("+", HOp PPlus); ("-", HOp PMinus); ("*", HOp PTimes); ("/", HOp PDiv); ("div", HOp PIntDiv); ("pow", HOp PPow);
    (">", HOp PGt); ("<", HOp PLt); (">=", HOp PGe); ("<=", HOp PLe); ("=", HOp PEq);
    ("not", HOp PNot); ("and", HOp PAnd); ("or", HOp POr); ("xor", HOp PXor);
    ("=>", HOp PImplies); ("<->", HOp PIff); ("ite", HOp PIte); ("distinct", HOp PDistinct);
    ("to_real", HOp PToReal); ("concat", HOp PConcat);
    ("bvnot", HOp (PBv1 BNot)); ("bvand", HOp (PBvN BAnd)); ("bvor", HOp (PBvN BOr));
    ("bvneg", HOp (PBv1 BNeg)); ("bvadd", HOp (PBvN BAdd)); ("bvmul", HOp (PBvN BMul));
    ("bvudiv", HOp (PBv2 BUdiv)); ("bvurem", HOp (PBv2 BUrem)); ("bvshl", HOp (PBv2 BLshl));
    ("bvlshr", HOp (PBv2 BLshr)); ("bvsub", HOp (PBv2 BSub)); ("bvult", HOp (PBvRel BUlt false));
    ("bvxor", HOp (PBv2 BXor)); ("_", HUnderscore);
    ("bvnand", HOp PBvNand); ("bvnor", HOp PBvNor); ("bvxnor", HOp PBvXnor);
    ("bvcomp", HOp (PBv2 BComp)); ("bvsdiv", HOp (PBv2 BSdiv)); ("bvsrem", HOp (PBv2 BSrem));
    ("bvsmod", HOp PBvSmod); ("bvashr", HOp (PBv2 BAshr));
    ("bvule", HOp (PBvRel BUle false)); ("bvugt", HOp (PBvRel BUlt true)); ("bvuge", HOp (PBvRel BUle true));
    ("bvslt", HOp (PBvRel BSlt false)); ("bvsle", HOp (PBvRel BSle false));
    ("bvsgt", HOp (PBvRel BSlt true)); ("bvsge", HOp (PBvRel BSle true));
    ("str.len", HOp (PStr SLength)); ("str.++", HOp (PStr SConcat)); ("str.at", HOp (PStr SCharAt));
    ("str.contains", HOp (PStr SContains)); ("str.indexof", HOp (PStr SIndexOf));
    ("str.replace", HOp (PStr SReplace)); ("str.substr", HOp (PStr SSubstr));
    ("str.prefixof", HOp (PStr SPrefixOf)); ("str.suffixof", HOp (PStr SSuffixOf));
    ("str.to_int", HOp (PStr SToInt)); ("str.from_int", HOp (PStr SFromInt));
    ("str.to.int", HOp (PStr SToInt)); ("int.to.str", HOp (PStr SFromInt));
    ("bv2nat", HOp PBv2Nat); ("select", HOp PSelect); ("store", HOp PStore); ("as", HAs) ].

(* the name of the Python callable behind each entry, for the comparison with the table of the
   implementation (harness/c08.py) *)
Definition bvop_name (k : bvop) : string :=
  match k with
  | BNot => "BVNot" | BAnd => "BVAnd" | BOr => "BVOr" | BXor => "BVXor" | BConcat => "BVConcat"
  | BNeg => "BVNeg" | BAdd => "BVAdd" | BSub => "BVSub" | BMul => "BVMul" | BUdiv => "BVUDiv"
  | BUrem => "BVURem" | BLshl => "BVLShl" | BLshr => "BVLShr" | BComp => "BVComp"
  | BSdiv => "BVSDiv" | BSrem => "BVSRem" | BAshr => "BVAShr"
  end.
Definition strop_name (k : strop) : string :=
  match k with
  | SLength => "StrLength" | SConcat => "StrConcat" | SContains => "StrContains"
  | SIndexOf => "StrIndexOf" | SReplace => "StrReplace" | SSubstr => "StrSubstr"
  | SPrefixOf => "StrPrefixOf" | SSuffixOf => "StrSuffixOf" | SToInt => "StrToInt"
  | SFromInt => "IntToStr" | SCharAt => "StrCharAt"
  end.
Definition op_desc (o : opname) : string :=
  match o with
  | PPlus => "fix_real:Plus" | PMinus => "self:_minus_or_uminus" | PTimes => "fix_real:Times"
  | PDiv => "self:_division" | PIntDiv => "self:_int_division" | PPow => "mgr:Pow" | PGt => "fix_real:GT" | PLt => "fix_real:LT"
  | PGe => "fix_real:GE" | PLe => "fix_real:LE" | PEq => "self:_equals_or_iff"
  | PNot => "mgr:Not" | PAnd => "mgr:And" | POr => "mgr:Or" | PXor => "mgr:Xor"
  | PImplies => "mgr:Implies" | PIff => "mgr:Iff" | PIte => "fix_real:Ite"
  | PDistinct => "fix_real:AllDifferent" | PToReal => "mgr:ToReal" | PConcat => "mgr:BVConcat"
  | PBv1 k | PBvN k | PBv2 k => ("mgr:" ++ bvop_name k)%string
  | PBvRel BUlt false => "mgr:BVULT" | PBvRel BUlt true => "mgr:BVUGT"
  | PBvRel BUle false => "mgr:BVULE" | PBvRel BUle true => "mgr:BVUGE"
  | PBvRel BSlt false => "mgr:BVSLT" | PBvRel BSlt true => "mgr:BVSGT"
  | PBvRel BSle false => "mgr:BVSLE" | PBvRel BSle true => "mgr:BVSGE"
  | PBvNand => "mgr:BVNand" | PBvNor => "mgr:BVNor" | PBvXnor => "mgr:BVXnor" | PBvSmod => "mgr:BVSMod"
  | PStr k => ("mgr:" ++ strop_name k)%string | PBv2Nat => "mgr:BVToNatural"
  | PSelect => "mgr:Select" | PStore => "mgr:Store"
  end.
Definition handler_desc (h : handler) : string :=
  match h with
  | HLet => "self:_enter_let" | HAnnot => "self:_enter_annotation" | HQuant _ => "self:_enter_quantifier"
  | HUnderscore => "self:_smtlib_underscore" | HAs => "self:_enter_smtlib_as" | HOp o => op_desc o
  end.
Definition table_desc : list (string * string) :=
  map (fun p => (fst p, handler_desc (snd p))) interpreted_table.

(* ================================================================ get_expression *)
(* the reader's stack: innermost list first; every list is kept REVERSED (last appended first) *)
Definition stack := list (list item).
Definition push_item (x : item) (st : stack) : option stack :=
  match st with l :: r => Some ((x :: l) :: r) | [] => None end.
Fixpoint push_items (xs : list item) (st : stack) : option stack :=
  match xs with
  | [] => Some st
  | x :: r => match push_item x st with Some st' => push_items r st' | None => None end
  end.

(* skip a parenthesised annotation value (the opening parenthesis is already consumed);
   raw_read raises StopIteration at the end of the stream *)
Fixpoint skip_balanced (fuel : nat) (depth : nat) (s : pstate) : res unit :=
  match fuel with
  | O => RErr EUnmodelled s
  | S f =>
      do t , s1 <- next_maybe s ;;
      if String.eqb t "(" then skip_balanced f (S depth) s1
      else if String.eqb t ")" then match depth with O => ROk tt s1 | S d => skip_balanced f d s1 end
      else skip_balanced f depth s1
  end.

(* the attribute loop of _enter_annotation; [tk] is the current token *)
Fixpoint annot_loop (fuel : nat) (tk : string) (s : pstate) : res unit :=
  match fuel with
  | O => RErr EUnmodelled s
  | S f =>
      if String.eqb tk ")" then ROk tt s
      else if negb (starts_with ":" tk) then RErr ESyntax s
      else
        do t2 , s1 <- next_tok s ;;
        if starts_with ":" t2 || String.eqb t2 ")" then annot_loop f t2 s1
        else if String.eqb t2 "(" then
          do _ , s2 <- (match next_src s with
                        | Some after =>         (* raw_read: parentheses counted on characters *)
                            match skip_raw after 0 with
                            | Some rest => let tk := lex_src rest in ROk tt (set_toks_src s1 (fst tk) (snd tk))
                            | None => RErr EStop (set_toks s1 [] LexEof)
                            end
                        | None => skip_balanced (fuel_of s1) 0 s1
                        end) ;;
          do t3 , s3 <- next_tok s2 ;; annot_loop f t3 s3
        else do t3 , s2 <- next_tok s1 ;; annot_loop f t3 s2
  end.

Definition catch_stop {A} (r : res (option A)) : res (option A) :=
  match r with RErr EStop s => ROk None s | _ => r end.

(* assert_not_none(get_expression(tokens)) *)
Definition not_none {A} (r : res (option A)) : res A :=
  do o , s <- r ;; match o with Some a => ROk a s | None => RErr EOther s end.

(* after the last binding of a let: every name is bound to its value (an early binding is replaced) *)
Fixpoint let_finish (vals : list (string * item)) (early : list string) (s : pstate) : res unit :=
  match vals with
  | [] => ROk tt s
  | (v, e) :: r =>
      do _ , s1 <- (if str_in v early then cache_unbind v s else ROk tt s) ;;
      let_finish r early (cache_bind v e s1)
  end.

(* One iteration of get_expression's loop, over the rest of the loop [K] (K stk s = the loop
   continued with stack stk in state s; K [] s = a nested call of get_expression).  The pieces are
   separate definitions so that the proofs can unfold them one at a time. *)
Section Reader.
  Variable K : stack -> pstate -> res (option item).

  Definition push_then (x : item) (stk : stack) (st : pstate) : res (option item) :=
    match push_item x stk with
    | Some stk' => K stk' st
    | None => RErr EOther st
    end.

  (* _enter_let after the two opening parentheses.  Parallel let: the bound terms are read in the
     enclosing scope and the names bound after the last binding; EXTENSION: a name that means
     nothing in the enclosing scope is visible to the following bindings of the same let *)
  Fixpoint let_bindings (k : nat) (stk : stack) (cur : string) (vals : list (string * item))
                        (early : list string) (sb : pstate) {struct k} : res (option item) :=
    match k with
    | O => RErr EUnmodelled sb
    | S k' =>
        if String.eqb cur ")" then
          do _ , sb1 <- let_finish vals early sb ;;
          match push_items [IExitLet; IKeys (map fst vals)] stk with
          | Some stk' => K stk' sb1
          | None => RErr EOther sb1
          end
        else if negb (String.eqb cur "(") then RErr ESyntax sb
        else
          do vname , sb1 <- parse_atom sb ;;
          do e , sb2 <- not_none (K [] sb1) ;;
          let is_early := negb (str_in vname (map fst vals)) &&
                          match cache_get vname sb2 with None => true | Some _ => false end in
          let sb3 := if is_early then cache_bind vname e sb2 else sb2 in
          do _ , sb4 <- consume_closing sb3 ;;
          do c , sb5 <- next_tok sb4 ;;
          let_bindings k' stk c (aset vname e vals) (if is_early then vname :: early else early) sb5
    end.
  Definition handle_let (stk : stack) (st1 : pstate) : res (option item) :=
    do _ , st2 <- consume_opening st1 ;;
    do _ , st3 <- consume_opening st2 ;;
    let_bindings (fuel_of st3) stk "(" [] [] st3.

  (* _enter_quantifier after the two opening parentheses *)
  Fixpoint quant_vars (k : nat) (fa : bool) (stk : stack) (cur : string) (vrs : list (string * var))
                      (sb : pstate) {struct k} : res (option item) :=
    match k with
    | O => RErr EUnmodelled sb
    | S k' =>
        if String.eqb cur ")" then
          match push_items [IExitQuant; IQuant fa; IVars vrs] stk with
          | Some stk' => K stk' sb
          | None => RErr EOther sb
          end
        else if negb (String.eqb cur "(") then RErr ESyntax sb
        else
          do vname , sb1 <- parse_atom sb ;;
          do pt , sb2 <- parse_ty (fuel_of sb1) sb1 ;;
          match pt with
          | PTy t =>
              do v , sb3 <- quantified_var vname t sb2 ;;
              let var := match v with T (OSymbol n ty) _ => (n, ty) | _ => (vname, t) end in
              let sb4 := cache_bind vname (ITerm v) sb3 in
              do _ , sb5 <- consume_closing sb4 ;;
              do c , sb6 <- next_tok sb5 ;;
              quant_vars k' fa stk c (vrs ++ [(vname, var)]) sb6
          | _ => RErr EValue sb2
          end
    end.
  Definition handle_quant (fa : bool) (stk : stack) (st1 : pstate) : res (option item) :=
    do _ , st2 <- consume_opening st1 ;;
    do _ , st3 <- consume_opening st2 ;;
    quant_vars (fuel_of st3) fa stk "(" [] st3.

  (* _enter_annotation *)
  Definition handle_annot (stk : stack) (st1 : pstate) : res (option item) :=
    do e , st2 <- not_none (K [] st1) ;;
    match e with
    | ITerm term =>
        do tk2 , st3 <- next_tok st2 ;;
        do _ , st4 <- annot_loop (fuel_of st3) tk2 st3 ;;
        match stk with
        | [] :: _ => push_then (IThunkTerm term) stk (push_back ")" st4)
        | _ => RErr EOther st4
        end
    | _ => RErr EOther st2
    end.

  (* _smtlib_underscore *)
  Definition int_arg (st : pstate) (k : Z -> pstate -> res (option item)) : res (option item) :=
    do a , st' <- parse_atom st ;;
    match py_int a with Some z => k z st' | None => RErr ESyntax st' end.
  Definition handle_underscore (stk : stack) (st1 : pstate) : res (option item) :=
    do op , st2 <- parse_atom st1 ;;
    if String.eqb op "extract" then
      do send , st3 <- parse_atom st2 ;;
      do sstart , st4 <- parse_atom st3 ;;
      match py_int sstart, py_int send with
      | Some a, Some b => push_then (IThunkIdx (FExtract a b)) stk st4
      | _, _ => RErr ESyntax st4
      end
    else if String.eqb op "zero_extend" then
      int_arg st2 (fun z st => push_then (IThunkIdx (FZext z)) stk st)
    else if String.eqb op "repeat" then
      int_arg st2 (fun z st => push_then (IThunkIdx (FRepeat z)) stk st)
    else if String.eqb op "rotate_left" then
      int_arg st2 (fun z st => push_then (IThunkIdx (FRol z)) stk st)
    else if String.eqb op "rotate_right" then
      int_arg st2 (fun z st => push_then (IThunkIdx (FRor z)) stk st)
    else if String.eqb op "sign_extend" then
      int_arg st2 (fun z st => push_then (IThunkIdx (FSext z)) stk st)
    else if starts_with "bv" op then
      match py_int (drop 2 op) with
      | None => RErr ESyntax st2
      | Some v =>
          int_arg st2 (fun w st =>
            match mk_bv v w with
            | Some c => push_then (IThunkTerm c) stk st
            | None => RErr EValue st
            end)
      end
    else if String.eqb op "to_bv" then
      match stk with
      | [] => RErr EOther st2
      | _ :: stk1 =>
          int_arg st2 (fun w st =>
            do _ , st3 <- consume_closing st ;;
            do fnv , st4 <- K [] st3 ;;
            match fnv with
            | Some (ITerm (T (OIntC v) _)) =>
                match (if (0 <=? v)%Z then mk_bv v w else mk_sbv v w) with
                | Some c => push_then (IThunkTerm c) stk1 st4
                | None => RErr EValue st4
                end
            | Some (ITerm _) => RErr ESyntax st4
            | _ => RErr EOther st4
            end)
      end
    else RErr ESyntax st2.

  (* _enter_smtlib_as *)
  Definition handle_as (stk : stack) (st1 : pstate) : res (option item) :=
    do what , st2 <- parse_atom st1 ;;
    do pt , st3 <- parse_ty (fuel_of st2) st2 ;;
    match pt with
    | PTy t =>
        let it := if String.eqb what "const"
                  then match t with TArr _ _ => Some (IThunkConst t) | _ => None end
                  else Some (IThunkSym what t) in
        match it with
        | Some x => push_then x stk st3
        | None => RErr EOther st3
        end
    | _ => RErr EOther st3
    end.

  (* the first token [t] after a run of opening parentheses *)
  Definition handle_head (t : string) (stk : stack) (st1 : pstate) : res (option item) :=
    match alookup t interpreted_table with
    | Some (HOp o) => push_then (IOp o) stk st1
    | Some HLet => handle_let stk st1
    | Some (HQuant fa) => handle_quant fa stk st1
    | Some HAnnot => handle_annot stk st1
    | Some HUnderscore => handle_underscore stk st1
    | Some HAs => handle_as stk st1
    | None => do a , st2 <- atom t st1 ;; push_then a stk st2
    end.

  (* while tk == "(": stack.append([]); tk = tokens.consume() *)
  Fixpoint opens (n : nat) (stk : stack) (st : pstate) {struct n} : res (option item) :=
    match n with
    | O => RErr EUnmodelled st
    | S n' =>
        do t , st1 <- next_tok st ;;
        if String.eqb t "(" then opens n' ([] :: stk) st1 else handle_head t stk st1
    end.

  (* the closing parenthesis: fun = lst.pop(0); res = fun( *lst ) *)
  Definition handle_close (stk : stack) (s1 : pstate) : res (option item) :=
    match stk with
    | [] => RErr ESyntax s1
    | lst :: rest =>
        match rev lst with
        | [] => RErr ESyntax s1
        | fn :: args =>
            do r , s2 <- call fn args s1 ;;
            match rest with
            | [] => ROk (Some r) s2
            | l :: rest' => K ((r :: l) :: rest') s2
            end
        end
    end.

  Definition handle_atom (tk : string) (stk : stack) (s1 : pstate) : res (option item) :=
    do a , s2 <- atom tk s1 ;;
    match stk with
    | [] => ROk (Some a) s2
    | l :: rest => K ((a :: l) :: rest) s2
    end.

  Definition step (stk : stack) (s : pstate) : res (option item) :=
    catch_stop (
      do tk , s1 <- next_maybe s ;;
      if String.eqb tk "(" then opens (fuel_of s1) ([] :: stk) s1
      else if String.eqb tk ")" then handle_close stk s1
      else handle_atom tk stk s1).
End Reader.

Fixpoint get_expr (fuel : nat) (stk : stack) (s : pstate) {struct fuel} : res (option item) :=
  match fuel with
  | O => RErr EUnmodelled s
  | S f => step (get_expr f) stk s
  end.

Definition expr_fuel (s : pstate) : nat := S (fuel_of s).
Definition get_expression (s : pstate) : res (option item) := get_expr (expr_fuel s) [] s.

(* ================================================================ commands *)
Inductive carg :=
| ATerm (t : term)
| AStr (x : string)
| AInt (z : Z)
| AType (t : ty)
| ADecl (n : string) (arity : Z)
| APartial
| ALogic (name : option string)
| AList (l : list carg)
| ANone
| ACallable.                      (* a Python callable ended up as a command argument (QUIRK) *)
Record cmd := mkC { cname : string; cargs : list carg }.

Definition carg_of_item (i : item) : carg :=
  match i with
  | ITerm t => ATerm t
  | IType t => AType t
  | ITypeDecl n a => ADecl n a
  | IPartial => APartial
  | IKeys ks => AList (map AStr ks)
  | _ => ACallable
  end.
Definition carg_of_opt (o : option item) : carg :=
  match o with Some i => carg_of_item i | None => ANone end.

(* parse_expr_list: expressions until a PysmtSyntaxError (normally the closing parenthesis of the
   list, which that failed call has consumed) *)
Fixpoint expr_list (fuel : nat) (acc : list carg) (s : pstate) : res (list carg) :=
  match fuel with
  | O => RErr EUnmodelled s
  | S f =>
      match not_none (get_expression s) with
      | ROk i s1 => expr_list f (acc ++ [carg_of_item i]) s1
      | RErr ESyntax s1 => ROk acc s1
      | RErr e s1 => RErr e s1
      end
  end.
Definition parse_expr_list (s : pstate) : res (list carg) :=
  do _ , s1 <- consume_opening s ;; expr_list (fuel_of s1) [] s1.

(* parse_params / parse_named_params *)
Fixpoint params_loop (fuel : nat) (cur : string) (acc : list ptype) (s : pstate) : res (list ptype) :=
  match fuel with
  | O => RErr EUnmodelled s
  | S f =>
      if String.eqb cur ")" then ROk acc s
      else do p , s1 <- parse_type (fuel_of s) [] (Some cur) s ;;
           do c , s2 <- next_tok s1 ;; params_loop f c (acc ++ [p]) s2
  end.
Definition parse_params (s : pstate) : res (list ptype) :=
  do _ , s1 <- consume_opening s ;;
  do c , s2 <- next_tok s1 ;; params_loop (fuel_of s2) c [] s2.

Fixpoint named_loop (fuel : nat) (cur : string) (acc : list (string * ptype)) (s : pstate)
  : res (list (string * ptype)) :=
  match fuel with
  | O => RErr EUnmodelled s
  | S f =>
      if String.eqb cur ")" then ROk acc s
      else do v , s1 <- parse_atom s ;;
           do p , s2 <- parse_ty (fuel_of s1) s1 ;;
           do _ , s3 <- consume_closing s2 ;;
           do c , s4 <- next_tok s3 ;; named_loop f c (acc ++ [(v, p)]) s4
  end.
Definition parse_named_params (s : pstate) : res (list (string * ptype)) :=
  do _ , s1 <- consume_opening s ;;
  do c , s2 <- next_tok s1 ;; named_loop (fuel_of s2) c [] s2.

Definition carg_of_ptype (p : ptype) : carg :=
  match p with PTy t => AType t | PPartial => APartial | PParam n => AList [AStr n] end.

(* get_logic_by_name: case-insensitive search in LOGICS *)
Definition find_logic (name : string) : option logic :=
  find (fun l => String.eqb (lower (lname l)) (lower name)) LOGICS.

(* TypeManager.Type(name, arity) *)
Definition declare_type (n : string) (ar : Z) (s : pstate) : res item :=
  match alookup n (sorts s) with
  | Some a => if (a =? ar)%Z then ROk (if (ar =? 0)%Z then IType (TUser n []) else ITypeDecl n ar) s
              else RErr ESyntax s            (* PysmtValueError caught as ValueError in _cmd_declare_sort *)
  | None => ROk (if (ar =? 0)%Z then IType (TUser n []) else ITypeDecl n ar)
                (set_sorts s (sorts s ++ [(n, ar)]))
  end.

Fixpoint fresh_params (l : list (string * ptype)) (acc : list var) (s : pstate) : res (list var) :=
  match l with
  | [] => ROk acc s
  | (x, p) :: r =>
      match p with
      | PTy t => do v , s1 <- fresh_symbol ("__" ++ x)%string t s ;;
                 let var := match v with T (OSymbol n ty) _ => (n, ty) | _ => (x, t) end in
                 fresh_params r (acc ++ [var]) (cache_bind x (ITerm v) s1)
      | _ => RErr EValue s
      end
  end.

Definition simple_cmd (name : string) (mn mx : nat) (s : pstate) : res cmd :=
  do l , s1 <- parse_atoms mn mx s ;; ROk (mkC name (map AStr l)) s1.
Definition level_cmd (name : string) (s : pstate) : res cmd :=
  do l , s1 <- parse_atoms 0 1 s ;;
  match l with
  | [] => ROk (mkC name [AInt 1]) s1
  | x :: _ => match py_int x with Some z => ROk (mkC name [AInt z]) s1 | None => RErr EOther s1 end
  end.
Definition noarg_cmd (name : string) (s : pstate) : res cmd :=
  do _ , s1 <- parse_atoms 0 0 s ;; ROk (mkC name []) s1.

(* a StopIteration that escapes a command reader leaves the generator get_command as RuntimeError *)
Definition no_stop {A} (r : res A) : res A := match r with RErr EStop s => RErr EOther s | _ => r end.

Definition run_command (name : string) (s : pstate) : res cmd :=
  no_stop (
  if String.eqb name "assert" then
    do e , s1 <- get_expression s ;;
    do _ , s2 <- consume_closing s1 ;; ROk (mkC name [carg_of_opt e]) s2
  else if String.eqb name "check-sat" || String.eqb name "exit" || String.eqb name "get-assertions"
       || String.eqb name "get-model" || String.eqb name "get-proof" || String.eqb name "get-unsat-core"
       || String.eqb name "get-assignment" || String.eqb name "get-unsat-assumptions"
       || String.eqb name "reset" || String.eqb name "reset-assertions" then noarg_cmd name s
  else if String.eqb name "set-info" || String.eqb name "set-option" then simple_cmd name 2 2 s
  else if String.eqb name "get-info" || String.eqb name "get-option" || String.eqb name "echo" then simple_cmd name 1 1 s
  else if String.eqb name "push" || String.eqb name "pop" then level_cmd name s
  else if String.eqb name "set-logic" then
    do l , s1 <- parse_atoms 1 1 s ;;
    match l with
    | [n] => match find_logic n with
             | Some lg => ROk (mkC name [ALogic (Some (lname lg))])
                              (set_logic s1 (Some (integer_arithmetic (ltheory lg))))
             | None => ROk (mkC name [ANone]) s1
             end
    | _ => RErr EOther s1
    end
  else if String.eqb name "declare-const" then
    do v , s1 <- parse_atom s ;;
    do p , s2 <- parse_ty (fuel_of s1) s1 ;;
    do _ , s3 <- consume_closing s2 ;;
    match p with
    | PTy t => do sym , s4 <- mk_symbol v t s3 ;; ROk (mkC name [ATerm sym]) (cache_bind v (ITerm sym) s4)
    | _ => RErr EValue s3
    end
  else if String.eqb name "declare-fun" then
    do v , s1 <- parse_atom s ;;
    do ps , s2 <- parse_params s1 ;;
    do p , s3 <- parse_ty (fuel_of s2) s2 ;;
    do _ , s4 <- consume_closing s3 ;;
    match ps, p with
    | [], PTy t => do sym , s5 <- mk_symbol v t s4 ;; ROk (mkC name [ATerm sym]) (cache_bind v (ITerm sym) s5)
    | [], _ => RErr EValue s4
    | _, _ =>
        match all_tys ps, p with
        | Some pts, PTy t =>
            let fty := TFun pts t in
            do sym , s5 <- mk_symbol v fty s4 ;; ROk (mkC name [ATerm sym]) (cache_bind v (IFunc v fty) s5)
        | _, _ => RErr EValue s4
        end
    end
  else if String.eqb name "declare-sort" then
    do l , s1 <- parse_atoms 2 2 s ;;
    match l with
    | [n; a] => match py_int a with
                | Some ar => do ty , s2 <- declare_type n ar s1 ;;
                             ROk (mkC name [carg_of_item ty]) (cache_bind n ty s2)
                | None => RErr ESyntax s1
                end
    | _ => RErr EOther s1
    end
  else if String.eqb name "define-fun" then
    do v , s1 <- parse_atom s ;;
    do nps , s2 <- parse_named_params s1 ;;
    do rt , s3 <- parse_ty (fuel_of s2) s2 ;;
    do formal , s4 <- fresh_params nps [] s3 ;;
    do body , s5 <- not_none (get_expression s4) ;;
    match body with
    | ITerm b =>
        match tc b with
        | None => RErr EOther s5
        | Some bt =>
            let closed := match fv b with [] => true | _ => false end in
            match rt with
            | PTy r =>
                do b' , s6 <- (if ty_eqb bt TInt && ty_eqb r TReal && closed
                               then lift (chko (mk_toreal b) EType) s5
                               else if ty_eqb bt r then ROk b s5 else RErr ESyntax s5) ;;
                do _ , s7 <- unbind_all (map fst nps) s6 ;;
                do _ , s8 <- consume_closing s7 ;;
                ROk (mkC name [AStr v; AList (map (fun x => ATerm (TSym (fst x) (snd x))) formal); AType r; ATerm b'])
                    (cache_define v formal (ITerm b') s8)
            | _ => if ty_eqb bt TInt then RErr EOther s5 else RErr ESyntax s5
            end
        end
    | _ => RErr EOther s5
    end
  else if String.eqb name "define-sort" then
    do n , s1 <- parse_atom s ;;
    do _ , s2 <- consume_opening s1 ;;
    (fix tparams (k : nat) (acc : list string) (st : pstate) {struct k} : res cmd :=
       match k with
       | O => RErr EUnmodelled st
       | S k' =>
           do c , st1 <- next_tok st ;;
           if String.eqb c ")" then
             do p , st2 <- parse_type (fuel_of st1) acc None st1 ;;
             let p' := match p with PParam _ => PPartial | _ => p end in
             do _ , st3 <- consume_closing st2 ;;
             let it := match p' with PTy t => IType t | _ => IPartial end in
             ROk (mkC name [AStr n; AList []; carg_of_ptype p'])
                 (cache_define n [] it st3)
           else tparams k' (acc ++ [c]) st1
       end) (fuel_of s2) [] s2
  else if String.eqb name "get-value" || String.eqb name "check-sat-assuming" then
    do l , s1 <- parse_expr_list s ;;
    do _ , s2 <- consume_closing s1 ;; ROk (mkC name l) s2
  else if String.eqb name "define-fun-rec" || String.eqb name "define-funs-rec" then RErr ENotImpl s
  else if String.eqb name "assert-soft" || String.eqb name "check-allsat" || String.eqb name "get-objectives"
       || String.eqb name "maximize" || String.eqb name "minimize" || String.eqb name "minmax"
       || String.eqb name "maxmin" || String.eqb name "load-objective-model" then RErr EUnmodelled s
  else RErr EUnknownCmd s).

(* get_command: one command per "(" at top level, until the stream ends *)
Fixpoint commands (fuel : nat) (acc : list cmd) (s : pstate) : res (list cmd) :=
  match fuel with
  | O => RErr EUnmodelled s
  | S f =>
      match consume_opening s with
      | RErr EStop s1 => ROk acc s1
      | RErr e s1 => RErr e s1
      | ROk _ s1 =>
          do name , s2 <- next_tok s1 ;;
          do c , s3 <- run_command name s2 ;;
          commands f (acc ++ [c]) s3
      end
  end.

(* _reset: a new cache with true/false bound; a fresh Environment *)
Definition init_state (tk : list string * lex_end) : pstate :=
  mkS (fst tk) (snd tk) [("false", [ITerm TFalse]); ("true", [ITerm TTrue])] [] None [] 0%Z [] (map (fun _ => None) (fst tk)).

(* SmtLibParser(Environment()).get_script(text) as the list of commands, or the exception *)
Definition parse_tokens (tk : list string * lex_end) : er (list cmd) :=
  match commands (S (List.length (fst tk))) [] (init_state tk) with
  | ROk l _ => Ok l
  | RErr e _ => Er e
  end.
Definition parse_model (text : string) : er (list cmd) := parse_tokens (lex_string text).
(* the same with the source kept next to the tokens (exact for parenthesised annotation values) *)
Definition parse_chars (cs : list ascii) : er (list cmd) :=
  let tk := lex_src cs in
  match (let s0 := set_toks_src (init_state ([], snd tk)) (fst tk) (snd tk) in commands (S (fuel_of s0 + List.length cs)) [] s0) with
  | ROk l _ => Ok l
  | RErr e _ => Er e
  end.

(* get_expression on a term text in a state where [decls] were declared (for the round trip) *)
Definition parse_term_in (s : pstate) (text : string) : er item :=
  let tk := lex_string text in
  match get_expression (set_toks s (fst tk) (snd tk)) with
  | ROk (Some i) _ => Ok i
  | ROk None _ => Er EStop
  | RErr e _ => Er e
  end.

(* ================================================================ comparison (used by the harness)
   terms: exact (the variables of a quantifier in textual order); errors: by class, the crash
   classes identified. *)
Fixpoint term_qeqb (a b : term) {struct a} : bool :=
  match a, b with
  | T o1 l1, T o2 l2 =>
      op_eqb o1 o2 &&
      (fix go (l1 l2 : list term) {struct l1} : bool :=
         match l1, l2 with
         | [], [] => true
         | x :: r1, y :: r2 => term_qeqb x y && go r1 r2
         | _, _ => false
         end) l1 l2
  end.
Definition opt_str_eqb (a b : option string) : bool :=
  match a, b with Some x, Some y => String.eqb x y | None, None => true | _, _ => false end.
Fixpoint carg_eqb (a b : carg) {struct a} : bool :=
  match a, b with
  | ATerm x, ATerm y => term_qeqb x y
  | AStr x, AStr y => String.eqb x y
  | AInt x, AInt y => Z.eqb x y
  | AType x, AType y => ty_eqb x y
  | ADecl n1 a1, ADecl n2 a2 => String.eqb n1 n2 && Z.eqb a1 a2
  | APartial, APartial | ANone, ANone | ACallable, ACallable => true
  | ALogic x, ALogic y => opt_str_eqb x y
  | AList l1, AList l2 =>
      (fix go (l1 l2 : list carg) {struct l1} : bool :=
         match l1, l2 with
         | [], [] => true
         | x :: r1, y :: r2 => carg_eqb x y && go r1 r2
         | _, _ => false
         end) l1 l2
  | _, _ => false
  end.
Definition cmd_eqb (a b : cmd) : bool :=
  String.eqb (cname a) (cname b) && list_eqb carg_eqb (cargs a) (cargs b).
Definition err_class (e : err) : nat :=
  match e with
  | ESyntax => 0 | ENotImpl => 1 | EUnknownCmd => 2
  | EType | EValue | EOther | EStop => 3
  | EUnmodelled => 4
  end%nat.
Definition result_eqb (a b : er (list cmd)) : bool :=
  match a, b with
  | Ok x, Ok y => list_eqb cmd_eqb x y
  | Er x, Er y => Nat.eqb (err_class x) (err_class y)
  | _, _ => false
  end.
Definition is_unmodelled (a : er (list cmd)) : bool :=
  match a with Er EUnmodelled => true | _ => false end.
(* both reject, whatever the class *)
Definition accept_eqb (a b : er (list cmd)) : bool :=
  match a, b with Ok x, Ok y => list_eqb cmd_eqb x y | Er _, Er _ => true | _, _ => false end.
