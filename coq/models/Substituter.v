(* Hand model (H) of pysmt/substituter.py (Substituter, MGSubstituter, MSSubstituter,
   FunctionInterpretation) on top of pysmt/walkers/identitydag.py, quirks included.

   The implementation is a memoised DAG walk (walkers/dag.py) whose callback is a function of
   the node and of the results of its children; core/DagWalk.v + proofs/DagWalk_proofs.v
   (walk_refines) license modelling it as the structural recursion below; the memo is one-shot
   (cleared after each top-level walk) and every quantifier body is walked by a FRESH walker
   (substituter.py:153), so no result is shared between different substitution maps.

   [None] = the call raises (a FormulaManager constructor raises, or the type check that
   create_node runs on every node it returns fails).

   Facts about the code that the definitions mirror:
   * every node that is not replaced is REBUILT through the FormulaManager constructor of its
     operator (identitydag.py: walk_X calls mgr.X(args)), hence normalised: see [rebuild];
   * children are always walked first (post-order stack), also when the node itself is a key;
   * MGS (default): after the children, the ORIGINAL node is looked up in the map; only when it
     is not a key the node is rebuilt (substituter.py:265-275, 277-293);
   * MSS: the node is rebuilt from the substituted children and the REBUILT node is looked up
     (substituter.py:321-338);
   * a quantifier is not expanded by the walker: the keys one of whose free variables
     (FreeVarsOracle: function names count) is a bound variable are dropped, the body is
     substituted by a fresh walker of the same class with the reduced map and the same
     interpretations, and then walk_forall/walk_exists runs with the FULL map
     (substituter.py:134-167);
   * an application of an interpreted function symbol is replaced by the body of the
     interpretation in which the formal parameters are replaced by the (already substituted)
     actual parameters, using a new substituter of the class of env.substituter - the
     environment's default, MGSubstituter - whatever the class of the running substituter, with
     no interpretations (substituter.py:80-90, 246-254); dict(zip(formals, actuals)) keeps the
     LAST actual for a repeated formal. *)
From Coq Require Import List ZArith Bool String.
From PySMT.core Require Import Syntax PyPrims.
From PySMT.models Require Import TypeChecker Oracles Ctors.
Import ListNotations.
Open Scope bool_scope.

(* substitution map: a Python dict FNode -> FNode; [lookup] returns the first match, the
   harness passes keys that are pairwise distinct *)
Definition smap := list (term * term).
Definition lookup (s : smap) (t : term) : option term := assoc_get t s.

(* FunctionInterpretation(formal_params, function_body) *)
Record finterp := { fi_params : list var; fi_body : term }.
(* interpretations: function symbol (name, function type) -> FunctionInterpretation *)
Definition imap := list (var * finterp).
Fixpoint ilookup (p : imap) (f : var) : option finterp :=
  match p with
  | [] => None
  | (g, i) :: r => if var_eqb f g then Some i else ilookup r f
  end.

Definition omap {A B} (f : A -> option B) : list A -> option (list B) :=
  fix go (l : list A) : option (list B) :=
    match l with
    | [] => Some []
    | x :: r => match f x, go r with
                | Some y, Some ys => Some (y :: ys)
                | _, _ => None
                end
    end.

(* ---------------------------------------------------------------- rebuilding a node
   IdentityDagWalker.walk_<op>(formula, args) = mgr.<Ctor>(args, payload of formula).
   A wrong number of children (impossible for a node of the manager) is an IndexError. *)
Definition is_bvun (k : bvop) : bool := match k with BNot | BNeg => true | _ => false end.

Definition str_arity (k : strop) : nat :=
  match k with
  | SLength | SToInt | SFromInt => 1
  | SContains | SPrefixOf | SSuffixOf | SCharAt | SConcat => 2
  | SIndexOf | SReplace | SSubstr => 3
  end.

Definition rebuild (o : op) (args : list term) : option term :=
  match o, args with
  | OAnd, _ => Some (mk_and args)
  | OOr, _ => Some (mk_or args)
  | ONot, [a] => Some (mk_not a)
  | OImplies, [a; b] => Some (mk_implies a b)
  | OIff, [a; b] => Some (mk_iff a b)
  | OSymbol n ty, [] => Some (TSym n ty)
  | ORealC n d, [] => Some (mk_real (n, d))
  | OBoolC b, [] => Some (mk_bool b)
  | OIntC z, [] => Some (mk_int z)
  | OStrC s, [] => Some (mk_string s)
  | OBVC v w, [] => mk_bv v w
  | OPlus, _ => mk_plus args
  | OTimes, _ => mk_times args
  | OMinus, [a; b] => Some (mk_minus a b)
  | OLe, [a; b] => Some (mk_le a b)
  | OLt, [a; b] => Some (mk_lt a b)
  | OEquals, [a; b] => Some (mk_equals a b)
  | OIte, [c; a; b] => Some (mk_ite c a b)
  | OToReal, [a] => mk_toreal a
  | OBV BConcat _, [a; b] => Some (mk_bvconcat a b)
  | OBV BComp _, [a; b] => Some (mk_bvcomp a b)
  | OBV k _, [a] => if is_bvun k then Some (mk_bvun k a) else None
  | OBV k _, [a; b] => if is_bvun k then None else Some (mk_bvop k a b)
  | OBVRel k, [a; b] => Some (mk_bvrel k a b)
  | OBVExtract _ s e, [a] => mk_bvextract a s (Some e)
  | OBVRol _ k, [a] => Some (mk_bvrol a k)
  | OBVRor _ k, [a] => Some (mk_bvror a k)
  | OBVZext _ k, [a] => Some (mk_bvzext a k)
  | OBVSext _ k, [a] => Some (mk_bvsext a k)
  | OStr SConcat, _ => mk_strconcat args
  | OStr k, _ => if Nat.eqb (List.length args) (str_arity k) then Some (mk_strop k args) else None
  | OSelect, [a; i] => Some (mk_select a i)
  | OStore, [a; i; v] => Some (mk_store a i v)
  (* walk_array_value: assign = dict(zip(args[1::2], args[2::2])); mgr.Array(idx_type, args[0], assign) *)
  | OArrayValue it, d :: rest => mk_array it d (dict_of_pairs (pairs_of rest))
  | ODiv, [a; b] => mk_div a b
  | OPow, [a; b] => mk_pow a b
  | OBVToNat, [a] => Some (T OBVToNat [a])
  | OFunction n fty, _ => mk_function n fty args
  | _, _ => None
  end.

(* create_node type-checks the node it returns (formula.py:95-106) *)
Definition checked (r : option term) : option term :=
  match r with
  | Some t => match tc t with Some _ => Some t | None => None end
  | None => None
  end.

(* ---------------------------------------------------------------- quantifiers *)
(* substituter.py:143-149: keep k iff no free variable of k is a quantified variable *)
Definition key_survives (vs : list var) (k : term) : bool :=
  forallb (fun m => negb (mem var_eqb m vs)) (fv k).
Definition drop_bound (vs : list var) (s : smap) : smap :=
  filter (fun kv => key_survives vs (fst kv)) s.

Definition is_quant (o : op) : option (bool * list var) :=
  match o with OForall vs => Some (true, vs) | OExists vs => Some (false, vs) | _ => None end.
Definition mk_quant (fa : bool) (vs : list var) (b : term) : term :=
  if fa then mk_forall vs b else mk_exists vs b.

(* ---------------------------------------------------------------- function interpretations *)
(* dict(zip(formal_params, actual_params)) as an association list for [lookup]: the last
   actual wins for a repeated formal parameter, hence the reversal *)
Definition bind_params (ps : list var) (actuals : list term) : smap :=
  rev (combine (map (fun v => TSym (fst v) (snd v)) ps) actuals).

Section Walk.
  (* interpret(env, actual_params) is parameterised by the substitution function of the
     environment's default substituter class *)
  Variable default_subst : smap -> term -> option term.

  Definition interpret (fi : finterp) (actuals : list term) : option term :=
    if Nat.eqb (List.length actuals) (List.length (fi_params fi))
    then default_subst (bind_params (fi_params fi) actuals) (fi_body fi)
    else None.

  (* Substituter.walk_function / IdentityDagWalker.walk_<op> *)
  Definition rebuild_fn (p : imap) (o : op) (args : list term) : option term :=
    match o with
    | OFunction n fty =>
        match ilookup p (n, fty) with
        | Some fi => interpret fi args
        | None => checked (rebuild o args)
        end
    | _ => checked (rebuild o args)
    end.
End Walk.

(* MGSubstituter without interpretations (what interpret() runs on the body) *)
Fixpoint mgs0 (s : smap) (t : term) {struct t} : option term :=
  match t with
  | T o args =>
      match is_quant o with
      | Some (fa, vs) =>
          match args with
          | [b] =>
              match mgs0 (drop_bound vs s) b with
              | Some b' =>
                  match lookup s t with
                  | Some r => Some r
                  | None => checked (Some (mk_quant fa vs b'))
                  end
              | None => None
              end
          | _ => None
          end
      | None =>
          match omap (mgs0 s) args with
          | Some args' =>
              match lookup s t with
              | Some r => Some r
              | None => checked (rebuild o args')
              end
          | None => None
          end
      end
  end.

(* MGSubstituter(env).substitute(t, subs = s, interpretations = p) *)
Fixpoint subst_mgs_i (p : imap) (s : smap) (t : term) {struct t} : option term :=
  match t with
  | T o args =>
      match is_quant o with
      | Some (fa, vs) =>
          match args with
          | [b] =>
              match subst_mgs_i p (drop_bound vs s) b with
              | Some b' =>
                  match lookup s t with
                  | Some r => Some r
                  | None => checked (Some (mk_quant fa vs b'))
                  end
              | None => None
              end
          | _ => None
          end
      | None =>
          match omap (subst_mgs_i p s) args with
          | Some args' =>
              match lookup s t with
              | Some r => Some r
              | None => rebuild_fn mgs0 p o args'
              end
          | None => None
          end
      end
  end.

(* MSSubstituter(env).substitute(t, subs = s, interpretations = p) *)
Definition replace_after (s : smap) (r : option term) : option term :=
  match r with
  | Some t => Some (match lookup s t with Some v => v | None => t end)
  | None => None
  end.

Fixpoint subst_mss_i (p : imap) (s : smap) (t : term) {struct t} : option term :=
  match t with
  | T o args =>
      match is_quant o with
      | Some (fa, vs) =>
          match args with
          | [b] =>
              match subst_mss_i p (drop_bound vs s) b with
              | Some b' => replace_after s (checked (Some (mk_quant fa vs b')))
              | None => None
              end
          | _ => None
          end
      | None =>
          match omap (subst_mss_i p s) args with
          | Some args' => replace_after s (rebuild_fn mgs0 p o args')
          | None => None
          end
      end
  end.

Definition subst_mgs (s : smap) (t : term) : option term := subst_mgs_i [] s t.
Definition subst_mss (s : smap) (t : term) : option term := subst_mss_i [] s t.
(* substitute(t, interpretations = p) of the default substituter *)
Definition subst_interp (p : imap) (t : term) : option term := subst_mgs_i p [] t.

(* ---------------------------------------------------------------- what substitute() checks
   first (substituter.py:199-240): formula, keys and values are terms (not function-typed
   symbols); interpretation keys are function symbols *)
Definition is_term (t : term) : bool :=
  match t with T (OSymbol _ (TFun _ _)) _ => false | _ => true end.
Definition args_ok (s : smap) (t : term) : bool :=
  is_term t && forallb (fun kv => is_term (fst kv) && is_term (snd kv)) s.
Definition iargs_ok (p : imap) : bool :=
  forallb (fun fi => match snd (fst fi) with TFun _ _ => true | _ => false end) p.

Definition substitute_mgs (p : imap) (s : smap) (t : term) : option term :=
  if args_ok s t && iargs_ok p then subst_mgs_i p s t else None.
Definition substitute_mss (p : imap) (s : smap) (t : term) : option term :=
  if args_ok s t && iargs_ok p then subst_mss_i p s t else None.

(* "t is a node of the manager": every node is what its constructor returns (the identity
   walker is the identity on it).  The harness checks it on every generated input. *)
Fixpoint canon (t : term) : bool :=
  match t with
  | T o args =>
      (fix all (l : list term) : bool := match l with [] => true | x :: r => canon x && all r end) args
      && match is_quant o with
         | Some (fa, vs) => match args with
                            | [b] => match checked (Some (mk_quant fa vs b)) with
                                     | Some t' => term_eqb t' t | None => false end
                            | _ => false
                            end
         | None => match checked (rebuild o args) with Some t' => term_eqb t' t | None => false end
         end
  end.
