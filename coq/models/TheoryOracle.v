(* Hand model (H) of pysmt.oracles.TheoryOracle over the Theory operations generated from
   logics.py (gen/Logics.v), and of get_logic's detected (theory, qf) pair. *)
From Coq Require Import List ZArith Bool String.
From PySMT.core Require Import Syntax.
From PySMT.gen Require Import Logics.
From PySMT.models Require Import Oracles.
Import ListNotations.
Open Scope bool_scope.

(* Theory() : every flag off, linear on *)
Definition th0 : theory := mkT false false false false false false false false true false false false.
Definition th_real : theory := mkT false false false false false true false true true false false false.
Definition th_int : theory := mkT false false false false true false true false true false false false.
Definition th_bv : theory := mkT false false true false false false false false true false false false.
Definition th_str : theory := mkT false false false false false false false false true false false true.
Definition th_custom : theory := mkT false false false false false false false false true false true false.
Definition th_uf : theory := mkT false false false false false false false false true true false false.
Definition th_arrays : theory := mkT true false false false false false false false true false false false.

Definition set_int (t : theory) : theory :=   (* .integer_arithmetic = True; .integer_difference = True *)
  mkT (arrays t) (arrays_const t) (bit_vectors t) (floating_point t) true (real_arithmetic t)
      true (real_difference t) (linear t) (uninterpreted t) (custom_type t) (strings t).
Definition set_uf (t : theory) : theory :=
  mkT (arrays t) (arrays_const t) (bit_vectors t) (floating_point t) (integer_arithmetic t) (real_arithmetic t)
      (integer_difference t) (real_difference t) (linear t) true (custom_type t) (strings t).
Definition set_arr_const (t : theory) : theory :=   (* .arrays = True; .arrays_const = True *)
  mkT true true (bit_vectors t) (floating_point t) (integer_arithmetic t) (real_arithmetic t)
      (integer_difference t) (real_difference t) (linear t) (uninterpreted t) (custom_type t) (strings t).

Fixpoint theory_from_type (t : ty) : theory :=
  match t with
  | TReal => th_real
  | TInt => th_int
  | TBool => th0
  | TBV _ => th_bv
  | TArr i e => t_combine (t_combine th_arrays (theory_from_type i)) (theory_from_type e)
  | TStr => th_str
  | TUser _ _ => th_custom
  | TFun _ _ => th_uf
  end.

(* theory_out = args[0]; for t in args[1:]: theory_out = theory_out.combine(t) *)
Definition fold_combine (args : list theory) : option theory :=
  match args with
  | [] => None                     (* args[0] raises IndexError *)
  | a :: r => Some (fold_left t_combine r a)
  end.
(* walk_combine: a single argument is copied *)
Definition walk_combine (args : list theory) : option theory :=
  match args with
  | [a] => Some (t_copy a)
  | _ => fold_combine args
  end.

Definition has_fv (t : term) : bool := match fv t with [] => false | _ => true end.
Definition is_zero (t : term) : bool :=
  match t with
  | T (OIntC z) _ => Z.eqb z 0
  | T (ORealC n _) _ => Z.eqb n 0
  | _ => false
  end.

Definition omap {A B} (f : A -> B) (o : option A) : option B :=
  match o with Some a => Some (f a) | None => None end.

Definition theory_rule (o : op) (targs : list term) (args : list theory) : option theory :=
  match o with
  (* leaves have no children (FNode invariant): the walk_* methods never look at args there *)
  | ORealC _ _ => match args with [] => Some th_real | _ => None end
  | OIntC _ => match args with [] => Some th_int | _ => None end
  | OBVC _ _ => match args with [] => Some th_bv | _ => None end
  | OStrC _ => match args with [] => Some th_str | _ => None end
  | OBoolC _ => match args with [] => Some th0 | _ => None end
  | OSymbol _ ty => match args with [] => Some (theory_from_type ty) | _ => None end
  | OFunction _ fty =>
      let base := match args with
                  | [] => th0
                  | [a] => t_copy a
                  | a :: r => fold_left t_combine r a
                  end in
      match fty with
      | TFun _ r => Some (set_uf (t_combine base (theory_from_type r)))
      | _ => None
      end
  | OToReal => match args with [a] => Some (t_set_lira a true) | _ => None end   (* unary *)
  | OStr SLength | OStr SIndexOf | OStr SToInt => omap set_int (walk_combine args)
  | OStr SFromInt => match args with [a] => Some (t_set_strings a true) | _ => None end
  | OForall vs | OExists vs =>
      match args with
      | [a] => Some (fold_left (fun th v => t_combine th (theory_from_type (snd v))) vs (t_copy a))
      | _ => None
      end
  | OBVToNat => match args with [a] => Some (set_int (t_copy a)) | _ => None end
  | OTimes =>
      omap (fun th =>
              let th := if Nat.ltb 1 (List.length (filter has_fv targs)) then t_set_linear th false else th in
              t_set_difference_logic th false) (fold_combine args)
  | OPow => match args with [a; _] => Some (t_set_linear a false) | _ => None end   (* base, constant exponent *)
  | OPlus => omap (fun th => t_set_difference_logic th false) (fold_combine args)
  | OArrayValue it =>
      omap (fun th => set_arr_const (t_combine th (theory_from_type it))) (walk_combine args)
  | ODiv =>
      match args, targs with
      | [a; b], [l; r] =>
          let th := t_combine a b in
          if has_fv r then Some (t_set_linear th false)
          else if is_zero r then Some (t_set_linear th false)
          else Some (t_combine th b)
      | _, _ => None
      end
  | _ => walk_combine args     (* relations, Boolean operators, BV and string operators, ITE, select, store, minus *)
  end.

Fixpoint theory_of (t : term) : option theory :=
  match t with
  | T o args =>
      match all_some (map theory_of args) with
      | Some ths => theory_rule o args ths
      | None => None
      end
  end.

(* the pair handed to get_closer_pysmt_logic by get_logic *)
Definition detected (t : term) : option (bool * theory) :=
  match theory_of t with Some th => Some (is_qf t, th) | None => None end.

(* 12-bit code of a theory, in field order (used by the correspondence case files) *)
Definition th_dec (n : N) : theory :=
  mkT (N.testbit n 0) (N.testbit n 1) (N.testbit n 2) (N.testbit n 3) (N.testbit n 4) (N.testbit n 5)
      (N.testbit n 6) (N.testbit n 7) (N.testbit n 8) (N.testbit n 9) (N.testbit n 10) (N.testbit n 11).
