(* Hand model (H) of pysmt.rewritings.propagate_toplevel with do_simplify=False,
   preserve_equivalence=True (rewritings.py 939-1115), DisjointSet included.

   - The top-level conjuncts are taken in the yield order of conjunctive_partition
     (models/Partition.v).  A conjunct  l = r  with both sides a symbol or a constant (array
     values skipped) is recorded: relevant += {l, r}; disjoint_set.add(l, r).
   - DisjointSet keeps leader : member -> leader (and the groups, which are always
     {k | leader[k] = l}; the model recomputes them from [leader]).  Ranking uses
     compare(a, b): 0 on the same node, difference of the values for two constants
     (str - str raises TypeError: [None]), constants before symbols, otherwise the difference of
     the NODE IDS.  Node ids are not part of a term: the model takes the list [order] of the
     equalities' arguments sorted by node id (supplied by the harness; any total order in the
     theorems).  Quirk kept: when only one of the two has a leader the other simply joins that
     group, without ranking, so a constant can end up with a symbol as its leader and is then
     itself substituted.
   - sigma[k] = leader[k] for every relevant k that is not its own leader; two different
     constants in one group -> the result is FALSE.
   - res = And(formula.substitute(sigma), And([Equals(k, sigma[k]) for k in sigma])).
   The substitution is the MGSubstituter with symbol AND constant keys ([tsubst]: a node that is
   a key is replaced; quantifiers drop the keys one of whose free variables they bind, and bound
   variables are never renamed - hence the open finding proptop:substitution-under-binder).
   Not modelled: do_simplify=True (the simplifier is C01's subject). *)
From Coq Require Import List ZArith Bool String.
From PySMT.core Require Import Syntax.
From PySMT.models Require Import Oracles C10Local Partition.
Import ListNotations.
Open Scope bool_scope.

Definition is_symbol (t : term) : bool := match t with T (OSymbol _ _) _ => true | _ => false end.
Definition is_array_value (t : term) : bool := match t with T (OArrayValue _) _ => true | _ => false end.

Fixpoint index_of_term (t : term) (l : list term) (i : Z) : Z :=
  match l with [] => i | x :: r => if term_eqb x t then i else index_of_term t r (i + 1)%Z end.

(* compare(a, b) > 0 ; None = TypeError *)
Definition cmp_gt (order : list term) (a b : term) : option bool :=
  if term_eqb a b then Some false
  else match a, b with
       | T (OIntC x) _, T (OIntC y) _ => Some (0 <? x - y)%Z
       | T (OBVC x _) _, T (OBVC y _) _ => Some (0 <? x - y)%Z
       | T (ORealC n1 d1) _, T (ORealC n2 d2) _ => Some (0 <? n1 * d2 - n2 * d1)%Z
       | T (OBoolC x) _, T (OBoolC y) _ => Some (andb x (negb y))
       | _, _ =>
           if is_const a && is_const b then None
           else if is_const a then Some false
           else if is_const b then Some true
           else Some (0 <? index_of_term a order 0 - index_of_term b order 0)%Z
       end.

Definition lmap := list (term * term).          (* member -> leader *)
Fixpoint lfind (m : lmap) (k : term) : option term :=
  match m with [] => None | (x, l) :: r => if term_eqb x k then Some l else lfind r k end.
Definition lset (m : lmap) (k l : term) : lmap :=
  if match lfind m k with Some _ => true | None => false end
  then map (fun p => if term_eqb (fst p) k then (fst p, l) else p) m
  else m ++ [(k, l)].

Definition ds_add (order : list term) (m : lmap) (a b : term) : option lmap :=
  match lfind m a, lfind m b with
  | Some la, Some lb =>
      if term_eqb la lb then Some m
      else match cmp_gt order la lb with
           | None => None
           | Some sw =>
               let la' := if sw then lb else la in
               let lb' := if sw then la else lb in
               Some (map (fun p => if term_eqb (snd p) lb' then (fst p, la') else p) m)
           end
  | Some la, None => Some (lset m b la)
  | None, Some lb => Some (lset m a lb)
  | None, None =>
      match cmp_gt order a b with
      | None => None
      | Some sw => let a' := if sw then b else a in let b' := if sw then a else b in
                   Some (lset (lset m a' a') b' a')
      end
  end.

Definition sym_or_const (t : term) : bool := is_symbol t || is_const t.
Definition is_def (c : term) : option (term * term) :=
  match c with
  | T OEquals [l; r] =>
      if is_array_value l || is_array_value r then None
      else if sym_or_const l && sym_or_const r then Some (l, r) else None
  | _ => None
  end.

(* the first loop: (relevant in insertion order, leader map) *)
Fixpoint scan (order : list term) (cs : list term) (rel : list term) (m : lmap) : option (list term * lmap) :=
  match cs with
  | [] => Some (rel, m)
  | c :: rest =>
      match is_def c with
      | Some (l, r) =>
          match ds_add order m l r with
          | Some m' => scan order rest (add term_eqb r (add term_eqb l rel)) m'
          | None => None
          end
      | None => scan order rest rel m
      end
  end.

Inductive sigma_res := SConflict | SMap (s : list (term * term)).
Fixpoint build_sigma (rel : list term) (m : lmap) (acc : list (term * term)) : sigma_res :=
  match rel with
  | [] => SMap acc
  | k :: rest =>
      match lfind m k with
      | Some v => if term_eqb k v then build_sigma rest m acc
                  else if is_const k && is_const v then SConflict
                  else build_sigma rest m (acc ++ [(k, v)])
      | None => build_sigma rest m acc
      end
  end.

(* MGSubstituter with term keys *)
Fixpoint tlookup (s : list (term * term)) (t : term) : option term :=
  match s with [] => None | (k, v) :: r => if term_eqb k t then Some v else tlookup r t end.
Definition tfilter (s : list (term * term)) (vs : list var) : list (term * term) :=
  filter (fun kv => forallb (fun x => negb (mem var_eqb x vs)) (fv (fst kv))) s.

Fixpoint tsubst (s : list (term * term)) (t : term) {struct t} : term :=
  match t with
  | T (OForall vs) [b] => mk_forall vs (tsubst (tfilter s vs) b)
  | T (OExists vs) [b] => mk_exists vs (tsubst (tfilter s vs) b)
  | T o args => match tlookup s t with Some v => v | None => rebuild o (map (tsubst s) args) end
  end.

Definition reassert (sigma : list (term * term)) : term :=
  mk_and (map (fun kv => T OEquals [fst kv; snd kv]) sigma).

(* None = the implementation raises (TypeError in compare) *)
Definition propagate_toplevel (order : list term) (t : term) : option term :=
  match scan order (conjunctive_partition t) [] [] with
  | None => None
  | Some (rel, m) =>
      match build_sigma rel m [] with
      | SConflict => Some TFalse
      | SMap sigma => Some (T OAnd [tsubst sigma t; reassert sigma])
      end
  end.

(* ---- the last step alone, for symbol-keyed maps (kept for the refutation witness) ---- *)
Definition reassert_v (sigma : list (var * term)) : term :=
  mk_and (map (fun kv => T OEquals [TSym (fst (fst kv)) (snd (fst kv)); snd kv]) sigma).
Definition propagate_with (sigma : list (var * term)) (t : term) : term :=
  T OAnd [vsubst sigma t; reassert_v sigma].
Definition licensed (sigma : list (var * term)) (t : term) : bool :=
  forallb (fun kv =>
             let k := TSym (fst (fst kv)) (snd (fst kv)) in
             mem term_eqb (T OEquals [k; snd kv]) (conjunctive_partition t) ||
             mem term_eqb (T OEquals [snd kv; k]) (conjunctive_partition t)) sigma.
