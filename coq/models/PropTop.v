(* PARTIAL hand model of pysmt.rewritings.propagate_toplevel (rewritings.py 1060-1115).

   Modelled: the LAST step of the function, given the map sigma that the union-find produced:
       res = formula.substitute(sigma);  res = And(res, And([Equals(k, sigma[k]) for k in sigma]))
   for maps whose keys are symbols (C10Local.vsubst), with do_simplify=False.
   NOT modelled: DisjointSet with ranking (the ranking compares node ids, which the term model
   does not have), constant keys, the early `return FALSE`, do_simplify=True.  The harness checks
   the whole function against the independent evaluator only (no Coq correspondence). *)
From Coq Require Import List ZArith Bool String.
From PySMT.core Require Import Syntax.
From PySMT.models Require Import Oracles C10Local Partition.
Import ListNotations.
Open Scope bool_scope.

Definition reassert (sigma : list (var * term)) : term :=
  mk_and (map (fun kv => T OEquals [TSym (fst (fst kv)) (snd (fst kv)); snd kv]) sigma).
Definition propagate_with (sigma : list (var * term)) (t : term) : term :=
  T OAnd [vsubst sigma t; reassert sigma].

(* sigma is licensed by the formula: every k -> v is (an orientation of) a top-level conjunct *)
Definition licensed (sigma : list (var * term)) (t : term) : bool :=
  forallb (fun kv =>
             let k := TSym (fst (fst kv)) (snd (fst kv)) in
             mem term_eqb (T OEquals [k; snd kv]) (conjunctive_partition t) ||
             mem term_eqb (T OEquals [snd kv; k]) (conjunctive_partition t)) sigma.
