(* Hand model (H) of the FNode predicates and the FormulaManager constructors the rewriters
   rebuild through (pysmt/fnode.py, pysmt/formula.py), quirks included.  [None] = the
   constructor raises.  The type check that [create_node] performs on every new node is NOT
   repeated here: the rewriter models apply [tc] to the node they return (see Simplifier.v).
   Tie: harness/c01.py compares Simplifier.v (which builds every result through these) with the
   implementation. *)
From Coq Require Import List ZArith Bool String.
From PySMT.core Require Import Syntax PyPrims.
From PySMT.models Require Import TypeChecker.
Import ListNotations.
Open Scope bool_scope.
Open Scope Z_scope.

(* ---------------------------------------------------------------- FNode predicates *)
(* FNode.is_constant(): the five constant node types, or an array value all of whose children
   (default, indexes, values) are constants *)
Fixpoint is_constant (t : term) : bool :=
  match t with
  | T o args =>
      match o with
      | OBoolC _ | OIntC _ | ORealC _ _ | OBVC _ _ | OStrC _ => true
      | OArrayValue _ =>
          (fix go (l : list term) : bool :=
             match l with [] => true | x :: r => is_constant x && go r end) args
      | _ => false
      end
  end.
Definition is_bool_constant (t : term) : bool := match top t with OBoolC _ => true | _ => false end.
Definition is_int_constant (t : term) : bool := match top t with OIntC _ => true | _ => false end.
Definition is_real_constant (t : term) : bool := match top t with ORealC _ _ => true | _ => false end.
Definition is_bv_constant (t : term) : bool := match top t with OBVC _ _ => true | _ => false end.
Definition is_string_constant (t : term) : bool := match top t with OStrC _ => true | _ => false end.
Definition is_array_value (t : term) : bool := match top t with OArrayValue _ => true | _ => false end.
Definition is_not (t : term) : bool := match top t with ONot => true | _ => false end.
Definition is_and (t : term) : bool := match top t with OAnd => true | _ => false end.
Definition is_or (t : term) : bool := match top t with OOr => true | _ => false end.
Definition is_plus (t : term) : bool := match top t with OPlus => true | _ => false end.
Definition is_minus (t : term) : bool := match top t with OMinus => true | _ => false end.
Definition is_times (t : term) : bool := match top t with OTimes => true | _ => false end.
(* is_zero / is_one: is_real_constant(v) or is_int_constant(v) *)
Definition is_zero (t : term) : bool :=
  match top t with OIntC z => z =? 0 | ORealC n _ => n =? 0 | _ => false end.
Definition is_one (t : term) : bool :=
  match top t with OIntC z => z =? 1 | ORealC n d => (n =? 1) && (d =? 1) | _ => false end.
Definition arg (t : term) (i : nat) : term := nth i (targs t) t.

(* the Python value of an Int / Real constant *)
Definition num_value (t : term) : option frac :=
  match top t with OIntC z => Some (z, 1) | ORealC n d => Some (n, d) | _ => None end.
Definition bv_value (t : term) : option Z := match top t with OBVC v _ => Some v | _ => None end.
Definition str_value (t : term) : option (list Z) := match top t with OStrC s => Some s | _ => None end.

(* FNode.bv_width(): structural; -1 where the code's assertion fails (not a BV term) *)
Fixpoint bv_width (t : term) : Z :=
  match t with
  | T o args =>
      match o with
      | OBVC _ w => w
      | OSymbol _ (TBV w) => w
      | OFunction _ (TFun _ (TBV w)) => w
      | OIte => match args with _ :: a :: _ => bv_width a | _ => -1 end
      | OSelect => match args with
                   | a :: _ => match tc a with Some (TArr _ (TBV w)) => w | _ => -1 end
                   | [] => -1
                   end
      | OBV _ w | OBVExtract w _ _ | OBVRol w _ | OBVRor w _ | OBVZext w _ | OBVSext w _ => w
      | _ => -1
      end
  end.

(* ---------------------------------------------------------------- constants *)
Definition mk_bool (b : bool) : term := TBoolC b.
Definition mk_int (z : Z) : term := TIntC z.
Definition mk_real (f : frac) : term := let (n, d) := fr_norm (fst f) (snd f) in TRealC n d.
Definition mk_string (s : list Z) : term := TStrC s.
(* BV(value:int, width): PysmtValueError for a negative value or one that needs more bits *)
Definition mk_bv (v w : Z) : option term :=
  if v <? 0 then None else if Z.pow 2 w <=? v then None else Some (TBVC v w).
(* BV(value:str, width=None|w): the width is the string's length, which must agree with w *)
Definition mk_bv_bits (bits : list bool) (w : option Z) : option term :=
  match int_of_bits bits with
  | None => None
  | Some v =>
      let sw := zlen bits in
      match w with
      | Some w' => if w' =? sw then mk_bv v sw else None
      | None => mk_bv v sw
      end
  end.
Definition mk_bvzero (w : Z) : option term := mk_bv 0 w.

(* ---------------------------------------------------------------- Boolean structure *)
Definition mk_and (l : list term) : term :=
  match l with [] => TTrue | [x] => x | _ => T OAnd l end.
Definition mk_or (l : list term) : term :=
  match l with [] => TFalse | [x] => x | _ => T OOr l end.
Definition mk_not (t : term) : term := if is_not t then arg t 0 else T ONot [t].
Definition mk_implies (a b : term) : term := T OImplies [a; b].
Definition mk_iff (a b : term) : term := T OIff [a; b].
Definition mk_equals (a b : term) : term := T OEquals [a; b].
Definition mk_ite (c a b : term) : term := T OIte [c; a; b].
Definition mk_le (a b : term) : term := T OLe [a; b].
Definition mk_lt (a b : term) : term := T OLt [a; b].
Definition mk_forall (vs : list var) (body : term) : term :=
  match vs with [] => body | _ => T (OForall vs) [body] end.
Definition mk_exists (vs : list var) (body : term) : term :=
  match vs with [] => body | _ => T (OExists vs) [body] end.
(* Function(vname, params): no params -> the symbol itself; arity mismatch -> PysmtValueError *)
Definition mk_function (n : string) (fty : ty) (params : list term) : option term :=
  match params with
  | [] => Some (TSym n fty)
  | _ => match fty with
         | TFun ps _ => if Nat.eqb (List.length ps) (List.length params) then Some (T (OFunction n fty) params) else None
         | _ => None
         end
  end.

(* ---------------------------------------------------------------- arithmetic *)
Definition mk_plus (l : list term) : option term :=
  match l with [] => None | [x] => Some x | _ => Some (T OPlus l) end.
Definition mk_times (l : list term) : option term :=
  match l with [] => None | [x] => Some x | _ => Some (T OTimes l) end.
Definition mk_minus (a b : term) : term := T OMinus [a; b].
(* Div: by the constant 0 (Int or Real) a plain node (enable_div_by_0 is on by default);
   by another Real constant c: Times(left, Real(1/c)); otherwise a plain node *)
Definition mk_div (a b : term) : option term :=
  if is_zero b then Some (T ODiv [a; b])
  else match top b with
       | ORealC n d => match fr_div (1, 1) (n, d) with
                       | Some inv => mk_times [a; mk_real inv]
                       | None => None
                       end
       | _ => Some (T ODiv [a; b])
       end.
(* the Python number of a constant as used by `base ** exponent` in Pow *)
Definition pow_operand (t : term) : option frac :=
  match top t with
  | OIntC z => Some (z, 1)
  | ORealC n d => Some (n, d)
  | OBVC v _ => Some (v, 1)
  | OBoolC b => Some ((if b then 1 else 0), 1)
  | _ => None
  end.
(* Pow(base, exponent): PysmtValueError unless the exponent is a constant; a constant base
   is folded to Real(base ** exponent).  Outside the model (None although Python returns a
   float-derived value): a non-integer exponent, an int base with a negative exponent. *)
Definition mk_pow (base e : term) : option term :=
  if negb (is_constant e) then None
  else if is_constant base then
         match pow_operand base, pow_operand e with
         | Some b, Some p =>
             if negb (fr_is_int p) then None
             else if is_real_constant base || is_real_constant e then
                    match fr_pow_int b (fst p) with Some r => Some (mk_real r) | None => None end
                  else if 0 <=? fst p then Some (mk_real (Z.pow (fst b) (fst p), 1))
                  else None
         | _, _ => None
         end
       else Some (T OPow [base; e]).
(* ToReal: a Real term is returned unchanged, an Int constant becomes a Real constant *)
Definition mk_toreal (t : term) : option term :=
  match tc t with
  | Some TReal => Some t
  | Some TInt => match top t with OIntC z => Some (mk_real (z, 1)) | _ => Some (T OToReal [t]) end
  | _ => None
  end.

(* ---------------------------------------------------------------- bit-vectors *)
Definition mk_bvop (k : bvop) (a b : term) : term := T (OBV k (bv_width a)) [a; b].
Definition mk_bvun (k : bvop) (a : term) : term := T (OBV k (bv_width a)) [a].
Definition mk_bvconcat (a b : term) : term := T (OBV BConcat (bv_width a + bv_width b)) [a; b].
Definition mk_bvcomp (a b : term) : term := T (OBV BComp 1) [a; b].
Definition mk_bvrel (k : bvrel) (a b : term) : term := T (OBVRel k) [a; b].
(* BVExtract(formula, start, end): AssertionError unless 0 <= start <= end and the size fits *)
Definition mk_bvextract (t : term) (s : Z) (e : option Z) : option term :=
  let e' := match e with Some x => x | None => bv_width t - 1 end in
  if (e' <? s) || (s <? 0) then None
  else let size := e' - s + 1 in
       if bv_width t <? size then None else Some (T (OBVExtract size s e') [t]).
Definition mk_bvrol (t : term) (k : Z) : term := T (OBVRol (bv_width t) k) [t].
Definition mk_bvror (t : term) (k : Z) : term := T (OBVRor (bv_width t) k) [t].
Definition mk_bvzext (t : term) (k : Z) : term := T (OBVZext (bv_width t + k) k) [t].
Definition mk_bvsext (t : term) (k : Z) : term := T (OBVSext (bv_width t + k) k) [t].

(* ---------------------------------------------------------------- strings *)
Definition mk_strop (k : strop) (l : list term) : term := T (OStr k) l.
(* StrConcat: TypeError with fewer than two arguments *)
Definition mk_strconcat (l : list term) : option term :=
  match l with [] | [_] => None | _ => Some (T (OStr SConcat) l) end.

(* ---------------------------------------------------------------- arrays *)
Definition mk_select (a i : term) : term := T OSelect [a; i].
Definition mk_store (a i v : term) : term := T OStore [a; i; v].
(* The code orders the assignments of an array value by id() of the index nodes (memory
   addresses).  Nothing observable depends on that order except FNode.array_value_get's binary
   search, which is a map lookup for an id-sorted list.  The model keeps the assignments sorted
   by a structural key of the index constant; the harness writes array values in the same
   canonical order (harness/c01.py canon_args). *)
Definition const_key (t : term) : list Z :=
  match top t with
  | OBoolC b => [0; if b then 1 else 0]
  | OIntC z => [1; z]
  | ORealC n d => [2; n; d]
  | OBVC v w => [3; v; w]
  | OStrC s => 4 :: s
  | _ => [9]
  end.
Fixpoint lex_ltb (a b : list Z) : bool :=
  match a, b with
  | [], [] => false
  | [], _ :: _ => true
  | _ :: _, [] => false
  | x :: a', y :: b' => if x <? y then true else if y <? x then false else lex_ltb a' b'
  end.
Fixpoint insert_assign (kv : term * term) (l : list (term * term)) : list (term * term) :=
  match l with
  | [] => [kv]
  | kv' :: r => if lex_ltb (const_key (fst kv)) (const_key (fst kv')) then kv :: l
                else kv' :: insert_assign kv r
  end.
Definition sort_assign (l : list (term * term)) : list (term * term) :=
  fold_right insert_assign [] l.
Fixpoint flatten_assign (l : list (term * term)) : list term :=
  match l with [] => [] | (k, v) :: r => k :: v :: flatten_assign r end.
(* args[1::2], args[2::2] zipped *)
Fixpoint pairs_of (l : list term) : list (term * term) :=
  match l with k :: v :: r => (k, v) :: pairs_of r | _ => [] end.
(* dict semantics: assigning an existing key replaces its value *)
Fixpoint assoc_set (k v : term) (l : list (term * term)) : list (term * term) :=
  match l with
  | [] => [(k, v)]
  | (k', v') :: r => if term_eqb k k' then (k, v) :: r else (k', v') :: assoc_set k v r
  end.
Definition dict_of_pairs (l : list (term * term)) : list (term * term) :=
  fold_left (fun acc kv => assoc_set (fst kv) (snd kv) acc) l [].
Fixpoint assoc_get (k : term) (l : list (term * term)) : option term :=
  match l with
  | [] => None
  | (k', v') :: r => if term_eqb k k' then Some v' else assoc_get k r
  end.
(* Array(idx_type, default, assigned_values): PysmtValueError for a non-constant index;
   assignments equal to the default are dropped *)
Definition mk_array (it : ty) (default : term) (assign : list (term * term)) : option term :=
  if forallb (fun kv => is_constant (fst kv)) assign
  then Some (T (OArrayValue it)
               (default :: flatten_assign (sort_assign
                  (filter (fun kv => negb (term_eqb (snd kv) default)) assign))))
  else None.
