(* LOCAL STAND-INS used by the C10 models (Nnf, Prenex, Aig, TimesDist, Partition, PropTop, Qelim).

   models/Ctors.v (FormulaManager constructors) and models/Substituter.v (MGSubstituter) are
   written by other builders and did not exist when the C10 machinery was built.  This file
   holds the few pieces C10 needs, modelled on pysmt/formula.py and pysmt/substituter.py:

   - mk_and / mk_or     FormulaManager.And / Or: 0 arguments -> TRUE / FALSE, 1 argument -> that
                        argument, otherwise the n-ary node (no flattening, no deduplication)
   - mk_not             FormulaManager.Not: Not(Not x) = x
   - mk_forall/mk_exists FormulaManager.ForAll / Exists: empty variable tuple -> the body
   - mk_plus / mk_times FormulaManager.Plus / Times: 1 argument -> that argument
   - rebuild            IdentityDagWalker.walk_<op>: re-creation of a node through the manager.
                        NOT modelled: the normalising theory constructors (Div by a constant,
                        ToReal / Pow of constants, Array dropping default-valued entries, BV
                        helper constructors).  They act as the identity on every node that was
                        itself created through the manager unless an argument *became* a constant,
                        which the Boolean-for-Boolean substitutions of C10 cannot cause.
   - vsubst             MGSubstituter.substitute restricted to maps whose keys are symbols:
                        a symbol in the map is replaced, quantifiers drop the keys they bind
                        (pysmt drops every key one of whose free variables is bound; for symbol
                        keys that is the key itself) and the body is rebuilt; no renaming of bound
                        variables (capture is possible, exactly as in pysmt).
   When Ctors.v / Substituter.v land, these definitions are to be replaced by (or proved equal
   to) theirs. *)
From Coq Require Import List ZArith Bool String.
From PySMT.core Require Import Syntax.
From PySMT.models Require Import Oracles.
Import ListNotations.
Open Scope bool_scope.

Definition mk_and (l : list term) : term :=
  match l with [] => TTrue | [x] => x | _ => T OAnd l end.
Definition mk_or (l : list term) : term :=
  match l with [] => TFalse | [x] => x | _ => T OOr l end.
(* a Not node always has exactly one argument (it can only be created by FormulaManager.Not) *)
Definition mk_not (t : term) : term :=
  match t with T ONot [x] => x | _ => T ONot [t] end.
Definition mk_forall (vs : list var) (b : term) : term :=
  match vs with [] => b | _ => T (OForall vs) [b] end.
Definition mk_exists (vs : list var) (b : term) : term :=
  match vs with [] => b | _ => T (OExists vs) [b] end.
Definition mk_plus (l : list term) : term :=
  match l with [x] => x | _ => T OPlus l end.      (* [] raises PysmtTypeError: excluded by callers *)
Definition mk_times (l : list term) : term :=
  match l with [x] => x | _ => T OTimes l end.

Definition rebuild (o : op) (args : list term) : term :=
  match o with
  | OAnd => mk_and args
  | OOr => mk_or args
  | ONot => match args with [a] => mk_not a | _ => T o args end
  | OForall vs => match args with [b] => mk_forall vs b | _ => T o args end
  | OExists vs => match args with [b] => mk_exists vs b | _ => T o args end
  | OPlus => match args with [] => T o args | _ => mk_plus args end
  | OTimes => match args with [] => T o args | _ => mk_times args end
  | _ => T o args
  end.

Fixpoint vlookup (s : list (var * term)) (v : var) : option term :=
  match s with
  | [] => None
  | (k, r) :: s' => if var_eqb k v then Some r else vlookup s' v
  end.
Definition vfilter (s : list (var * term)) (vs : list var) : list (var * term) :=
  filter (fun kv => negb (mem var_eqb (fst kv) vs)) s.

Fixpoint vsubst (s : list (var * term)) (t : term) {struct t} : term :=
  match t with
  | T (OSymbol n ty) _ => match vlookup s (n, ty) with Some r => r | None => t end
  | T (OForall vs) [b] => mk_forall vs (vsubst (vfilter s vs) b)
  | T (OExists vs) [b] => mk_exists vs (vsubst (vfilter s vs) b)
  | T o args => rebuild o (map (vsubst s) args)
  end.

(* ---- the Boolean skeleton of a formula: Boolean connectives, quantifiers and Boolean ITE with
        their arities, over atoms that are syntactically Boolean (Boolean symbol, application of
        a Boolean-valued function, Boolean constant, theory relation).  Boolean-sorted array
        reads are NOT atoms here (NNFizer asserts on them). ---- *)
Definition bool_atom_op (o : op) (args : list term) : bool :=
  match o with
  | OSymbol _ TBool => match args with [] => true | _ => false end
  | OFunction _ (TFun _ TBool) => true
  | OBoolC _ => match args with [] => true | _ => false end
  | OLe | OLt | OEquals | OBVRel _ | OStr SContains | OStr SPrefixOf | OStr SSuffixOf => true
  | _ => false
  end.

Fixpoint boolish (t : term) : bool :=
  match t with
  | T OAnd l | T OOr l => forallb boolish l
  | T ONot [a] => boolish a
  | T OImplies [a; b] | T OIff [a; b] => boolish a && boolish b
  | T (OForall _) [b] | T (OExists _) [b] => boolish b
  | T OIte [c; a; b] => boolish c && boolish a && boolish b
  | T o args => bool_atom_op o args
  end.

(* what the constructors never produce: And/Or with fewer than two arguments, Not of Not, a
   quantifier without variables.  Every node that exists in a FormulaManager satisfies it. *)
Definition node_normal (o : op) (args : list term) : bool :=
  match o, args with
  | OAnd, ([] | [_]) | OOr, ([] | [_]) => false
  | ONot, [T ONot _] => false
  | ONot, ([] | _ :: _ :: _) => false
  | OForall [], _ | OExists [], _ => false
  | OPlus, [_] | OTimes, [_] => false
  | _, _ => true
  end.
Fixpoint normal (t : term) : bool :=
  match t with T o args => node_normal o args && forallb normal args end.
