(* Executable composition printer model -> text -> reader model (C09): the SMT-LIB text of a term as
   printed by models/SmtPrinter.v is tokenised by models/SmtLex.v and read by models/SmtParser.v in
   the state a parser has after the declarations of the term's free symbols (what
   SmtLibParser.get_script reaches after the declare-fun commands of the script), in the SAME
   environment (the symbol table contains every symbol of the term, bound ones included). *)
From Coq Require Import List ZArith Bool String Ascii.
From PySMT.core Require Import Syntax SmtStd.
From PySMT.models Require Import TypeChecker Oracles SmtLex SmtParser SmtPrinter.
Import ListNotations.
Open Scope bool_scope.
Open Scope string_scope.

(* the tokens of an s-expression written with one blank after every token *)
Fixpoint render_sp (toks : list string) : list ascii :=
  match toks with
  | [] => []
  | t :: r => (list_ascii_of_string t ++ " "%char :: render_sp r)%list
  end.
Definition text_of (x : sexp) : list ascii := render_sp (flatten x).

(* every symbol occurring in t: free, bound, function names *)
Fixpoint all_syms (t : term) : list var :=
  match t with
  | T o args =>
      let rec := unions var_eqb (map all_syms args) in
      match o with
      | OSymbol n ty => [(n, ty)]
      | OFunction n ty => union var_eqb [(n, ty)] rec
      | OForall vs | OExists vs => union var_eqb vs rec
      | _ => rec
      end
  end.

Definition declared_item (v : var) : item :=
  match snd v with TFun _ _ => IFunc (fst v) (snd v) | _ => ITerm (TSym (fst v) (snd v)) end.

(* declared sorts: (declare-sort U n) for every user sort occurring in t *)
Definition sort_binding (ty : ty) : list (string * list item) :=
  match ty with
  | TUser n [] => [(n, [IType (TUser n [])])]
  | TUser n args => [(n, [ITypeDecl n (Z.of_nat (List.length args))])]
  | _ => []
  end.
Definition sort_decl (ty : ty) : list (string * Z) :=
  match ty with TUser n args => [(n, Z.of_nat (List.length args))] | _ => [] end.

(* the parser state after (declare-sort ...) / (declare-fun v ...) for every sort and free symbol
   of t, no logic set *)
Definition state_of (t : term) (tk : list string * lex_end) : pstate :=
  mkS (fst tk) (snd tk)
      (map (fun v => (fst v, [declared_item v])) (fv t) ++
       flat_map sort_binding (get_types t) ++
       [("false", [ITerm TFalse]); ("true", [ITerm TTrue])])
      [] None (all_syms t) 0%Z (flat_map sort_decl (get_types t)) (map (fun _ => None) (fst tk)).

Definition read_back (pr : term -> sexp) (t : term) : er item :=
  match get_expression (state_of t (lex (text_of (pr t)))) with
  | ROk (Some i) _ => Ok i
  | ROk None _ => Er EStop
  | RErr e _ => Er e
  end.

(* the reader returns [expected] for the print-out of t *)
Definition roundtrip_is (pr : term -> sexp) (t expected : term) : bool :=
  match read_back pr t with Ok (ITerm t') => term_qeqb t' expected | _ => false end.
Definition roundtrip_ok (pr : term -> sexp) (t : term) : bool := roundtrip_is pr t t.
