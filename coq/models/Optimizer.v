(* Hand model (H) of pysmt/optimization/optimizer.py:
     OptComparationFunctions._comparation_functions, OptSearchInterval, OptPareto,
     ExternalOptimizerMixin.{optimize,_optimize,boxed_optimize,lexicographic_optimize,
     pareto_optimize,_setup,_cleanup,_pareto_setup,_pareto_cleanup},
     SUAOptimizerMixin / IncrementalOptimizerMixin (check_progress, _lexicographic_opt,
     _pareto_check_progress, _pareto_block_model)
   over the assertion tracking of solvers/solver.py:IncrementalTrackingSolver
   (_assertion_stack = flat list, _backtrack_points = list of lengths).

   The model mirrors the code as it is (lexicographic_optimize calls _cleanup on both exits
   since commit c42afb5).  The satisfiability oracle is the Section variable [solve].
   No proofs in this file. *)
From Coq Require Import List ZArith Bool.
Import ListNotations.
Open Scope Z_scope.

(* ---------------------------------------------------------------- constraints *)
Inductive cmpop := OLt | OLe | OGt | OGe | OEq.
(* how the value of a BV term is read by a comparison: unsigned/raw (BVULT.., LT.., Equals)
   or two's complement of the given width (BVSLT..) *)
Inductive view := VRaw | VSigned (w : Z).
(* "term  op  constant": the only shape of formula the optimizers build *)
Record catom := mkC { c_term : nat; c_view : view; c_op : cmpop; c_k : Z }.
Inductive atom :=
| ABase (i : nat)            (* i-th assertion of the user *)
| ACmp (c : catom)
| AOr (l : list catom).      (* Or(...) built by the Pareto driver (>= 2 disjuncts) *)

Inductive oty := TInt | TBV (w : Z).
(* a goal: the objective term (index into the table of objective terms), its type,
   Goal.signed, Maximization vs Minimization, and whether it is a MaxSMTGoal
   (whose term() is the integer sum of ite(clause, weight, 0)) *)
Record goal := mkG { g_term : nat; g_ty : oty; g_signed : bool; g_max : bool; g_maxsmt : bool }.
Inductive strategy := Linear | Binary.
Inductive mode := SUA | Incr.

Definition sview (w v : Z) : Z := if v <? 2 ^ (w - 1) then v else v - 2 ^ w.
Definition apply_view (vw : view) (v : Z) : Z :=
  match vw with VRaw => v | VSigned w => sview w v end.
Definition cmp_holds (o : cmpop) (a b : Z) : bool :=
  match o with
  | OLt => a <? b | OLe => a <=? b | OGt => b <? a | OGe => b <=? a | OEq => a =? b
  end.

(* ------------------------------------------------ OptComparationFunctions table *)
(* (how the term is compared, strict operator, non-strict operator); the cast is
   mgr.Int / mgr.BV(x, w) / mgr.SBV(x, w), whose range check is [cast_ok] *)
Definition comparation (g : goal) : view * cmpop * cmpop :=
  match g_ty g, g_max g, g_signed g with
  | TInt, false, _ => (VRaw, OLt, OLe)
  | TInt, true, _ => (VRaw, OGt, OGe)
  | TBV w, false, false => (VRaw, OLt, OLe)
  | TBV w, false, true => (VSigned w, OLt, OLe)
  | TBV w, true, false => (VRaw, OGt, OGe)
  | TBV w, true, true => (VSigned w, OGt, OGe)
  end.
Definition cast_ok (g : goal) (k : Z) : bool :=
  match g_ty g with
  | TInt => true
  | TBV w => if g_signed g then (- 2 ^ (w - 1) <=? k) && (k <=? 2 ^ (w - 1) - 1)
             else (0 <=? k) && (k <? 2 ^ w)
  end.
Definition strict_atom (g : goal) (k : Z) : catom :=
  let '(vw, st, _) := comparation g in mkC (g_term g) vw st k.
Definition ns_atom (g : goal) (k : Z) : catom :=
  let '(vw, _, ns) := comparation g in mkC (g_term g) vw ns k.

(* ------------------------------------------------------------ OptSearchInterval *)
Record interval := mkI { i_lower : option Z; i_upper : option Z; i_pivot : option Z }.

Definition init_interval (g : goal) : interval :=
  match g_ty g with
  | TBV w =>
      let '(l, u) := if g_signed g then (- 2 ^ (w - 1), 2 ^ (w - 1) - 1) else (0, 2 ^ w) in
      if g_max g then mkI (Some (l - 1)) (Some u) None else mkI (Some l) (Some (u + 1)) None
  | TInt => mkI None None None
  end.

Definition mid (g : goal) (l u : Z) : Z :=
  let p := (l + u) / 2 in if g_max g then p else p + 1.
Definition compute_pivot (g : goal) (iv : interval) : Z :=
  match i_lower iv, i_upper iv with
  | None, None => 0
  | None, Some u => mid g (u - (Z.abs u + 1)) u
  | Some l, None => mid g l (l + Z.abs l + 1)
  | Some l, Some u => mid g l u
  end.
Definition empty (iv : interval) : bool :=
  match i_lower iv, i_upper iv with
  | Some l, Some u => u <=? l
  | _, _ => false
  end.
(* None = the cast raises (bound missing or out of range) *)
Definition linear_cut (g : goal) (iv : interval) : option (interval * catom) :=
  match (if g_max g then i_lower iv else i_upper iv) with
  | Some b => if cast_ok g b then Some (iv, strict_atom g b) else None
  | None => None
  end.
Definition binary_cut (g : goal) (iv : interval) : option (interval * catom) :=
  let p := compute_pivot g iv in
  if cast_ok g p then Some (mkI (i_lower iv) (i_upper iv) (Some p), strict_atom g p) else None.
Definition next_cut (g : goal) (st : strategy) (iv : interval) : option (interval * catom) :=
  match st with Linear => linear_cut g iv | Binary => binary_cut g iv end.

Definition search_is_sat (g : goal) (iv : interval) (v : Z) : interval :=
  if g_max g then
    match i_lower iv with
    | Some l => if l <? v then mkI (Some v) (i_upper iv) None else mkI (Some l) (i_upper iv) None
    | None => mkI (Some v) (i_upper iv) None
    end
  else
    match i_upper iv with
    | Some u => if v <? u then mkI (i_lower iv) (Some v) None else mkI (i_lower iv) (Some u) None
    | None => mkI (i_lower iv) (Some v) None
    end.
Definition search_is_unsat (g : goal) (iv : interval) : interval :=
  match i_pivot iv with
  | Some p => if g_max g then mkI (i_lower iv) (Some p) (Some p) else mkI (Some p) (i_upper iv) (Some p)
  | None => if g_max g then mkI (i_lower iv) (i_lower iv) None else mkI (i_upper iv) (i_upper iv) None
  end.

Inductive res (A : Type) := ROk (a : A) | RErr | RFuel.
Arguments ROk {A} a. Arguments RErr {A}. Arguments RFuel {A}.

Definition mk_or (l : list catom) : atom :=
  match l with [c] => ACmp c | _ => AOr l end.

Section Optimizer.
  Variable model : Type.
  Variable base_holds : nat -> model -> bool.   (* meaning of the user's assertions *)
  Variable tval : nat -> model -> Z.            (* value of the objective terms (BV: unsigned) *)
  Variable solve : list atom -> option model.   (* the oracle: solver.solve + get_model *)

  Definition holds_c (m : model) (c : catom) : bool :=
    cmp_holds (c_op c) (apply_view (c_view c) (tval (c_term c) m)) (c_k c).
  Definition holds (m : model) (a : atom) : bool :=
    match a with
    | ABase i => base_holds i m
    | ACmp c => holds_c m c
    | AOr l => existsb (holds_c m) l
    end.

  (* search_is_sat: bv_signed_value() if BV and goal.signed, else constant_value() *)
  Definition model_value (g : goal) (m : model) : Z :=
    match g_ty g with
    | TBV w => if g_signed g then sview w (tval (g_term g) m) else tval (g_term g) m
    | TInt => tval (g_term g) m
    end.

  (* ------------------------------------------------ IncrementalTrackingSolver *)
  Inductive event :=
  | EPush | EPop | EPopEmpty | EAdd (a : atom)
  | ESolve (q : list atom) (r : option model).
  Record solver := mkS { s_asserts : list atom; s_bt : list nat; s_log : list event }.

  Definition push (s : solver) : solver :=
    mkS (s_asserts s) (length (s_asserts s) :: s_bt s) (EPush :: s_log s).
  Definition pop (s : solver) : solver :=
    match s_bt s with
    | p :: r => mkS (firstn p (s_asserts s)) r (EPop :: s_log s)
    | [] => mkS (s_asserts s) [] (EPopEmpty :: s_log s)     (* IndexError in Python *)
    end.
  Definition add (a : atom) (s : solver) : solver :=
    mkS (s_asserts s ++ [a]) (s_bt s) (EAdd a :: s_log s).
  Definition adds (l : list atom) (s : solver) : solver := fold_left (fun s a => add a s) l s.
  Definition do_solve (assum : list atom) (s : solver) : option model * solver :=
    let q := s_asserts s ++ assum in
    let r := solve q in
    (r, mkS (s_asserts s) (s_bt s) (ESolve q r :: s_log s)).

  Definition optlist {A} (o : option A) : list A := match o with Some a => [a] | None => [] end.

  (* _optimization_check_progress of the two mixins *)
  Definition check_progress (md : mode) (st : strategy) (cut : option atom) (extra : list atom)
             (s : solver) : option model * solver :=
    match md with
    | SUA => do_solve (extra ++ optlist cut) s
    | Incr =>
        match st with
        | Linear => do_solve [] (adds (optlist cut) s)
        | Binary => let '(r, s1) := do_solve [] (adds (optlist cut) (push s)) in (r, pop s1)
        end
    end.

  (* the while loop of _optimize, entered after _setup; `first` = first_step *)
  Fixpoint opt_loop (fuel : nat) (g : goal) (st : strategy) (md : mode) (extra : list atom)
           (iv : interval) (best : option model) (first : bool) (s : solver)
    : res (option (model * Z)) * solver :=
    match fuel with
    | O => (RFuel, s)
    | S f =>
        if empty iv then
          (ROk (match best with Some m => Some (m, tval (g_term g) m) | None => None end), pop s)
        else
          match (if first then Some (iv, None)
                 else match next_cut g st iv with
                      | Some (iv1, c) => Some (iv1, Some (ACmp c)) | None => None end) with
          | None => (RErr, s)
          | Some (iv1, cut) =>
              let '(r, s1) := check_progress md st cut extra s in
              match r with
              | Some m => opt_loop f g st md extra (search_is_sat g iv1 (model_value g m)) (Some m) false s1
              | None => if first then (ROk None, pop s1)
                        else opt_loop f g st md extra (search_is_unsat g iv1) best false s1
              end
          end
    end.

  (* goal = MaximizationGoal(goal.term()) for a MaxSMT goal *)
  Definition norm_goal (g : goal) : goal :=
    if g_maxsmt g then mkG (g_term g) (g_ty g) false true false else g.

  (* ExternalOptimizerMixin._optimize *)
  Definition optimize_ (fuel : nat) (g : goal) (st : strategy) (md : mode) (extra : list atom)
             (s : solver) : res (option (model * Z)) * solver :=
    let g' := norm_goal g in
    opt_loop fuel g' st md extra (init_interval g') None true (push s).
  (* ExternalOptimizerMixin.optimize *)
  Definition optimize (fuel : nat) (g : goal) (st : strategy) (md : mode) (s : solver) :=
    optimize_ fuel g st md [] s.

  (* boxed_optimize: dict goal -> (model, value), here an association list in goal order *)
  Fixpoint boxed_loop (fuel : nat) (gs : list goal) (st : strategy) (md : mode)
           (acc : list (goal * (model * Z))) (s : solver)
    : res (option (list (goal * (model * Z)))) * solver :=
    match gs with
    | [] => (ROk (Some (rev acc)), s)
    | g :: r =>
        match optimize fuel g st md s with
        | (ROk (Some mv), s1) => boxed_loop fuel r st md ((g, mv) :: acc) s1
        | (ROk None, s1) => (ROk None, s1)
        | (RErr, s1) => (RErr, s1)
        | (RFuel, s1) => (RFuel, s1)
        end
    end.
  Definition boxed (fuel : nat) (gs : list goal) (st : strategy) (md : mode) (s : solver) :=
    boxed_loop fuel gs st md [] s.

  (* _lexicographic_opt; Equals(term, val) is the raw comparison *)
  Definition eq_atom (g : goal) (v : Z) : atom := ACmp (mkC (g_term g) VRaw OEq v).
  Definition lex_opt (fuel : nat) (g : goal) (st : strategy) (md : mode) (cd : list atom)
             (s : solver) : res (option (model * Z)) * solver :=
    match md with
    | SUA => optimize_ fuel g st md cd s
    | Incr => let '(r, s1) := optimize fuel g st md (adds cd (push s)) in (r, pop s1)
    end.
  (* the for loop of lexicographic_optimize; _cleanup (pop) on both exits *)
  Fixpoint lex_loop (fuel : nat) (gs : list goal) (st : strategy) (md : mode) (cd : list atom)
           (last : option model) (rt : list Z) (s : solver)
    : res (option (model * list Z)) * solver :=
    match gs with
    | [] => match last with
            | Some m => (ROk (Some (m, rev rt)), pop s)   (* self._cleanup(client_data); return model, rt *)
            | None => (RErr, pop s)                 (* UnboundLocalError after the cleanup: no goals *)
            end
    | g :: r =>
        match lex_opt fuel g st md cd s with
        | (ROk (Some (m, v)), s1) => lex_loop fuel r st md (cd ++ [eq_atom g v]) (Some m) (v :: rt) s1
        | (ROk None, s1) => (ROk None, pop s1)      (* self._cleanup(client_data) *)
        | (RErr, s1) => (RErr, s1)
        | (RFuel, s1) => (RFuel, s1)
        end
    end.
  Definition lexicographic (fuel : nat) (gs : list goal) (st : strategy) (md : mode) (s : solver) :=
    if existsb g_maxsmt gs then (RErr, s)           (* GoalNotSupportedError *)
    else lex_loop fuel gs st md [] None [] (push s).

  (* ------------------------------------------------------------------ Pareto *)
  (* OptPareto.get_constraint on the recorded value (an FNode constant: the raw value,
     read back by the comparison's view) *)
  Definition pareto_ns (g : goal) (raw : Z) : catom :=
    let '(vw, _, _) := comparation g in ns_atom g (apply_view vw raw).
  Definition pareto_strict (g : goal) (raw : Z) : catom :=
    let '(vw, _, _) := comparation g in strict_atom g (apply_view vw raw).
  Definition zipw {A B C} (f : A -> B -> C) (l : list A) (l' : list B) : list C :=
    map (fun p => f (fst p) (snd p)) (combine l l').
  Definition pareto_k (gs : list goal) (vals : option (list Z)) : list atom :=
    match vals with
    | None => []
    | Some vs => map ACmp (zipw pareto_ns gs vs) ++ [mk_or (zipw pareto_strict gs vs)]
    end.
  Definition pareto_check (md : mode) (cd : list atom) (gs : list goal) (vals : option (list Z))
             (s : solver) : option model * solver :=
    match md with
    | SUA => do_solve (cd ++ pareto_k gs vals) s
    | Incr => do_solve [] (adds (pareto_k gs vals) s)
    end.
  Definition raw_vals (gs : list goal) (m : model) : list Z := map (fun g => tval (g_term g) m) gs.

  (* inner `while not optimum_found` loop *)
  Fixpoint pareto_inner (fuel : nat) (md : mode) (cd : list atom) (gs : list goal)
           (last : option model) (s : solver) : res (option model) * solver :=
    match fuel with
    | O => (RFuel, s)
    | S f =>
        let '(r, s1) := pareto_check md cd gs (option_map (raw_vals gs) last) s in
        match r with
        | None => (ROk last, s1)
        | Some m => pareto_inner f md cd gs (Some m) s1
        end
    end.
  (* outer `while not terminated` loop; the generator is run to exhaustion *)
  Fixpoint pareto_outer (fuel : nat) (md : mode) (cd : list atom) (gs : list goal)
           (acc : list (model * list Z)) (s : solver) : res (list (model * list Z)) * solver :=
    match fuel with
    | O => (RFuel, s)
    | S f =>
        match pareto_inner fuel md cd gs None (push s) with
        | (ROk (Some m), s1) =>
            let s2 := pop s1 in
            let blk := mk_or (zipw pareto_strict gs (raw_vals gs m)) in
            let acc' := (m, raw_vals gs m) :: acc in
            match md with
            | SUA => pareto_outer f md (cd ++ [blk]) gs acc' s2
            | Incr => pareto_outer f md cd gs acc' (add blk s2)
            end
        | (ROk None, s1) => (ROk (rev acc), pop (pop s1))    (* _pareto_cleanup; _cleanup *)
        | (RErr, s1) => (RErr, s1)
        | (RFuel, s1) => (RFuel, s1)
        end
    end.
  Definition pareto (fuel : nat) (gs : list goal) (md : mode) (s : solver) :=
    if existsb g_maxsmt gs then (RErr, s)
    else match gs with
         | [] => (RErr, s)                           (* objs[0]: IndexError *)
         | _ => pareto_outer fuel md [] gs [] (push s)
         end.

  (* ---- Max/Min encodings of formula.py (_MaxWrap/_MinWrap with `le`), on values ---- *)
  Fixpoint wrap_fuel (n : nat) (pick : Z -> Z -> Z) (l : list Z) : option Z :=
    match n with
    | O => None
    | S n' =>
        match l with
        | [] => None
        | [a] => Some a
        | [a; b] => Some (pick a b)
        | _ => let h := Nat.div (length l) 2 in
               match wrap_fuel n' pick (firstn h l), wrap_fuel n' pick (skipn h l) with
               | Some x, Some y => Some (pick x y)
               | _, _ => None
               end
        end
    end.
  (* Ite(le(a,b), b, a) and Ite(le(a,b), a, b) *)
  Definition max_pick (le : Z -> Z -> bool) (a b : Z) : Z := if le a b then b else a.
  Definition min_pick (le : Z -> Z -> bool) (a b : Z) : Z := if le a b then a else b.
End Optimizer.

Arguments EPush {model}. Arguments EPop {model}. Arguments EPopEmpty {model}.
Arguments EAdd {model} a. Arguments ESolve {model} q r.
