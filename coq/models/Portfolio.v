(* Hand model (H) of pysmt/solvers/portfolio.py: one `_solve` round of Portfolio followed by the
   get_model / get_value queries of that round and `_close_existing`, as a labelled transition
   system.

   Actors and channels (portfolio.py line numbers):
     parent      Portfolio._solve, get_value/get_model, _close_existing (as repaired: the queue
                 loop counts the members that reported an exception and raises the last one once
                 all have, and polls the queue with a timeout, raising InternalSolverError when
                 the queue is empty and no member process is alive any more)
     child i     _run_solver (224-264), one process per member, all started by 146-157
     queue       signaling_queue (142): FIFO, written by every child, read by the parent only
     cq / cr     the SINGLE control pipe (143-144; the same child end is handed to EVERY child, 154):
                 cq = parent -> children direction, cr = children -> parent direction
   A member's behaviour is fixed per round: it answers b, raises an exception, answers "unknown"
   (SolverReturnedUnknownResultError: an Exception like any other, 240), or leaves without putting
   anything (os._exit, a non-Exception BaseException, an exception outside the try of 238-242).

   Process.terminate() is asynchronous: the parent only marks the signal (`pend`) and goes on;
   the victim disappears by its own `LKill` transition.  `latency c = false` is the behaviour of a
   POSIX kernel for a default-action SIGTERM: once the signal is pending the victim executes no
   further user-level action (only LKill is enabled for it).  `latency c = true` lets the victim
   continue until LKill is scheduled (signal handler installed / delivery delayed): the
   theorems about verdicts hold for both, the liveness theorems only for `false`.

   A schedule is a list of labels; a label that is not enabled leaves the state unchanged, so
   every list is a schedule and `run` is total.  No proofs in this file. *)
From Coq Require Import List Bool Arith PeanoNat PArith NArith FSets.FSetPositive.
Import ListNotations.
Open Scope bool_scope.

Inductive beh := BAns (b : bool) | BRaise | BUnknown | BExit.
Inductive cmd := QModel | QValue.
Inductive wire := WQuery (q : cmd) | WExit.

Record config := mkCfg {
  members : list beh;       (* Portfolio.solvers, by index *)
  eoe : bool;               (* options.exit_on_exception *)
  latency : bool;           (* see above *)
  script : list cmd         (* the get_model / get_value calls made after _solve returned *)
}.

(* program counter of _run_solver *)
Inductive cpc :=
| CRun                      (* 236-239: inside s.solve() *)
| CServe                    (* 248: blocked in ctrl_pipe.recv() *)
| CReply (q : cmd)          (* 255-262: computing / about to send the reply *)
| CDone                     (* process left _run_solver *)
| CDead.                    (* killed by SIGTERM *)
Record child := mkChild { pc : cpc; pend : bool }.

Inductive qmsg := MAns (i : nat) (b : bool) | MExc (i : nat).

(* program counter of the parent *)
Inductive ppc :=
| PWait (seen : list nat)                       (* the queue loop; `failed` = length seen (the members
                                                   whose exception was consumed; only the length is used) *)
| PTerm (w : nat) (b : bool) (todo : list nat)  (* 174-178: the terminate loop, todo = processes left *)
| PRaise (i : nat) (todo : list nat)            (* 164-166: exit_on_exception *)
| PIdle (w : nat) (b : bool) (rest : list cmd)  (* _solve returned b; queries still to make *)
| PAwait (w : nat) (b : bool) (q : cmd) (rest : list cmd)   (* 188 / 201: _ctrl_pipe.recv() *)
| PErr (i : nat)                                (* _solve raised member i's exception *)
| PDead                                         (* _solve raised InternalSolverError: nobody left *)
| PFinal (w : nat) (b : bool).                  (* _close_existing done *)

Record state := mkSt {
  kids : nat -> child;
  queue : list qmsg;
  cq : list wire;
  cr : list (nat * cmd);
  par : ppc;
  resp : list nat           (* members whose replies the parent consumed, latest first *)
}.

Inductive label := LParent | LChild (i : nat) | LKill (i : nat).

Definition upd (i : nat) (f : child -> child) (k : nat -> child) : nat -> child :=
  fun j => if Nat.eqb j i then f (k j) else k j.
Definition setpc (p : cpc) (k : child) : child := mkChild p (pend k).
Definition setpend (k : child) : child := mkChild (pc k) true.
Definition alive (k : child) : bool :=
  match pc k with CDone | CDead => false | _ => true end.

Definition init (c : config) : state :=
  mkSt (fun _ => mkChild CRun false) [] [] [] (PWait []) [].

Definition child_step (c : config) (s : state) (i : nat) : option state :=
  match nth_error (members c) i with
  | None => None
  | Some bh =>
    let k := kids s i in
    if pend k && negb (latency c) then None else
    match pc k with
    | CRun =>
        match bh with
        | BAns b => Some (mkSt (upd i (setpc CServe) (kids s)) (queue s ++ [MAns i b]) (cq s) (cr s) (par s) (resp s))
        | BRaise | BUnknown => Some (mkSt (upd i (setpc CDone) (kids s)) (queue s ++ [MExc i]) (cq s) (cr s) (par s) (resp s))
        | BExit => Some (mkSt (upd i (setpc CDone) (kids s)) (queue s) (cq s) (cr s) (par s) (resp s))
        end
    | CServe =>
        match cq s with
        | [] => None
        | WExit :: r => Some (mkSt (upd i (setpc CDone) (kids s)) (queue s) r (cr s) (par s) (resp s))
        | WQuery q :: r => Some (mkSt (upd i (setpc (CReply q)) (kids s)) (queue s) r (cr s) (par s) (resp s))
        end
    | CReply q => Some (mkSt (upd i (setpc CServe) (kids s)) (queue s) (cq s) (cr s ++ [(i, q)]) (par s) (resp s))
    | CDone | CDead => None
    end
  end.

Definition kill_step (c : config) (s : state) (i : nat) : option state :=
  match nth_error (members c) i with
  | None => None
  | Some _ =>
    let k := kids s i in
    if pend k && alive k
    then Some (mkSt (upd i (setpc CDead) (kids s)) (queue s) (cq s) (cr s) (par s) (resp s))
    else None
  end.

Definition all_idx (c : config) : list nat := seq 0 (length (members c)).

Definition parent_step (c : config) (s : state) : option state :=
  match par s with
  | PWait seen =>
      match queue s with
      | [] =>
          (* get(timeout) raised Empty: go on unless no member process is alive *)
          if forallb (fun i => negb (alive (kids s i))) (all_idx c)
          then Some (mkSt (kids s) [] (cq s) (cr s) PDead (resp s))
          else None
      | MAns i b :: r => Some (mkSt (kids s) r (cq s) (cr s) (PTerm i b (all_idx c)) (resp s))
      | MExc i :: r =>
          if eoe c || Nat.eqb (S (length seen)) (length (members c))
          then Some (mkSt (kids s) r (cq s) (cr s) (PRaise i (all_idx c)) (resp s))
          else Some (mkSt (kids s) r (cq s) (cr s) (PWait (i :: seen)) (resp s))
      end
  | PTerm w b [] => Some (mkSt (kids s) (queue s) (cq s) (cr s) (PIdle w b (script c)) (resp s))
  | PTerm w b (j :: t) =>
      Some (mkSt (if Nat.eqb j w then kids s else upd j setpend (kids s))
                 (queue s) (cq s) (cr s) (PTerm w b t) (resp s))
  | PRaise i [] => Some (mkSt (kids s) (queue s) (cq s) (cr s) (PErr i) (resp s))
  | PRaise i (j :: t) => Some (mkSt (upd j setpend (kids s)) (queue s) (cq s) (cr s) (PRaise i t) (resp s))
  | PIdle w b [] =>
      (* _close_existing: send "exit", terminate the surviving member *)
      Some (mkSt (upd w setpend (kids s)) (queue s) (cq s ++ [WExit]) (cr s) (PFinal w b) (resp s))
  | PIdle w b (q :: t) =>
      Some (mkSt (kids s) (queue s) (cq s ++ [WQuery q]) (cr s) (PAwait w b q t) (resp s))
  | PAwait w b q t =>
      match cr s with
      | [] => None
      | (i, _) :: r => Some (mkSt (kids s) (queue s) (cq s) r (PIdle w b t) (i :: resp s))
      end
  | PErr _ | PDead | PFinal _ _ => None
  end.

Definition step (c : config) (s : state) (l : label) : option state :=
  match l with
  | LParent => parent_step c s
  | LChild i => child_step c s i
  | LKill i => kill_step c s i
  end.

Definition step_or_stay (c : config) (s : state) (l : label) : state :=
  match step c s l with Some s' => s' | None => s end.

Definition run_from (c : config) (s : state) (sched : list label) : state :=
  fold_left (step_or_stay c) sched s.
Definition run (c : config) (sched : list label) : state := run_from c (init c) sched.

(* ---- observations ------------------------------------------------------------------ *)

Definition returned (s : state) : option (nat * bool) :=
  match par s with
  | PIdle w b _ | PAwait w b _ _ | PFinal w b => Some (w, b)
  | _ => None
  end.

Definition final (s : state) : bool :=
  match par s with PErr _ | PDead | PFinal _ _ => true | _ => false end.

Definition labels (c : config) : list label :=
  LParent :: flat_map (fun i => [LChild i; LKill i]) (all_idx c).

Definition enabled (c : config) (s : state) (l : label) : bool :=
  match step c s l with Some _ => true | None => false end.

(* no transition at all is enabled *)
Definition stuck (c : config) (s : state) : bool :=
  forallb (fun l => negb (enabled c s l)) (labels c).

Definition answers (bh : beh) : bool := match bh with BAns _ => true | _ => false end.
Definition raises (bh : beh) : bool := match bh with BRaise | BUnknown => true | _ => false end.
Definition all_fail (c : config) : bool := forallb (fun bh => negb (answers bh)) (members c).

Inductive outcome :=
| OVerdict (b : bool) (w : nat) (responders : list nat)  (* solve returned b, survivor w, who served each query *)
| OError (i : nat)                                       (* solve raised member i's exception *)
| ONoAnswer                                              (* solve raised InternalSolverError *)
| OBlockedSolve                                          (* deadlock inside _solve *)
| OBlockedQuery (b : bool) (w : nat) (responders : list nat)  (* deadlock inside get_model/get_value *)
| ORunning.

Definition outcome_of (c : config) (s : state) : outcome :=
  match par s with
  | PFinal w b => OVerdict b w (rev (resp s))
  | PErr i => OError i
  | PDead => ONoAnswer
  | PWait _ => if stuck c s then OBlockedSolve else ORunning
  | PAwait w b _ _ => if stuck c s then OBlockedQuery b w (rev (resp s)) else ORunning
  | _ => ORunning
  end.

Definition list_nat_eqb (a b : list nat) : bool :=
  if list_eq_dec Nat.eq_dec a b then true else false.

Definition outcome_eqb (a b : outcome) : bool :=
  match a, b with
  | OVerdict b1 w1 r1, OVerdict b2 w2 r2 => Bool.eqb b1 b2 && Nat.eqb w1 w2 && list_nat_eqb r1 r2
  | OError i, OError j => Nat.eqb i j
  | OBlockedSolve, OBlockedSolve => true
  | ONoAnswer, ONoAnswer => true
  | OBlockedQuery b1 w1 r1, OBlockedQuery b2 w2 r2 => Bool.eqb b1 b2 && Nat.eqb w1 w2 && list_nat_eqb r1 r2
  | ORunning, ORunning => true
  | _, _ => false
  end.

(* ---- exhaustive exploration (used by the correspondence case files) ----------------- *)
(* Breadth-first over the transition graph, one level = one step, states of a level
   de-duplicated through an injective digit encoding.  Every state carries the schedule that
   reached it (latest label first), so each reported outcome comes with a witness schedule that
   the case file re-runs through `run`. *)

Definition pc_code (p : cpc) : nat :=
  match p with CRun => 0 | CServe => 1 | CReply QModel => 2 | CReply QValue => 3 | CDone => 4 | CDead => 5 end.
Definition q_code (q : cmd) : nat := match q with QModel => 0 | QValue => 1 end.
Definition sep : nat := 15.

Definition digits (c : config) (s : state) : list nat :=
  map (fun i => 2 * pc_code (pc (kids s i)) + (if pend (kids s i) then 1 else 0)) (all_idx c)
  ++ sep :: map (fun m => match m with MAns i _ => i | MExc i => i end) (queue s)
  ++ sep :: map (fun w => match w with WExit => 0 | WQuery q => 1 + q_code q end) (cq s)
  ++ sep :: map (fun r => 2 * fst r + q_code (snd r)) (cr s)
  ++ sep :: (match par s with
             | PWait seen => [0; length seen]
             | PTerm w _ todo => [1; w; length todo]
             | PRaise i todo => [2; i; length todo]
             | PIdle w _ rest => [3; w; length rest]
             | PAwait w _ _ rest => [4; w; length rest]
             | PErr i => [5; i]
             | PFinal w _ => [6; w]
             | PDead => [7]
             end)
  ++ sep :: resp s.

Definition key (c : config) (s : state) : positive :=
  fold_left (fun acc d => (acc * 16 + Pos.of_succ_nat d)%positive) (digits c s) 1%positive.

Definition node := (state * list label)%type.

Definition add_outcome (o : outcome) (p : list label) (acc : list (outcome * list label)) :=
  if existsb (fun x => outcome_eqb (fst x) o) acc then acc else (o, rev p) :: acc.

(* successors of one node, threaded through the set of keys already in the next level *)
Fixpoint succs (c : config) (s : state) (p : list label) (ls : list label)
         (seen : PositiveSet.t) (next : list node) : PositiveSet.t * list node :=
  match ls with
  | [] => (seen, next)
  | l :: r =>
      match step c s l with
      | None => succs c s p r seen next
      | Some s' =>
          let k := key c s' in
          if PositiveSet.mem k seen then succs c s p r seen next
          else succs c s p r (PositiveSet.add k seen) ((s', l :: p) :: next)
      end
  end.

Fixpoint expand (c : config) (front : list node) (seen : PositiveSet.t) (next : list node)
         (acc : list (outcome * list label)) : list node * list (outcome * list label) :=
  match front with
  | [] => (next, acc)
  | (s, p) :: r =>
      if final s || stuck c s
      then expand c r seen next (add_outcome (outcome_of c s) p acc)
      else let '(seen', next') := succs c s p (labels c) seen next in
           expand c r seen' next' acc
  end.

Fixpoint explore_levels (c : config) (fuel : nat) (front : list node)
         (acc : list (outcome * list label)) : bool * list (outcome * list label) :=
  match front with
  | [] => (true, acc)
  | _ =>
      match fuel with
      | 0 => (false, acc)
      | S f => let '(next, acc') := expand c front PositiveSet.empty [] acc in
               explore_levels c f next acc'
      end
  end.

(* (complete?, outcomes with witness schedules); fuel bounds the number of levels *)
Definition explore (c : config) : bool * list (outcome * list label) :=
  explore_levels c (20 + 8 * (length (members c) + length (script c))) [(init c, [])] [].

(* an observed outcome is explained by the model iff some explored schedule produces it *)
Definition explains (c : config) (o : outcome) : bool :=
  let '(complete, outs) := explore c in
  complete && existsb (fun x => outcome_eqb (outcome_of c (run c (snd x))) o && outcome_eqb (fst x) o) outs.

Definition explains_all (c : config) (os : list outcome) : bool :=
  let '(complete, outs) := explore c in
  complete && forallb (fun o => existsb (fun x => outcome_eqb (outcome_of c (run c (snd x))) o
                                                  && outcome_eqb (fst x) o) outs) os.
