(* Hand model (H) of pysmt.smtlib.parser.Tokenizer.create_generator (parser.py:210-288) for the
   non-interactive reader (char_iterator: one character at a time, the stream simply ends).

   The generator is modelled as a function from the list of characters to the list of tokens it
   yields plus the way it ends:
     LexEof  the reader is exhausted (StopIteration inside the generator: it returns; a token
             that is being accumulated at that moment - a plain token, a quoted symbol, a string
             literal - is DROPPED, no error is raised);
     LexErr  PysmtSyntaxError("Unknown escaping in quoted symbol"), raised lazily when the consumer
             reaches that point of the stream.
   Quirks kept: only space, newline, tab and carriage return separate tokens (form feed is a token
   character); a quoted symbol |abc| yields its CONTENT (so |(| yields the same token as a
   parenthesis and |abc| the same as abc); inside bars only \| and \\ are accepted after a
   backslash and the backslash is dropped; a string literal yields its text INCLUDING the
   surrounding quotes and the doubled inner quotes; a comment runs to the next newline.
   Characters are bytes ([ascii]); the model is exact for ASCII input. *)
From Coq Require Import List Ascii String Bool.
Import ListNotations.
Open Scope bool_scope.
Open Scope char_scope.

Definition c_nl : ascii := "010".
Definition c_tab : ascii := "009".
Definition c_cr : ascii := "013".
Definition c_bar : ascii := "|".
Definition c_dq : ascii := """".
Definition c_bs : ascii := "\".
Definition c_semi : ascii := ";".
Definition c_lp : ascii := "(".
Definition c_rp : ascii := ")".

Definition is_space (c : ascii) : bool := (c =? " ") || (c =? c_nl) || (c =? c_tab) || (c =? c_cr).
Definition is_separator (c : ascii) : bool := (c =? c_lp) || (c =? c_rp) || (c =? c_bar) || (c =? c_dq).
Definition is_special (c : ascii) : bool := is_space c || is_separator c || (c =? c_semi).

Fixpoint string_of_rev (l : list ascii) (acc : string) : string :=
  match l with [] => acc | c :: r => string_of_rev r (String c acc) end.
Definition tok_of (rev_chars : list ascii) : string := string_of_rev rev_chars EmptyString.

Inductive lex_end := LexEof | LexErr.

(* where the generator is: between tokens, inside a plain token, inside |...| (after a
   backslash), inside a string literal (with the parity of the quotes seen after the opening
   one), inside a comment.  Accumulators are reversed. *)
Inductive mode :=
| MTop
| MTok (acc : list ascii)
| MQuo (acc : list ascii)
| MQuoEsc (acc : list ascii)
| MStr (acc : list ascii) (odd : bool)
| MCom.

(* the outer loop on the current character [c] when no token is being accumulated *)
Definition top_step (c : ascii) : mode * option string :=
  if is_space c then (MTop, None)
  else if c =? c_bar then (MQuo [], None)
  else if c =? c_dq then (MStr [c] false, None)
  else if (c =? c_lp) || (c =? c_rp) then (MTop, Some (String c EmptyString))
  else if c =? c_semi then (MCom, None)
  else (MTok [c], None).

Definition emit (o : option string) (r : list string * lex_end) : list string * lex_end :=
  match o with Some t => (t :: fst r, snd r) | None => r end.

Fixpoint lex_go (m : mode) (cs : list ascii) {struct cs} : list string * lex_end :=
  match cs with
  | [] => ([], LexEof)
  | c :: r =>
      match m with
      | MTop => let (m', o) := top_step c in emit o (lex_go m' r)
      | MTok acc =>
          if is_special c
          then emit (Some (tok_of acc)) (let (m', o) := top_step c in emit o (lex_go m' r))
          else lex_go (MTok (c :: acc)) r
      | MQuo acc =>
          if c =? c_bar then emit (Some (tok_of acc)) (lex_go MTop r)
          else if c =? c_bs then lex_go (MQuoEsc acc) r
          else lex_go (MQuo (c :: acc)) r
      | MQuoEsc acc =>
          if (c =? c_bar) || (c =? c_bs) then lex_go (MQuo (c :: acc)) r
          else ([], LexErr)
      | MStr acc odd =>
          if negb (c =? c_dq) && odd
          then emit (Some (tok_of acc)) (let (m', o) := top_step c in emit o (lex_go m' r))
          else lex_go (MStr (c :: acc) (if c =? c_dq then negb odd else odd)) r
      | MCom => if c =? c_nl then lex_go MTop r else lex_go MCom r
      end
  end.

Definition lex (cs : list ascii) : list string * lex_end := lex_go MTop cs.
Definition lex_string (s : string) : list string * lex_end := lex (list_ascii_of_string s).

(* The same generator, with every token paired with the characters that follow it in the source.
   _enter_annotation reads a parenthesised attribute value with raw_read, i.e. directly from the
   character stream after the "(" token, counting parentheses on characters; the reader model needs
   the rest of the source after such a token to do the same (models/SmtParser.v, skip_raw). *)
Definition emit_src (o : option string) (rest : list ascii) (r : list (string * list ascii) * lex_end)
  : list (string * list ascii) * lex_end :=
  match o with Some t => ((t, rest) :: fst r, snd r) | None => r end.

Fixpoint lex_src_go (m : mode) (cs : list ascii) {struct cs} : list (string * list ascii) * lex_end :=
  match cs with
  | [] => ([], LexEof)
  | c :: r =>
      match m with
      | MTop => let (m', o) := top_step c in emit_src o r (lex_src_go m' r)
      | MTok acc =>
          if is_special c
          then emit_src (Some (tok_of acc)) r (let (m', o) := top_step c in emit_src o r (lex_src_go m' r))
          else lex_src_go (MTok (c :: acc)) r
      | MQuo acc =>
          if c =? c_bar then emit_src (Some (tok_of acc)) r (lex_src_go MTop r)
          else if c =? c_bs then lex_src_go (MQuoEsc acc) r
          else lex_src_go (MQuo (c :: acc)) r
      | MQuoEsc acc =>
          if (c =? c_bar) || (c =? c_bs) then lex_src_go (MQuo (c :: acc)) r
          else ([], LexErr)
      | MStr acc odd =>
          if negb (c =? c_dq) && odd
          then emit_src (Some (tok_of acc)) r (let (m', o) := top_step c in emit_src o r (lex_src_go m' r))
          else lex_src_go (MStr (c :: acc) (if c =? c_dq then negb odd else odd)) r
      | MCom => if c =? c_nl then lex_src_go MTop r else lex_src_go MCom r
      end
  end.
Definition lex_src (cs : list ascii) : list (string * list ascii) * lex_end := lex_src_go MTop cs.

(* raw_read until the parenthesis opened just before [cs] is closed: the characters after it;
   None = the stream ends first (StopIteration) *)
Fixpoint skip_raw (cs : list ascii) (depth : nat) : option (list ascii) :=
  match cs with
  | [] => None
  | c :: r =>
      if c =? c_lp then skip_raw r (S depth)
      else if c =? c_rp then match depth with O => Some r | S d => skip_raw r d end
      else skip_raw r depth
  end.
