(* Hand model (H) of pysmt/smtlib/script.py: smtlibscript_from_formula and SmtLibCommand.serialize
   (the commands a script made from a formula contains, plus the other argument-less / numeric
   ones).  The logic name is an input: which logic get_logic / get_closer_smtlib_logic pick is the
   subject of C13 (models/LogicSelect.v); here it is only written after set-logic.

   Order of the declarations: the code iterates over a list built from Python sets (sorts) and
   over a frozenset (free symbols); the model uses the order of models/Oracles.v and the
   correspondence compares the two declaration blocks as multisets. *)
From Coq Require Import List ZArith Bool String.
From PySMT.core Require Import Syntax SmtStd.
From PySMT.models Require Import TypeChecker Oracles SmtPrinter.
Import ListNotations.
Open Scope bool_scope.
Open Scope string_scope.

Inductive command : Type :=
| CSetLogic (l : string)
| CDeclareSort (name : string) (arity : nat)      (* args[0] = type_.decl *)
| CDeclareFun (name : string) (t : ty)
| CDeclareConst (name : string) (t : ty)
| CAssert (t : term)
| CCheckSat | CExit | CGetModel | CResetAssertions
| CPush (n : nat) | CPop (n : nat).

(* as_smtlib(funstyle=True) split into parameter list and result *)
Definition fun_params (t : ty) : list sexp := match t with TFun ps _ => map sort_sexp ps | _ => [] end.
Definition fun_result (t : ty) : sexp := match t with TFun _ r => sort_sexp r | _ => sort_sexp t end.

Definition nat_atom (n : nat) : sexp := Atom (dec_string (Z.of_nat n)).

(* SmtLibCommand.serialize with a tree (dag = false) or DAG (dag = true) printer *)
Definition serialize (dag : bool) (c : command) : sexp :=
  match c with
  | CSetLogic l => SList [Atom "set-logic"; Atom l]
  | CDeclareSort n k => SList [Atom "declare-sort"; Atom (quote n); nat_atom k]
  | CDeclareFun n t => SList [Atom "declare-fun"; Atom (quote n); SList (fun_params t); fun_result t]
  | CDeclareConst n t => SList [Atom "declare-const"; Atom (quote n); SList (fun_params t); fun_result t]
  | CAssert t => SList [Atom "assert"; if dag then print_dag t else print_tree t]
  | CCheckSat => SList [Atom "check-sat"]
  | CExit => SList [Atom "exit"]
  | CGetModel => SList [Atom "get-model"]
  | CResetAssertions => SList [Atom "reset-assertions"]
  | CPush n => SList [Atom "push"; nat_atom n]
  | CPop n => SList [Atom "pop"; nat_atom n]
  end.

(* TypesOracle.get_types(formula, custom_only=True): every custom sort INSTANCE reachable from the
   sorts of the formula's symbols, bound variables, constants, function signatures, of everything
   inside the arguments of function applications and of the index sort of array values:
   models/Oracles.v's get_types (C12: Oracles_proofs.get_types_def), filtered. *)
Definition is_custom (t : ty) : bool := match t with TUser _ _ => true | _ => false end.
Definition custom_types (t : term) : list ty := filter is_custom (get_types t).

(* one declare-sort per sort DECLARATION (name, arity): all instances of a parametric sort share it *)
Definition decl_eqb (a b : string * nat) : bool := String.eqb (fst a) (fst b) && Nat.eqb (snd a) (snd b).
Definition sort_decls (t : term) : list (string * nat) :=
  dedupe decl_eqb (map (fun ty => match ty with TUser n args => (n, List.length args) | _ => ("?", 0%nat) end)
                       (custom_types t)).

Definition script_from_formula (logic : string) (t : term) : list command :=
  [CSetLogic logic]
  ++ map (fun d => CDeclareSort (fst d) (snd d)) (sort_decls t)
  ++ map (fun v => CDeclareFun (fst v) (snd v)) (fv t)
  ++ [CAssert t; CCheckSat].

Definition script_of (dag : bool) (logic : string) (t : term) : list sexp :=
  map (serialize dag) (script_from_formula logic t).
