(* Hand model (H) of pysmt/smtlib/printers.py: SmtPrinter (tree) and SmtDagPrinter (let-DAG),
   pysmt/utils.py quote(), PySMTType.as_smtlib(funstyle=False).  Output: s-expressions whose
   atoms are the exact token texts (core/SmtStd.v : sexp); the correspondence check compares
   [flatten] of them token-for-token with the text pySMT writes.  Annotations are not modelled
   (printers are created without annotations by to_smtlib / serialize).

   Entry points:  [print_tree t], [print_dag t]  (and [sort_sexp], [quote]).

   DAG printer: FNode identity = structural equality of terms (hash-consing, C04), so the memo is
   keyed by [term_eqb].  The order of let-definitions follows walkers/dag.py's explicit stack:
   expanding a node pushes those children that are not memoised AT THAT MOMENT, and they are
   popped last-child-first; a quantifier is printed when it is popped as "not expanded" (also a
   second time if it was pushed twice before its first print), by a fresh printer for its body. *)
From Coq Require Import List ZArith Bool String Ascii.
From Coq Require Import DecimalString Decimal DecimalN.
From PySMT.core Require Import Syntax SmtStd.
From PySMT.models Require Import TypeChecker Oracles.
Import ListNotations.
Open Scope bool_scope.
Open Scope string_scope.

(* ------------------------------------------------------------------------- numbers *)
(* str(n) for n >= 0 *)
Definition dec_string (n : Z) : string := NilZero.string_of_uint (N.to_uint (Z.to_N n)).
(* str(n) for any int *)
Definition py_int_str (n : Z) : string :=
  if (n <? 0)%Z then String "-" (dec_string (- n)) else dec_string n.

(* '{0:0wb}'.format(v): w binary digits, most significant first (v >= 0; wider values are not
   truncated by Python, they are by this model: BV constants are range-checked by pySMT) *)
Fixpoint bits_string (w : nat) (v : Z) (acc : string) : string :=
  match w with
  | O => acc
  | S w' => bits_string w' (v / 2)%Z (String (if Z.odd v then "1"%char else "0"%char) acc)
  end.
Definition bv_string (w v : Z) : string := "#b" ++ bits_string (Z.to_nat w) v EmptyString.

(* ------------------------------------------------------------------------- quote() *)
(* _simple_symbol_prog = ^[~!@$%^&*_\-+=<>.?/A-Za-z][~!@$%^&*_\-+=<>.?/A-Za-z0-9]*$ with re.match:
   `$` also matches before a trailing newline *)
Fixpoint strip_final_newline (s : string) : string :=
  match s with
  | EmptyString => EmptyString
  | String c EmptyString => if Ascii.eqb c (ascii_of_nat 10) then EmptyString else s
  | String c r => String c (strip_final_newline r)
  end.
Definition py_simple_symbol (s : string) : bool :=
  match strip_final_newline s with
  | EmptyString => false
  | String c r => is_symchar c && negb (is_digit_c c) && str_forall is_symchar r
  end.
Fixpoint escape_quoted (s : string) : string :=
  match s with
  | EmptyString => EmptyString
  | String c r => if Ascii.eqb c "\" then String "\" (String "\" (escape_quoted r))
                  else if Ascii.eqb c "|" then String "\" (String "|" (escape_quoted r))
                  else String c (escape_quoted r)
  end.
Definition quote (name : string) : string :=
  if mem_str name ["Int"; "Real"; "Bool"] || negb (py_simple_symbol name)
  then "|" ++ escape_quoted name ++ "|"
  else name.

(* ------------------------------------------------------------------------- sorts *)
Fixpoint sort_sexp (t : ty) : sexp :=
  match t with
  | TBool => Atom "Bool" | TInt => Atom "Int" | TReal => Atom "Real" | TStr => Atom "String"
  | TBV w => SList [Atom "_"; Atom "BitVec"; Atom (py_int_str w)]
  | TArr i e => SList [Atom "Array"; sort_sexp i; sort_sexp e]
  | TUser n [] => Atom (quote n)                          (* custom sorts: quote(basename) *)
  | TUser n args => SList (Atom (quote n) :: map sort_sexp args)
  | TFun ps r => SList (map sort_sexp ps ++ [Atom "->"; sort_sexp r])   (* " -> ".join: never a term sort *)
  end.

(* ------------------------------------------------------------------------- constants *)
Definition int_const (n : Z) : sexp :=
  if (n <? 0)%Z then SList [Atom "-"; Atom (dec_string (- n))] else Atom (dec_string n).
Definition real_const (n d : Z) : sexp :=
  let body := if (d =? 1)%Z then Atom (dec_string (Z.abs n) ++ ".0")
              else SList [Atom "/"; Atom (dec_string (Z.abs n) ++ ".0"); Atom (dec_string d ++ ".0")] in
  if (n <? 0)%Z then SList [Atom "-"; body] else body.
(* string constant: the value between double quotes, each double quote inside written twice;
   code points above 127 are written as UTF-8 *)
Definition utf8 (c : Z) : list ascii :=
  let b (x : Z) := ascii_of_N (Z.to_N x) in
  if (c <? 128)%Z then [b c]
  else if (c <? 2048)%Z then [b (192 + c / 64); b (128 + c mod 64)]%Z
  else if (c <? 65536)%Z then [b (224 + c / 4096); b (128 + (c / 64) mod 64); b (128 + c mod 64)]%Z
  else [b (240 + c / 262144); b (128 + (c / 4096) mod 64); b (128 + (c / 64) mod 64); b (128 + c mod 64)]%Z.
Fixpoint str_body (s : list Z) : string :=
  match s with
  | [] => """"
  | c :: r => if (c =? 34)%Z then String """" (String """" (str_body r))
              else fold_right String (str_body r) (utf8 c)
  end.
Definition str_const (s : list Z) : sexp := Atom (String """" (str_body s)).

(* ------------------------------------------------------------------------- operator spellings *)
Definition bvop_name (k : bvop) : string :=
  match k with
  | BNot => "bvnot" | BAnd => "bvand" | BOr => "bvor" | BXor => "bvxor" | BConcat => "concat"
  | BNeg => "bvneg" | BAdd => "bvadd" | BSub => "bvsub" | BMul => "bvmul" | BUdiv => "bvudiv"
  | BUrem => "bvurem" | BLshl => "bvshl" | BLshr => "bvlshr" | BComp => "bvcomp" | BSdiv => "bvsdiv"
  | BSrem => "bvsrem" | BAshr => "bvashr"
  end.
Definition bvrel_name (k : bvrel) : string :=
  match k with BUlt => "bvult" | BUle => "bvule" | BSlt => "bvslt" | BSle => "bvsle" end.
Definition strop_name (k : strop) : string :=
  match k with
  | SLength => "str.len" | SConcat => "str.++" | SContains => "str.contains" | SIndexOf => "str.indexof"
  | SReplace => "str.replace" | SSubstr => "str.substr" | SPrefixOf => "str.prefixof"
  | SSuffixOf => "str.suffixof" | SToInt => "str.to_int" | SFromInt => "str.from_int" | SCharAt => "str.at"
  end.

(* head of the application written for operator o (walk_nary's `operator`, or the indexed
   identifier); None for leaves, quantifiers and array values.  ODiv: see [term_sexp] - the head
   is "div" when the node has type Int *)
Definition op_head (o : op) : option sexp :=
  match o with
  | OAnd => Some (Atom "and") | OOr => Some (Atom "or") | ONot => Some (Atom "not")
  | OImplies => Some (Atom "=>") | OIff => Some (Atom "=") | OPlus => Some (Atom "+")
  | OMinus => Some (Atom "-") | OTimes => Some (Atom "*") | OEquals => Some (Atom "=")
  | OLe => Some (Atom "<=") | OLt => Some (Atom "<") | OIte => Some (Atom "ite")
  | OToReal => Some (Atom "to_real") | ODiv => Some (Atom "/") | OPow => Some (Atom "pow")
  | OBV k _ => Some (Atom (bvop_name k)) | OBVRel k => Some (Atom (bvrel_name k))
  | OBVToNat => Some (Atom "bv2nat") | OSelect => Some (Atom "select") | OStore => Some (Atom "store")
  | OFunction n _ => Some (Atom (quote n))
  | OBVExtract _ s e => Some (SList [Atom "_"; Atom "extract"; Atom (py_int_str e); Atom (py_int_str s)])
  | OBVRol _ k => Some (SList [Atom "_"; Atom "rotate_left"; Atom (py_int_str k)])
  | OBVRor _ k => Some (SList [Atom "_"; Atom "rotate_right"; Atom (py_int_str k)])
  | OBVZext _ k => Some (SList [Atom "_"; Atom "zero_extend"; Atom (py_int_str k)])
  | OBVSext _ k => Some (SList [Atom "_"; Atom "sign_extend"; Atom (py_int_str k)])
  | OStr k => Some (Atom (strop_name k))
  | _ => None
  end.

Definition leaf_sexp (o : op) : sexp :=
  match o with
  | OSymbol n _ => Atom (quote n)
  | OIntC z => int_const z
  | ORealC n d => real_const n d
  | OBoolC b => Atom (if b then "true" else "false")
  | OBVC v w => Atom (bv_string w v)
  | OStrC s => str_const s
  | _ => Atom "?"
  end.

(* text of a non-quantifier, non-array-value node from the texts of its arguments *)
Definition node_sexp (o : op) (args : list sexp) : sexp :=
  match op_head o with
  | Some h => SList (h :: args)
  | None => leaf_sexp o
  end.

(* walk_div: "div" when the Div node has type Int (formula.get_type()), "/" otherwise *)
Definition div_name (t : term) : string :=
  match tc t with Some TInt => "div" | _ => "/" end.
(* text of a non-quantifier, non-array-value node t from the texts of its arguments *)
Definition term_sexp (t : term) (args : list sexp) : sexp :=
  match t with
  | T ODiv _ => SList (Atom (div_name t) :: args)
  | T o _ => node_sexp o args
  end.

Definition binder (v : var) : sexp := SList [Atom (quote (fst v)); sort_sexp (snd v)].
Definition quant_sexp (q : string) (vs : list var) (body : sexp) : sexp :=
  SList [Atom q; SList (map binder vs); body].

(* ((as const T) d) wrapped in one store per (index, value) pair, first pair innermost *)
Definition const_array (t : ty) (d : sexp) : sexp :=
  SList [SList [Atom "as"; Atom "const"; sort_sexp t]; d].
Fixpoint store_chain (base : sexp) (pairs : list (sexp * sexp)) : sexp :=
  match pairs with
  | [] => base
  | (k, v) :: r => store_chain (SList [Atom "store"; base; k; v]) r
  end.
Fixpoint pairs_of {A} (l : list A) : list (A * A) :=
  match l with
  | k :: v :: r => (k, v) :: pairs_of r
  | _ => []
  end.
(* formula.get_type() of an array value: Array(index type, type of the default) *)
Definition array_value_type (it : ty) (d : term) : ty :=
  match tc d with Some e => TArr it e | None => TArr it TBool end.

(* ------------------------------------------------------------------------- str(k) of a constant *)
(* HRPrinter text of a constant as code points: the tree printer orders array assignments by it *)
Definition codes (s : string) : list Z := map (fun c => Z.of_nat (nat_of_ascii c)) (list_ascii_of_string s).
Definition hr_const (t : term) : list Z :=
  match t with
  | T (OIntC z) _ => codes (py_int_str z)
  | T (ORealC n d) _ => if (d =? 1)%Z then codes (py_int_str n ++ ".0")
                        else codes (py_int_str n ++ "/" ++ py_int_str d)
  | T (OBoolC b) _ => codes (if b then "True" else "False")
  | T (OBVC v w) _ => codes (py_int_str v ++ "_" ++ py_int_str w)
  | T (OStrC s) _ => (34 :: flat_map (fun c => if (c =? 34)%Z then [34; 34] else [c]) s ++ [34])%Z
  | _ => []
  end.
Fixpoint codes_ltb (a b : list Z) : bool :=       (* Python str < *)
  match a, b with
  | [], _ :: _ => true
  | x :: a', y :: b' => (x <? y)%Z || ((x =? y)%Z && codes_ltb a' b')
  | _, _ => false
  end.
(* sorted(..., key=str): stable insertion sort *)
Fixpoint insert_by {A} (k : list Z) (x : A) (l : list (list Z * A)) : list (list Z * A) :=
  match l with
  | [] => [(k, x)]
  | (k', y) :: r => if codes_ltb k k' then (k, x) :: l else (k', y) :: insert_by k x r
  end.
Definition sort_by_key {A} (l : list (list Z * A)) : list (list Z * A) :=
  fold_left (fun acc kx => insert_by (fst kx) (snd kx) acc) l [].

(* ------------------------------------------------------------------------- SmtPrinter (tree) *)
Fixpoint print_tree (t : term) : sexp :=
  match t with
  | T o args =>
      let ps := map print_tree args in
      match o with
      | OForall vs => match ps with [b] => quant_sexp "forall" vs b | _ => Atom "?" end
      | OExists vs => match ps with [b] => quant_sexp "exists" vs b | _ => Atom "?" end
      | OArrayValue it =>
          match args, ps with
          | d :: assigns, pd :: pa =>
              let keyed := combine (map (fun kv => hr_const (fst kv)) (pairs_of assigns)) (pairs_of pa) in
              store_chain (const_array (array_value_type it d) pd) (map snd (sort_by_key keyed))
          | _, _ => Atom "?"
          end
      | _ => term_sexp t ps
      end
  end.

(* ------------------------------------------------------------------------- SmtDagPrinter *)
Record dst : Type := {
  d_memo : list (term * sexp);          (* memoization, newest entry first *)
  d_seed : nat;                         (* name_seed *)
  d_lets : list (string * sexp)         (* the (let ((name text))) written so far, newest first *)
}.
Definition dst0 : dst := {| d_memo := []; d_seed := 0; d_lets := [] |}.

Fixpoint memo_get (t : term) (m : list (term * sexp)) : option sexp :=
  match m with
  | [] => None
  | (k, v) :: r => if term_eqb t k then Some v else memo_get t r
  end.
Definition memo_has (t : term) (m : list (term * sexp)) : bool :=
  match memo_get t m with Some _ => true | None => false end.

Definition def_name (k : nat) : string := ".def_" ++ dec_string (Z.of_nat k).
(* while (template % seed) in names: seed += 1 *)
Fixpoint skip_used (fuel : nat) (names : list string) (seed : nat) : nat :=
  match fuel with
  | O => seed
  | S f => if mem_str (def_name seed) names then skip_used f names (S seed) else seed
  end.
Definition new_symbol (names : list string) (seed : nat) : string * nat :=
  let k := skip_used (S (List.length names)) names seed in (def_name k, S k).

(* does walk_<o> write a let (true) or return its text inline (false)? *)
Definition dag_inline (o : op) : bool :=
  match o with
  | OSymbol _ _ | OIntC _ | ORealC _ _ | OBoolC _ | OBVC _ _ | OStrC _ => true
  | OStr SConcat => false
  | OStr _ => true
  | _ => false
  end.

Definition add_let (names : list string) (st : dst) (t : term) (text : sexp) : dst :=
  let '(sym, seed') := new_symbol names (d_seed st) in
  {| d_memo := (t, Atom sym) :: d_memo st; d_seed := seed'; d_lets := (sym, text) :: d_lets st |}.

(* (let ((n1 t1)) (let ((n2 t2)) ... key)) *)
Definition wrap_lets (lets_newest_first : list (string * sexp)) (key : sexp) : sexp :=
  fold_left (fun body nt => SList [Atom "let"; SList [SList [Atom (fst nt); snd nt]]; body])
            lets_newest_first key.

Definition names_of (t : term) : list string := map (fun v => quote (fst v)) (fv t).

(* _compute_node_result for a non-quantifier node whose children are memoised *)
Definition dag_compute (names : list string) (st : dst) (t : term) : dst :=
  match t with
  | T o args =>
      if memo_has t (d_memo st) then st else
      let rs := map (fun c => match memo_get c (d_memo st) with Some r => r | None => Atom "?" end) args in
      match o with
      | OArrayValue it =>
          match args, rs with
          | d :: _, rd :: ra =>
              add_let names st t (store_chain (const_array (array_value_type it d) rd) (pairs_of ra))
          | _, _ => st
          end
      | _ =>
          if dag_inline o then
            {| d_memo := (t, term_sexp t rs) :: d_memo st; d_seed := d_seed st; d_lets := d_lets st |}
          else add_let names st t (term_sexp t rs)
      end
  end.

(* popping (False, t) and everything it pushes, until the stack is back to where it was *)
Fixpoint dag_visit (names : list string) (t : term) (st : dst) {struct t} : dst :=
  match t with
  | T o args =>
      let quant (q : string) (vs : list var) :=
          match args with
          | [b] =>
              (* subprinter = SmtDagPrinter(self.stream); subprinter.printer(formula.arg(0)) *)
              let sub := dag_visit (names_of b) b dst0 in
              let key := match memo_get b (d_memo sub) with Some r => r | None => Atom "?" end in
              add_let names st t (quant_sexp q vs (wrap_lets (d_lets sub) key))
          | _ => st
          end in
      match o with
      | OForall vs => quant "forall" vs
      | OExists vs => quant "exists" vs
      | _ =>
          if memo_has t (d_memo st) then st else
          let m0 := d_memo st in
          let st' := (fix go (l : list term) : dst :=
                        match l with
                        | [] => st
                        | c :: r => let s := go r in
                                    if memo_has c m0 then s else dag_visit names c s
                        end) args in
          dag_compute names st' t
      end
  end.

(* SmtDagPrinter.printer(f) *)
Definition print_dag (t : term) : sexp :=
  let st := dag_visit (names_of t) t dst0 in
  wrap_lets (d_lets st) (match memo_get t (d_memo st) with Some r => r | None => Atom "?" end).
