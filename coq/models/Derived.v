(* Hand model (H) of the DERIVED constructors of pysmt.formula.FormulaManager (the ones that are
   rewritten into core operators at construction time), of pysmt.shortcuts.Abs, and of the infix
   notation of pysmt.fnode.FNode (operators and named methods; infix notation enabled).
   Quirks are kept.  [None] = the call raises.

   The type check that [create_node] runs on every node it builds is NOT repeated inside the
   [mk_*] functions: every node a derived constructor builds is a sub-term of its result (or the
   constructor raises), and [tc] fails as soon as one sub-term fails, so "some create_node call
   raised PysmtTypeError" = "[tc] of the result is None".  [checked] applies that final check; the
   correspondence (harness/c06.py) compares [checked (model call)] with the implementation.

   Anchors: pysmt/formula.py 296-314, 496-598, 652-689, 697-811, 825-841, 916-995;
   pysmt/shortcuts.py 251-273; pysmt/fnode.py 686-961. *)
From Coq Require Import List ZArith Bool String.
From PySMT.core Require Import Syntax PyPrims.
From PySMT.models Require Import TypeChecker Ctors.
Import ListNotations.
Open Scope bool_scope.
Open Scope Z_scope.

Definition checked (r : option term) : option term :=
  match r with
  | Some t => match tc t with Some _ => Some t | None => None end
  | None => None
  end.

Definition obind {A B} (o : option A) (f : A -> option B) : option B :=
  match o with Some x => f x | None => None end.

(* ---------------------------------------------------------------- arithmetic / Boolean *)
(* NotEquals: Not(Equals(l, r)) *)
Definition mk_neq (a b : term) : term := mk_not (mk_equals a b).
(* GE / GT: create_node(LE / LT, (right, left)) *)
Definition mk_ge (a b : term) : term := mk_le b a.
Definition mk_gt (a b : term) : term := mk_lt b a.
(* Xor: Not(Iff(l, r)) *)
Definition mk_xor (a b : term) : term := mk_not (mk_iff a b).
(* EqualsOrIff: Iff when the LEFT operand is Boolean, else Equals *)
Definition mk_equals_or_iff (a b : term) : term :=
  match tc a with Some TBool => mk_iff a b | _ => mk_equals a b end.

(* AtMostOne: for (i, elem) in enumerate(exprs[:-1], start=1):
                 constraints.append(Implies(elem, Not(Or(exprs[i:]))));  And(constraints) *)
Fixpoint amo_constraints (l : list term) : list term :=
  match l with
  | [] => []
  | x :: r => match r with
              | [] => []
              | _ :: _ => mk_implies x (mk_not (mk_or r)) :: amo_constraints r
              end
  end.
Definition mk_at_most_one (l : list term) : term := mk_and (amo_constraints l).
(* ExactlyOne: And(Or(args...), AtMostOne(args...)) - a binary And node, whatever the arity *)
Definition mk_exactly_one (l : list term) : term := mk_and [mk_or l; mk_at_most_one l].
(* AllDifferent: for i, a in enumerate(exprs): for b in exprs[i+1:]: Not(EqualsOrIff(a, b)) *)
Fixpoint alldiff_constraints (l : list term) : list term :=
  match l with
  | [] => []
  | a :: r => map (fun b => mk_not (mk_equals_or_iff a b)) r ++ alldiff_constraints r
  end.
Definition mk_all_different (l : list term) : term := mk_and (alldiff_constraints l).

(* _MinWrap / _MaxWrap(le, exprs): 1 -> the expression; 2 -> Ite(le(a, b), a, b) (Max: b, a);
   otherwise h = len // 2 and the wrap of the wraps of exprs[0:h] and exprs[h:].
   AssertionError on no argument.  The recursion is on the length: fuel = length suffices. *)
Fixpoint wrap_fuel (fuel : nat) (ismin : bool) (le : term -> term -> term) (l : list term)
  : option term :=
  match fuel with
  | O => None
  | S f =>
      let pick a b := if ismin then mk_ite (le a b) a b else mk_ite (le a b) b a in
      match l with
      | [] => None
      | [x] => Some x
      | [a; b] => Some (pick a b)
      | _ => let h := Nat.div2 (List.length l) in
             match wrap_fuel f ismin le (firstn h l), wrap_fuel f ismin le (skipn h l) with
             | Some a, Some b => Some (pick a b)
             | _, _ => None
             end
      end
  end.
Definition min_wrap (le : term -> term -> term) (l : list term) : option term :=
  wrap_fuel (List.length l) true le l.
Definition max_wrap (le : term -> term -> term) (l : list term) : option term :=
  wrap_fuel (List.length l) false le l.
Definition mk_min (l : list term) : option term := min_wrap mk_le l.
Definition mk_max (l : list term) : option term := max_wrap mk_le l.
Definition bv_le (sign : bool) : term -> term -> term := mk_bvrel (if sign then BSle else BUle).
Definition mk_minbv (sign : bool) (l : list term) : option term := min_wrap (bv_le sign) l.
Definition mk_maxbv (sign : bool) (l : list term) : option term := max_wrap (bv_le sign) l.

(* shortcuts.Abs: Ite(GT(f, zero), f, Minus(zero, f)) with zero = Int(0) / Real(0) by the type
   of f; ValueError for any other type *)
Definition mk_abs (f : term) : option term :=
  match tc f with
  | Some TInt => let z := mk_int 0 in Some (mk_ite (mk_gt f z) f (mk_minus z f))
  | Some TReal => let z := mk_real (0, 1) in Some (mk_ite (mk_gt f z) f (mk_minus z f))
  | _ => None
  end.

(* ---------------------------------------------------------------- bit-vector constants *)
(* SBV(value:int, width): range check against [-2^(w-1), 2^(w-1)-1], then BV(value) or
   BV(2^w + value).  (For width <= 0 Python computes 2**(width-1) as a float and every value is
   out of range; Z.pow of a negative exponent is 0, which rejects every value too.) *)
Definition mk_sbv (v w : Z) : option term :=
  let min_val := - 2 ^ (w - 1) in
  let max_val := 2 ^ (w - 1) - 1 in
  if v <? min_val then None
  else if max_val <? v then None
  else if 0 <=? v then mk_bv v w else mk_bv (2 ^ w + v) w.
Definition mk_bvone (w : Z) : option term := mk_bv 1 w.

(* ---------------------------------------------------------------- bit-vector operators *)
(* BVAnd / BVOr / BVAdd / BVMul(args...): left-nested binary nodes, payload = width of the
   accumulated term; PysmtValueError on no argument; one argument is returned unchanged *)
Definition mk_bvnary (k : bvop) (l : list term) : option term :=
  match l with
  | [] => None
  | x :: r => Some (fold_left (fun res a => mk_bvop k res a) r x)
  end.
Definition mk_bvand_n := mk_bvnary BAnd.
Definition mk_bvor_n := mk_bvnary BOr.
Definition mk_bvadd_n := mk_bvnary BAdd.
Definition mk_bvmul_n := mk_bvnary BMul.
(* BVConcat(args...): ex[0], ex[1] are required (IndexError), the rest is folded to the left *)
Definition mk_bvconcat_n (l : list term) : option term :=
  match l with
  | a :: b :: r => Some (fold_left mk_bvconcat r (mk_bvconcat a b))
  | _ => None
  end.
(* BVUGT / BVUGE / BVSGT / BVSGE: the flipped ULT / ULE / SLT / SLE *)
Definition mk_bvugt (a b : term) : term := mk_bvrel BUlt b a.
Definition mk_bvuge (a b : term) : term := mk_bvrel BUle b a.
Definition mk_bvsgt (a b : term) : term := mk_bvrel BSlt b a.
Definition mk_bvsge (a b : term) : term := mk_bvrel BSle b a.
(* BVNand / BVNor / BVXnor: BVNot of the binary node *)
Definition mk_bvnand (a b : term) : term := mk_bvun BNot (mk_bvop BAnd a b).
Definition mk_bvnor (a b : term) : term := mk_bvun BNot (mk_bvop BOr a b).
Definition mk_bvxnor (a b : term) : term := mk_bvun BNot (mk_bvop BXor a b).
(* BVLShl / BVLShr / BVAShr(left, right:int): right = BV(right, left.bv_width()) *)
Definition mk_bvshift_int (k : bvop) (a : term) (n : Z) : option term :=
  obind (mk_bv n (bv_width a)) (fun c => Some (mk_bvop k a c)).
Definition mk_bvshl_int := mk_bvshift_int BLshl.
Definition mk_bvlshr_int := mk_bvshift_int BLshr.
Definition mk_bvashr_int := mk_bvshift_int BAshr.
(* BVRepeat(formula, count): PysmtValueError unless count is an integer >= 1; PysmtTypeError
   unless the operand is a bit-vector (get_type, also for count = 1 where no node is built); then
   res = formula; for _ in range(count - 1): res = BVConcat(res, formula) *)
Definition mk_bvrepeat (f : term) (count : Z) : option term :=
  if count <? 1 then None
  else match tc f with
       | Some (TBV _) => Some (Nat.iter (Z.to_nat (count - 1)) (fun res => mk_bvconcat res f) f)
       | _ => None
       end.

(* BVSMod(left, right): the SMT-LIB definition spelled out with m = left.bv_width() *)
Definition mk_bvsmod (s t : term) : option term :=
  let m := bv_width s in
  let zero_1 := TBVC 0 1 in
  let one_1 := TBVC 1 1 in
  obind (mk_bvextract s (m - 1) (Some (m - 1))) (fun msb_s =>
  obind (mk_bvextract t (m - 1) (Some (m - 1))) (fun msb_t =>
  let abs_s := mk_ite (mk_equals msb_s zero_1) s (mk_bvun BNeg s) in
  let abs_t := mk_ite (mk_equals msb_t zero_1) t (mk_bvun BNeg t) in
  let u := mk_bvop BUrem abs_s abs_t in
  obind (mk_bv 0 m) (fun zero_m =>
  let cond1 := mk_equals u zero_m in
  let cond2 := mk_and [mk_equals msb_s zero_1; mk_equals msb_t zero_1] in
  let cond3 := mk_and [mk_equals msb_s one_1; mk_equals msb_t zero_1] in
  let cond4 := mk_and [mk_equals msb_s zero_1; mk_equals msb_t one_1] in
  let case3 := mk_bvop BAdd (mk_bvun BNeg u) t in
  let case4 := mk_bvop BAdd u t in
  let case5 := mk_bvun BNeg u in
  Some (mk_ite (mk_or [cond1; cond2]) u (mk_ite cond3 case3 (mk_ite cond4 case4 case5)))))).

(* ---------------------------------------------------------------- infix notation *)
(* the right operand of an infix form: a formula or a Python literal (int, bool, Fraction/float
   given as the exact rational n/d) *)
Inductive operand := OpT (t : term) | OpInt (z : Z) | OpBool (b : bool) | OpFrac (n d : Z).

(* FNode._infix_prepare_arg(arg, expected_type): formulas pass; a literal is promoted by
   BV(arg, width) / Bool(arg) / Int(arg) / Real(arg) according to the EXPECTED type (that of
   the left operand); those constructors reject literals of the wrong Python type
   (bool is not an int for them).  Any other expected type: PysmtValueError.
   Not modelled: the constant caches are dictionaries keyed by the Python value, so Int(True) /
   Int(Fraction(2)) succeed when Int(1) / Int(2) was created earlier in the same environment
   (history dependence: property C14/C04); the model describes a cache without such a hit. *)
Definition prepare_arg (r : operand) (expected : ty) : option term :=
  match r with
  | OpT t => Some t
  | _ =>
      match expected with
      | TBV w => match r with OpInt z => mk_bv z w | _ => None end
      | TBool => match r with OpBool b => Some (mk_bool b) | _ => None end
      | TInt => match r with OpInt z => Some (mk_int z) | _ => None end
      | TReal => match r with
                 | OpInt z => Some (mk_real (z, 1))
                 | OpFrac n d => Some (mk_real (n, d))
                 | _ => None
                 end
      | _ => None
      end
  end.

(* the binary FormulaManager constructors reachable from the infix forms *)
Inductive ctor2 :=
| CImplies | CIff | CEquals | CNotEquals | CAnd | COr | CXor
| CPlus | CMinus | CTimes | CDiv | CGT | CGE | CLT | CLE
| CBV (k : bvop) | CBVRel (k : bvrel)
| CBVUGT | CBVUGE | CBVSGT | CBVSGE | CBVNand | CBVNor | CBVXnor | CBVSMod.

Definition apply_ctor2 (c : ctor2) (a b : term) : option term :=
  match c with
  | CImplies => Some (mk_implies a b)
  | CIff => Some (mk_iff a b)
  | CEquals => Some (mk_equals a b)
  | CNotEquals => Some (mk_neq a b)
  | CAnd => Some (mk_and [a; b])
  | COr => Some (mk_or [a; b])
  | CXor => Some (mk_xor a b)
  | CPlus => mk_plus [a; b]
  | CMinus => Some (mk_minus a b)
  | CTimes => mk_times [a; b]
  | CDiv => mk_div a b
  | CGT => Some (mk_gt a b)
  | CGE => Some (mk_ge a b)
  | CLT => Some (mk_lt a b)
  | CLE => Some (mk_le a b)
  | CBV BNot | CBV BNeg => None                       (* unary: not a binary method *)
  | CBV BConcat => mk_bvconcat_n [a; b]
  | CBV BComp => Some (mk_bvcomp a b)
  | CBV BAnd => mk_bvand_n [a; b]
  | CBV BOr => mk_bvor_n [a; b]
  | CBV BAdd => mk_bvadd_n [a; b]
  | CBV BMul => mk_bvmul_n [a; b]
  | CBV k => Some (mk_bvop k a b)
  | CBVRel k => Some (mk_bvrel k a b)
  | CBVUGT => Some (mk_bvugt a b)
  | CBVUGE => Some (mk_bvuge a b)
  | CBVSGT => Some (mk_bvsgt a b)
  | CBVSGE => Some (mk_bvsge a b)
  | CBVNand => Some (mk_bvnand a b)
  | CBVNor => Some (mk_bvnor a b)
  | CBVXnor => Some (mk_bvxnor a b)
  | CBVSMod => mk_bvsmod a b
  end.

(* FNode._apply_infix(right, function, bv_function): promote the right operand to the type of
   self, then bv_function if self is a bit-vector, else function (None: calling None raises) *)
Definition apply_infix (self : term) (r : operand) (f bvf : option ctor2) : option term :=
  obind (tc self) (fun ts =>
  obind (prepare_arg r ts) (fun r' =>
  obind (if is_bv ts then bvf else f) (fun c => apply_ctor2 c self r'))).

(* the Python operators that go through _apply_infix: (function, bv_function) *)
Inductive pyop := PAdd | PRadd | PSub | PMul | PRmul | PDiv | PGt | PGe | PLt | PLe
                | PAnd | PRand | POr | PRor | PXor | PRxor | PLshift | PRshift | PMod.
Definition pyop_funs (o : pyop) : option ctor2 * option ctor2 :=
  match o with
  | PAdd | PRadd => (Some CPlus, Some (CBV BAdd))
  | PSub => (Some CMinus, Some (CBV BSub))
  | PMul | PRmul => (Some CTimes, Some (CBV BMul))
  | PDiv => (Some CDiv, Some (CBV BUdiv))
  | PGt => (Some CGT, Some CBVUGT)
  | PGe => (Some CGE, Some CBVUGE)
  | PLt => (Some CLT, Some (CBVRel BUlt))
  | PLe => (Some CLE, Some (CBVRel BUle))
  | PAnd | PRand => (Some CAnd, Some (CBV BAnd))
  | POr | PRor => (Some COr, Some (CBV BOr))
  | PXor | PRxor => (Some CXor, Some (CBV BXor))
  | PLshift => (None, Some (CBV BLshl))
  | PRshift => (None, Some (CBV BLshr))
  | PMod => (None, Some (CBV BUrem))
  end.

(* __neg__: BVNeg(self) on bit-vectors, else self._apply_infix(-1, Times) *)
Definition infix_neg (self : term) : option term :=
  obind (tc self) (fun ts =>
  if is_bv ts then Some (mk_bvun BNeg self)
  else apply_infix self (OpInt (-1)) (Some CTimes) (Some CTimes)).
(* __invert__: BVNot(self) on bit-vectors, else Not(self) *)
Definition infix_invert (self : term) : option term :=
  obind (tc self) (fun ts => if is_bv ts then Some (mk_bvun BNot self) else Some (mk_not self)).

(* __rsub__(self, left)  [left - self]:
   bit-vectors: an int literal becomes BV(left, self.bv_width()); assert it is a formula;
                left._apply_infix(self, BVSub)  (BVSub whatever the type of left);
   otherwise:   (-self)._apply_infix(left, Plus) *)
Definition infix_rsub (self : term) (left : operand) : option term :=
  obind (tc self) (fun ts =>
  if is_bv ts then
    obind (match left with
           | OpT t => Some t
           | OpInt z => mk_bv z (bv_width self)
           | _ => None
           end) (fun l' => apply_infix l' (OpT self) (Some (CBV BSub)) (Some (CBV BSub)))
  else obind (infix_neg self) (fun ms => apply_infix ms left (Some CPlus) (Some CPlus))).

(* all binary infix forms: Python operators, __rsub__, and the named methods
   (x.Implies(y), x.BVSGE(y), ...: function = bv_function = the constructor of that name) *)
Inductive infix_op := IPy (o : pyop) | IRsub | IMeth (c : ctor2).
Definition infix (self : term) (o : infix_op) (r : operand) : option term :=
  match o with
  | IPy p => let (f, bvf) := pyop_funs p in apply_infix self r f bvf
  | IRsub => infix_rsub self r
  | IMeth c => apply_infix self r (Some c) (Some c)
  end.

(* __getitem__: x[i] = BVExtract(x, i, i); x[a:b] = BVExtract(x, a or 0, b) - the END IS
   INCLUSIVE, an omitted end is the last bit, the step is ignored; bit-vectors only *)
Inductive index := IdxPoint (i : Z) | IdxSlice (start stop : option Z).
Definition infix_getitem (self : term) (idx : index) : option term :=
  let '(s, e) := match idx with
                 | IdxPoint i => (i, Some i)
                 | IdxSlice a b => (match a with Some x => x | None => 0 end, b)
                 end in
  obind (tc self) (fun ts => if is_bv ts then mk_bvextract self s e else None).

(* __call__: only a symbol of function type; arity check, promotion of every literal to the
   declared parameter type, then Function(self, args) *)
Fixpoint prepare_args (l : list operand) (ps : list ty) : option (list term) :=
  match l, ps with
  | [], _ | _, [] => Some []                                   (* zip *)
  | x :: l', p :: ps' =>
      obind (prepare_arg x p) (fun x' => obind (prepare_args l' ps') (fun r => Some (x' :: r)))
  end.
Definition infix_call (self : term) (args : list operand) : option term :=
  match self with
  | T (OSymbol n (TFun ps r)) [] =>
      if Nat.eqb (List.length ps) (List.length args)
      then obind (prepare_args args ps) (fun a => mk_function n (TFun ps r) a)
      else None
  | _ => None
  end.

(* x.Ite(then_, else_): both must be formulas (PysmtModeError otherwise) *)
Definition infix_ite (self : term) (a b : operand) : option term :=
  match a, b with
  | OpT x, OpT y => Some (mk_ite self x y)
  | _, _ => None
  end.
