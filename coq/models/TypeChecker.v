(* Hand model (H) of pysmt.type_checker.SimpleTypeChecker: one local rule per walk_* method,
   applied bottom-up.  [None] = the check fails (the code returns None -> PysmtTypeError, or
   raises another exception such as AttributeError/IndexError/ValueError on that shape). *)
From Coq Require Import List ZArith Bool String.
From PySMT.core Require Import Syntax.
Import ListNotations.
Open Scope bool_scope.
Open Scope Z_scope.

Definition is_bv (t : ty) : bool := match t with TBV _ => true | _ => false end.
Definition bv_w (t : ty) : option Z := match t with TBV w => Some w | _ => None end.

(* walk_type_to_type *)
Definition type_to_type (args : list ty) (tin tout : ty) : option ty :=
  if forallb (fun x => ty_eqb x tin) args then Some tout else None.

(* walk_bv_to_bool: width of args[0] (AttributeError unless BV), all others BV of that width *)
Definition bv_to_bool (args : list ty) : option ty :=
  match args with
  | TBV w :: rest => if forallb (fun a => match a with TBV w' => Z.eqb w w' | _ => false end) rest
                     then Some TBool else None
  | _ => None
  end.

(* even/odd positions of the assignments of an array value: index, value, index, value ... *)
Fixpoint array_value_ok (idx dflt : ty) (l : list ty) (even : bool) : bool :=
  match l with
  | [] => true
  | c :: r => (if even then ty_eqb c idx else ty_eqb c dflt) && array_value_ok idx dflt r (negb even)
  end.

Definition tc_rule (o : op) (args : list ty) : option ty :=
  match o with
  | OAnd | OOr | ONot | OImplies | OIff => type_to_type args TBool TBool
  | OToReal => type_to_type args TInt TReal
  | OPlus | OMinus | OTimes | ODiv =>
      match type_to_type args TReal TReal with
      | Some t => Some t
      | None => type_to_type args TInt TInt
      end
  | OBV BConcat w =>
      match args with
      | TBV l :: TBV r :: _ => if Z.eqb (l + r) w then Some (TBV w) else None
      | _ => None
      end
  | OBV BComp _ =>
      match args with
      | [a; b] => if ty_eqb a b && is_bv a then Some (TBV 1) else None
      | _ => None
      end
  | OBV _ w => if forallb (fun a => ty_eqb a (TBV w)) args then Some (TBV w) else None
  | OBVRel _ => bv_to_bool args
  | OBVToNat => match args with a :: _ => if is_bv a then Some TInt else None | [] => None end
  | OBVExtract w s e =>
      match args with
      | TBV base :: _ =>
          if (s >=? base) || (e >=? base) then None
          else if base <? w then None
          else if negb (Z.eqb w (e - s + 1)) then None
          else Some (TBV w)
      | _ => None
      end
  | OBVRol w k | OBVRor w k =>
      if (w <? k) || (w <? 0) || (k <? 0) then None
      else match args with
           | TBV a :: _ => if Z.eqb w a then Some (TBV w) else None
           | _ => None
           end
  | OBVZext w _ | OBVSext w _ =>
      match args with
      | TBV a :: _ => if (w <? a) || (w <? 0) then None else Some (TBV w)
      | _ => None
      end
  | OEquals =>
      match args with
      | TBool :: _ => None
      | TBV _ :: _ => bv_to_bool args
      | a :: _ => type_to_type args a TBool
      | [] => None
      end
  | OLe | OLt =>
      match args with
      | TReal :: _ => type_to_type args TReal TBool
      | _ :: _ => type_to_type args TInt TBool
      | [] => None
      end
  | OIte =>
      match args with
      | c :: a :: b :: _ => if ty_eqb c TBool && ty_eqb a b then Some a else None
      | _ => None
      end
  | OBoolC _ => match args with [] => Some TBool | _ => None end
  | ORealC _ _ => match args with [] => Some TReal | _ => None end
  | OIntC _ => match args with [] => Some TInt | _ => None end
  | OStrC _ => match args with [] => Some TStr | _ => None end
  | OBVC _ w => match args with [] => Some (TBV w) | _ => None end
  | OSymbol _ t => match args with [] => Some t | _ => None end
  | OForall _ | OExists _ =>
      match args with [a] => if ty_eqb a TBool then Some TBool else None | _ => None end
  | OFunction _ ft =>
      match ft with
      | TFun ps r => if tys_eqb args ps then Some r else None
      | _ => None
      end
  | OStr SConcat | OStr SReplace => type_to_type args TStr TStr
  | OStr SLength | OStr SToInt => type_to_type args TStr TInt
  | OStr SContains | OStr SPrefixOf | OStr SSuffixOf => type_to_type args TStr TBool
  | OStr SFromInt => type_to_type args TInt TStr
  | OStr SCharAt => match args with [TStr; TInt] => Some TStr | _ => None end
  | OStr SIndexOf => match args with [TStr; TStr; TInt] => Some TInt | _ => None end
  | OStr SSubstr => match args with [TStr; TInt; TInt] => Some TStr | _ => None end
  | OSelect =>
      match args with
      | TArr i e :: x :: _ => if ty_eqb i x then Some e else None
      | _ => None
      end
  | OStore =>
      match args with
      | TArr i e :: x :: v :: _ => if ty_eqb i x && ty_eqb e v then Some (TArr i e) else None
      | _ => None
      end
  | OArrayValue it =>
      match args with
      | d :: rest => if array_value_ok it d rest true then Some (TArr it d) else None
      | [] => None
      end
  | OPow =>
      match args with
      | a :: b :: _ =>
          if negb (ty_eqb a b) then None
          else match a with TReal | TInt => Some TReal | _ => None end
      | _ => None
      end
  end.

(* bottom-up type of a term; None as soon as any node fails *)
Fixpoint tc (t : term) : option ty :=
  match t with
  | T o args =>
      match (fix go (l : list term) : option (list ty) :=
               match l with
               | [] => Some []
               | x :: r => match tc x, go r with
                           | Some tx, Some tr => Some (tx :: tr)
                           | _, _ => None
                           end
               end) args with
      | Some tys => tc_rule o tys
      | None => None
      end
  end.
