(* C16 - hand model (H) of pysmt/smtlib/script.py: SmtLibScript.get_last_formula
   (with return_optimizations=True) and SmtLibScript.get_strict_formula.

   Formulas, weights are opaque; assert-soft ids are naturals (0 = no :id, i.e. "").
   The reported "formula" is the list handed to mgr.And; goals are reported as the tuple
   of goal objects (objective kind + term, or the soft-clause list of a MaxSMTGoal).

   Aliasing: the code keeps each MaxSMTGoal object both in `goals` and, paired with its
   position, in `max_smt_goals`.  The model keeps the object only in `goals` and the position
   in `msg`; "goal.soft = ..." is an update of goals[position].  (goals is only appended
   to / truncated and an entry whose position falls outside is deleted in the same pop
   iteration, so goals[position] is that object.)  The correspondence run checks this
   reading on every command list up to the enumeration bound. *)
From Coq Require Import List Arith Bool.
From PySMT.models Require Import AssertStack StackPrims.
Import ListNotations.

Section Script.
  Variables F W : Type.

  Inductive cgoal := RObj (k : okind) (f : F) | RSoft (softs : list (F * W)).

  Record st := mkSt {
    stack : list F;                  (* stack *)
    backtrack : list nat;            (* backtrack *)
    goals : list cgoal;              (* goals *)
    goals_bt : list nat;             (* goals_backtrack *)
    msg : list (nat * nat);          (* max_smt_goals : id -> (position, goals[position]) *)
    msgb : list (nat * list nat)     (* max_smt_goals_backtrack : defaultdict(list) *)
  }.
  Definition st0 : st := mkSt [] [] [] [] [] [].

  Definition soft_len (g : cgoal) : nat := match g with RSoft l => length l | RObj _ _ => 0 end.
  Definition soft_add (s : F * W) (g : cgoal) : cgoal :=
    match g with RSoft l => RSoft (l ++ [s]) | _ => g end.
  Definition soft_trunc (n : nat) (g : cgoal) : cgoal :=
    match g with RSoft l => RSoft (firstn n l) | _ => g end.

  (* push, one level:
       backtrack.append(len(stack)); goals_backtrack.append(len(goals))
       for k, (_, goal) in max_smt_goals.items(): max_smt_goals_backtrack[k].append(len(goal.soft)) *)
  Definition push_entry (gs : list cgoal) (mb : list (nat * list nat)) (e : nat * nat)
    : list (nat * list nat) :=
    let bl := match lookup (fst e) mb with Some bl => bl | None => [] end in
    dset (fst e) (bl ++ [soft_len (nth (snd e) gs (RSoft []))]) mb.
  Definition push1 (c : st) : st :=
    mkSt (stack c) (backtrack c ++ [length (stack c)]) (goals c)
         (goals_bt c ++ [length (goals c)]) (msg c)
         (fold_left (push_entry (goals c)) (msg c) (msgb c)).

  (* pop, one level.
       l = backtrack.pop(); stack = stack[:l]; l = goals_backtrack.pop(); goals = goals[:l]
       for k, (goal_position, goal) in max_smt_goals.items():
           if goal_position >= len(goals): goals_to_remove.append(k)
           else: l = max_smt_goals_backtrack[k].pop(); goal.soft = goal.soft[:l]
       for k in goals_to_remove: del max_smt_goals[k]; max_smt_goals_backtrack.pop(k, None) *)
  Definition pop_entry (glen : nat)
             (acc : result (list cgoal * list (nat * list nat) * list nat)) (e : nat * nat) :=
    bind acc (fun a =>
      let '(gs, mb, rem) := a in
      if Nat.leb glen (snd e) then Ok (gs, mb, rem ++ [fst e])
      else match lookup (fst e) mb with
           | None => Err IndexError              (* defaultdict makes [], [].pop() *)
           | Some bl =>
               match pop_last bl with
               | None => Err IndexError
               | Some (bl', n) => Ok (upd_nth (snd e) (soft_trunc n) gs, dset (fst e) bl' mb, rem)
               end
           end).
  Definition del_goal (acc : result (list (nat * nat) * list (nat * list nat))) (k : nat) :=
    bind acc (fun a => Ok (ddel k (fst a), ddel k (snd a))).   (* del d1[k]; d2.pop(k, None) *)
  Definition pop1 (c : st) : result st :=
    match pop_last (backtrack c) with
    | None => Err IndexError
    | Some (bt', l) =>
        match pop_last (goals_bt c) with
        | None => Err IndexError
        | Some (gbt', gl) =>
            let gs0 := firstn gl (goals c) in
            bind (fold_left (pop_entry (length gs0)) (msg c) (Ok (gs0, msgb c, [])))
              (fun a => let '(gs, mb, rem) := a in
                 bind (fold_left del_goal rem (Ok (msg c, mb)))
                   (fun d => Ok (mkSt (firstn l (stack c)) bt' gs gbt' (fst d) (snd d))))
        end
    end.

  Fixpoint iter {A} (n : nat) (f : A -> A) (s : A) : A :=
    match n with 0 => s | S m => iter m f (f s) end.

  (* one iteration of `for cmd in self.commands` *)
  Definition step (c : st) (x : cmd F W) : result st :=
    match x with
    | CAssert f => Ok (mkSt (stack c ++ [f]) (backtrack c) (goals c) (goals_bt c) (msg c) (msgb c))
    | CReset => Ok st0
    | CPush n => Ok (iter n push1 c)
    | CPop n => iter_res n pop1 c
    | CObj k f =>
        Ok (mkSt (stack c) (backtrack c) (goals c ++ [RObj k f]) (goals_bt c) (msg c) (msgb c))
    | CAssertSoft i f w =>
        (* _, goal = max_smt_goals.setdefault(id, (len(goals), MaxSMTGoal()))
           goal.add_soft_clause(formula, weight); if len(goal.soft) == 1: goals.append(goal) *)
        match lookup i (msg c) with
        | None =>
            Ok (mkSt (stack c) (backtrack c) (goals c ++ [RSoft [(f, w)]]) (goals_bt c)
                     (msg c ++ [(i, length (goals c))]) (msgb c))
        | Some p =>
            let gs := upd_nth p (soft_add (f, w)) (goals c) in
            let g := nth p gs (RSoft []) in
            let gs' := if Nat.eqb (soft_len g) 1 then gs ++ [g] else gs in
            Ok (mkSt (stack c) (backtrack c) gs' (goals_bt c) (msg c) (msgb c))
        end
    | CCheckSat | COther => Ok c
    end.

  Fixpoint run (c : st) (cs : list (cmd F W)) : result st :=
    match cs with
    | [] => Ok c
    | x :: r => bind (step c x) (fun c' => run c' r)
    end.

  (* get_last_formula(return_optimizations=True): (arguments of mgr.And, tuple(goals)) *)
  Definition get_last_formula (cs : list (cmd F W)) : result (list F * list cgoal) :=
    bind (run st0 cs) (fun c => Ok (stack c, goals c)).

  (* get_strict_formula: PysmtValueError on push/pop or when check-sat does not occur
     exactly once; otherwise And of the assertions collected by walking the assert and
     reset-assertions commands in order (reset-assertions empties the collection) *)
  Definition is_push_pop (x : cmd F W) : bool :=
    match x with CPush _ | CPop _ => true | _ => false end.
  Definition is_check_sat (x : cmd F W) : bool :=
    match x with CCheckSat => true | _ => false end.
  Fixpoint assert_args (acc : list F) (cs : list (cmd F W)) : list F :=
    match cs with
    | [] => acc
    | CAssert f :: r => assert_args (acc ++ [f]) r
    | CReset :: r => assert_args [] r
    | _ :: r => assert_args acc r
    end.
  Definition get_strict_formula (cs : list (cmd F W)) : result (list F) :=
    if existsb is_push_pop cs then Err ValueError
    else if negb (Nat.eqb (length (filter is_check_sat cs)) 1) then Err ValueError
    else Ok (assert_args [] cs).
End Script.

Arguments RObj {F W}. Arguments RSoft {F W}.
Arguments get_last_formula {F W}. Arguments get_strict_formula {F W}.
Arguments st0 {F W}. Arguments step {F W}. Arguments run {F W}.
Arguments mkSt {F W}. Arguments stack {F W}. Arguments backtrack {F W}. Arguments goals {F W}.
Arguments goals_bt {F W}. Arguments msg {F W}. Arguments msgb {F W}.
Arguments push1 {F W}. Arguments pop1 {F W}. Arguments push_entry {F W}. Arguments pop_entry {F W}.
Arguments soft_len {F W}. Arguments soft_add {F W}. Arguments soft_trunc {F W}.
Arguments is_push_pop {F W}. Arguments is_check_sat {F W}. Arguments assert_args {F W}.
