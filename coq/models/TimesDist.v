(* Hand model (H) of pysmt.rewritings.TimesDistributor (rewritings.py 782-842), an
   IdentityDagWalker (all other nodes are re-created from the rewritten children).
   walk_times: if some rewritten factor is a Plus, the factors are turned into lists of summands
   (a Plus gives its arguments, anything else a singleton) and the result is
   Plus(Times(p) for p in itertools.product of the lists) (first list varies slowest);
   walk_plus flattens ONE level of the rewritten arguments; walk_minus turns  a - b  into
   Plus(summands(a) ++ [Times(-1, r) | r in summands(b)]) with -1 Real or Int according to the
   type checker's type of the ORIGINAL Minus node. *)
From Coq Require Import List ZArith Bool String.
From PySMT.core Require Import Syntax.
From PySMT.models Require Import TypeChecker C10Local.
Import ListNotations.
Open Scope bool_scope.

Definition is_plus (t : term) : bool := match t with T OPlus _ => true | _ => false end.
Definition plus_args (t : term) : list term := match t with T OPlus l => l | _ => [t] end.

Fixpoint product (ls : list (list term)) : list (list term) :=
  match ls with
  | [] => [[]]
  | l :: r => flat_map (fun x => map (cons x) (product r)) l
  end.

Definition td_times (args : list term) : term :=
  if existsb is_plus args then mk_plus (map mk_times (product (map plus_args args)))
  else mk_times args.
Definition td_plus (args : list term) : term := mk_plus (flat_map plus_args args).
Definition minus_one (real : bool) : term := if real then TRealC (-1) 1 else TIntC (-1).
Definition td_minus (real : bool) (lhs rhs : term) : term :=
  mk_plus (plus_args lhs ++ map (fun r => T OTimes [minus_one real; r]) (plus_args rhs)).
Definition is_real_ty (o : option ty) : bool := match o with Some TReal => true | _ => false end.

Fixpoint td (t : term) {struct t} : term :=
  match t with
  | T OTimes args => td_times (map td args)
  | T OPlus args => td_plus (map td args)
  | T OMinus [a; b] => td_minus (is_real_ty (tc t)) (td a) (td b)
  | T o args => rebuild o (map td args)
  end.

(* the fragment of the theorem: sums, differences and products (at least one argument each) over
   leaves that the walker leaves alone (symbols, constants, applications, ITEs ... without a
   product or difference to rewrite inside) *)
Fixpoint arith (t : term) : bool :=
  match t with
  | T OPlus (a :: l) | T OTimes (a :: l) => arith a && forallb arith l
  | T OMinus [a; b] => arith a && arith b
  | T OPlus [] | T OTimes [] | T OMinus _ => false
  | _ => term_eqb (td t) t
  end.
