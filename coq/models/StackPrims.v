(* C16 - the few Python list / dict primitives used by the two bookkeeping models
   (Script.v, TrackSolver.v).  Python lists are Coq lists in the same order (append = ++ [x]). *)
From Coq Require Import List Arith Bool.
Import ListNotations.

Inductive err := IndexError | KeyError | ValueError | OtherError.   (* OtherError: never produced by a model *)
Inductive result (A : Type) := Ok (a : A) | Err (e : err).
Arguments Ok {A} a. Arguments Err {A} e.

Definition bind {A B} (r : result A) (f : A -> result B) : result B :=
  match r with Ok a => f a | Err e => Err e end.

(* l.pop(): None = IndexError *)
Fixpoint pop_last {A} (l : list A) : option (list A * A) :=
  match l with
  | [] => None
  | [x] => Some ([], x)
  | x :: r => match pop_last r with Some (r', y) => Some (x :: r', y) | None => None end
  end.

(* l[p] = f(l[p]) on an object already in the list (no-op when p is out of range) *)
Fixpoint upd_nth {A} (p : nat) (f : A -> A) (l : list A) : list A :=
  match l, p with
  | [], _ => []
  | x :: r, 0 => f x :: r
  | x :: r, S q => x :: upd_nth q f r
  end.

(* insertion-ordered dict with nat keys *)
Fixpoint lookup {V} (k : nat) (m : list (nat * V)) : option V :=
  match m with
  | [] => None
  | (j, v) :: r => if Nat.eqb j k then Some v else lookup k r
  end.
(* m[k] = v : in place when the key exists, else appended *)
Fixpoint dset {V} (k : nat) (v : V) (m : list (nat * V)) : list (nat * V) :=
  match m with
  | [] => [(k, v)]
  | (j, w) :: r => if Nat.eqb j k then (j, v) :: r else (j, w) :: dset k v r
  end.
(* del m[k] (the caller checks presence) *)
Definition ddel {V} (k : nat) (m : list (nat * V)) : list (nat * V) :=
  filter (fun e => negb (Nat.eqb (fst e) k)) m.

(* for _ in range(n): s = f(s), stopping at the first exception *)
Fixpoint iter_res {A} (n : nat) (f : A -> result A) (s : A) : result A :=
  match n with
  | 0 => Ok s
  | S m => bind (f s) (iter_res m f)
  end.
