(* Hand model (H) of pysmt.oracles.TypesOracle.get_types(formula, custom_only=True): the default
   answer (models/Oracles.v get_types = the walked sorts closed under component sorts) with the
   SMT-LIB built-in sorts filtered out AFTER the closure was taken. *)
From Coq Require Import List ZArith Bool String.
From PySMT.core Require Import Syntax.
From PySMT.models Require Import Oracles.
Import ListNotations.

(* is_bool_type / is_int_type / is_real_type / is_bv_type / is_array_type / is_string_type *)
Definition is_base_type (t : ty) : bool :=
  match t with
  | TBool | TInt | TReal | TStr | TBV _ | TArr _ _ => true
  | TFun _ _ | TUser _ _ => false
  end.

Definition get_types_custom (t : term) : list ty :=
  filter (fun s => negb (is_base_type s)) (get_types t).
