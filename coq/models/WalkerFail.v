(* Hand model (H) of a long-lived DagWalker object used for several calls (C15, C14).

   env.simplifier, env.substituter, env.stc and the oracles are created once per Environment;
   `self.stack` and `self.memoization` are instance attributes (walkers/dag.py:47-49), so
   whatever a call leaves there is what the next call starts from.  A call is `walk(root,
   **kwargs)`; the keyword arguments (the substitution map of Substituter.substitute) select
   the callback [f p].  For walkers that put the keyword arguments into the key (SizeOracle)
   the parameter is part of the node id instead and [f] ignores it.

   When a call raises, iter_walk empties the stack before re-raising and walk clears a
   one-shot table in its `finally` (core/DagWalk.v: [iter_walk], [walk]; /repo c824285,
   4d718bf).  No proofs here. *)
From Coq Require Import List Arith Bool.
From PySMT.core Require Import DagWalk.
Import ListNotations.

Section WalkerFail.
  Variable A P : Type.
  Variable children : nat -> list nat.
  Variable f : P -> nat -> list A -> option A.
  Variable early oneshot : bool.
  Variable fuel : nat.

  Definition call := (P * nat)%type.                 (* keyword arguments, root *)

  Definition do_call (w : st A) (c : call) : st A * answer A :=
    walk A children (f (fst c)) early oneshot fuel w (snd c).

  (* a history of calls on one walker object: final state and the answers, in order *)
  Fixpoint run_calls (w : st A) (cs : list call) : st A * list (answer A) :=
    match cs with
    | [] => (w, [])
    | c :: r => let '(w1, a) := do_call w c in
                let '(w2, l) := run_calls w1 r in (w2, a :: l)
    end.

  Definition answers (w : st A) (cs : list call) : list (answer A) := snd (run_calls w cs).

  (* the same call on a brand-new walker (fresh Environment) *)
  Definition fresh_answer (c : call) : answer A := snd (do_call (init A) c).
End WalkerFail.

(* Equality of answers as far as a caller can rely on it: same value, or both raise from a
   callback (which node raised first is not compared). *)
Definition ans_equiv {A} (a b : answer A) : Prop :=
  match a, b with
  | Ok v, Ok v' => v = v'
  | Err (ECallback _), Err (ECallback _) => True
  | _, _ => False
  end.
