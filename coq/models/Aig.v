(* Hand model (H) of pysmt.rewritings.AIGer (rewritings.py 708-777).

   The walker visits every node; relations, theory operators, constants, symbols and function
   applications are returned unchanged (walk_nop returns [formula], not a rebuilt node, so
   nothing below them is rewritten).  Quirks kept:
   - walk_ite asks the type checker for the type of the REWRITTEN then-branch and returns the
     original ITE node when it is not Boolean;
   - every Not goes through FormulaManager.Not, which collapses double negations, so
     aig(Or [Not a; b]) = Not(And [a; Not b]). *)
From Coq Require Import List ZArith Bool String.
From PySMT.core Require Import Syntax.
From PySMT.models Require Import TypeChecker C10Local.
Import ListNotations.
Open Scope bool_scope.

Definition is_bool_ty (o : option ty) : bool := match o with Some TBool => true | _ => false end.

Fixpoint aig (t : term) {struct t} : term :=
  match t with
  | T OAnd l => mk_and (map aig l)
  | T OOr l => mk_not (mk_and (map (fun x => mk_not (aig x)) l))
  | T ONot [a] => mk_not (aig a)
  | T OImplies [a; b] => mk_not (T OAnd [aig a; mk_not (aig b)])
  | T OIff [a; b] =>
      T OAnd [mk_not (T OAnd [aig a; mk_not (aig b)]); mk_not (T OAnd [aig b; mk_not (aig a)])]
  | T OIte [i; th; el] =>
      if is_bool_ty (tc (aig th))
      then T OAnd [mk_not (T OAnd [aig i; mk_not (aig th)]);
                   mk_not (T OAnd [mk_not (aig i); mk_not (aig el)])]
      else t
  | T (OForall vs) [b] => mk_forall vs (aig b)
  | T (OExists vs) [b] => mk_exists vs (aig b)
  | _ => t
  end.

(* the advertised shape: only And and Not (and the quantifiers, which AIGer keeps) above atoms;
   an atom is anything that is not a Boolean connective, a quantifier or an ITE *)
Definition aig_atom_op (o : op) : bool :=
  match o with
  | OAnd | OOr | ONot | OImplies | OIff | OForall _ | OExists _ | OIte => false
  | _ => true
  end.
Fixpoint aig_shape (t : term) : bool :=
  match t with
  | T OAnd l => forallb aig_shape l
  | T ONot [a] => aig_shape a
  | T (OForall _) [b] | T (OExists _) [b] => aig_shape b
  | T o _ => aig_atom_op o
  end.
