(* Hand model (H) of pysmt.printers.HRPrinter / HRSerializer (printers.py:31-331): the fully
   parenthesised human-readable text of a term.  [None] = outside the model: array values (their
   text contains str() of a type and sorts the assignments by str()), operators applied to no
   argument (IndexError in walk_nary).  Tie: harness/c09.py compares hr_print with
   FNode.serialize() character by character. *)
From Coq Require Import List ZArith Bool String Ascii.
From PySMT.core Require Import Syntax SmtStd.
From PySMT.models Require Import SmtPrinter SmtParser.
Import ListNotations.
Open Scope bool_scope.
Open Scope string_scope.

(* quote(name, style="'") *)
Fixpoint escape_sq (s : string) : string :=
  match s with
  | EmptyString => EmptyString
  | String c r => if Ascii.eqb c "\" then String "\" (String "\" (escape_sq r))
                  else if Ascii.eqb c "'" then String "\" (String "'" (escape_sq r))
                  else String c (escape_sq r)
  end.
Definition hr_quote (name : string) : string :=
  if mem_str name ["Int"; "Real"; "Bool"] || negb (py_simple_symbol name)
  then "'" ++ escape_sq name ++ "'"
  else name.

Fixpoint join (sep : string) (l : list string) : string :=
  match l with
  | [] => ""
  | [x] => x
  | x :: r => x ++ sep ++ join sep r
  end.
Fixpoint all_some_s (l : list (option string)) : option (list string) :=
  match l with
  | [] => Some []
  | Some x :: r => match all_some_s r with Some r' => Some (x :: r') | None => None end
  | None :: _ => None
  end.

Definition bv_infix (k : bvop) : option string :=
  match k with
  | BAnd => Some " & " | BOr => Some " | " | BXor => Some " xor " | BConcat => Some "::"
  | BAdd => Some " + " | BSub => Some " - " | BMul => Some " * " | BUdiv => Some " u/ "
  | BUrem => Some " u% " | BLshl => Some " << " | BLshr => Some " >> " | BComp => Some " bvcomp "
  | BSdiv => Some " s/ " | BSrem => Some " s% " | BAshr => Some " a>> "
  | BNot | BNeg => None
  end.
Definition rel_infix (k : bvrel) : string :=
  match k with BUlt => " u< " | BUle => " u<= " | BSlt => " s< " | BSle => " s<= " end.
Definition str_fun (k : strop) : string :=
  match k with
  | SLength => "str.len" | SConcat => "str.++" | SContains => "str.contains" | SIndexOf => "str.indexof"
  | SReplace => "str.replace" | SSubstr => "str.substr" | SPrefixOf => "str.prefixof"
  | SSuffixOf => "str.suffixof" | SToInt => "str.to.int" | SFromInt => "int.to.str" | SCharAt => "str.at"
  end.
Fixpoint dq_double (l : list Z) : list Z :=
  match l with [] => [] | c :: r => if (c =? 34)%Z then 34%Z :: 34%Z :: dq_double r else c :: dq_double r end.

Definition nary (sep : string) (args : list string) : option string :=
  match args with [] => None | _ => Some ("(" ++ join sep args ++ ")") end.

Definition hr_node (o : op) (a : list string) : option string :=
  match o, a with
  | OAnd, _ => nary " & " a | OOr, _ => nary " | " a | OPlus, _ => nary " + " a | OTimes, _ => nary " * " a
  | ODiv, _ => nary " / " a | OPow, _ => nary " ^ " a | OIff, _ => nary " <-> " a | OImplies, _ => nary " -> " a
  | OMinus, _ => nary " - " a | OEquals, _ => nary " = " a | OLe, _ => nary " <= " a | OLt, _ => nary " < " a
  | ONot, [x] => Some ("(! " ++ x ++ ")")
  | OSymbol n _, [] => Some (hr_quote n)
  | OFunction n _, _ :: _ => Some (hr_quote n ++ "(" ++ join ", " a ++ ")")
  | ORealC n d, [] => Some (if (d =? 1)%Z then py_int_str n ++ ".0" else py_int_str n ++ "/" ++ py_int_str d)
  | OIntC z, [] => Some (py_int_str z)
  | OBoolC b, [] => Some (if b then "True" else "False")
  | OBVC v w, [] => Some (py_int_str v ++ "_" ++ py_int_str w)
  | OStrC s, [] => Some ("""" ++ str_of_codes (dq_double s) ++ """")
  | OBV BNot _, [x] => Some ("(! " ++ x ++ ")")
  | OBV BNeg _, [x] => Some ("(- " ++ x ++ ")")
  | OBV k _, _ => match bv_infix k with Some sep => nary sep a | None => None end
  | OBVRel k, _ => nary (rel_infix k) a
  | OBVExtract _ s e, [x] => Some (x ++ "[" ++ py_int_str s ++ ":" ++ py_int_str e ++ "]")
  | OBVRol _ k, [x] => Some ("(" ++ x ++ " ROL " ++ py_int_str k ++ ")")
  | OBVRor _ k, [x] => Some ("(" ++ x ++ " ROR " ++ py_int_str k ++ ")")
  | OBVZext _ k, [x] => Some ("(" ++ x ++ " ZEXT " ++ py_int_str k ++ ")")
  | OBVSext _ k, [x] => Some ("(" ++ x ++ " SEXT " ++ py_int_str k ++ ")")
  | OIte, [c; x; y] => Some ("(" ++ c ++ " ? " ++ x ++ " : " ++ y ++ ")")
  | OForall vs, [b] => match vs with [] => Some b
                       | _ => Some ("(forall " ++ join ", " (map (fun v => hr_quote (fst v)) vs) ++ " . " ++ b ++ ")") end
  | OExists vs, [b] => match vs with [] => Some b
                       | _ => Some ("(exists " ++ join ", " (map (fun v => hr_quote (fst v)) vs) ++ " . " ++ b ++ ")") end
  | OToReal, [x] => Some ("ToReal(" ++ x ++ ")")
  | OStr k, _ :: _ => Some (str_fun k ++ "(" ++ join ", " a ++ ")")
  | OSelect, [x; i] => Some (x ++ "[" ++ i ++ "]")
  | OStore, [x; i; v] => Some (x ++ "[" ++ i ++ " := " ++ v ++ "]")
  | OBVToNat, [x] => Some ("bv2nat(" ++ x ++ ")")
  | _, _ => None
  end.

Fixpoint hr_print (t : term) : option string :=
  match t with
  | T o args =>
      match all_some_s (map hr_print args) with
      | Some a => hr_node o a
      | None => None
      end
  end.
