(* Hand model (H) of pysmt.rewritings.NNFizer (rewritings.py 379-531).

   The walker's _get_children hands down *pre-negated* children (mgr.Not(x), which collapses a
   double negation) and walk_<op> / walk_not rebuild from the results.  Writing N(f) for
   nnf(f), the code computes

     N(Not s)        s symbol        -> Not s                      (walk_not, first test)
                     s = Not u       -> N(u)
                     s = And l       -> Or  [N(mk_not x) | x in l]
                     s = Or l        -> And [N(mk_not x) | x in l]
                     s = a -> b      -> And [N(a); N(mk_not b)]
                     s = a <-> b     -> Or(And(N a, N(mk_not b)), And(N b, N(mk_not a)))
                     s = Q vs. b     -> Q' vs. N(mk_not b)
                     s = Ite(i,t,e)  -> And(Or(N(mk_not i), N(mk_not t)), Or(N i, N(mk_not e)))
                                        (since /repo commit 777db40; before it this case fell into
                                         "otherwise" and the result kept a negated conjunction)
                     otherwise       -> mk_not (N s)      (function, constant, relation)
     N(a -> b)       -> Or [N(mk_not a); N b]
     N(a <-> b)      -> And(Or(N(mk_not a), N b), Or(N(mk_not b), N a))
     N(And l), N(Or l), N(Q vs. b)   -> rebuilt from the N of the children
     N(Ite(i,t,e))   -> And(Or(N(mk_not i), N t), Or(N i, N e))
     N(leaf)         -> leaf

   N(mk_not x) is N(u) when x = Not u and N(Not x) otherwise, and N(Not(Not u)) = N(u); hence
   N(mk_not x) = N(Not x) for every x and the whole function is the structural recursion
   [nnf_p pos t] below with  nnf_p true t = N(t)  and  nnf_p false t = N(Not t) = N(mk_not t).

   Domain: the assertion in _get_children fails (AssertionError) on any node reached in a Boolean
   position that is not a connective, quantifier, ITE, symbol, function application, Boolean
   constant, theory relation or string operator; on well-typed Boolean inputs the walk succeeds
   iff [boolish t] (models/C10Local.v). *)
From Coq Require Import List ZArith Bool String.
From PySMT.core Require Import Syntax.
From PySMT.models Require Import C10Local.
Import ListNotations.
Open Scope bool_scope.

Fixpoint nnf_p (pos : bool) (t : term) {struct t} : term :=
  match t with
  | T ONot [s] => nnf_p (negb pos) s
  | T OAnd l => if pos then mk_and (map (nnf_p true) l) else mk_or (map (nnf_p false) l)
  | T OOr l => if pos then mk_or (map (nnf_p true) l) else mk_and (map (nnf_p false) l)
  | T OImplies [a; b] =>
      if pos then mk_or [nnf_p false a; nnf_p true b] else mk_and [nnf_p true a; nnf_p false b]
  | T OIff [a; b] =>
      if pos then T OAnd [T OOr [nnf_p false a; nnf_p true b]; T OOr [nnf_p false b; nnf_p true a]]
      else T OOr [T OAnd [nnf_p true a; nnf_p false b]; T OAnd [nnf_p true b; nnf_p false a]]
  | T (OForall vs) [b] => if pos then mk_forall vs (nnf_p true b) else mk_exists vs (nnf_p false b)
  | T (OExists vs) [b] => if pos then mk_exists vs (nnf_p true b) else mk_forall vs (nnf_p false b)
  | T OIte [i; th; el] =>
      if pos then T OAnd [T OOr [nnf_p false i; nnf_p true th]; T OOr [nnf_p true i; nnf_p true el]]
      else T OAnd [T OOr [nnf_p false i; nnf_p false th]; T OOr [nnf_p true i; nnf_p false el]]
  | T (OSymbol _ _) _ => if pos then t else T ONot [t]
  | _ => if pos then t else mk_not t
  end.

Definition nnf (t : term) : term := nnf_p true t.

(* the advertised shape: negations only directly above atoms, no Implies/Iff/ITE left in the
   Boolean skeleton.  An atom is anything that is not a connective, a quantifier or an ITE. *)
Definition is_atom_op (o : op) : bool :=
  match o with
  | OAnd | OOr | ONot | OImplies | OIff | OForall _ | OExists _ | OIte => false
  | _ => true
  end.
Fixpoint nnf_shape (t : term) : bool :=
  match t with
  | T OAnd l | T OOr l => forallb nnf_shape l
  | T (OForall _) [b] | T (OExists _) [b] => nnf_shape b
  | T ONot [T o _] => is_atom_op o
  | T o _ => is_atom_op o
  end.
