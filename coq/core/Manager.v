(* Hand model (H) of pysmt.formula.FormulaManager as a state machine: the hash-consing table
   (create_node), the symbol table, the constant caches with Python's cross-type key equality,
   the normalising constructors, Array's canonical ordering, and the cross-environment copy
   (FormulaContextualizer + TypeManager.normalize).  Executable; no proofs here
   (proofs/Manager_proofs.v).

   ids are node_ids (>= 1); [table] lists the contents in creation order (index = node_id - 1).
   A Python exception is [Err e]; whatever was written before the raise stays written (a node
   is registered BEFORE its type check: formula.py:102-105). *)
From Coq Require Import List ZArith Bool String Lia DecimalString.
From PySMT.core Require Import Syntax PyPrims.
From PySMT.models Require Import TypeChecker.
Import ListNotations.
Open Scope bool_scope.
Open Scope nat_scope.

Definition id := nat.
Definition content := (op * list id)%type.
Definition content_eqb (a b : content) : bool :=
  op_eqb (fst a) (fst b) && list_eqb Nat.eqb (snd a) (snd b).

(* ---------------------------------------------------------------- Python values used as cache keys *)
(* PyFrac / PyFloat carry the exact value as a normalised fraction (den > 0, gcd 1); a float is a
   finite double.  PyPair is the tuple (n, d) of ints. *)
Inductive pyval :=
| PyInt (z : Z) | PyBool (b : bool) | PyFrac (n d : Z) | PyFloat (n d : Z) | PyPair (n d : Z)
| PyStr (s : list Z).

(* numeric tower: int, bool, Fraction and float compare (and hash) by exact value *)
Definition py_num (v : pyval) : option (Z * Z) :=
  match v with
  | PyInt z => Some (z, 1%Z)
  | PyBool b => Some ((if b then 1 else 0)%Z, 1%Z)
  | PyFrac n d | PyFloat n d => Some (n, d)
  | PyPair _ _ | PyStr _ => None
  end.
(* `k1 == k2` as a dict uses it (equal keys hash equal in CPython) *)
Definition py_eqb (a b : pyval) : bool :=
  match py_num a, py_num b with
  | Some x, Some y => (fst x * snd y =? fst y * snd x)%Z
  | None, None =>
      match a, b with
      | PyPair n1 d1, PyPair n2 d2 => (n1 =? n2)%Z && (d1 =? d2)%Z
      | PyStr s1, PyStr s2 => list_eqb Z.eqb s1 s2
      | _, _ => false
      end
  | _, _ => false
  end.

Fixpoint cache_get (k : pyval) (l : list (pyval * id)) : option id :=
  match l with
  | [] => None
  | (k', i) :: r => if py_eqb k k' then Some i else cache_get k r
  end.
Fixpoint sym_get (n : string) (l : list (string * id)) : option id :=
  match l with
  | [] => None
  | (n', i) :: r => if String.eqb n n' then Some i else sym_get n r
  end.

(* ---------------------------------------------------------------- state *)
Record state := mkState {
  table : list content;              (* formulae: index k holds the node with node_id k+1 *)
  symbols : list (string * id);      (* symbols: name -> node *)
  int_c : list (pyval * id);         (* int_constants *)
  real_c : list (pyval * id);        (* real_constants *)
  str_c : list (pyval * id);         (* string_constants *)
  next_id : nat;                     (* _next_free_id *)
  fresh_guess : nat                  (* _fresh_guess *)
}.

(* FormulaManager.__init__: TRUE is node 1, FALSE is node 2 *)
Definition init : state :=
  mkState [(OBoolC true, []); (OBoolC false, [])] [] [] [] [] 3 0.

Definition set_table s t n := mkState t (symbols s) (int_c s) (real_c s) (str_c s) n (fresh_guess s).
Definition set_symbols s y := mkState (table s) y (int_c s) (real_c s) (str_c s) (next_id s) (fresh_guess s).
Definition set_int_c s c := mkState (table s) (symbols s) c (real_c s) (str_c s) (next_id s) (fresh_guess s).
Definition set_real_c s c := mkState (table s) (symbols s) (int_c s) c (str_c s) (next_id s) (fresh_guess s).
Definition set_str_c s c := mkState (table s) (symbols s) (int_c s) (real_c s) c (next_id s) (fresh_guess s).
Definition set_fresh s g := mkState (table s) (symbols s) (int_c s) (real_c s) (str_c s) (next_id s) g.

Inductive err := ETyp | EVal | EOth | EUnm | EBadReq.
(* ETyp: PysmtTypeError/TypeError; EVal: PysmtValueError/ValueError; EOth: any other exception;
   EUnm: outside the model (the harness does not compare such requests); EBadReq: the request
   mentions an id that does not exist (inexpressible in Python). *)
Inductive res (A : Type) := Ok (a : A) | Err (e : err).
Arguments Ok {A} a.
Arguments Err {A} e.

Definition M (A : Type) := state -> state * res A.
Definition ret {A} (a : A) : M A := fun s => (s, Ok a).
Definition fail {A} (e : err) : M A := fun s => (s, Err e).
Definition bind {A B} (m : M A) (f : A -> M B) : M B :=
  fun s => match m s with
           | (s1, Ok a) => f a s1
           | (s1, Err e) => (s1, Err e)
           end.

(* ---------------------------------------------------------------- table access and unfolding *)
Definition node_tb (tb : list content) (i : id) : option content :=
  match i with O => None | S k => nth_error tb k end.
Definition node (s : state) (i : id) : option content := node_tb (table s) i.

Definition dummy : term := T (OBoolC true) [].
(* the tree a node stands for; fuel [i] is enough because children have smaller ids *)
Fixpoint unfold_fuel (f : nat) (tb : list content) (i : id) : term :=
  match f with
  | O => dummy
  | S f' => match node_tb tb i with
            | Some (o, args) => T o (map (unfold_fuel f' tb) args)
            | None => dummy
            end
  end.
Definition unfold_tb (tb : list content) (i : id) : term := unfold_fuel i tb i.
Definition unfold (s : state) (i : id) : term := unfold_tb (table s) i.

Fixpoint find_index (c : content) (l : list content) (k : nat) : option nat :=
  match l with
  | [] => None
  | x :: r => if content_eqb c x then Some k else find_index c r (S k)
  end.

(* _do_type_check: SimpleTypeChecker.get_type on the node (children are memoised) *)
Definition tcheck (tb : list content) (i : id) : res id :=
  match tc (unfold_tb tb i) with Some _ => Ok i | None => Err ETyp end.

(* formula.py:95-106.  The first test is a model-only guard: Python cannot name a node that does
   not exist, so the children of a content are always nodes of the table. *)
Definition valid_tb (tb : list content) (i : id) : bool := (1 <=? i) && (i <=? List.length tb).
Definition create_node (c : content) : M id :=
  fun s => if negb (forallb (valid_tb (table s)) (snd c)) then (s, Err EBadReq)
           else match find_index c (table s) 1 with
                | Some i => (s, tcheck (table s) i)
                | None =>
                    let tb := table s ++ [c] in
                    (set_table s tb (S (next_id s)), tcheck tb (next_id s))
                end.

(* ---------------------------------------------------------------- accessors (fnode.py) *)
Definition node_op (s : state) (i : id) : option op := option_map fst (node s i).
Definition node_args (s : state) (i : id) : option (list id) := option_map snd (node s i).
Definition symbol_name (s : state) (i : id) : option string :=
  match node_op s i with Some (OSymbol n _) => Some n | _ => None end.
Definition symbol_type (s : state) (i : id) : option ty :=
  match node_op s i with Some (OSymbol _ t) => Some t | _ => None end.
Fixpoint pairs_of {A} (l : list A) : list (A * A) :=
  match l with k :: v :: r => (k, v) :: pairs_of r | _ => [] end.
(* array_value_assigned_values_map: dict(zip(args[1::2], args[2::2])) *)
Definition array_assigned (s : state) (i : id) : option (list (id * id)) :=
  match node s i with Some (OArrayValue _, _ :: rest) => Some (pairs_of rest) | _ => None end.
Definition array_default (s : state) (i : id) : option id :=
  match node s i with Some (OArrayValue _, d :: _) => Some d | _ => None end.

(* ---------------------------------------------------------------- views: what a constructor may
   inspect of its arguments (same code runs on ids and, as the specification, on terms) *)
Fixpoint t_const (t : term) : bool :=
  match t with
  | T o args =>
      match o with
      | OBoolC _ | OIntC _ | ORealC _ _ | OBVC _ _ | OStrC _ => true
      | OArrayValue _ => forallb t_const args
      | _ => false
      end
  end.

(* FNode.bv_width (fnode.py:468-492); None = it raises *)
Fixpoint t_bvw (t : term) : option Z :=
  match t with
  | T o args =>
      match o with
      | OBVC _ w => Some w
      | OSymbol _ (TBV w) => Some w
      | OFunction _ (TFun _ (TBV w)) => Some w
      | OIte => match args with _ :: a :: _ => t_bvw a | _ => None end
      | OSelect => match args with
                   | a :: _ => match tc a with Some (TArr _ (TBV w)) => Some w | _ => None end
                   | [] => None
                   end
      | OBV _ w | OBVExtract w _ _ | OBVRol w _ | OBVRor w _ | OBVZext w _ | OBVSext w _ => Some w
      | _ => None
      end
  end.

Inductive plan (N : Type) :=
| PRet (n : N)                              (* return an existing node *)
| PNode (o : op) (ps : list (plan N))       (* evaluate ps left to right, then create_node *)
| PReal (v : pyval)                         (* self.Real(v) *)
| PBV (z w : Z)                             (* self.BV(z, w) *)
| PErr (e : err).
Arguments PRet {N} n.
Arguments PNode {N} o ps.
Arguments PReal {N} v.
Arguments PBV {N} z w.
Arguments PErr {N} e.

Inductive ctor :=
| CNode (o : op)                 (* create_node(o, args): Implies Iff Minus Equals LE LT Ite Str* Select Store ... *)
| CNot | CAnd | COr | CPlus | CTimes
| CGE | CGT | CNotEquals | CXor | CEqualsOrIff
| CToReal | CDiv | CPow
| CBvUn (k : bvop) | CBvBin (k : bvop) | CBvShiftInt (k : bvop) | CBvNary (k : bvop)
| CBvConcat | CBvComp | CBvSwapRel (k : bvrel)
| CBvExtract | CBvRol | CBvRor | CBvZext | CBvSext
| CStrConcat
| CFunction                      (* args = function symbol :: parameters *)
| CQuant (univ : bool).          (* args = body :: variables *)

Definition pow_plan {N} (ob oe : op) : plan N :=
  let ex := match oe with
            | OIntC p => Some (p, true)
            | ORealC p 1%Z => Some (p, false)
            | _ => None
            end in
  match ex with
  | None => PErr EUnm
  | Some (p, pint) =>
      match ob with
      | OIntC z =>
          if (0 <=? p)%Z then PReal (PyInt (Z.pow z p))
          else if pint then PErr EUnm                     (* int ** negative int is a float *)
          else match fr_pow_int (z, 1%Z) p with
               | Some (n, d) => PReal (PyFrac n d)
               | None => PErr EOth
               end
      | ORealC n d =>
          match fr_pow_int (n, d) p with
          | Some (n', d') => PReal (PyFrac n' d')
          | None => PErr EOth
          end
      | _ => PErr EUnm
      end
  end.

Section Ctors.
  Context {N : Type}.
  Variable vop : N -> op.
  Variable vargs : N -> list N.
  Variable vty : N -> option ty.
  Variable vbw : N -> option Z.
  Variable vconst : N -> bool.

  Definition R (n : N) : plan N := PRet n.
  Definition with_bw (a : N) (k : Z -> plan N) : plan N :=
    match vbw a with Some w => k w | None => PErr EOth end.

  Fixpoint sym_vars (l : list N) : option (list var) :=
    match l with
    | [] => Some []
    | x :: r => match vop x, sym_vars r with
                | OSymbol n t, Some vs => Some ((n, t) :: vs)
                | _, _ => None
                end
    end.

  Fixpoint concat_chain (acc : plan N) (wacc : Z) (rest : list N) : plan N :=
    match rest with
    | [] => acc
    | e :: r => match vbw e with
                | Some we => concat_chain (PNode (OBV BConcat (wacc + we)%Z) [acc; R e]) (wacc + we)%Z r
                | None => PErr EOth
                end
    end.

  Definition ctor_plan (c : ctor) (args : list N) (zs : list Z) : plan N :=
    match c with
    | CNode o => PNode o (map R args)
    | CNot =>
        match args with
        | [a] => match vop a with
                 | ONot => match vargs a with x :: _ => R x | [] => PErr EOth end
                 | _ => PNode ONot [R a]
                 end
        | _ => PErr EBadReq
        end
    | CAnd => match args with [] => PNode (OBoolC true) [] | [a] => R a | _ => PNode OAnd (map R args) end
    | COr => match args with [] => PNode (OBoolC false) [] | [a] => R a | _ => PNode OOr (map R args) end
    | CPlus => match args with [] => PErr ETyp | [a] => R a | _ => PNode OPlus (map R args) end
    | CTimes => match args with [] => PErr ETyp | [a] => R a | _ => PNode OTimes (map R args) end
    | CGE => match args with [a; b] => PNode OLe [R b; R a] | _ => PErr EBadReq end
    | CGT => match args with [a; b] => PNode OLt [R b; R a] | _ => PErr EBadReq end
    | CNotEquals => match args with [a; b] => PNode ONot [PNode OEquals [R a; R b]] | _ => PErr EBadReq end
    | CXor => match args with [a; b] => PNode ONot [PNode OIff [R a; R b]] | _ => PErr EBadReq end
    | CEqualsOrIff =>
        match args with
        | [a; b] => match vty a with
                    | Some TBool => PNode OIff [R a; R b]
                    | Some _ => PNode OEquals [R a; R b]
                    | None => PErr ETyp
                    end
        | _ => PErr EBadReq
        end
    | CToReal =>
        match args with
        | [a] => match vty a with
                 | Some TReal => R a
                 | Some TInt => match vop a with
                                | OIntC z => PReal (PyInt z)
                                | _ => PNode OToReal [R a]
                                end
                 | _ => PErr ETyp
                 end
        | _ => PErr EBadReq
        end
    | CDiv =>
        match args with
        | [a; b] =>
            if vconst b then
              match vop b with
              | OArrayValue _ => PErr EVal
              | ORealC n d =>
                  if (n =? 0)%Z then PNode ODiv [R a; R b]
                  else let (n', d') := fr_norm d n in PNode OTimes [R a; PReal (PyFrac n' d')]
              | _ => PNode ODiv [R a; R b]
              end
            else PNode ODiv [R a; R b]
        | _ => PErr EBadReq
        end
    | CPow =>
        match args with
        | [b; e] =>
            if negb (vconst e) then PErr EVal
            else if vconst b then pow_plan (vop b) (vop e)
            else PNode OPow [R b; R e]
        | _ => PErr EBadReq
        end
    | CBvUn k => match args with [a] => with_bw a (fun w => PNode (OBV k w) [R a]) | _ => PErr EBadReq end
    | CBvBin k => match args with [a; b] => with_bw a (fun w => PNode (OBV k w) [R a; R b]) | _ => PErr EBadReq end
    | CBvShiftInt k =>
        match args, zs with
        | [a], [z] => with_bw a (fun w => PNode (OBV k w) [R a; PBV z w])
        | _, _ => PErr EBadReq
        end
    | CBvNary k =>
        match args with
        | [] => PErr EVal
        | [a] => R a
        | a :: rest => with_bw a (fun w => fold_left (fun acc x => PNode (OBV k w) [acc; R x]) rest (R a))
        end
    | CBvConcat =>
        match args with
        | a :: b :: rest =>
            with_bw a (fun wa => with_bw b (fun wb =>
              concat_chain (PNode (OBV BConcat (wa + wb)%Z) [R a; R b]) (wa + wb)%Z rest))
        | _ => PErr EOth
        end
    | CBvComp => match args with [a; b] => PNode (OBV BComp 1%Z) [R a; R b] | _ => PErr EBadReq end
    | CBvSwapRel k => match args with [a; b] => PNode (OBVRel k) [R b; R a] | _ => PErr EBadReq end
    | CBvExtract =>
        match args with
        | [a] =>
            with_bw a (fun w =>
              let se := match zs with
                        | [s; e] => Some (s, e)
                        | [s] => Some (s, (w - 1)%Z)
                        | [] => Some (0%Z, (w - 1)%Z)
                        | _ => None
                        end in
              match se with
              | Some (s, e) =>
                  if (s <=? e)%Z && (0 <=? s)%Z && (e - s + 1 <=? w)%Z
                  then PNode (OBVExtract (e - s + 1)%Z s e) [R a]
                  else PErr EOth
              | None => PErr EBadReq
              end)
        | _ => PErr EBadReq
        end
    | CBvRol => match args, zs with [a], [k] => with_bw a (fun w => PNode (OBVRol w k) [R a]) | _, _ => PErr EBadReq end
    | CBvRor => match args, zs with [a], [k] => with_bw a (fun w => PNode (OBVRor w k) [R a]) | _, _ => PErr EBadReq end
    | CBvZext => match args, zs with [a], [k] => with_bw a (fun w => PNode (OBVZext (w + k)%Z k) [R a]) | _, _ => PErr EBadReq end
    | CBvSext => match args, zs with [a], [k] => with_bw a (fun w => PNode (OBVSext (w + k)%Z k) [R a]) | _, _ => PErr EBadReq end
    | CStrConcat => match args with [] | [_] => PErr ETyp | _ => PNode (OStr SConcat) (map R args) end
    | CFunction =>
        match args with
        | f :: params =>
            match params with
            | [] => R f
            | _ => match vop f with
                   | OSymbol n (TFun ps r) =>
                       if Nat.eqb (List.length ps) (List.length params)
                       then PNode (OFunction n (TFun ps r)) (map R params) else PErr EVal
                   | _ => PErr EOth
                   end
            end
        | [] => PErr EBadReq
        end
    | CQuant univ =>
        match args with
        | body :: vars =>
            match vars with
            | [] => R body
            | _ => match sym_vars vars with
                   | Some vs => PNode (if univ then OForall vs else OExists vs) [R body]
                   | None => PErr EUnm
                   end
            end
        | [] => PErr EBadReq
        end
    end.
End Ctors.

(* the view of a term *)
Definition t_plan : ctor -> list term -> list Z -> plan term := ctor_plan top targs tc t_bvw t_const.

(* the view of a node of a table *)
Definition i_op (tb : list content) (i : id) : op := top (unfold_tb tb i).
Definition i_args (tb : list content) (i : id) : list id :=
  match node_tb tb i with Some (_, a) => a | None => [] end.
Definition i_ty (tb : list content) (i : id) : option ty := tc (unfold_tb tb i).
Definition i_bvw (tb : list content) (i : id) : option Z := t_bvw (unfold_tb tb i).
Definition i_const (tb : list content) (i : id) : bool := t_const (unfold_tb tb i).
Definition i_plan (tb : list content) : ctor -> list id -> list Z -> plan id :=
  ctor_plan (i_op tb) (i_args tb) (i_ty tb) (i_bvw tb) (i_const tb).

(* ---------------------------------------------------------------- constants *)
(* a Python Fraction (and the exact value of a finite float) is always in lowest terms with a
   positive denominator: a PyFrac/PyFloat that is not cannot be named in Python (model-only guard,
   like the one on ids in create_node) *)
Definition frac_ok (n d : Z) : bool := (Z.gcd n d =? 1)%Z && (0 <? d)%Z.
(* formula.py:342-372: the argument is converted FIRST (type test, Fraction(n, d)), the cache is
   consulted afterwards (commit 7843d1b) *)
Definition real_val (v : pyval) : res (Z * Z) :=
  match v with
  | PyFrac n d => if frac_ok n d then Ok (n, d) else Err EBadReq     (* is_pysmt_fraction: payload is the value *)
  | PyPair n d => if (d =? 0)%Z then Err EOth else Ok (fr_norm n d)    (* Fraction(n, d) *)
  | PyInt z => Ok (z, 1%Z)
  | PyFloat n d => if frac_ok n d then Ok (n, d) else Err EBadReq    (* Fraction(float): exact *)
  | PyBool _ | PyStr _ => Err ETyp
  end.
Definition real (v : pyval) : M id :=
  fun s => match real_val v with
           | Err e => (s, Err e)
           | Ok (n, d) =>
               match cache_get v (real_c s) with
               | Some i => (s, Ok i)
               | None =>
                   bind (create_node (ORealC n d, []))
                        (fun i s1 => (set_real_c s1 ((v, i) :: real_c s1), Ok i)) s
               end
           end.
(* formula.py:374-393: type test first, cache afterwards (commit 7843d1b) *)
Definition int (v : pyval) : M id :=
  fun s => match v with
           | PyInt z =>
               match cache_get v (int_c s) with
               | Some i => (s, Ok i)
               | None =>
                   bind (create_node (OIntC z, []))
                        (fun i s1 => (set_int_c s1 ((v, i) :: int_c s1), Ok i)) s
               end
           | _ => (s, Err ETyp)
           end.
(* formula.py:390-403 *)
Definition str (v : pyval) : M id :=
  fun s => match cache_get v (str_c s) with
           | Some i => (s, Ok i)
           | None =>
               match v with
               | PyStr z =>
                   bind (create_node (OStrC z, []))
                        (fun i s1 => (set_str_c s1 ((v, i) :: str_c s1), Ok i)) s
               | _ => (s, Err ETyp)
               end
           end.
(* formula.py:413-420 *)
Definition boolc (v : pyval) : M id :=
  match v with PyBool b => ret (if b then 1 else 2) | _ => fail ETyp end.

(* spellings of a bit-vector value: int, "#b0101" / "0101", anything else *)
Inductive bvspell := BvInt (z : Z) | BvBits (hash_b : bool) (bits : list bool) | BvBadStr | BvOther.
(* formula.py:601-650 *)
Definition bv (v : bvspell) (width : option Z) : M id :=
  let go (z : Z) (w : option Z) : M id :=
      match w with
      | None => fail EVal
      | Some w =>
          if (z <? 0)%Z then fail EVal
          else if (if (w <? 0)%Z then (0 <? z)%Z else (Z.pow 2 w <=? z)%Z) then fail EVal
          else create_node (OBVC z w, [])
      end in
  match v with
  | BvInt z => go z width
  | BvBits _ bits =>
      match int_of_bits bits with
      | None => fail EVal                                (* int("", 2) *)
      | Some z =>
          let sw := zlen bits in
          match width with
          | Some w => if (w =? sw)%Z then go z (Some sw) else fail EVal
          | None => go z (Some sw)
          end
      end
  | BvBadStr => fail EVal
  | BvOther => match width with None => fail EVal | Some _ => fail ETyp end
  end.
(* formula.py:652-681 *)
Definition sbv (v : bvspell) (width : option Z) : M id :=
  match v with
  | BvInt z =>
      match width with
      | None => fail EVal
      | Some w =>
          if (w <=? 0)%Z then fail EVal
          else if (z <? - Z.pow 2 (w - 1))%Z || (Z.pow 2 (w - 1) - 1 <? z)%Z then fail EVal
          else if (0 <=? z)%Z then bv (BvInt z) (Some w) else bv (BvInt (Z.pow 2 w + z)) (Some w)
      end
  | _ => bv v width
  end.

(* ---------------------------------------------------------------- executing a plan *)
Fixpoint exec (p : plan id) : M id :=
  match p with
  | PRet n => ret n
  | PNode o ps =>
      bind ((fix go (l : list (plan id)) : M (list id) :=
               match l with
               | [] => ret []
               | x :: r => bind (exec x) (fun i => bind (go r) (fun js => ret (i :: js)))
               end) ps)
           (fun js => create_node (o, js))
  | PReal v => real v
  | PBV z w => bv (BvInt z) (Some w)
  | PErr e => fail e
  end.

Definition ctor_call (c : ctor) (args : list id) (zs : list Z) : M id :=
  fun s => exec (i_plan (table s) c args zs) s.

(* ---------------------------------------------------------------- symbols *)
(* formula.py:139-147 (Symbol = get_or_create_symbol), 108-117 *)
Definition symbol (n : string) (t : ty) : M id :=
  fun s => match sym_get n (symbols s) with
           | None =>
               if String.eqb n "" then (s, Err EVal)
               else bind (create_node (OSymbol n t, []))
                         (fun i s1 => (set_symbols s1 ((n, i) :: symbols s1), Ok i)) s
           | Some i =>
               match i_op (table s) i with
               | OSymbol _ t' => if ty_eqb t' t then (s, Ok i) else (s, Err ETyp)
               | _ => (s, Err EOth)
               end
           end.

Definition decimal (n : nat) : string := NilEmpty.string_of_uint (Nat.to_uint n).
Fixpoint fresh_search (fuel : nat) (syms : list (string * id)) (pre suf : string) (count : nat) : nat :=
  match fuel with
  | O => count
  | S f => match sym_get (pre ++ decimal count ++ suf)%string syms with
           | Some _ => fresh_search f syms pre suf (S count)
           | None => count
           end
  end.
(* formula.py:119-128; the template is prefix ++ "%d" ++ suffix *)
Definition new_fresh_symbol (t : ty) (tmpl : option (string * string)) : M id :=
  fun s => let (pre, suf) := match tmpl with Some ps => ps | None => ("FV"%string, ""%string) end in
           let count := fresh_search (S (List.length (symbols s))) (symbols s) pre suf (fresh_guess s) in
           symbol (pre ++ decimal count ++ suf)%string t (set_fresh s (S count)).

(* ---------------------------------------------------------------- Array (formula.py:1092-1114) *)
Fixpoint assoc_set (k v : id) (l : list (id * id)) : list (id * id) :=
  match l with
  | [] => [(k, v)]
  | (k', v') :: r => if Nat.eqb k k' then (k, v) :: r else (k', v') :: assoc_set k v r
  end.
(* dict(pairs): one entry per key, the last value wins *)
Definition dict_of_pairs (l : list (id * id)) : list (id * id) :=
  fold_left (fun acc kv => assoc_set (fst kv) (snd kv) acc) l [].
Fixpoint insert_by (addr : id -> Z) (kv : id * id) (l : list (id * id)) : list (id * id) :=
  match l with
  | [] => [kv]
  | x :: r => if (addr (fst kv) <=? addr (fst x))%Z then kv :: l else x :: insert_by addr kv r
  end.
(* sorted(assigned_values, key=id): by the address of the key object *)
Definition sort_by (addr : id -> Z) (l : list (id * id)) : list (id * id) :=
  fold_right (insert_by addr) [] l.
Fixpoint flatten_pairs (l : list (id * id)) : list id :=
  match l with [] => [] | (k, v) :: r => k :: v :: flatten_pairs r end.
Definition array_args (addr : id -> Z) (d : id) (pairs : list (id * id)) : list id :=
  d :: flatten_pairs (filter (fun kv => negb (Nat.eqb (snd kv) d)) (sort_by addr (dict_of_pairs pairs))).
Definition array (addr : id -> Z) (it : ty) (d : id) (pairs : list (id * id)) : M id :=
  fun s => if forallb (fun kv => i_const (table s) (fst kv)) (dict_of_pairs pairs)
           then create_node (OArrayValue it, array_args addr d pairs) s
           else (s, Err EVal).

(* ---------------------------------------------------------------- cross-environment copy *)
(* TypeManager.normalize (typing.py:505-545, after commit 3ff3f2b): every component is rebuilt
   from its own name, arity and arguments inside the target type manager; sorts are structural
   values here, so the result is the sort itself.  (Declaring one sort name with two arities in
   two environments is outside the model.)  Kept as an option: the callers treat a failure of
   the type manager as an exception. *)
Definition tnorm (t : ty) : option ty := Some t.

Definition take2 (l : list id) (k : id -> id -> M id) : M id :=
  match l with a :: b :: _ => k a b | _ => fail EOth end.
Definition take3 (l : list id) (k : id -> id -> id -> M id) : M id :=
  match l with a :: b :: c :: _ => k a b c | _ => fail EOth end.
Definition take1 (l : list id) (k : id -> M id) : M id :=
  match l with a :: _ => k a | _ => fail EOth end.

Definition norm_symbol (n : string) (t : ty) : M id :=
  match tnorm t with Some t' => symbol n t' | None => fail EOth end.
Fixpoint norm_vars (vs : list var) : M (list id) :=
  match vs with
  | [] => ret []
  | (n, t) :: r => bind (norm_symbol n t) (fun i => bind (norm_vars r) (fun js => ret (i :: js)))
  end.

(* IdentityDagWalker.walk_* / FormulaContextualizer.walk_*: rebuild one node from its rebuilt
   children through the public constructors *)
Definition rebuild (addr : id -> Z) (o : op) (a : list id) : M id :=
  match o with
  | OSymbol n t => norm_symbol n t
  | OFunction n ft => bind (norm_symbol n ft) (fun f => ctor_call CFunction (f :: a) [])
  | ORealC n d => real (PyFrac n d)
  | OIntC z => int (PyInt z)
  | OBoolC b => boolc (PyBool b)
  | OStrC z => str (PyStr z)
  | OBVC v w => bv (BvInt v) (Some w)
  | OAnd => ctor_call CAnd a []
  | OOr => ctor_call COr a []
  | OPlus => ctor_call CPlus a []
  | OTimes => ctor_call CTimes a []
  | ONot => take1 a (fun x => ctor_call CNot [x] [])
  | OToReal => take1 a (fun x => ctor_call CToReal [x] [])
  | OImplies | OIff | OEquals | OLe | OLt | OMinus | OSelect =>
      take2 a (fun x y => ctor_call (CNode o) [x; y] [])
  | ODiv => take2 a (fun x y => ctor_call CDiv [x; y] [])
  | OPow => take2 a (fun x y => ctor_call CPow [x; y] [])
  | OIte | OStore => take3 a (fun x y z => ctor_call (CNode o) [x; y; z] [])
  | OForall vs => take1 a (fun b => bind (norm_vars vs) (fun qs => ctor_call (CQuant true) (b :: qs) []))
  | OExists vs => take1 a (fun b => bind (norm_vars vs) (fun qs => ctor_call (CQuant false) (b :: qs) []))
  | OBV k w =>
      match k with
      | BNot | BNeg => take1 a (fun x => ctor_call (CBvUn k) [x] [])
      | BAnd | BOr | BAdd | BMul => take2 a (fun x y => ctor_call (CBvNary k) [x; y] [])
      | BConcat => take2 a (fun x y => ctor_call CBvConcat [x; y] [])
      | BComp => take2 a (fun x y => ctor_call CBvComp [x; y] [])
      | _ => take2 a (fun x y => ctor_call (CBvBin k) [x; y] [])
      end
  | OBVRel k => take2 a (fun x y => ctor_call (CNode o) [x; y] [])
  | OBVExtract _ s e => take1 a (fun x => ctor_call CBvExtract [x] [s; e])
  | OBVRol _ k => take1 a (fun x => ctor_call CBvRol [x] [k])
  | OBVRor _ k => take1 a (fun x => ctor_call CBvRor [x] [k])
  | OBVZext _ k => take1 a (fun x => ctor_call CBvZext [x] [k])
  | OBVSext _ k => take1 a (fun x => ctor_call CBvSext [x] [k])
  | OBVToNat => take1 a (fun x => ctor_call (CNode o) [x] [])
  | OStr k =>
      match k with
      | SConcat => ctor_call CStrConcat a []
      | SLength | SToInt | SFromInt => take1 a (fun x => ctor_call (CNode o) [x] [])
      | SContains | SPrefixOf | SSuffixOf | SCharAt => take2 a (fun x y => ctor_call (CNode o) [x; y] [])
      | SIndexOf | SReplace | SSubstr => take3 a (fun x y z => ctor_call (CNode o) [x; y; z] [])
      end
  | OArrayValue it =>
      match tnorm it, a with
      | Some it', d :: rest => array addr it' d (pairs_of rest)
      | _, _ => fail EOth
      end
  end.

(* the DAG walk: children are completed last-to-first (explicit stack), a node after its
   children; the walker's memo only saves work (every constructor returns the existing node). *)
Fixpoint norm_fuel (f : nat) (addr : id -> Z) (src : list content) (i : id) : M id :=
  match f with
  | O => fail EBadReq
  | S f' =>
      match node_tb src i with
      | None => fail EBadReq
      | Some (o, args) =>
          bind ((fix go (l : list id) : M (list id) :=
                   match l with
                   | [] => ret []
                   | x :: r => bind (go r) (fun rs => bind (norm_fuel f' addr src x) (fun x' => ret (x' :: rs)))
                   end) args)
               (fun args' => rebuild addr o args')
      end
  end.
Definition normalize (addr : id -> Z) (src : list content) (i : id) : M id := norm_fuel i addr src i.

(* ---------------------------------------------------------------- requests *)
Inductive request :=
| RCtor (c : ctor) (args : list id) (zs : list Z)
| RSymbol (n : string) (t : ty)
| RFresh (t : ty) (tmpl : option (string * string))
| RReal (v : pyval) | RInt (v : pyval) | RString (v : pyval) | RBool (v : pyval)
| RBV (v : bvspell) (w : option Z) | RSBV (v : bvspell) (w : option Z)
| RArray (it : ty) (d : id) (pairs : list (id * id))
| RNormalize (src : nat) (i : id).

Definition valid_id (s : state) (i : id) : bool := valid_tb (table s) i.
Definition req_ids (r : request) : list id :=
  match r with
  | RCtor _ args _ => args
  | RArray _ d pairs => d :: flatten_pairs pairs
  | _ => []
  end.

(* one call on one manager; [srcs] gives the tables of all environments (for RNormalize) *)
Definition step (addr : id -> Z) (srcs : list (list content)) (s : state) (r : request) : state * res id :=
  if negb (forallb (valid_id s) (req_ids r)) then (s, Err EBadReq)
  else match r with
       | RCtor c args zs => ctor_call c args zs s
       | RSymbol n t => symbol n t s
       | RFresh t tmpl => new_fresh_symbol t tmpl s
       | RReal v => real v s
       | RInt v => int v s
       | RString v => str v s
       | RBool v => boolc v s
       | RBV v w => bv v w s
       | RSBV v w => sbv v w s
       | RArray it d pairs => array addr it d pairs s
       | RNormalize src i =>
           match nth_error srcs src with
           | Some tb => if (1 <=? i) && (i <=? List.length tb) then normalize addr tb i s else (s, Err EBadReq)
           | None => (s, Err EBadReq)
           end
       end.

(* ---------------------------------------------------------------- several environments *)
Definition world := list state.
Fixpoint set_nth {A} (l : list A) (k : nat) (x : A) : list A :=
  match l, k with
  | [], _ => []
  | _ :: r, O => x :: r
  | y :: r, S k' => y :: set_nth r k' x
  end.
Definition wstep (addr : nat -> id -> Z) (w : world) (er : nat * request) : world * res id :=
  let (e, r) := er in
  match nth_error w e with
  | None => (w, Err EBadReq)
  | Some s => let (s', rp) := step (addr e) (map table w) s r in (set_nth w e s', rp)
  end.
Fixpoint wrun (addr : nat -> id -> Z) (w : world) (l : list (nat * request)) : world * list (res id) :=
  match l with
  | [] => (w, [])
  | er :: rest => let (w1, rp) := wstep addr w er in
                  let (w2, rps) := wrun addr w1 rest in (w2, rp :: rps)
  end.
Definition winit (n : nat) : world := repeat init n.

(* single-environment run (no RNormalize sources other than itself) *)
Definition step1 (addr : id -> Z) (s : state) (r : request) : state * res id := step addr [table s] s r.
Definition run1 (addr : id -> Z) (l : list request) : state := fold_left (fun s r => fst (step1 addr s r)) l init.
