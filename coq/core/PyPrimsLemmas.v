(* Facts about core/PyPrims.v: the bit strings used by the extract / rotate / extend rules
   (format(v, '0{w}b'), slicing, [::-1], int(s, 2)) related to division and remainder by powers
   of two. *)
From Coq Require Import List ZArith Bool Lia.
From PySMT.core Require Import PyPrims.
Import ListNotations.
Open Scope Z_scope.

(* bits of v, least significant first, and the number a list of bits denotes *)
Definition lsb_bits (n : nat) (v : Z) : list bool := map (fun i => Z.testbit v (Z.of_nat i)) (seq 0 n).
Fixpoint lsb_val (l : list bool) : Z := match l with [] => 0 | b :: r => Z.b2z b + 2 * lsb_val r end.

Lemma lsb_bits_length n v : length (lsb_bits n v) = n.
Proof. unfold lsb_bits. now rewrite map_length, seq_length. Qed.
Lemma bits_msb_length n v : length (bits_msb n v) = n.
Proof. induction n; cbn; auto. Qed.
Lemma rev_bits_msb n v : rev (bits_msb n v) = lsb_bits n v.
Proof.
  induction n as [|k IH]; [reflexivity|]. cbn [bits_msb rev]. rewrite IH. unfold lsb_bits. rewrite seq_S, map_app. reflexivity.
Qed.
Lemma bits_msb_rev n v : bits_msb n v = rev (lsb_bits n v).
Proof. now rewrite <- rev_bits_msb, rev_involutive. Qed.

Lemma lsb_val_app l1 l2 : lsb_val (l1 ++ l2) = lsb_val l1 + 2 ^ Z.of_nat (length l1) * lsb_val l2.
Proof.
  induction l1 as [|b r IH]; [cbn [app lsb_val length]; change (Z.of_nat 0) with 0; rewrite Z.pow_0_r; lia|].
  cbn [app lsb_val length]. rewrite IH, Nat2Z.inj_succ, Z.pow_succ_r by lia. lia.
Qed.
Lemma lsb_val_range l : 0 <= lsb_val l < 2 ^ Z.of_nat (length l).
Proof.
  induction l as [|b r IH]; [cbn [lsb_val length]; change (Z.of_nat 0) with 0; rewrite Z.pow_0_r; lia|].
  cbn [lsb_val length]. rewrite Nat2Z.inj_succ, Z.pow_succ_r by lia. destruct b; cbn [Z.b2z]; lia.
Qed.
(* int(s, 2) reads most significant first *)
Lemma int_of_bits_acc_val l : forall acc, int_of_bits_acc l acc = acc * 2 ^ Z.of_nat (length l) + lsb_val (rev l).
Proof.
  induction l as [|b r IH]; intros acc; [cbn [int_of_bits_acc rev length lsb_val]; change (Z.of_nat 0) with 0; rewrite Z.pow_0_r; lia|].
  cbn [int_of_bits_acc rev length]. rewrite IH, lsb_val_app, rev_length.
  rewrite Nat2Z.inj_succ, Z.pow_succ_r by lia. cbn [lsb_val]. destruct b; cbn [Z.b2z]; lia.
Qed.
Lemma int_of_bits_rev l : l <> [] -> int_of_bits (rev l) = Some (lsb_val l).
Proof.
  intros Hl. unfold int_of_bits. destruct (rev l) eqn:E.
  - exfalso. apply Hl. apply (f_equal (@rev bool)) in E. now rewrite rev_involutive in E.
  - rewrite <- E. f_equal. rewrite int_of_bits_acc_val, rev_involutive. lia.
Qed.
Lemma int_of_bits_acc_app l1 l2 acc : int_of_bits_acc (l1 ++ l2) acc = int_of_bits_acc l2 (int_of_bits_acc l1 acc).
Proof. revert acc. induction l1 as [|b r IH]; intros acc; cbn; auto. Qed.
Lemma int_of_bits_acc_repeat b k : int_of_bits_acc (repeat b k) 0 = if b then 2 ^ Z.of_nat k - 1 else 0.
Proof.
  rewrite int_of_bits_acc_val. cbn. induction k as [|k IH]; [destruct b; reflexivity|].
  change (repeat b (S k)) with ([b] ++ repeat b k). rewrite rev_app_distr, lsb_val_app, rev_length, repeat_length. cbn [rev app lsb_val].
  rewrite IH. rewrite Nat2Z.inj_succ, Z.pow_succ_r by lia. destruct b; cbn [Z.b2z]; lia.
Qed.

(* the bits of v, LSB first, denote v mod 2^n *)
Lemma lsb_bits_succ n v : lsb_bits (S n) v = Z.testbit v 0 :: lsb_bits n (v / 2).
Proof.
  unfold lsb_bits. cbn [seq map]. f_equal. rewrite <- seq_shift, map_map. apply map_ext. intros i. cbv beta.
  rewrite Nat2Z.inj_succ. rewrite Z.div2_bits by lia. reflexivity.
Qed.
Lemma lsb_val_bits n : forall v, 0 <= v -> lsb_val (lsb_bits n v) = v mod 2 ^ Z.of_nat n.
Proof.
  induction n as [|n IH]; intros v Hv; [cbn; now rewrite Z.mod_1_r|].
  rewrite lsb_bits_succ. cbn [lsb_val]. rewrite IH by (apply Z.div_pos; lia).
  rewrite Nat2Z.inj_succ, Z.pow_succ_r by lia. rewrite Z.rem_mul_r by (try lia; apply Z.pow_nonzero; lia).
  now rewrite Z.bit0_mod.
Qed.
(* taking bits a .. a+m-1 *)
Lemma map_seq_shift {A} (f : nat -> A) a m : map f (seq a m) = map (fun i => f (a + i)%nat) (seq 0 m).
Proof.
  revert a. induction m as [|m IH]; intros a; [reflexivity|]. cbn [seq map]. rewrite Nat.add_0_r. f_equal.
  rewrite IH. rewrite <- (seq_shift m 0). rewrite map_map. apply map_ext. intros i. f_equal. lia.
Qed.
Lemma skipn_seq' n : forall start len, skipn n (seq start len) = seq (start + n) (len - n).
Proof.
  induction n as [|n IH]; intros start len; [cbn; now rewrite Nat.add_0_r, Nat.sub_0_r|].
  destruct len as [|len]; [reflexivity|]. cbn [seq skipn]. rewrite IH. f_equal. lia.
Qed.
Lemma firstn_seq' n : forall start len, firstn n (seq start len) = seq start (Nat.min n len).
Proof.
  induction n as [|n IH]; intros start len; [reflexivity|].
  destruct len as [|len]; [reflexivity|]. cbn [seq firstn Nat.min]. now rewrite IH.
Qed.
Lemma lsb_bits_skip a n v : (a <= n)%nat -> 0 <= v -> skipn a (lsb_bits n v) = lsb_bits (n - a) (v / 2 ^ Z.of_nat a).
Proof.
  intros Ha Hv. unfold lsb_bits. rewrite skipn_map, skipn_seq'. cbn [Nat.add]. rewrite map_seq_shift. apply map_ext. intros i.
  rewrite Z.div_pow2_bits by lia. f_equal. lia.
Qed.
Lemma lsb_bits_first a n v : (a <= n)%nat -> firstn a (lsb_bits n v) = lsb_bits a v.
Proof. intros Ha. unfold lsb_bits. rewrite firstn_map, firstn_seq'. now rewrite Nat.min_l by lia. Qed.

(* s[a:b] for 0 <= a <= b <= len(s) *)
Lemma py_slice_in {A} (s : list A) a b : 0 <= a <= b -> b <= zlen s ->
  py_slice s (Some a) (Some b) = firstn (Z.to_nat (b - a)) (skipn (Z.to_nat a) s).
Proof.
  intros Hab Hb. unfold py_slice, norm_idx.
  rewrite (proj2 (Z.ltb_ge a 0)) by lia. rewrite (proj2 (Z.ltb_ge (zlen s) a)) by lia.
  rewrite (proj2 (Z.ltb_ge b 0)) by lia. rewrite (proj2 (Z.ltb_ge (zlen s) b)) by lia.
  destruct (Z.ltb_spec a b); auto. replace (b - a) with 0 by lia. reflexivity.
Qed.
Lemma py_slice_from {A} (s : list A) a : 0 <= a <= zlen s -> py_slice s (Some a) None = skipn (Z.to_nat a) s.
Proof.
  intros Ha. unfold py_slice, norm_idx.
  rewrite (proj2 (Z.ltb_ge a 0)) by lia. rewrite (proj2 (Z.ltb_ge (zlen s) a)) by lia.
  destruct (Z.ltb_spec a (zlen s)).
  - apply firstn_all2. rewrite skipn_length. unfold zlen in *. lia.
  - symmetry. apply skipn_all2. unfold zlen in *. lia.
Qed.

(* format(v, '0{w}b') of a value that fits in w bits *)
Lemma bin_str_fits w v : 0 < w -> 0 <= v < 2 ^ w -> bin_str w v = bits_msb (Z.to_nat w) v.
Proof.
  intros Hw [V0 V1]. unfold bin_str. f_equal. f_equal. destruct (Z.eqb_spec v 0); [lia|].
  assert (Z.log2 v < w) by (apply Z.log2_lt_pow2; lia). lia.
Qed.
