(* Python primitives the pySMT rewriting rules rely on, as total Gallina functions with
   CPython 3.12's corner cases written out.  Strings are lists of code points ([list Z]);
   bit strings are lists of booleans, most significant bit first unless stated otherwise.
   [None] stands for "Python raises here" (the exception class is named in the comment).
   Tie to CPython: harness/c01.py (stream "prims") evaluates every function below inside Coq on
   enumerated and random arguments and compares with the Python built-in itself. *)
From Coq Require Import List ZArith Bool.
Import ListNotations.
Open Scope bool_scope.
Open Scope Z_scope.

Definition zlen {A} (l : list A) : Z := Z.of_nat (length l).

(* ---------------------------------------------------------------- integers *)
(* a // b and a % b: floor division, remainder has the sign of the divisor; ZeroDivisionError *)
Definition py_floordiv (a b : Z) : option Z := if b =? 0 then None else Some (Z.div a b).
Definition py_mod (a b : Z) : option Z := if b =? 0 then None else Some (Z.modulo a b).
(* a ** b on ints for b >= 0 (a negative exponent yields a float: see py_int_pow_neg) *)
Definition py_pow (a b : Z) : Z := Z.pow a b.
Definition py_shl (a k : Z) : Z := Z.shiftl a k.          (* k >= 0 *)
Definition py_shr (a k : Z) : Z := Z.shiftr a k.          (* k >= 0; arithmetic on negatives *)
Definition py_and := Z.land.
Definition py_or := Z.lor.
Definition py_xor := Z.lxor.
Definition py_invert (a : Z) : Z := - a - 1.               (* ~a *)

(* pysmt.utils.set_bit / twos_complement *)
Definition set_bit (v index : Z) (x : bool) : Z :=
  let mask := py_shl 1 index in
  if x then py_or v mask else py_and v (py_invert mask).
Definition twos_complement (val bits : Z) : Z :=
  if negb (py_and val (py_shl 1 (bits - 1)) =? 0) then val - py_pow 2 bits else val.

(* ---------------------------------------------------------------- rationals (fractions.Fraction) *)
(* normalised: denominator > 0, gcd 1 *)
Definition frac := (Z * Z)%type.
Definition fr_norm (n d : Z) : frac :=
  let g := Z.gcd n d in
  if d =? 0 then (n, d)
  else let n' := n / g in let d' := d / g in
       if d' <? 0 then (- n', - d') else (n', d').
Definition fr_of_Z (z : Z) : frac := (z, 1).
Definition fr_add (a b : frac) : frac := fr_norm (fst a * snd b + fst b * snd a) (snd a * snd b).
Definition fr_sub (a b : frac) : frac := fr_norm (fst a * snd b - fst b * snd a) (snd a * snd b).
Definition fr_mul (a b : frac) : frac := fr_norm (fst a * fst b) (snd a * snd b).
Definition fr_neg (a : frac) : frac := (- fst a, snd a).
(* a / b : ZeroDivisionError when b = 0 *)
Definition fr_div (a b : frac) : option frac :=
  if fst b =? 0 then None else Some (fr_norm (fst a * snd b) (snd a * fst b)).
Definition fr_eqb (a b : frac) : bool := fst a * snd b =? fst b * snd a.
Definition fr_ltb (a b : frac) : bool := fst a * snd b <? fst b * snd a.
Definition fr_leb (a b : frac) : bool := fst a * snd b <=? fst b * snd a.
Definition fr_is_int (a : frac) : bool := snd a =? 1.
(* Fraction.__pow__ with an integer-valued exponent; ZeroDivisionError for 0 ** negative.
   (A non-integer exponent goes through C pow() on floats: outside this model.) *)
Definition fr_pow_int (a : frac) (p : Z) : option frac :=
  let (n, d) := a in
  if 0 <=? p then Some (Z.pow n p, Z.pow d p)
  else if 0 <? n then Some (Z.pow d (- p), Z.pow n (- p))
  else if n =? 0 then None
  else Some (Z.pow (- d) (- p), Z.pow (- n) (- p)).

(* ---------------------------------------------------------------- sequences *)
(* PySlice_AdjustIndices for step 1 *)
Definition norm_idx (n i : Z) : Z :=
  if i <? 0 then (if i + n <? 0 then 0 else i + n) else if n <? i then n else i.
(* s[a:b]; None = omitted bound *)
Definition py_slice {A} (s : list A) (a b : option Z) : list A :=
  let n := zlen s in
  let st := match a with None => 0 | Some i => norm_idx n i end in
  let en := match b with None => n | Some i => norm_idx n i end in
  if st <? en then firstn (Z.to_nat (en - st)) (skipn (Z.to_nat st) s) else [].
Definition py_reverse {A} (s : list A) : list A := rev s.          (* s[::-1] *)
(* s * k *)
Definition py_repeat {A} (s : list A) (k : Z) : list A :=
  concat (repeat s (Z.to_nat k)).

Fixpoint prefix_eqb (p s : list Z) : bool :=
  match p, s with
  | [], _ => true
  | x :: p', y :: s' => Z.eqb x y && prefix_eqb p' s'
  | _ :: _, [] => false
  end.
Fixpoint find_from (sub s : list Z) (i : Z) : Z :=
  if prefix_eqb sub s then i
  else match s with [] => -1 | _ :: r => find_from sub r (i + 1) end.
(* s.find(sub, start) *)
Definition py_find (s sub : list Z) (start : Z) : Z :=
  let n := zlen s in
  let st := if start <? 0 then (if start + n <? 0 then 0 else start + n) else start in
  if n <? st then -1 else find_from sub (skipn (Z.to_nat st) s) st.
(* sub in s *)
Definition py_in (sub s : list Z) : bool := 0 <=? find_from sub s 0.
(* s.replace(a, b, 1) *)
Fixpoint py_replace1 (s a b : list Z) : list Z :=
  if prefix_eqb a s then b ++ skipn (length a) s
  else match s with [] => [] | c :: r => c :: py_replace1 r a b end.
Definition py_startswith (s p : list Z) : bool := prefix_eqb p s.
Definition py_endswith (s p : list Z) : bool := prefix_eqb (rev p) (rev s).

(* ---------------------------------------------------------------- int(str), str(int) *)
(* What int() skips around the number, on code points < 256: the C isspace characters, and the
   two non-ASCII Latin-1 spaces (int() maps every non-ASCII Unicode space to ' ' first; the
   ASCII separators 0x1c-0x1f are str.isspace() but are NOT skipped by int()).  The model is
   exact for Latin-1 strings; above that Python also accepts the other Unicode spaces and
   decimal digits. *)
Definition is_space (c : Z) : bool :=
  ((9 <=? c) && (c <=? 13)) || (c =? 32) || (c =? 133) || (c =? 160).
Definition is_digit (c : Z) : bool := (48 <=? c) && (c <=? 57).
Fixpoint drop_space (l : list Z) : list Z :=
  match l with c :: r => if is_space c then drop_space r else l | [] => [] end.
Definition py_strip (l : list Z) : list Z := rev (drop_space (rev (drop_space l))).
Definition max_str_digits : Z := 4300.      (* sys.get_int_max_str_digits() default *)
(* digits with single underscores between them; returns value and number of digits *)
Fixpoint parse_digits (l : list Z) (acc : Z) (last_digit : bool) (cnt : Z) : option (Z * Z) :=
  match l with
  | [] => if last_digit then Some (acc, cnt) else None
  | c :: r =>
      if is_digit c then parse_digits r (acc * 10 + (c - 48)) true (cnt + 1)
      else if (c =? 95) && last_digit then parse_digits r acc false cnt
      else None
  end.
(* int(s) in base 10; None = ValueError (syntax, or more than 4300 digits) *)
Definition py_int_of_str (s : list Z) : option Z :=
  let t := py_strip s in
  let (neg, body) := match t with
                     | 45 :: r => (true, r)
                     | 43 :: r => (false, r)
                     | _ => (false, t)
                     end in
  match parse_digits body 0 false 0 with
  | Some (v, cnt) => if max_str_digits <? cnt then None else Some (if neg then - v else v)
  | None => None
  end.

Fixpoint digits_fuel (fuel : nat) (v : Z) (acc : list Z) : list Z :=
  match fuel with
  | O => acc
  | S f => if v <? 10 then (48 + v) :: acc else digits_fuel f (v / 10) ((48 + v mod 10) :: acc)
  end.
(* exactly k decimal digits of v (zero padded), prepended to acc *)
Fixpoint digits_pad (k : nat) (v : Z) (acc : list Z) : list Z :=
  match k with
  | O => acc
  | S k' => digits_pad k' (v / 10) ((48 + v mod 10) :: acc)
  end.
(* 16 digits at a time, so that only one long division is done per 16 digits *)
Fixpoint digits_big (fuel : nat) (v : Z) (acc : list Z) : list Z :=
  match fuel with
  | O => acc
  | S f => if v <? 10000000000000000 then digits_fuel 17 v acc
           else let (q, r) := Z.div_eucl v 10000000000000000 in digits_big f q (digits_pad 16 r acc)
  end.
(* str(v); None = ValueError (more than 4300 digits) *)
Definition py_str_of_int (v : Z) : option (list Z) :=
  let a := Z.abs v in
  let ds := digits_big (S (Z.to_nat (Z.log2 a / 53))) a [] in
  if max_str_digits <? zlen ds then None
  else Some (if v <? 0 then 45 :: ds else ds).

(* ---------------------------------------------------------------- bit strings *)
Fixpoint bits_msb (n : nat) (v : Z) : list bool :=
  match n with O => [] | S k => Z.testbit v (Z.of_nat k) :: bits_msb k v end.
(* '{0:0<w>b}'.format(v) for v >= 0: at least w characters, more if v needs them *)
Definition bin_str (w v : Z) : list bool :=
  bits_msb (Z.to_nat (Z.max w (if v =? 0 then 1 else Z.log2 v + 1))) v.
Fixpoint int_of_bits_acc (l : list bool) (acc : Z) : Z :=
  match l with [] => acc | b :: r => int_of_bits_acc r (2 * acc + (if b then 1 else 0)) end.
(* int(s, 2) for a non-empty string of 0/1; None = ValueError on the empty string *)
Definition int_of_bits (l : list bool) : option Z :=
  match l with [] => None | _ => Some (int_of_bits_acc l 0) end.
