(* SPECIFICATION: the SMT-LIB 2.6 reading of a piece of text, at the level of s-expressions.

   - [sexp]: an s-expression whose atoms are the TOKEN TEXTS exactly as they appear in the file
     (so "|a b|", """a""""b""", "#b0101", "12", "12.0", "x" are atoms); [flatten] gives the token
     stream with "(" and ")".
   - lexical classes of atoms (2.6 section 3.1): numeral, decimal, #b / #x literal, string literal,
     simple / quoted symbol, keyword, reserved word; [sym_name] is the symbol an atom denotes
     (|abc| and abc are the same symbol).
   - [sort_of_sexp]: sort syntax (Bool Int Real String (_ BitVec n) (Array I E), declared sorts).
   - [std_eval Sigma I s]: the value of term [s] in signature [Sigma] under interpretation [I]
     (same value domain and theory functions as core/Sem.v, through [op_sem]); [None] when the
     term uses an undeclared symbol, an unknown theory function or a wrong number of arguments.
     What this file FIXES is the spelling table name -> theory function ([std_table]), the
     argument conventions of indexed identifiers, [let] as PARALLEL binding, binders, [as const],
     [!] annotations.
   - [std_sort Sigma s]: the sort of a well-sorted term (static sorting rules; [None] = ill-sorted).
   - [std_script_ok cmds]: set-logic first; every sort / function symbol declared before use and at
     most once per scope (push/pop); asserted terms well-sorted of sort Bool.

   Not covered (the printers never produce it; a reader of arbitrary scripts may need it):
   [match], datatypes, [define-fun-rec], [par]; [mod]/[abs] with the divisor-0 function of [mod]
   (core/Sem.v's interpretations carry only the div-by-0 functions), string escape sequences
   \u{...} inside literals (a literal denotes its characters, "" being one double quote), regular
   expressions. *)
From Coq Require Import List ZArith Bool String Ascii Reals Lia.
From Coq Require Import ClassicalDescription DecimalString Decimal DecimalN.
From PySMT.core Require Import Syntax Sem.
Import ListNotations.
Open Scope bool_scope.
Open Scope string_scope.

(* ------------------------------------------------------------------------- s-expressions *)
Inductive sexp : Type := Atom (a : string) | SList (l : list sexp).

Fixpoint flatten (s : sexp) : list string :=
  match s with
  | Atom a => [a]
  | SList l => "(" :: flat_map flatten l ++ [")"]
  end.

Section SexpInd.
  Variable P : sexp -> Prop.
  Hypothesis HA : forall a, P (Atom a).
  Hypothesis HL : forall l, Forall P l -> P (SList l).
  Fixpoint sexp_ind' (s : sexp) : P s :=
    match s with
    | Atom a => HA a
    | SList l => HL l ((fix go (l : list sexp) : Forall P l :=
                          match l with
                          | [] => Forall_nil P
                          | x :: r => Forall_cons x (sexp_ind' x) (go r)
                          end) l)
    end.
End SexpInd.

(* ------------------------------------------------------------------------- small helpers *)
Fixpoint assoc {A} (k : string) (l : list (string * A)) : option A :=
  match l with
  | [] => None
  | (k', v) :: r => if String.eqb k k' then Some v else assoc k r
  end.
Definition mem_str (k : string) (l : list string) : bool := existsb (String.eqb k) l.
Fixpoint all_some {A} (l : list (option A)) : option (list A) :=
  match l with
  | [] => Some []
  | Some x :: r => match all_some r with Some r' => Some (x :: r') | None => None end
  | None :: _ => None
  end.
Fixpoint nodup_str (l : list string) : bool :=
  match l with [] => true | x :: r => negb (mem_str x r) && nodup_str r end.

(* ------------------------------------------------------------------------- lexical classes *)
Definition code (c : ascii) : nat := nat_of_ascii c.
Definition is_digit_c (c : ascii) : bool := (48 <=? code c)%nat && (code c <=? 57)%nat.
Definition is_letter_c (c : ascii) : bool :=
  ((65 <=? code c)%nat && (code c <=? 90)%nat) || ((97 <=? code c)%nat && (code c <=? 122)%nat).
Definition is_special_c (c : ascii) : bool :=
  existsb (Ascii.eqb c) (list_ascii_of_string "~!@$%^&*_-+=<>.?/").
Definition is_symchar (c : ascii) : bool := is_digit_c c || is_letter_c c || is_special_c c.
(* characters allowed inside |...| and "...": printable (32..126, >= 128) and white space *)
Definition is_printable_c (c : ascii) : bool :=
  ((32 <=? code c)%nat && (code c <=? 126)%nat) || (128 <=? code c)%nat
  || (code c =? 9)%nat || (code c =? 10)%nat || (code c =? 13)%nat.

Fixpoint str_forall (p : ascii -> bool) (s : string) : bool :=
  match s with EmptyString => true | String c r => p c && str_forall p r end.

(* <numeral> ::= 0 | a non-empty sequence of digits not starting with 0 *)
Definition numeral_val (s : string) : option Z :=
  match NilZero.uint_of_string s with
  | Some d => if String.eqb (NilZero.string_of_uint (N.to_uint (N.of_uint d))) s
              then Some (Z.of_N (N.of_uint d)) else None
  | None => None
  end.
(* a non-empty sequence of digits, leading zeros allowed: (value, number of digits) *)
Definition digits_val (s : string) : option (Z * nat) :=
  match NilZero.uint_of_string s with
  | Some d => Some (Z.of_N (N.of_uint d), String.length s)
  | None => None
  end.
Fixpoint split_dot (s : string) : option (string * string) :=
  match s with
  | EmptyString => None
  | String c r => if Ascii.eqb c "." then Some (EmptyString, r)
                  else match split_dot r with
                       | Some (a, b) => Some (String c a, b)
                       | None => None
                       end
  end.
(* <decimal> ::= <numeral>.0*<numeral> ; value = num / den *)
Definition decimal_val (s : string) : option (Z * Z) :=
  match split_dot s with
  | Some (a, b) =>
      match numeral_val a, digits_val b with
      | Some n, Some (f, k) => Some (n * 10 ^ Z.of_nat k + f, 10 ^ Z.of_nat k)%Z
      | _, _ => None
      end
  | None => None
  end.
(* #b followed by a non-empty sequence of 0/1 : (width, value) *)
Fixpoint bits_val (s : string) (acc : Z) : option Z :=
  match s with
  | EmptyString => Some acc
  | String c r => if Ascii.eqb c "0" then bits_val r (2 * acc)%Z
                  else if Ascii.eqb c "1" then bits_val r (2 * acc + 1)%Z else None
  end.
Definition hex_digit (c : ascii) : option Z :=
  let n := code c in
  if is_digit_c c then Some (Z.of_nat n - 48)%Z
  else if ((65 <=? n) && (n <=? 70))%nat then Some (Z.of_nat n - 55)%Z
  else if ((97 <=? n) && (n <=? 102))%nat then Some (Z.of_nat n - 87)%Z else None.
Fixpoint hex_val (s : string) (acc : Z) : option Z :=
  match s with
  | EmptyString => Some acc
  | String c r => match hex_digit c with Some d => hex_val r (16 * acc + d)%Z | None => None end
  end.
Definition bvlit_val (s : string) : option (Z * Z) :=
  match s with
  | String "#" (String "b" r) =>
      match r, bits_val r 0 with
      | String _ _, Some v => Some (Z.of_nat (String.length r), v)
      | _, _ => None
      end
  | String "#" (String "x" r) =>
      match r, hex_val r 0 with
      | String _ _, Some v => Some (4 * Z.of_nat (String.length r), v)%Z
      | _, _ => None
      end
  | _ => None
  end.
(* string literal: " ... " where a double quote inside is written twice; its characters *)
Fixpoint strlit_body (s : string) : option (list Z) :=
  match s with
  | EmptyString => None                                 (* closing quote missing *)
  | String c r =>
      if Ascii.eqb c """" then
        match r with
        | EmptyString => Some []                         (* the closing quote *)
        | String c2 r2 => if Ascii.eqb c2 """" then
                            match strlit_body r2 with Some l => Some (34%Z :: l) | None => None end
                          else None
        end
      else if is_printable_c c then
        match strlit_body r with Some l => Some (Z.of_nat (code c) :: l) | None => None end
      else None
  end.
Definition strlit_val (s : string) : option (list Z) :=
  match s with
  | String c r => if Ascii.eqb c """" then strlit_body r else None
  | EmptyString => None
  end.

(* reserved words (2.6, section 3.1): cannot be used as symbols *)
Definition reserved_words : list string :=
  ["!"; "_"; "as"; "BINARY"; "DECIMAL"; "exists"; "HEXADECIMAL"; "forall"; "let"; "match";
   "NUMERAL"; "par"; "STRING";
   "assert"; "check-sat"; "check-sat-assuming"; "declare-const"; "declare-datatype";
   "declare-datatypes"; "declare-fun"; "declare-sort"; "define-fun"; "define-fun-rec";
   "define-funs-rec"; "define-sort"; "echo"; "exit"; "get-assertions"; "get-assignment";
   "get-info"; "get-model"; "get-option"; "get-proof"; "get-unsat-assumptions"; "get-unsat-core";
   "get-value"; "pop"; "push"; "reset"; "reset-assertions"; "set-info"; "set-logic"; "set-option"].

Definition simple_symbol (s : string) : bool :=
  match s with
  | EmptyString => false
  | String c _ => negb (is_digit_c c) && str_forall is_symchar s && negb (mem_str s reserved_words)
  end.
(* |...| : any printable characters and white space except | and \ *)
Definition quoted_inner_ok (s : string) : bool :=
  str_forall (fun c => is_printable_c c && negb (Ascii.eqb c "|") && negb (Ascii.eqb c "\")) s.
Fixpoint drop_last_bar (s : string) : option string :=
  match s with
  | EmptyString => None
  | String c EmptyString => if Ascii.eqb c "|" then Some EmptyString else None
  | String c r => match drop_last_bar r with Some r' => Some (String c r') | None => None end
  end.
(* the symbol an atom denotes *)
Definition sym_name (a : string) : option string :=
  match a with
  | String "|" r => match drop_last_bar r with
                    | Some inner => if quoted_inner_ok inner then Some inner else None
                    | None => None
                    end
  | _ => if simple_symbol a then Some a else None
  end.
Definition keyword (a : string) : bool :=
  match a with String ":" r => match r with EmptyString => false | _ => str_forall is_symchar r end
          | _ => false end.

(* ------------------------------------------------------------------------- signatures, sorts *)
Record sig : Type := {
  sg_sorts : list (string * nat);        (* declared sort symbols with their arity *)
  sg_funs : list (string * ty)           (* declared function symbols: TFun ps r, or the sort of a constant *)
}.
Definition sig0 : sig := {| sg_sorts := []; sg_funs := [] |}.

Fixpoint sort_of_sexp (Sg : sig) (s : sexp) {struct s} : option ty :=
  match s with
  | Atom a =>
      match sym_name a with
      | Some n => if String.eqb n "Bool" then Some TBool
                  else if String.eqb n "Int" then Some TInt
                  else if String.eqb n "Real" then Some TReal
                  else if String.eqb n "String" then Some TStr
                  else match assoc n (sg_sorts Sg) with
                       | Some O => Some (TUser n [])
                       | _ => None
                       end
      | None => None
      end
  | SList (Atom h :: args) =>
      if String.eqb h "_" then
        match args with
        | [Atom b; Atom n] =>
            if String.eqb b "BitVec" then
              match numeral_val n with
              | Some w => if (0 <? w)%Z then Some (TBV w) else None
              | None => None
              end
            else None
        | _ => None
        end
      else
        match sym_name h, all_some (map (sort_of_sexp Sg) args) with
        | Some n, Some tys =>
            if String.eqb n "Array" then
              match tys with [i; e] => Some (TArr i e) | _ => None end
            else match assoc n (sg_sorts Sg) with
                 | Some k => if (Nat.eqb k (List.length tys)) && negb (Nat.eqb k 0)
                             then Some (TUser n tys) else None
                 | None => None
                 end
        | _, _ => None
        end
  | _ => None
  end.

(* ((x1 S1) ... (xn Sn)) *)
Definition sorted_var (Sg : sig) (s : sexp) : option var :=
  match s with
  | SList [Atom x; srt] =>
      match sym_name x, sort_of_sexp Sg srt with
      | Some n, Some t => Some (n, t)
      | _, _ => None
      end
  | _ => None
  end.

(* ------------------------------------------------------------------------- theory functions *)
(* How the application of a theory symbol to argument values is computed.  Every entry goes
   through core/Sem.v's [op_sem]; what is fixed here is which NAME means which function, its
   arity and its associativity attribute (:left-assoc, :right-assoc, :chainable, :pairwise). *)
Inductive fkind : Type :=
| FExact (n : nat) (o : op)        (* exactly n arguments: op_sem o args *)
| FNary (o : op)                   (* n >= 2 arguments, o itself is n-ary in Sem.v (and or + * str.++) *)
| FLeft (o : op)                   (* :left-assoc binary, n >= 2 *)
| FRight (o : op)                  (* :right-assoc binary, n >= 2 *)
| FChain (o : op)                  (* :chainable binary relation, n >= 2 *)
| FChainSwap (o : op)              (* (> a b) = (< b a), chainable *)
| FPairwise                        (* distinct *)
| FMinus                           (* (- a) and :left-assoc (- a b ...) *)
| FRealDiv | FIntDiv.              (* / (Real only) and div (Int only), :left-assoc; both are Sem.v's vdiv *)

Definition BVop (k : bvop) : op := OBV k 0.   (* Sem.v takes the width from the operands *)

Definition std_table : list (string * fkind) :=
  [ (* Core *)
    ("not", FExact 1 ONot); ("and", FNary OAnd); ("or", FNary OOr); ("=>", FRight OImplies);
    ("=", FChain OEquals); ("distinct", FPairwise); ("ite", FExact 3 OIte);
    (* Ints, Reals, Reals_Ints *)
    ("+", FNary OPlus); ("*", FNary OTimes); ("-", FMinus); ("/", FRealDiv); ("div", FIntDiv);
    ("<=", FChain OLe); ("<", FChain OLt); (">=", FChainSwap OLe); (">", FChainSwap OLt);
    ("to_real", FExact 1 OToReal);
    (* FixedSizeBitVectors and the QF_BV extensions *)
    ("bvnot", FExact 1 (BVop BNot)); ("bvneg", FExact 1 (BVop BNeg));
    ("bvand", FLeft (BVop BAnd)); ("bvor", FLeft (BVop BOr)); ("bvxor", FLeft (BVop BXor));
    ("bvadd", FLeft (BVop BAdd)); ("bvmul", FLeft (BVop BMul));
    ("bvsub", FExact 2 (BVop BSub)); ("bvudiv", FExact 2 (BVop BUdiv)); ("bvurem", FExact 2 (BVop BUrem));
    ("bvshl", FExact 2 (BVop BLshl)); ("bvlshr", FExact 2 (BVop BLshr)); ("bvashr", FExact 2 (BVop BAshr));
    ("bvsdiv", FExact 2 (BVop BSdiv)); ("bvsrem", FExact 2 (BVop BSrem));
    ("concat", FExact 2 (BVop BConcat)); ("bvcomp", FExact 2 (BVop BComp));
    ("bvult", FExact 2 (OBVRel BUlt)); ("bvule", FExact 2 (OBVRel BUle));
    ("bvslt", FExact 2 (OBVRel BSlt)); ("bvsle", FExact 2 (OBVRel BSle));
    ("bv2nat", FExact 1 OBVToNat);
    (* ArraysEx *)
    ("select", FExact 2 OSelect); ("store", FExact 3 OStore);
    (* Strings (2.6 names) *)
    ("str.len", FExact 1 (OStr SLength)); ("str.++", FNary (OStr SConcat));
    ("str.at", FExact 2 (OStr SCharAt)); ("str.substr", FExact 3 (OStr SSubstr));
    ("str.prefixof", FExact 2 (OStr SPrefixOf)); ("str.suffixof", FExact 2 (OStr SSuffixOf));
    ("str.contains", FExact 2 (OStr SContains)); ("str.indexof", FExact 3 (OStr SIndexOf));
    ("str.replace", FExact 3 (OStr SReplace)); ("str.to_int", FExact 1 (OStr SToInt));
    ("str.from_int", FExact 1 (OStr SFromInt)) ].

(* theory constants *)
Definition std_consts : list (string * value) := [("true", VBool true); ("false", VBool false)].

(* names a script cannot declare: theory symbols (and the sort symbols, for sorts) *)
Definition theory_symbols : list string := map fst std_table ++ map fst std_consts.
Definition theory_sorts : list string := ["Bool"; "Int"; "Real"; "String"; "Array"; "BitVec"].

Fixpoint chain (f : value -> value -> value) (l : list value) : bool :=
  match l with
  | a :: ((b :: _) as r) => vbool (f a b) && chain f r
  | _ => true
  end.
Fixpoint pairwise_distinct (l : list value) : bool :=
  match l with
  | [] => true
  | a :: r => forallb (fun b => negb (veqb a b)) r && pairwise_distinct r
  end.
Definition vneg (a : value) : value :=
  match a with VInt x => VInt (- x) | VReal x => VReal (- x) | _ => VBool false end.

Definition at_least2 {A} (l : list A) : bool := match l with _ :: _ :: _ => true | _ => false end.

Definition apply_kind (I : interp) (k : fkind) (args : list value) : option value :=
  let bin o := fun a b => op_sem I o [a; b] in
  match k with
  | FExact n o => if Nat.eqb (List.length args) n then Some (op_sem I o args) else None
  | FNary o => if at_least2 args then Some (op_sem I o args) else None
  | FLeft o => match args with a :: (_ :: _) as r => Some (fold_left (bin o) r a) | _ => None end
  | FRight o =>
      if at_least2 args
      then Some (fold_right (bin o) (last args (VBool false)) (removelast args)) else None
  | FChain o => if at_least2 args then Some (VBool (chain (bin o) args)) else None
  | FChainSwap o => if at_least2 args then Some (VBool (chain (fun a b => bin o b a) args)) else None
  | FPairwise => if at_least2 args then Some (VBool (pairwise_distinct args)) else None
  | FMinus => match args with
              | [a] => Some (vneg a)
              | a :: r => Some (fold_left vsub r a)
              | [] => None
              end
  | FRealDiv | FIntDiv =>                       (* which one is legal is decided by the sorts: rank_kind *)
      match args with
      | a :: (_ :: _) as r => Some (fold_left (vdiv I) r a)
      | _ => None
      end
  end.

(* indexed identifiers applied to arguments: ((_ name i1 .. ik) args) *)
Definition apply_indexed (name : string) (idx : list Z) (args : list value) : option value :=
  match idx, args with
  | [i; j], [VBV w x] =>
      if String.eqb name "extract" then Some (VBV (i - j + 1) (bv_extract x j i)) else None
  | [k], [VBV w x] =>
      if String.eqb name "rotate_left" then Some (VBV w (bv_rol w x k))
      else if String.eqb name "rotate_right" then Some (VBV w (bv_ror w x k))
      else if String.eqb name "zero_extend" then Some (VBV (w + k) x)
      else if String.eqb name "sign_extend" then Some (VBV (w + k) (bvmod (w + k) (to_signed w x)))
      else None
  | _, _ => None
  end.

(* (_ bvN w) *)
Definition bv_index_literal (name : string) (idx : list Z) : option value :=
  match name, idx with
  | String "b" (String "v" ds), [w] =>
      match numeral_val ds with
      | Some n => if (0 <? w)%Z then Some (VBV w (bvmod w n)) else None
      | None => None
      end
  | _, _ => None
  end.

(* ------------------------------------------------------------------------- evaluation *)
Definition env := list (string * value).     (* let- and quantifier-bound variables, innermost first *)

Definition eval_atom (Sg : sig) (I : interp) (rho : env) (a : string) : option value :=
  match numeral_val a with
  | Some n => Some (VInt n)
  | None =>
  match decimal_val a with
  | Some (n, d) => Some (VReal (IZR n / IZR d))
  | None =>
  match bvlit_val a with
  | Some (w, v) => Some (VBV w v)
  | None =>
  match strlit_val a with
  | Some s => Some (VStr s)
  | None =>
  match sym_name a with
  | Some n =>
      match assoc n rho with
      | Some v => Some v
      | None =>
          match assoc n std_consts with
          | Some v => Some v
          | None => match assoc n (sg_funs Sg) with
                    | Some (TFun _ _) => None
                    | Some t => Some (isym I n t)
                    | None => None
                    end
          end
      end
  | None => None
  end end end end end.

Definition apply_sym (Sg : sig) (I : interp) (rho : env) (f : string) (args : list value) : option value :=
  match assoc f rho with
  | Some _ => None                                   (* a bound variable is not a function *)
  | None =>
      match assoc f std_table with
      | Some k => apply_kind I k args
      | None =>
          match assoc f (sg_funs Sg) with
          | Some (TFun ps r) =>
              if Nat.eqb (List.length ps) (List.length args) && negb (Nat.eqb (List.length ps) 0)
              then Some (ifun I f (TFun ps r) args) else None
          | _ => None
          end
      end
  end.

Definition idx_vals (l : list sexp) : option (list Z) :=
  all_some (map (fun s => match s with Atom a => numeral_val a | _ => None end) l).

Fixpoint bind_env (rho : env) (names : list string) (xs : list value) : env :=
  match names, xs with
  | n :: ns, x :: xs' => bind_env ((n, x) :: rho) ns xs'
  | _, _ => rho
  end.

Fixpoint seval (Sg : sig) (I : interp) (rho : env) (s : sexp) {struct s} : option value :=
  match s with
  | Atom a => eval_atom Sg I rho a
  | SList [] => None
  | SList (Atom h :: rest) =>
      if String.eqb h "let" then
        (* (let ((x1 t1) ... (xn tn)) body): the ti are evaluated OUTSIDE the new bindings *)
        match rest with
        | [SList bs; body] =>
            let names := all_some (map (fun b => match b with
                                                 | SList [Atom x; _] => sym_name x
                                                 | _ => None end) bs) in
            let vals := all_some (map (fun b => match b with
                                                | SList [_; e] => seval Sg I rho e
                                                | _ => None end) bs) in
            match names, vals with
            | Some ns, Some vs =>
                if nodup_str ns && negb (Nat.eqb (List.length ns) 0)
                then seval Sg I (bind_env rho ns vs) body else None
            | _, _ => None
            end
        | _ => None
        end
      else if String.eqb h "forall" || String.eqb h "exists" then
        match rest with
        | [SList bs; body] =>
            match all_some (map (sorted_var Sg) bs) with
            | Some ((_ :: _) as vs) =>
                let P xs := seval Sg I (bind_env rho (map fst vs) xs) body = Some (VBool true) in
                if String.eqb h "forall"
                then Some (VBool (if excluded_middle_informative
                                       (forall xs, vals_ok xs vs -> P xs) then true else false))
                else Some (VBool (if excluded_middle_informative
                                       (exists xs, vals_ok xs vs /\ P xs) then true else false))
            | _ => None
            end
        | _ => None
        end
      else if String.eqb h "!" then
        match rest with
        | body :: _ :: _ => seval Sg I rho body          (* annotations do not change the value *)
        | _ => None
        end
      else if String.eqb h "_" then
        match rest with
        | Atom name :: idx =>
            match idx_vals idx with Some ix => bv_index_literal name ix | None => None end
        | _ => None
        end
      else
        match sym_name h, all_some (map (seval Sg I rho) rest) with
        | Some f, Some args => apply_sym Sg I rho f args
        | _, _ => None
        end
  | SList (SList hd :: rest) =>
      match hd with
      | Atom u :: Atom name :: idx =>
          if String.eqb u "_" then
            match idx_vals idx, all_some (map (seval Sg I rho) rest) with
            | Some ix, Some args => apply_indexed name ix args
            | _, _ => None
            end
          else if String.eqb u "as" then
            (* ((as const (Array I E)) d) *)
            match idx, rest with
            | [srt], [d] =>
                if String.eqb name "const" then
                  match sort_of_sexp Sg srt, seval Sg I rho d with
                  | Some (TArr i _), Some dv => Some (VArr (fun k => if key_sortb k i then dv else junk))
                  | _, _ => None
                  end
                else None
            | _, _ => None
            end
          else None
      | _ => None
      end
  end.

Definition std_eval (Sg : sig) (I : interp) (s : sexp) : option value := seval Sg I [] s.

(* ------------------------------------------------------------------------- static sorting *)
Definition is_arith (t : ty) : bool := match t with TInt | TReal => true | _ => false end.
Definition is_fo (t : ty) : bool := match t with TFun _ _ => false | _ => true end.
Definition all_ty (t : ty) (l : list ty) : bool := forallb (ty_eqb t) l.

(* rank of the Sem.v operator behind a theory symbol (SMT-LIB theory declarations) *)
Definition op_rank (o : op) (tys : list ty) : option ty :=
  match o, tys with
  | ONot, [TBool] => Some TBool
  | OAnd, _ | OOr, _ => if all_ty TBool tys then Some TBool else None
  | OImplies, [TBool; TBool] => Some TBool
  | OEquals, [a; b] => if ty_eqb a b && is_fo a then Some TBool else None
  | OIte, [TBool; a; b] => if ty_eqb a b && is_fo a then Some a else None
  | OPlus, a :: _ | OTimes, a :: _ => if is_arith a && all_ty a tys then Some a else None
  | OLe, [a; b] | OLt, [a; b] => if is_arith a && ty_eqb a b then Some TBool else None
  | OToReal, [TInt] => Some TReal
  | OBV BNot _, [TBV w] | OBV BNeg _, [TBV w] => Some (TBV w)
  | OBV BConcat _, [TBV a; TBV b] => Some (TBV (a + b))
  | OBV BComp _, [TBV a; TBV b] => if Z.eqb a b then Some (TBV 1) else None
  | OBV _ _, [TBV a; TBV b] => if Z.eqb a b then Some (TBV a) else None
  | OBVRel _, [TBV a; TBV b] => if Z.eqb a b then Some TBool else None
  | OBVToNat, [TBV _] => Some TInt
  | OSelect, [TArr i e; j] => if ty_eqb i j then Some e else None
  | OStore, [TArr i e; j; v] => if ty_eqb i j && ty_eqb e v then Some (TArr i e) else None
  | OStr SLength, [TStr] | OStr SToInt, [TStr] => Some TInt
  | OStr SFromInt, [TInt] => Some TStr
  | OStr SConcat, _ => if all_ty TStr tys then Some TStr else None
  | OStr SCharAt, [TStr; TInt] => Some TStr
  | OStr SSubstr, [TStr; TInt; TInt] => Some TStr
  | OStr SPrefixOf, [TStr; TStr] | OStr SSuffixOf, [TStr; TStr] | OStr SContains, [TStr; TStr] => Some TBool
  | OStr SIndexOf, [TStr; TStr; TInt] => Some TInt
  | OStr SReplace, [TStr; TStr; TStr] => Some TStr
  | _, _ => None
  end.

Definition rank_kind (k : fkind) (tys : list ty) : option ty :=
  match k, tys with
  | FExact n o, _ => if Nat.eqb (List.length tys) n then op_rank o tys else None
  | FNary o, _ => if at_least2 tys then op_rank o tys else None
  | FLeft o, a :: _ :: _ =>
      if all_ty a tys then match op_rank o [a; a] with
                           | Some r => if ty_eqb r a then Some a else None
                           | None => None end
      else None
  | FRight o, a :: _ :: _ =>
      if all_ty a tys then match op_rank o [a; a] with
                           | Some r => if ty_eqb r a then Some a else None
                           | None => None end
      else None
  | FChain o, a :: _ :: _ | FChainSwap o, a :: _ :: _ =>
      if all_ty a tys then op_rank o [a; a] else None
  | FPairwise, a :: _ :: _ => if all_ty a tys && is_fo a then Some TBool else None
  | FMinus, a :: _ => if is_arith a && all_ty a tys then Some a else None
  | FRealDiv, _ :: _ :: _ => if all_ty TReal tys then Some TReal else None
  | FIntDiv, _ :: _ :: _ => if all_ty TInt tys then Some TInt else None
  | _, _ => None
  end.

Definition rank_indexed (name : string) (idx : list Z) (tys : list ty) : option ty :=
  match idx, tys with
  | [i; j], [TBV w] =>
      if String.eqb name "extract" && (0 <=? j)%Z && (j <=? i)%Z && (i <? w)%Z
      then Some (TBV (i - j + 1)) else None
  | [k], [TBV w] =>
      if (String.eqb name "rotate_left" || String.eqb name "rotate_right") && (0 <=? k)%Z
      then Some (TBV w)
      else if (String.eqb name "zero_extend" || String.eqb name "sign_extend") && (0 <=? k)%Z
      then Some (TBV (w + k)) else None
  | _, _ => None
  end.

Definition senv := list (string * ty).
Fixpoint bind_senv (G : senv) (vs : list (string * ty)) : senv :=
  match vs with v :: r => bind_senv (v :: G) r | [] => G end.

Definition sort_atom (Sg : sig) (G : senv) (a : string) : option ty :=
  match numeral_val a with Some _ => Some TInt | None =>
  match decimal_val a with Some _ => Some TReal | None =>
  match bvlit_val a with Some (w, _) => Some (TBV w) | None =>
  match strlit_val a with Some _ => Some TStr | None =>
  match sym_name a with
  | Some n =>
      match assoc n G with
      | Some t => Some t
      | None => match assoc n std_consts with
                | Some _ => Some TBool
                | None => match assoc n (sg_funs Sg) with
                          | Some (TFun _ _) => None
                          | Some t => Some t
                          | None => None
                          end
                end
      end
  | None => None
  end end end end end.

Fixpoint ssort (Sg : sig) (G : senv) (s : sexp) {struct s} : option ty :=
  match s with
  | Atom a => sort_atom Sg G a
  | SList [] => None
  | SList (Atom h :: rest) =>
      if String.eqb h "let" then
        match rest with
        | [SList bs; body] =>
            let names := all_some (map (fun b => match b with
                                                 | SList [Atom x; _] => sym_name x
                                                 | _ => None end) bs) in
            let tys := all_some (map (fun b => match b with
                                               | SList [_; e] => ssort Sg G e
                                               | _ => None end) bs) in
            match names, tys with
            | Some ns, Some ts =>
                if nodup_str ns && negb (Nat.eqb (List.length ns) 0)
                then ssort Sg (bind_senv G (combine ns ts)) body else None
            | _, _ => None
            end
        | _ => None
        end
      else if String.eqb h "forall" || String.eqb h "exists" then
        match rest with
        | [SList bs; body] =>
            match all_some (map (sorted_var Sg) bs) with
            | Some ((_ :: _) as vs) =>
                match ssort Sg (bind_senv G vs) body with Some TBool => Some TBool | _ => None end
            | _ => None
            end
        | _ => None
        end
      else if String.eqb h "!" then
        match rest with body :: _ :: _ => ssort Sg G body | _ => None end
      else if String.eqb h "_" then
        match rest with
        | Atom name :: idx =>
            match idx_vals idx with
            | Some ix => match bv_index_literal name ix with Some (VBV w _) => Some (TBV w) | _ => None end
            | None => None
            end
        | _ => None
        end
      else
        match sym_name h, all_some (map (ssort Sg G) rest) with
        | Some f, Some tys =>
            match assoc f G with
            | Some _ => None
            | None =>
                match assoc f std_table with
                | Some k => rank_kind k tys
                | None => match assoc f (sg_funs Sg) with
                          | Some (TFun ps r) => if tys_eqb tys ps && negb (Nat.eqb (List.length ps) 0)
                                                then Some r else None
                          | _ => None
                          end
                end
            end
        | _, _ => None
        end
  | SList (SList hd :: rest) =>
      match hd with
      | Atom u :: Atom name :: idx =>
          if String.eqb u "_" then
            match idx_vals idx, all_some (map (ssort Sg G) rest) with
            | Some ix, Some tys => rank_indexed name ix tys
            | _, _ => None
            end
          else if String.eqb u "as" then
            match idx, rest with
            | [srt], [d] =>
                if String.eqb name "const" then
                  match sort_of_sexp Sg srt, ssort Sg G d with
                  | Some (TArr i e), Some t => if ty_eqb e t then Some (TArr i e) else None
                  | _, _ => None
                  end
                else None
            | _, _ => None
            end
          else None
      | _ => None
      end
  end.

Definition std_sort (Sg : sig) (s : sexp) : option ty := ssort Sg [] s.

(* ------------------------------------------------------------------------- scripts *)
(* A script is a list of commands (s-expressions).  State: has set-logic been seen, and a stack of
   scopes (innermost first); a declaration goes to the innermost scope and must be new in EVERY
   enclosing scope (SMT-LIB forbids shadowing of function and sort symbols). *)
Definition sig_of (frames : list sig) : sig :=
  {| sg_sorts := flat_map sg_sorts frames; sg_funs := flat_map sg_funs frames |}.
Definition add_sort (n : string) (k : nat) (frames : list sig) : list sig :=
  match frames with
  | f :: r => {| sg_sorts := (n, k) :: sg_sorts f; sg_funs := sg_funs f |} :: r
  | [] => []
  end.
Definition add_fun (n : string) (t : ty) (frames : list sig) : list sig :=
  match frames with
  | f :: r => {| sg_sorts := sg_sorts f; sg_funs := (n, t) :: sg_funs f |} :: r
  | [] => []
  end.
Definition fresh_fun (n : string) (Sg : sig) : bool :=
  negb (mem_str n theory_symbols) && match assoc n (sg_funs Sg) with None => true | Some _ => false end.
Definition fresh_sort (n : string) (Sg : sig) : bool :=
  negb (mem_str n theory_sorts) && match assoc n (sg_sorts Sg) with None => true | Some _ => false end.

Definition nat_of_numeral (a : string) : option nat :=
  match numeral_val a with Some z => Some (Z.to_nat z) | None => None end.

(* one command: new scope stack, or None if the command is not well-formed here *)
Definition std_command (frames : list sig) (c : sexp) : option (list sig) :=
  let Sg := sig_of frames in
  match c with
  | SList [Atom cmd; Atom s; Atom k] =>
      if String.eqb cmd "declare-sort" then
        match sym_name s, nat_of_numeral k with
        | Some n, Some ar => if fresh_sort n Sg then Some (add_sort n ar frames) else None
        | _, _ => None
        end
      else if String.eqb cmd "declare-const" then
        match sym_name s, sort_of_sexp Sg (Atom k) with
        | Some n, Some t => if fresh_fun n Sg then Some (add_fun n t frames) else None
        | _, _ => None
        end
      else if String.eqb cmd "set-option" || String.eqb cmd "set-info" then Some frames
      else None
  | SList [Atom cmd; Atom s; srt] =>
      if String.eqb cmd "declare-const" then
        match sym_name s, sort_of_sexp Sg srt with
        | Some n, Some t => if fresh_fun n Sg then Some (add_fun n t frames) else None
        | _, _ => None
        end
      else None
  | SList [Atom cmd; Atom s; SList ps; r] =>
      if String.eqb cmd "declare-fun" then
        match sym_name s, all_some (map (sort_of_sexp Sg) ps), sort_of_sexp Sg r with
        | Some n, Some pts, Some rt =>
            if fresh_fun n Sg
            then Some (add_fun n (match pts with [] => rt | _ => TFun pts rt end) frames) else None
        | _, _, _ => None
        end
      else None
  | SList [Atom cmd; t] =>
      if String.eqb cmd "assert" then
        match std_sort Sg t with Some TBool => Some frames | _ => None end
      else if String.eqb cmd "push" || String.eqb cmd "pop" then
        match t with
        | Atom k =>
            match nat_of_numeral k with
            | Some n =>
                if String.eqb cmd "push" then Some (repeat sig0 n ++ frames)%list
                else if (n <? List.length frames)%nat then Some (skipn n frames) else None
            | None => None
            end
        | _ => None
        end
      else None
  | SList [Atom cmd] =>
      if mem_str cmd ["check-sat"; "exit"; "get-model"; "get-assignment"; "get-unsat-core";
                      "get-proof"; "get-assertions"; "get-unsat-assumptions"]
      then Some frames else None
  | _ => None
  end.

Fixpoint std_commands (frames : list sig) (cs : list sexp) : option (list sig) :=
  match cs with
  | [] => Some frames
  | c :: r => match std_command frames c with Some f' => std_commands f' r | None => None end
  end.

(* set-logic first (the logic name is a symbol; which theories it enables is the business of C13) *)
Definition std_script_ok (cs : list sexp) : bool :=
  match cs with
  | SList [Atom sl; Atom l] :: r =>
      String.eqb sl "set-logic" && match sym_name l with Some _ => true | None => false end &&
      match std_commands [sig0] r with Some _ => true | None => false end
  | _ => false
  end.
