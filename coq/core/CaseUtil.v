(* Helpers shared by the generated correspondence case files. *)
From Coq Require Import List NArith Bool.
Import ListNotations.

Fixpoint mism_aux {A} (ok : A -> bool) (l : list A) (i : nat) : list nat :=
  match l with
  | [] => []
  | x :: r => if ok x then mism_aux ok r (S i) else i :: mism_aux ok r (S i)
  end.
(* indexes of the cases on which the model and the recorded implementation result differ *)
Definition mismatches {A} (ok : A -> bool) (l : list A) : list nat := mism_aux ok l 0.

Lemma mismatches_nil {A} (ok : A -> bool) l : mismatches ok l = [] -> forallb ok l = true.
Proof.
  unfold mismatches. generalize 0. induction l as [|x r IH]; intros i; cbn; auto.
  destruct (ok x); [apply IH | discriminate].
Qed.
