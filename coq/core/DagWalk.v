(* Hand model (H) of pysmt/walkers/dag.py : DagWalker.

   Generic in the result type [A], the DAG ([children], node ids are naturals; the harness
   numbers the keys of a traversal so that children are smaller than parents) and the per-node
   callback [f] (the walk_* function selected by the dispatch table).  [f n args = None] means
   that the callback raised an exception at node [n].

   "Node" = memoisation key (what `_get_key` returns): for SizeOracle it is (measure, formula),
   for PolarityCNFizer (formula, polarity), for NNFizer the formulas returned by
   `_get_children` (a virtual DAG).

   The walker object is long-lived: [mm] (self.memoization) and [stk] (self.stack) are instance
   attributes and survive from one call of [walk] to the next.  When a call raises, the stack
   is emptied (iter_walk) and a one-shot table is cleared (walk), as in the code since
   c824285 / 4d718bf.
   [calls], [pops], [log] are ghost counters: number of callback invocations, number of
   stack pops, and the callback invocation order (most recent first).

   No proofs here (see proofs/DagWalk_proofs.v). *)
From Coq Require Import List Arith Bool.
Import ListNotations.

Section DagWalk.
  Variable A : Type.
  Variable children : nat -> list nat.          (* _get_children *)
  Variable f : nat -> list A -> option A.       (* self.functions[node_type](formula, args=...) *)

  (* self.memoization : dict *)
  Definition memo := nat -> option A.
  Definition mempty : memo := fun _ => None.
  Definition upd (m : memo) (n : nat) (v : A) : memo :=
    fun k => if Nat.eqb k n then Some v else m k.
  Definition inm (m : memo) (n : nat) : bool :=
    match m n with Some _ => true | None => false end.

  (* [self.memoization[key(s)] for s in children]  -- KeyError if one is missing *)
  Fixpoint lookup_all (m : memo) (l : list nat) : option (list A) :=
    match l with
    | [] => Some []
    | c :: r => match m c, lookup_all m r with
                | Some v, Some vs => Some (v :: vs)
                | _, _ => None
                end
    end.

  Record st := mkSt { mm : memo; stk : list (bool * nat);     (* head = top of the Python list *)
                      calls : nat; pops : nat; log : list nat }.

  Inductive err :=
  | ECallback (n : nat)      (* the callback raised at node n *)
  | EKey (n : nat).          (* KeyError: a child of n (or the root itself) is not memoised *)

  Inductive outcome := Cont (s : st) | Raise (e : err) (s : st).

  (* _push_with_children_to_stack: append (True, n), then every child that is not memoised;
     the last child ends on top *)
  Definition push_with_children (m : memo) (n : nat) (r : list (bool * nat)) : list (bool * nat) :=
    rev (map (fun c => (false, c)) (filter (fun c => negb (inm m c)) (children n)))
        ++ (true, n) :: r.

  (* one iteration of the `while self.stack:` loop of _process_stack; the popped entry is gone
     from the stack also when the callback raises *)
  Definition step (s : st) : outcome :=
    match stk s with
    | [] => Cont s
    | (true, n) :: r =>
        (* _compute_node_result *)
        if inm (mm s) n then Cont (mkSt (mm s) r (calls s) (S (pops s)) (log s))
        else match lookup_all (mm s) (children n) with
             | None => Raise (EKey n) (mkSt (mm s) r (calls s) (S (pops s)) (log s))
             | Some args =>
                 match f n args with
                 | Some v => Cont (mkSt (upd (mm s) n v) r (S (calls s)) (S (pops s)) (n :: log s))
                 | None => Raise (ECallback n) (mkSt (mm s) r (S (calls s)) (S (pops s)) (n :: log s))
                 end
             end
    | (false, n) :: r =>
        Cont (mkSt (mm s) (push_with_children (mm s) n r) (calls s) (S (pops s)) (log s))
    end.

  (* k iterations (stops at a raise); used by the proofs *)
  Fixpoint steps (k : nat) (s : st) : outcome :=
    match k with
    | 0 => Cont s
    | S k' => match step s with Cont s' => steps k' s' | r => r end
    end.

  Inductive result := Done (s : st) | Failed (e : err) (s : st) | OutOfFuel (s : st).

  (* _process_stack: loop until the stack is empty *)
  Fixpoint run (fuel : nat) (s : st) : result :=
    match stk s with
    | [] => Done s
    | _ => match fuel with
           | 0 => OutOfFuel s
           | S k => match step s with Cont s' => run k s' | Raise e s' => Failed e s' end
           end
    end.

  Inductive answer := Ok (v : A) | Err (e : err) | NoFuel.

  Definition with_stk (s : st) (l : list (bool * nat)) : st :=
    mkSt (mm s) l (calls s) (pops s) (log s).
  Definition with_mm (s : st) (m : memo) : st :=
    mkSt m (stk s) (calls s) (pops s) (log s).

  (* iter_walk: push (False, formula); try: _process_stack  except: del self.stack[:]; raise
     (the work stack is dropped when the walk fails); return self.memoization[key] *)
  Definition iter_walk (fuel : nat) (w : st) (root : nat) : st * answer :=
    match run fuel (with_stk w ((false, root) :: stk w)) with
    | Done s => match mm s root with
                | Some v => (s, Ok v)
                | None => (s, Err (EKey root))
                end
    | Failed e s => (with_stk s [], Err e)
    | OutOfFuel s => (s, NoFuel)
    end.

  (* walk.  [early]: `formula in self.memoization` can hit (i.e. _get_key is the identity;
     it never hits for walkers whose keys are tuples).  [oneshot]: invalidate_memoization.
     The early hit returns without clearing; otherwise
       try: res = self.iter_walk(...)  finally: if self.invalidate_memoization: clear()
     i.e. a one-shot table is cleared whether the walk returned or raised. *)
  Definition walk (early oneshot : bool) (fuel : nat) (w : st) (root : nat) : st * answer :=
    match (if early then mm w root else None) with
    | Some v => (w, Ok v)
    | None =>
        let '(s, a) := iter_walk fuel w root in
        (if oneshot then with_mm s mempty else s, a)
    end.

  Definition init : st := mkSt mempty [] 0 0 [].

  (* fuel that always suffices on a clean stack (see walk_pops): 2 * (1 + edges below root) *)
  Fixpoint edges_upto (n : nat) : nat :=
    match n with 0 => length (children 0) | S k => length (children (S k)) + edges_upto k end.
  Definition enough_fuel (root : nat) : nat := 2 * (1 + edges_upto root).

  (* ---- specification: the naive recursive fold, F n = f n (map F (children n)) ---------- *)
  Fixpoint mapM {X Y} (g : X -> option Y) (l : list X) : option (list Y) :=
    match l with
    | [] => Some []
    | x :: r => match g x, mapM g r with
                | Some v, Some vs => Some (v :: vs)
                | _, _ => None
                end
    end.
  Fixpoint Fk (k n : nat) : option A :=
    match k with
    | 0 => None
    | S k' => match mapM (Fk k') (children n) with Some vs => f n vs | None => None end
    end.
  Definition F (n : nat) : option A := Fk (S n) n.

  Inductive reach : nat -> nat -> Prop :=
  | reach_refl n : reach n n
  | reach_step n c x : In c (children n) -> reach c x -> reach n x.

  Definition edges (l : list nat) : nat := list_sum (map (fun n => length (children n)) l).
End DagWalk.

Arguments Cont {A} s. Arguments Raise {A} e s.
Arguments Done {A} s. Arguments Failed {A} e s. Arguments OutOfFuel {A} s.
Arguments Ok {A} v. Arguments Err {A} e. Arguments NoFuel {A}.

Arguments mkSt {A} mm stk calls pops log.
Arguments mm {A} s. Arguments stk {A} s. Arguments calls {A} s. Arguments pops {A} s.
Arguments log {A} s.
