(* Correctness of the decidable equalities of core/Syntax.v and of the list-as-set helpers. *)
From Coq Require Import List ZArith Bool String Lia.
From PySMT.core Require Import Syntax.
Import ListNotations.
Open Scope bool_scope.

Section TyInd.
  Variable P : ty -> Prop.
  Hypothesis HBool : P TBool. Hypothesis HInt : P TInt. Hypothesis HReal : P TReal.
  Hypothesis HStr : P TStr. Hypothesis HBV : forall w, P (TBV w).
  Hypothesis HArr : forall i e, P i -> P e -> P (TArr i e).
  Hypothesis HFun : forall ps r, Forall P ps -> P r -> P (TFun ps r).
  Hypothesis HUser : forall n args, Forall P args -> P (TUser n args).
  Fixpoint ty_ind' (t : ty) : P t :=
    let fix go (l : list ty) : Forall P l :=
        match l with [] => Forall_nil P | x :: r => Forall_cons x (ty_ind' x) (go r) end in
    match t with
    | TBool => HBool | TInt => HInt | TReal => HReal | TStr => HStr | TBV w => HBV w
    | TArr i e => HArr i e (ty_ind' i) (ty_ind' e)
    | TFun ps r => HFun ps r (go ps) (ty_ind' r)
    | TUser n args => HUser n args (go args)
    end.
End TyInd.

Lemma list_eqb_eq {A} (eqb : A -> A -> bool) (l1 : list A) :
  Forall (fun x => forall y, eqb x y = true <-> x = y) l1 ->
  forall l2, list_eqb eqb l1 l2 = true <-> l1 = l2.
Proof.
  induction 1 as [|x r Hx Hr IH]; intros [|y l2]; cbn; try (split; congruence).
  rewrite andb_true_iff, Hx, IH. split; [intros [-> ->]; auto | intros [= -> ->]; auto].
Qed.

Lemma tys_eqb_list_eqb l1 l2 : tys_eqb l1 l2 = list_eqb ty_eqb l1 l2.
Proof. revert l2; induction l1 as [|x r IH]; intros [|y l2]; cbn; auto. now rewrite IH. Qed.

Lemma ty_eqb_eq : forall a b, ty_eqb a b = true <-> a = b.
Proof.
  induction a as [ | | | | w | i e IHi IHe | ps r IHps IHr | n args IHargs] using ty_ind';
    intros b; destruct b; cbn; try (split; congruence).
  - rewrite Z.eqb_eq. split; congruence.
  - rewrite andb_true_iff, IHi, IHe. split; [intros [-> ->]; auto | intros [= -> ->]; auto].
  - rewrite andb_true_iff, IHr.
    change ((fix list_eqb (l1 l2 : list ty) {struct l1} : bool :=
               match l1, l2 with [], [] => true | x :: r1, y :: r2 => ty_eqb x y && list_eqb r1 r2 | _, _ => false end) ps ps0)
      with (tys_eqb ps ps0).
    rewrite tys_eqb_list_eqb, (list_eqb_eq ty_eqb ps IHps). split; [intros [-> ->]; auto | intros [= -> ->]; auto].
  - rewrite andb_true_iff, String.eqb_eq.
    change ((fix list_eqb (l1 l2 : list ty) {struct l1} : bool :=
               match l1, l2 with [], [] => true | x :: r1, y :: r2 => ty_eqb x y && list_eqb r1 r2 | _, _ => false end) args targs)
      with (tys_eqb args targs).
    rewrite tys_eqb_list_eqb, (list_eqb_eq ty_eqb args IHargs). split; [intros [-> ->]; auto | intros [= -> ->]; auto].
Qed.

Lemma ty_eqb_refl a : ty_eqb a a = true. Proof. now apply ty_eqb_eq. Qed.

Lemma tys_eqb_eq l1 l2 : tys_eqb l1 l2 = true <-> l1 = l2.
Proof.
  rewrite tys_eqb_list_eqb. apply list_eqb_eq. apply Forall_forall. intros x _ y. apply ty_eqb_eq.
Qed.

Lemma var_eqb_eq (a b : var) : var_eqb a b = true <-> a = b.
Proof.
  destruct a, b; unfold var_eqb; cbn. rewrite andb_true_iff, String.eqb_eq, ty_eqb_eq.
  split; [intros [-> ->]; auto | intros [= -> ->]; auto].
Qed.

Lemma bvop_eqb_eq a b : bvop_eqb a b = true <-> a = b.
Proof. destruct a, b; cbn; split; congruence. Qed.
Lemma bvrel_eqb_eq a b : bvrel_eqb a b = true <-> a = b.
Proof. destruct a, b; cbn; split; congruence. Qed.
Lemma strop_eqb_eq a b : strop_eqb a b = true <-> a = b.
Proof. destruct a, b; cbn; split; congruence. Qed.

Lemma vars_eqb_eq l1 l2 : list_eqb var_eqb l1 l2 = true <-> l1 = l2.
Proof. apply list_eqb_eq. apply Forall_forall. intros x _ y. apply var_eqb_eq. Qed.
Lemma zs_eqb_eq l1 l2 : list_eqb Z.eqb l1 l2 = true <-> l1 = l2.
Proof. apply list_eqb_eq. apply Forall_forall. intros x _ y. apply Z.eqb_eq. Qed.

Ltac eqb_to_eq :=
  repeat rewrite andb_true_iff;
  repeat first [rewrite Z.eqb_eq | rewrite String.eqb_eq | rewrite ty_eqb_eq | rewrite vars_eqb_eq
               | rewrite zs_eqb_eq | rewrite bvop_eqb_eq | rewrite bvrel_eqb_eq | rewrite strop_eqb_eq
               | rewrite Bool.eqb_true_iff].

Lemma op_eqb_eq a b : op_eqb a b = true <-> a = b.
Proof.
  destruct a, b; cbn; try (split; congruence); eqb_to_eq;
    (split; [intros H; repeat match goal with H : _ /\ _ |- _ => destruct H end; subst; reflexivity
            | intros H; injection H; intros; subst; repeat split; reflexivity]).
Qed.

Lemma term_eqb_eq : forall a b, term_eqb a b = true <-> a = b.
Proof.
  induction a as [o args IH] using term_ind'. intros [o2 args2]. cbn [term_eqb].
  rewrite andb_true_iff, op_eqb_eq.
  assert (G : forall l2, (fix go (l1 l2 : list term) {struct l1} : bool :=
             match l1, l2 with
             | [], [] => true
             | x :: r1, y :: r2 => term_eqb x y && go r1 r2
             | _, _ => false
             end) args l2 = true <-> args = l2).
  { induction IH as [|x r Hx Hr IHr]; intros [|y l2]; try (split; congruence).
    rewrite andb_true_iff, Hx, IHr. split; [intros [-> ->]; auto | intros [= -> ->]; auto]. }
  rewrite G. split; [intros [-> ->]; auto | intros [= -> ->]; auto].
Qed.
