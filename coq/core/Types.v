(* SPECIFICATION: the sorting rules of pySMT's operators, stated declaratively (SMT-LIB sorting
   rules with pySMT's documented deviations: Equals is not for Bool (Iff is), Pow's result is
   Real, n-ary And/Or/Plus/Times, rotation amount at most the width, redundant width payloads
   must be the real widths). *)
From Coq Require Import List ZArith Bool String.
From PySMT.core Require Import Syntax.
Import ListNotations.
Open Scope Z_scope.

Definition arith (t : ty) : Prop := t = TInt \/ t = TReal.
(* sorts of terms: a function symbol is not a term, so a function type is not an argument sort *)
Definition fo (t : ty) : Prop := match t with TFun _ _ => False | _ => True end.
Definition all_are (t : ty) (l : list ty) : Prop := Forall (fun x => x = t) l.

Definition bv_unary (k : bvop) : Prop := k = BNot \/ k = BNeg.
Definition bv_binary (k : bvop) : Prop :=
  match k with
  | BAnd | BOr | BXor | BAdd | BSub | BMul | BUdiv | BUrem | BLshl | BLshr | BSdiv | BSrem | BAshr => True
  | _ => False
  end.

(* index / value / index / value ... *)
Inductive assigns_ok (it et : ty) : list ty -> Prop :=
| AsgNil : assigns_ok it et []
| AsgCons r : assigns_ok it et r -> assigns_ok it et (it :: et :: r).

Inductive wt_rule : op -> list ty -> ty -> Prop :=
| W_and l : all_are TBool l -> wt_rule OAnd l TBool
| W_or l : all_are TBool l -> wt_rule OOr l TBool
| W_not : wt_rule ONot [TBool] TBool
| W_implies : wt_rule OImplies [TBool; TBool] TBool
| W_iff : wt_rule OIff [TBool; TBool] TBool
| W_forall vs : wt_rule (OForall vs) [TBool] TBool
| W_exists vs : wt_rule (OExists vs) [TBool] TBool
| W_symbol n t : wt_rule (OSymbol n t) [] t
| W_function n ps r : wt_rule (OFunction n (TFun ps r)) ps r
| W_real n d : wt_rule (ORealC n d) [] TReal
| W_bool b : wt_rule (OBoolC b) [] TBool
| W_int z : wt_rule (OIntC z) [] TInt
| W_str s : wt_rule (OStrC s) [] TStr
| W_bvc v w : wt_rule (OBVC v w) [] (TBV w)
| W_plus t l : arith t -> l <> [] -> all_are t l -> wt_rule OPlus l t
| W_times t l : arith t -> l <> [] -> all_are t l -> wt_rule OTimes l t
| W_minus t : arith t -> wt_rule OMinus [t; t] t
| W_div t : arith t -> wt_rule ODiv [t; t] t
| W_pow t : arith t -> wt_rule OPow [t; t] TReal
| W_le t : arith t -> wt_rule OLe [t; t] TBool
| W_lt t : arith t -> wt_rule OLt [t; t] TBool
| W_equals t : t <> TBool -> fo t -> wt_rule OEquals [t; t] TBool
| W_ite t : fo t -> wt_rule OIte [TBool; t; t] t
| W_toreal : wt_rule OToReal [TInt] TReal
| W_bv1 k w : bv_unary k -> wt_rule (OBV k w) [TBV w] (TBV w)
| W_bv2 k w : bv_binary k -> wt_rule (OBV k w) [TBV w; TBV w] (TBV w)
| W_concat a b : wt_rule (OBV BConcat (a + b)) [TBV a; TBV b] (TBV (a + b))
| W_comp p w : wt_rule (OBV BComp p) [TBV w; TBV w] (TBV 1)
| W_bvrel k w : wt_rule (OBVRel k) [TBV w; TBV w] TBool
| W_extract w s e : 0 <= s -> s <= e -> e < w ->
    wt_rule (OBVExtract (e - s + 1) s e) [TBV w] (TBV (e - s + 1))
| W_rol w k : 0 <= k <= w -> wt_rule (OBVRol w k) [TBV w] (TBV w)
| W_ror w k : 0 <= k <= w -> wt_rule (OBVRor w k) [TBV w] (TBV w)
| W_zext a k : 0 <= k -> 0 <= a + k -> wt_rule (OBVZext (a + k) k) [TBV a] (TBV (a + k))
| W_sext a k : 0 <= k -> 0 <= a + k -> wt_rule (OBVSext (a + k) k) [TBV a] (TBV (a + k))
| W_bv2nat w : wt_rule OBVToNat [TBV w] TInt
| W_strlen : wt_rule (OStr SLength) [TStr] TInt
| W_strconcat l : l <> [] -> all_are TStr l -> wt_rule (OStr SConcat) l TStr
| W_contains : wt_rule (OStr SContains) [TStr; TStr] TBool
| W_indexof : wt_rule (OStr SIndexOf) [TStr; TStr; TInt] TInt
| W_replace : wt_rule (OStr SReplace) [TStr; TStr; TStr] TStr
| W_substr : wt_rule (OStr SSubstr) [TStr; TInt; TInt] TStr
| W_prefixof : wt_rule (OStr SPrefixOf) [TStr; TStr] TBool
| W_suffixof : wt_rule (OStr SSuffixOf) [TStr; TStr] TBool
| W_toint : wt_rule (OStr SToInt) [TStr] TInt
| W_fromint : wt_rule (OStr SFromInt) [TInt] TStr
| W_charat : wt_rule (OStr SCharAt) [TStr; TInt] TStr
| W_select i e : wt_rule OSelect [TArr i e; i] e
| W_store i e : wt_rule OStore [TArr i e; i; e] (TArr i e)
| W_arrayvalue it et l : fo et -> assigns_ok it et l -> wt_rule (OArrayValue it) (et :: l) (TArr it et).

(* well-typed terms *)
Inductive wt : term -> ty -> Prop :=
| WT o args tys t : Forall2 wt args tys -> wt_rule o tys t -> wt (T o args) t.

(* What the FormulaManager constructors guarantee about arity and redundant payloads before the
   type check runs (Python signatures fix the arity; BV constructors compute the width payload
   from the operand via bv_width()).  The checker relies on it: see TypeChecker_proofs. *)
Definition ctor_shape (o : op) (args : list ty) : Prop :=
  match o with
  | ONot | OToReal | OBVToNat | OStr SLength | OStr SToInt | OStr SFromInt
  | OForall _ | OExists _ => List.length args = 1%nat
  | OImplies | OIff | OMinus | ODiv | OPow | OLe | OLt | OEquals | OBVRel _
  | OStr SContains | OStr SPrefixOf | OStr SSuffixOf | OSelect => List.length args = 2%nat
  | OIte | OStore | OStr SReplace => List.length args = 3%nat
  | OPlus | OTimes | OStr SConcat => args <> []
  | OBV k w => (bv_unary k -> List.length args = 1%nat) /\
               (bv_binary k \/ k = BConcat \/ k = BComp -> List.length args = 2%nat)
  | OBVExtract w s e => List.length args = 1%nat /\ 0 <= s /\ s <= e
  | OBVRol _ _ | OBVRor _ _ => List.length args = 1%nat
  | OBVZext w k | OBVSext w k => exists a, args = [TBV a] /\ w = a + k
  | OArrayValue _ => exists d l, args = d :: l /\ Nat.Even (List.length l)
  | _ => True
  end.
