(* Abstract syntax of pySMT formulas: one constructor of [op] per pysmt.operators node type,
   carrying exactly the payload FNode stores (widths are kept even where redundant: checking
   them is the type checker's job).  [term] is the tree unfolding of the hash-consed DAG. *)
From Coq Require Import List ZArith Bool String.
Import ListNotations.
Open Scope bool_scope.

Inductive ty : Type :=
| TBool | TInt | TReal | TStr
| TBV (w : Z)
| TArr (i e : ty)
| TFun (ps : list ty) (r : ty)
| TUser (name : string) (targs : list ty).

Fixpoint ty_eqb (a b : ty) {struct a} : bool :=
  let fix list_eqb (l1 l2 : list ty) {struct l1} : bool :=
      match l1, l2 with
      | [], [] => true
      | x :: r1, y :: r2 => ty_eqb x y && list_eqb r1 r2
      | _, _ => false
      end in
  match a, b with
  | TBool, TBool | TInt, TInt | TReal, TReal | TStr, TStr => true
  | TBV w1, TBV w2 => Z.eqb w1 w2
  | TArr i1 e1, TArr i2 e2 => ty_eqb i1 i2 && ty_eqb e1 e2
  | TFun p1 r1, TFun p2 r2 => list_eqb p1 p2 && ty_eqb r1 r2
  | TUser n1 a1, TUser n2 a2 => String.eqb n1 n2 && list_eqb a1 a2
  | _, _ => false
  end.

Fixpoint tys_eqb (l1 l2 : list ty) : bool :=
  match l1, l2 with
  | [], [] => true
  | x :: r1, y :: r2 => ty_eqb x y && tys_eqb r1 r2
  | _, _ => false
  end.

(* bit-vector operators whose payload is just the result width *)
Inductive bvop := BNot | BAnd | BOr | BXor | BConcat | BNeg | BAdd | BSub | BMul | BUdiv | BUrem
                | BLshl | BLshr | BComp | BSdiv | BSrem | BAshr.
(* bit-vector relations (no payload) *)
Inductive bvrel := BUlt | BUle | BSlt | BSle.
(* string operators (no payload) *)
Inductive strop := SLength | SConcat | SContains | SIndexOf | SReplace | SSubstr | SPrefixOf
                 | SSuffixOf | SToInt | SFromInt | SCharAt.

Definition bvop_eqb (a b : bvop) : bool :=
  match a, b with
  | BNot, BNot | BAnd, BAnd | BOr, BOr | BXor, BXor | BConcat, BConcat | BNeg, BNeg | BAdd, BAdd
  | BSub, BSub | BMul, BMul | BUdiv, BUdiv | BUrem, BUrem | BLshl, BLshl | BLshr, BLshr
  | BComp, BComp | BSdiv, BSdiv | BSrem, BSrem | BAshr, BAshr => true
  | _, _ => false
  end.
Definition bvrel_eqb (a b : bvrel) : bool :=
  match a, b with BUlt, BUlt | BUle, BUle | BSlt, BSlt | BSle, BSle => true | _, _ => false end.
Definition strop_eqb (a b : strop) : bool :=
  match a, b with
  | SLength, SLength | SConcat, SConcat | SContains, SContains | SIndexOf, SIndexOf
  | SReplace, SReplace | SSubstr, SSubstr | SPrefixOf, SPrefixOf | SSuffixOf, SSuffixOf
  | SToInt, SToInt | SFromInt, SFromInt | SCharAt, SCharAt => true
  | _, _ => false
  end.

Definition var := (string * ty)%type.
Definition var_eqb (a b : var) : bool := String.eqb (fst a) (fst b) && ty_eqb (snd a) (snd b).

Inductive op : Type :=
| OForall (vs : list var) | OExists (vs : list var)
| OAnd | OOr | ONot | OImplies | OIff
| OSymbol (n : string) (t : ty)
| OFunction (n : string) (t : ty)          (* applied function symbol: name and function type *)
| ORealC (num den : Z)                      (* Fraction num/den, den > 0, gcd = 1 *)
| OBoolC (b : bool) | OIntC (z : Z) | OStrC (s : list Z)   (* string = code points *)
| OPlus | OMinus | OTimes | OLe | OLt | OEquals | OIte | OToReal
| OBVC (v w : Z)
| OBV (k : bvop) (w : Z)
| OBVRel (k : bvrel)
| OBVExtract (w s e : Z)
| OBVRol (w k : Z) | OBVRor (w k : Z) | OBVZext (w k : Z) | OBVSext (w k : Z)
| OStr (k : strop)
| OSelect | OStore | OArrayValue (it : ty)
| ODiv | OPow | OBVToNat.

Inductive term : Type := T (o : op) (args : list term).

Definition top (t : term) : op := match t with T o _ => o end.
Definition targs (t : term) : list term := match t with T _ a => a end.

Fixpoint list_eqb {A} (eqb : A -> A -> bool) (l1 l2 : list A) : bool :=
  match l1, l2 with
  | [], [] => true
  | x :: r1, y :: r2 => eqb x y && list_eqb eqb r1 r2
  | _, _ => false
  end.

Definition op_eqb (a b : op) : bool :=
  match a, b with
  | OForall v1, OForall v2 | OExists v1, OExists v2 => list_eqb var_eqb v1 v2
  | OAnd, OAnd | OOr, OOr | ONot, ONot | OImplies, OImplies | OIff, OIff => true
  | OSymbol n1 t1, OSymbol n2 t2 | OFunction n1 t1, OFunction n2 t2 => String.eqb n1 n2 && ty_eqb t1 t2
  | ORealC n1 d1, ORealC n2 d2 => Z.eqb n1 n2 && Z.eqb d1 d2
  | OBoolC b1, OBoolC b2 => Bool.eqb b1 b2
  | OIntC z1, OIntC z2 => Z.eqb z1 z2
  | OStrC s1, OStrC s2 => list_eqb Z.eqb s1 s2
  | OPlus, OPlus | OMinus, OMinus | OTimes, OTimes | OLe, OLe | OLt, OLt | OEquals, OEquals
  | OIte, OIte | OToReal, OToReal | OSelect, OSelect | OStore, OStore | ODiv, ODiv | OPow, OPow
  | OBVToNat, OBVToNat => true
  | OBVC v1 w1, OBVC v2 w2 => Z.eqb v1 v2 && Z.eqb w1 w2
  | OBV k1 w1, OBV k2 w2 => bvop_eqb k1 k2 && Z.eqb w1 w2
  | OBVRel k1, OBVRel k2 => bvrel_eqb k1 k2
  | OBVExtract w1 s1 e1, OBVExtract w2 s2 e2 => Z.eqb w1 w2 && Z.eqb s1 s2 && Z.eqb e1 e2
  | OBVRol w1 k1, OBVRol w2 k2 | OBVRor w1 k1, OBVRor w2 k2
  | OBVZext w1 k1, OBVZext w2 k2 | OBVSext w1 k1, OBVSext w2 k2 => Z.eqb w1 w2 && Z.eqb k1 k2
  | OStr k1, OStr k2 => strop_eqb k1 k2
  | OArrayValue t1, OArrayValue t2 => ty_eqb t1 t2
  | _, _ => false
  end.

Fixpoint term_eqb (a b : term) {struct a} : bool :=
  match a, b with
  | T o1 l1, T o2 l2 =>
      op_eqb o1 o2 &&
      (fix go (l1 l2 : list term) {struct l1} : bool :=
         match l1, l2 with
         | [], [] => true
         | x :: r1, y :: r2 => term_eqb x y && go r1 r2
         | _, _ => false
         end) l1 l2
  end.

(* ---- induction principle through the nested list ---- *)
Section TermInd.
  Variable P : term -> Prop.
  Hypothesis H : forall o args, Forall P args -> P (T o args).
  Fixpoint term_ind' (t : term) : P t :=
    match t with
    | T o args =>
        H o args ((fix go (l : list term) : Forall P l :=
                     match l with
                     | [] => Forall_nil P
                     | x :: r => Forall_cons x (term_ind' x) (go r)
                     end) args)
    end.
End TermInd.

(* ---- size measures used by several models ---- *)
Fixpoint tsize (t : term) : nat :=
  match t with T _ args => S (fold_right (fun a n => tsize a + n) 0 args) end.

(* ---- small constructors used by models and case files ---- *)
Definition TTrue := T (OBoolC true) [].
Definition TFalse := T (OBoolC false) [].
Definition TBoolC (b : bool) := T (OBoolC b) [].
Definition TIntC (z : Z) := T (OIntC z) [].
Definition TRealC (n d : Z) := T (ORealC n d) [].
Definition TBVC (v w : Z) := T (OBVC v w) [].
Definition TStrC (s : list Z) := T (OStrC s) [].
Definition TSym (n : string) (t : ty) := T (OSymbol n t) [].
Definition TNot (a : term) := T ONot [a].
Definition TAnd (l : list term) := T OAnd l.
Definition TOr (l : list term) := T OOr l.

Definition is_const (t : term) : bool :=
  match top t with
  | OBoolC _ | OIntC _ | ORealC _ _ | OBVC _ _ | OStrC _ => true
  | _ => false
  end.
Definition is_true (t : term) : bool := match top t with OBoolC true => true | _ => false end.
Definition is_false (t : term) : bool := match top t with OBoolC false => true | _ => false end.

(* ---- comparison up to the order of And/Or arguments and of quantified variables
        (pySMT builds these from Python sets, whose order depends on node ids) ---- *)
Fixpoint remove_first {A} (eqb : A -> A -> bool) (x : A) (l : list A) : option (list A) :=
  match l with
  | [] => None
  | y :: r => if eqb x y then Some r
              else match remove_first eqb x r with Some r' => Some (y :: r') | None => None end
  end.
Fixpoint perm_eqb {A} (eqb : A -> A -> bool) (l1 l2 : list A) : bool :=
  match l1 with
  | [] => match l2 with [] => true | _ => false end
  | x :: r => match remove_first eqb x l2 with Some l2' => perm_eqb eqb r l2' | None => false end
  end.

Definition ac_op (o : op) : bool := match o with OAnd | OOr => true | _ => false end.
Definition op_ac_eqb (a b : op) : bool :=
  match a, b with
  | OForall v1, OForall v2 | OExists v1, OExists v2 => perm_eqb var_eqb v1 v2
  | _, _ => op_eqb a b
  end.

Fixpoint ac_eqb_fuel (fuel : nat) (a b : term) : bool :=
  match fuel with
  | O => false
  | S f =>
      match a, b with
      | T o1 l1, T o2 l2 =>
          op_ac_eqb o1 o2 &&
          (if ac_op o1 then perm_eqb (ac_eqb_fuel f) l1 l2 else list_eqb (ac_eqb_fuel f) l1 l2)
      end
  end.
Definition ac_eqb (a b : term) : bool := ac_eqb_fuel (S (tsize a)) a b.
