(* SPECIFICATION: values and the meaning of every pySMT operator (SMT-LIB 2.6 theories Core,
   Ints, Reals, Reals_Ints, FixedSizeBitVectors/QF_BV, ArraysEx, Strings).  Reals are Coq's R;
   undecidable questions (array equality, quantifiers) go through excluded_middle_informative,
   so [eval] is not executable: it is the yardstick the executable models are proved against.
   Restriction: array INDEX sorts are first-order (no array-indexed arrays); arrays may be nested
   as elements. *)
From Coq Require Import List ZArith Bool String Reals Lia.
From Coq Require Import ClassicalDescription FunctionalExtensionality.
From PySMT.core Require Import Syntax.
Import ListNotations.
Open Scope bool_scope.

(* ------------------------------------------------------------------------- values *)
Inductive key : Type :=
| KBool (b : bool) | KInt (z : Z) | KReal (r : R) | KBV (w v : Z) | KStr (s : list Z)
| KU (sort : string) (n : nat) | KNone.

Inductive value : Type :=
| VBool (b : bool) | VInt (z : Z) | VReal (r : R) | VBV (w v : Z) | VStr (s : list Z)
| VU (sort : string) (n : nat)
| VArr (f : key -> value).

Definition to_key (v : value) : key :=
  match v with
  | VBool b => KBool b | VInt z => KInt z | VReal r => KReal r | VBV w x => KBV w x
  | VStr s => KStr s | VU s n => KU s n | VArr _ => KNone
  end.
Definition of_key (k : key) : value :=
  match k with
  | KBool b => VBool b | KInt z => VInt z | KReal r => VReal r | KBV w x => VBV w x
  | KStr s => VStr s | KU s n => VU s n | KNone => VBool false
  end.

Definition key_eq_dec (a b : key) : {a = b} + {a <> b} := excluded_middle_informative (a = b).
Definition veqb (a b : value) : bool := if excluded_middle_informative (a = b) then true else false.

Lemma veqb_true a b : veqb a b = true <-> a = b.
Proof. unfold veqb. destruct (excluded_middle_informative (a = b)); split; auto; discriminate. Qed.
Lemma veqb_refl a : veqb a a = true.
Proof. now apply veqb_true. Qed.

(* keys of a sort: the keys of the values of that sort (all values of an array sort have the key
   KNone) *)
Definition key_sortb (k : key) (t : ty) : bool :=
  match k, t with
  | KBool _, TBool => true
  | KInt _, TInt => true
  | KReal _, TReal => true
  | KStr _, TStr => true
  | KBV w x, TBV w' => (w =? w')%Z && (0 <=? x)%Z && (x <? 2 ^ w')%Z
  | KU s _, TUser s' _ => String.eqb s s'
  | KNone, TArr _ _ => true
  | _, _ => false
  end.
(* what an array value holds at the keys outside its index sort *)
Definition junk : value := VBool false.

(* value of a sort.  An array value is a function on ALL keys; it is canonical outside its index
   sort ([junk] there), so that Leibniz equality of array values of a sort is extensional equality
   on the index sort (SMT-LIB's ArraysEx) *)
Fixpoint has_ty (v : value) (t : ty) {struct t} : Prop :=
  match t, v with
  | TBool, VBool _ => True
  | TInt, VInt _ => True
  | TReal, VReal _ => True
  | TStr, VStr _ => True
  | TBV w, VBV w' x => w' = w /\ (0 <= x < 2 ^ w)%Z
  | TUser n _, VU n' _ => n' = n
  | TArr i e, VArr f => forall k, if key_sortb k i then has_ty (f k) e else f k = junk
  | _, _ => False
  end.

(* ------------------------------------------------------------------------- interpretations *)
Record interp : Type := {
  isym : string -> ty -> value;                 (* free symbols, by name and sort *)
  ifun : string -> ty -> list value -> value;   (* function symbols *)
  rdiv0 : R -> R;                               (* x / 0 on reals: some fixed function *)
  idiv0 : Z -> Z                                (* x div 0 on integers *)
}.

(* sorts that have values: first-order sorts with positive bit-widths (a function type is not
   the sort of a value: function symbols are interpreted through [ifun]) *)
Fixpoint fo_ok (t : ty) : Prop :=
  match t with
  | TBV w => (0 < w)%Z
  | TArr i e => fo_ok i /\ fo_ok e
  | TFun _ _ => False
  | _ => True
  end.
Definition sort_ok (t : ty) : Prop :=
  match t with TFun _ r => fo_ok r | _ => fo_ok t end.

(* every free symbol of an inhabited sort denotes a value of that sort; every function symbol
   returns values of its result sort (satisfiable: wf_interp_inhabited below) *)
Definition wf_interp (I : interp) : Prop :=
  (forall n t, fo_ok t -> has_ty (isym I n t) t) /\
  (forall n ps r args, fo_ok r -> has_ty (ifun I n (TFun ps r) args) r).

Fixpoint default_val (t : ty) : value :=
  match t with
  | TBool => VBool false | TInt => VInt 0 | TReal => VReal 0 | TStr => VStr []
  | TBV w => VBV w 0
  | TArr i e => VArr (fun k => if key_sortb k i then default_val e else junk)
  | TUser n _ => VU n 0
  | TFun _ _ => VBool false
  end.
Lemma default_val_has_ty : forall t, fo_ok t -> has_ty (default_val t) t.
Proof.
  induction t; cbn; intros H; auto; try contradiction.
  - split; [reflexivity|]. split; [apply Z.le_refl | apply Z.pow_pos_nonneg; [reflexivity | now apply Z.lt_le_incl]].
  - destruct H as [_ He]. intros k. destruct (key_sortb k t1); [now apply IHt2 | reflexivity].
Qed.
Lemma wf_interp_inhabited : exists I, wf_interp I.
Proof.
  exists {| isym := fun _ t => default_val t;
            ifun := fun _ t _ => match t with TFun _ r => default_val r | _ => VBool false end;
            rdiv0 := fun r => r; idiv0 := fun z => z |}.
  split; cbn; intros; now apply default_val_has_ty.
Qed.

Definition bind1 (I : interp) (v : var) (x : value) : interp :=
  {| isym := fun n t => if String.eqb n (fst v) && ty_eqb t (snd v) then x else isym I n t;
     ifun := ifun I; rdiv0 := rdiv0 I; idiv0 := idiv0 I |}.
Fixpoint bind (I : interp) (vs : list var) (xs : list value) : interp :=
  match vs, xs with
  | v :: vs', x :: xs' => bind (bind1 I v x) vs' xs'
  | _, _ => I
  end.
Fixpoint vals_ok (xs : list value) (vs : list var) : Prop :=
  match xs, vs with
  | [], [] => True
  | x :: xs', v :: vs' => has_ty x (snd v) /\ vals_ok xs' vs'
  | _, _ => False
  end.

(* ------------------------------------------------------------------------- bit-vectors on Z *)
Open Scope Z_scope.
Definition bvmod (w x : Z) : Z := x mod 2 ^ w.
Definition to_signed (w x : Z) : Z := if x <? 2 ^ (w - 1) then x else x - 2 ^ w.
Definition bv_neg (w x : Z) := bvmod w (- x).
Definition bv_udiv (w a b : Z) := if b =? 0 then 2 ^ w - 1 else a / b.
Definition bv_urem (w a b : Z) := if b =? 0 then a else a mod b.
Definition msb (w x : Z) : bool := 2 ^ (w - 1) <=? x.
Definition bv_sdiv (w a b : Z) : Z :=
  match msb w a, msb w b with
  | false, false => bv_udiv w a b
  | true, false => bv_neg w (bv_udiv w (bv_neg w a) b)
  | false, true => bv_neg w (bv_udiv w a (bv_neg w b))
  | true, true => bv_udiv w (bv_neg w a) (bv_neg w b)
  end.
Definition bv_srem (w a b : Z) : Z :=
  match msb w a, msb w b with
  | false, false => bv_urem w a b
  | true, false => bv_neg w (bv_urem w (bv_neg w a) b)
  | false, true => bv_urem w a (bv_neg w b)
  | true, true => bv_neg w (bv_urem w (bv_neg w a) (bv_neg w b))
  end.
Definition bv_shl (w a b : Z) := if w <=? b then 0 else bvmod w (a * 2 ^ b).
Definition bv_lshr (w a b : Z) := if w <=? b then 0 else a / 2 ^ b.
Definition bv_ashr (w a b : Z) := bvmod w (to_signed w a / 2 ^ (Z.min b w)).
Definition bv_rol (w x k : Z) := let k' := k mod w in bvmod w (x * 2 ^ k') + x / 2 ^ (w - k').
Definition bv_ror (w x k : Z) := let k' := k mod w in bv_rol w x (w - k').
Definition bv_extract (x s e : Z) := (x / 2 ^ s) mod 2 ^ (e - s + 1).

Definition bvop_sem (k : bvop) (w : Z) (args : list value) : value :=
  match k, args with
  | BNot, [VBV w1 a] => VBV w1 (2 ^ w1 - 1 - a)
  | BNeg, [VBV w1 a] => VBV w1 (bv_neg w1 a)
  | BAnd, [VBV w1 a; VBV _ b] => VBV w1 (Z.land a b)
  | BOr, [VBV w1 a; VBV _ b] => VBV w1 (Z.lor a b)
  | BXor, [VBV w1 a; VBV _ b] => VBV w1 (Z.lxor a b)
  | BAdd, [VBV w1 a; VBV _ b] => VBV w1 (bvmod w1 (a + b))
  | BSub, [VBV w1 a; VBV _ b] => VBV w1 (bvmod w1 (a - b))
  | BMul, [VBV w1 a; VBV _ b] => VBV w1 (bvmod w1 (a * b))
  | BUdiv, [VBV w1 a; VBV _ b] => VBV w1 (bv_udiv w1 a b)
  | BUrem, [VBV w1 a; VBV _ b] => VBV w1 (bv_urem w1 a b)
  | BSdiv, [VBV w1 a; VBV _ b] => VBV w1 (bv_sdiv w1 a b)
  | BSrem, [VBV w1 a; VBV _ b] => VBV w1 (bv_srem w1 a b)
  | BLshl, [VBV w1 a; VBV _ b] => VBV w1 (bv_shl w1 a b)
  | BLshr, [VBV w1 a; VBV _ b] => VBV w1 (bv_lshr w1 a b)
  | BAshr, [VBV w1 a; VBV _ b] => VBV w1 (bv_ashr w1 a b)
  | BConcat, [VBV w1 a; VBV w2 b] => VBV (w1 + w2) (a * 2 ^ w2 + b)
  | BComp, [VBV _ a; VBV _ b] => VBV 1 (if a =? b then 1 else 0)
  | _, _ => VBool false
  end.
Definition bvrel_sem (k : bvrel) (args : list value) : value :=
  match k, args with
  | BUlt, [VBV _ a; VBV _ b] => VBool (a <? b)
  | BUle, [VBV _ a; VBV _ b] => VBool (a <=? b)
  | BSlt, [VBV w a; VBV _ b] => VBool (to_signed w a <? to_signed w b)
  | BSle, [VBV w a; VBV _ b] => VBool (to_signed w a <=? to_signed w b)
  | _, _ => VBool false
  end.

(* ------------------------------------------------------------------------- strings on list Z *)
Definition slen (s : list Z) : Z := Z.of_nat (List.length s).
Definition ssub (s : list Z) (i n : Z) : list Z :=      (* str.substr *)
  if (i <? 0) || (slen s <=? i) || (n <=? 0) then []
  else firstn (Z.to_nat n) (skipn (Z.to_nat i) s).
Fixpoint sprefix (p s : list Z) : bool :=
  match p, s with
  | [], _ => true
  | x :: p', y :: s' => (x =? y) && sprefix p' s'
  | _ :: _, [] => false
  end.
(* first position >= 0 (relative) at which t occurs in s *)
Fixpoint sfind (t s : list Z) (pos : Z) : Z :=
  if sprefix t s then pos
  else match s with [] => -1 | _ :: s' => sfind t s' (pos + 1) end.
Definition sindexof (s t : list Z) (i : Z) : Z :=      (* str.indexof *)
  if (i <? 0) || (slen s <? i) then -1
  else sfind t (skipn (Z.to_nat i) s) i.
Definition sreplace (s t t' : list Z) : list Z :=      (* str.replace: first occurrence *)
  let p := sfind t s 0 in
  if p <? 0 then s
  else firstn (Z.to_nat p) s ++ t' ++ skipn (Z.to_nat p + List.length t) s.
Definition is_digit (c : Z) : bool := (48 <=? c) && (c <=? 57).
Definition sto_int (s : list Z) : Z :=
  match s with
  | [] => -1
  | _ => if forallb is_digit s then fold_left (fun acc c => acc * 10 + (c - 48)) s 0 else -1
  end.
Fixpoint digits_fuel (fuel : nat) (n : Z) (acc : list Z) : list Z :=
  match fuel with
  | O => acc
  | S f => if n <? 10 then (48 + n) :: acc else digits_fuel f (n / 10) ((48 + n mod 10) :: acc)
  end.
Definition sfrom_int (n : Z) : list Z :=
  if n <? 0 then [] else digits_fuel (S (Z.to_nat (Z.log2 n))) n [].
Definition ssuffix (p s : list Z) : bool := sprefix (rev p) (rev s).
Definition scontains (s t : list Z) : bool := 0 <=? sfind t s 0.

Definition strop_sem (k : strop) (args : list value) : value :=
  match k, args with
  | SLength, [VStr s] => VInt (slen s)
  | SConcat, VStr s :: rest =>
      VStr (fold_left (fun acc v => match v with VStr x => acc ++ x | _ => acc end) rest s)
  | SContains, [VStr s; VStr t] => VBool (scontains s t)
  | SIndexOf, [VStr s; VStr t; VInt i] => VInt (sindexof s t i)
  | SReplace, [VStr s; VStr t; VStr t'] => VStr (sreplace s t t')
  | SSubstr, [VStr s; VInt i; VInt n] => VStr (ssub s i n)
  | SPrefixOf, [VStr p; VStr s] => VBool (sprefix p s)
  | SSuffixOf, [VStr p; VStr s] => VBool (ssuffix p s)
  | SToInt, [VStr s] => VInt (sto_int s)
  | SFromInt, [VInt n] => VStr (sfrom_int n)
  | SCharAt, [VStr s; VInt i] => VStr (ssub s i 1)
  | _, _ => VBool false
  end.
Close Scope Z_scope.

(* ------------------------------------------------------------------------- arithmetic *)
Definition Q2R' (n d : Z) : R := (IZR n / IZR d)%R.

Definition vadd (a b : value) : value :=
  match a, b with
  | VInt x, VInt y => VInt (x + y)
  | VReal x, VReal y => VReal (x + y)
  | _, _ => VBool false
  end.
Definition vmul (a b : value) : value :=
  match a, b with
  | VInt x, VInt y => VInt (x * y)
  | VReal x, VReal y => VReal (x * y)
  | _, _ => VBool false
  end.
Definition vsub (a b : value) : value :=
  match a, b with
  | VInt x, VInt y => VInt (x - y)
  | VReal x, VReal y => VReal (x - y)
  | _, _ => VBool false
  end.
(* SMT-LIB Ints: x = y * (div x y) + (mod x y), 0 <= mod x y < |y| *)
Definition smt_div (x y : Z) : Z := if (0 <=? y)%Z then (x / y)%Z else (- (x / (- y)))%Z.
Definition vdiv (I : interp) (a b : value) : value :=
  match a, b with
  | VInt x, VInt y => VInt (if (y =? 0)%Z then idiv0 I x else smt_div x y)
  | VReal x, VReal y => VReal (if Req_EM_T y 0%R then rdiv0 I x else (x / y)%R)
  | _, _ => VBool false
  end.
(* exponent: a non-negative integer constant (pySMT requires a constant exponent) *)
Definition nat_of_real (e : R) : option nat :=
  let n := Z.to_nat (up e - 1) in if Req_EM_T (INR n) e then Some n else None.
(* x ^ (-n) = 1 / x ^ n; for x = 0 this is a division by zero: like x / 0 it has SOME fixed value
   (rdiv0 I 1), about which nothing is known *)
Definition rpow_neg (I : interp) (x : R) (n : nat) : R :=
  if Req_EM_T x 0 then rdiv0 I 1 else (/ (x ^ n))%R.
(* pySMT types Pow as Real; the exponent is an integer (of sort Int, or an integral Real) *)
Definition vpow (I : interp) (a b : value) : value :=
  match a, b with
  | VInt x, VInt y =>
      if (0 <=? y)%Z then VReal (IZR (x ^ y)) else VReal (rpow_neg I (IZR x) (Z.to_nat (- y)))
  | VReal x, VReal y =>
      match nat_of_real y with
      | Some n => VReal (x ^ n)
      | None => match nat_of_real (- y) with Some n => VReal (rpow_neg I x n) | None => VBool false end
      end
  | _, _ => VBool false
  end.
Definition vle (a b : value) : value :=
  match a, b with
  | VInt x, VInt y => VBool (x <=? y)%Z
  | VReal x, VReal y => VBool (if Rle_dec x y then true else false)
  | _, _ => VBool false
  end.
Definition vlt (a b : value) : value :=
  match a, b with
  | VInt x, VInt y => VBool (x <? y)%Z
  | VReal x, VReal y => VBool (if Rlt_dec x y then true else false)
  | _, _ => VBool false
  end.

Definition vbool (v : value) : bool := match v with VBool b => b | _ => false end.

(* array value: default (on the index sort given by the operator's payload; [junk] outside it),
   then (index, value) pairs; later pairs do not override earlier ones (pySMT keeps at most one
   pair per index) *)
Fixpoint arr_assign (f : key -> value) (l : list value) : key -> value :=
  match l with
  | i :: v :: r =>
      let g := arr_assign f r in
      fun k => if key_eq_dec k (to_key i) then v else g k
  | _ => f
  end.

(* ------------------------------------------------------------------------- operators *)
Definition op_sem (I : interp) (o : op) (args : list value) : value :=
  match o, args with
  | OAnd, _ => VBool (forallb vbool args)
  | OOr, _ => VBool (existsb vbool args)
  | ONot, [a] => VBool (negb (vbool a))
  | OImplies, [a; b] => VBool (implb (vbool a) (vbool b))
  | OIff, [a; b] => VBool (Bool.eqb (vbool a) (vbool b))
  | ORealC n d, [] => VReal (Q2R' n d)
  | OBoolC b, [] => VBool b
  | OIntC z, [] => VInt z
  | OStrC s, [] => VStr s
  | OBVC v w, [] => VBV w v
  | OPlus, a :: r => fold_left vadd r a
  | OTimes, a :: r => fold_left vmul r a
  | OMinus, [a; b] => vsub a b
  | OLe, [a; b] => vle a b
  | OLt, [a; b] => vlt a b
  | OEquals, [a; b] => VBool (veqb a b)
  | OIte, [c; a; b] => if vbool c then a else b
  | OToReal, [VInt z] => VReal (IZR z)
  | OBV k w, _ => bvop_sem k w args
  | OBVRel k, _ => bvrel_sem k args
  | OBVExtract _ s e, [VBV _ x] => VBV (e - s + 1) (bv_extract x s e)
  | OBVRol w k, [VBV _ x] => VBV w (bv_rol w x k)
  | OBVRor w k, [VBV _ x] => VBV w (bv_ror w x k)
  | OBVZext w _, [VBV _ x] => VBV w x
  | OBVSext w _, [VBV w0 x] => VBV w (bvmod w (to_signed w0 x))
  | OStr k, _ => strop_sem k args
  | OSelect, [VArr f; i] => f (to_key i)
  | OStore, [VArr f; i; v] => VArr (fun k => if key_eq_dec k (to_key i) then v else f k)
  | OArrayValue it, d :: assigns => VArr (arr_assign (fun k => if key_sortb k it then d else junk) assigns)
  | ODiv, [a; b] => vdiv I a b
  | OPow, [a; b] => vpow I a b
  | OBVToNat, [VBV _ x] => VInt x
  | _, _ => VBool false
  end.

(* ------------------------------------------------------------------------- evaluation *)
Fixpoint eval (I : interp) (t : term) {struct t} : value :=
  match t with
  | T o args =>
      match o with
      | OSymbol n ty => isym I n ty
      | OFunction n ty => ifun I n ty (map (eval I) args)
      | OForall vs =>
          match args with
          | [b] => VBool (if excluded_middle_informative
                               (forall xs, vals_ok xs vs -> eval (bind I vs xs) b = VBool true)
                          then true else false)
          | _ => VBool false
          end
      | OExists vs =>
          match args with
          | [b] => VBool (if excluded_middle_informative
                               (exists xs, vals_ok xs vs /\ eval (bind I vs xs) b = VBool true)
                          then true else false)
          | _ => VBool false
          end
      | _ => op_sem I o (map (eval I) args)
      end
  end.

Definition holds (I : interp) (t : term) : Prop := eval I t = VBool true.

(* "no Int/Real division whose divisor evaluates to zero is evaluated" (ITE: only the taken
   branch; And/Or/quantifiers: every argument counts) *)
Definition is_zero_val (v : value) : Prop :=
  match v with VInt z => z = 0%Z | VReal r => r = 0%R | _ => False end.

Fixpoint div_safe (I : interp) (t : term) {struct t} : Prop :=
  match t with
  | T o args =>
      match o, args with
      | OIte, [c; a; b] => div_safe I c /\ (if vbool (eval I c) then div_safe I a else div_safe I b)
      | ODiv, [a; b] => div_safe I a /\ div_safe I b /\ ~ is_zero_val (eval I b)
      | OForall vs, [b] | OExists vs, [b] => forall xs, vals_ok xs vs -> div_safe (bind I vs xs) b
      | _, _ => (fix all (l : list term) : Prop :=
                   match l with [] => True | x :: r => div_safe I x /\ all r end) args
      end
  end.
