(* C16 - facts about the SMT-LIB assertion-stack spec (models/AssertStack.v) *)
From Coq Require Import List Arith Bool Lia.
From PySMT.models Require Import AssertStack.
Import ListNotations.

Lemma NoDup_snoc {A} (l : list A) x : NoDup l -> ~ In x l -> NoDup (l ++ [x]).
Proof.
  intros N H. induction N as [|y l Hy N IH]; cbn.
  - constructor; [intros []|constructor].
  - constructor.
    + rewrite in_app_iff. cbn. intros [H1|[H1|[]]]; [tauto|]. subst. apply H. now left.
    + apply IH. intros H1. apply H. now right.
Qed.

Lemma NoDup_app_l16 {A} (a b : list A) : NoDup (a ++ b) -> NoDup a.
Proof.
  induction a as [|x a IH]; cbn; intros H; [constructor|].
  apply NoDup_cons_iff in H. destruct H as [H1 H2]. constructor; [|now apply IH].
  intros H. apply H1. apply in_or_app. now left.
Qed.
Lemma NoDup_app_r16 {A} (a b : list A) : NoDup (a ++ b) -> NoDup b.
Proof.
  induction a as [|x a IH]; cbn; intros H; [exact H|].
  apply NoDup_cons_iff in H. now apply IH.
Qed.
Lemma NoDup_app_disj16 {A} (a b : list A) x : NoDup (a ++ b) -> In x a -> In x b -> False.
Proof.
  induction a as [|y a IH]; cbn; intros H Ha Hb; [exact Ha|].
  apply NoDup_cons_iff in H. destruct H as [H1 H2]. destruct Ha as [->|Ha].
  - apply H1. apply in_or_app. now right.
  - now apply IH.
Qed.

Section SpecFacts.
  Variables F W : Type.
  Notation item := (item F W).
  Notation astack := (astack F W).
  Notation cmd := (cmd F W).

  Lemma asserts_app (a b : list item) : asserts (a ++ b) = asserts a ++ asserts b.
  Proof.
    induction a as [|x a IH]; cbn; [reflexivity|].
    destruct x; cbn; now rewrite IH.
  Qed.

  Lemma items_pair (cur : level F W) e : items (cur, e) = concat (rev e) ++ cur.
  Proof. reflexivity. Qed.

  Lemma items_cons (cur l : level F W) e : items (cur, l :: e) = items (l, e) ++ cur.
  Proof.
    unfold items. cbn [fst snd rev]. rewrite concat_app. cbn. now rewrite app_nil_r.
  Qed.

  Lemma items_push1 (s : astack) : items (s_push1 s) = items s.
  Proof.
    destruct s as [cur e]. unfold s_push1. cbn [fst snd]. rewrite items_cons. apply app_nil_r.
  Qed.

  Lemma items_add x (s : astack) : items (s_add x s) = items s ++ [x].
  Proof. destruct s as [cur e]. unfold s_add, items. cbn [fst snd]. now rewrite app_assoc. Qed.

  Lemma s_pop1_inv (s s' : astack) : s_pop1 s = Some s' -> snd s = fst s' :: snd s'.
  Proof.
    destruct s as [cur e]. unfold s_pop1. cbn [snd]. destruct e as [|l e]; [discriminate|].
    intros H. injection H as <-. reflexivity.
  Qed.

  Lemma s_run_app (s : astack) a b :
    s_run s (a ++ b) = match s_run s a with Some s1 => s_run s1 b | None => None end.
  Proof.
    revert s. induction a as [|x a IH]; intros s; cbn; [reflexivity|].
    destruct (s_step s x); [apply IH|reflexivity].
  Qed.

  (* every prefix of a legal command list is legal *)
  Lemma legal_prefix (a b : list cmd) : legal (a ++ b) -> legal a.
  Proof.
    unfold legal. rewrite s_run_app. destruct (s_run s_init a); [discriminate|auto].
  Qed.

  (* ---- goals ---------------------------------------------------------------------- *)
  Lemma slots_app (a b : list item) : slots (a ++ b) = fold_left skstep b (slots a).
  Proof. unfold slots. now rewrite fold_left_app. Qed.

  Lemma slots_snoc (l : list item) x : slots (l ++ [x]) = skstep (slots l) x.
  Proof. now rewrite slots_app. Qed.

  Lemma skfold_prefix (b : list item) : forall acc, exists t, fold_left skstep b acc = acc ++ t.
  Proof.
    induction b as [|x b IH]; intros acc; cbn [fold_left].
    - exists []. now rewrite app_nil_r.
    - destruct (IH (skstep acc x)) as (t & E). rewrite E.
      destruct x as [f|k f|i f w]; cbn [skstep].
      + now exists t.
      + exists (SObj k f :: t). now rewrite <- app_assoc.
      + destruct (existsb (is_ssoft i) acc); [now exists t|].
        exists (SSoft i :: t). now rewrite <- app_assoc.
  Qed.

  Lemma softs_app i (a b : list item) : softs i (a ++ b) = softs i a ++ softs i b.
  Proof.
    induction a as [|x a IH]; cbn; [reflexivity|].
    destruct x as [f|k f|j f w]; cbn; auto. destruct (Nat.eqb j i); cbn; now rewrite IH.
  Qed.

  (* the soft ids that have a slot *)
  Definition ids (sl : list (slot F)) : list nat :=
    flat_map (fun x => match x with SSoft j => [j] | SObj _ _ => [] end) sl.

  Lemma ids_app (a b : list (slot F)) : ids (a ++ b) = ids a ++ ids b.
  Proof. unfold ids. now rewrite flat_map_app. Qed.

  Lemma existsb_ids i (sl : list (slot F)) : existsb (is_ssoft i) sl = true <-> In i (ids sl).
  Proof.
    induction sl as [|x sl IH]; cbn; [split; [discriminate|tauto]|].
    destruct x as [k f|j]; cbn; [exact IH|].
    rewrite orb_true_iff, IH, Nat.eqb_eq. tauto.
  Qed.

  Lemma existsb_ids_false i (sl : list (slot F)) : existsb (is_ssoft i) sl = false <-> ~ In i (ids sl).
  Proof. rewrite <- existsb_ids. destruct (existsb (is_ssoft i) sl); split; congruence. Qed.

  Lemma ids_skstep acc (x : item) :
    ids (skstep acc x) = ids acc ++
      match x with
      | ISoft i _ _ => if existsb (is_ssoft i) acc then [] else [i]
      | _ => []
      end.
  Proof.
    destruct x as [f|k f|i f w]; cbn [skstep].
    - now rewrite app_nil_r.
    - rewrite ids_app. reflexivity.
    - destruct (existsb (is_ssoft i) acc); [now rewrite app_nil_r|]. now rewrite ids_app.
  Qed.

  Lemma nodup_ids_fold (b : list item) : forall acc, NoDup (ids acc) -> NoDup (ids (fold_left skstep b acc)).
  Proof.
    induction b as [|x b IH]; intros acc N; cbn [fold_left]; [exact N|].
    apply IH. rewrite ids_skstep. destruct x as [f|k f|i f w]; try (now rewrite app_nil_r).
    destruct (existsb (is_ssoft i) acc) eqn:E; [now rewrite app_nil_r|].
    apply existsb_ids_false in E.
    apply NoDup_snoc; assumption.
  Qed.

  Lemma nodup_ids_slots (l : list item) : NoDup (ids (slots l)).
  Proof. apply nodup_ids_fold. constructor. Qed.

  Lemma in_ids_fold i (b : list item) : forall acc,
    In i (ids (fold_left skstep b acc)) <-> In i (ids acc) \/ softs i b <> [].
  Proof.
    induction b as [|x b IH]; intros acc; cbn [fold_left softs]; [tauto|].
    rewrite IH, ids_skstep, in_app_iff.
    destruct x as [f|k f|j f w]; cbn [In]; try tauto.
    destruct (Nat.eqb j i) eqn:E.
    - apply Nat.eqb_eq in E. subst j.
      destruct (existsb (is_ssoft i) acc) eqn:E2.
      + apply existsb_ids in E2. split; [intros _|intros _; left; left; exact E2].
        right. discriminate.
      + cbn [In]. split; [intros _; right; discriminate|intros _; left; right; left; reflexivity].
    - apply Nat.eqb_neq in E.
      destruct (existsb (is_ssoft j) acc); cbn [In]; [tauto|].
      split; [intros [[H|[H|[]]]|H]; [tauto|congruence|tauto]|tauto].
  Qed.

  Lemma in_ids_slots i (l : list item) : In i (ids (slots l)) <-> softs i l <> [].
  Proof. unfold slots. rewrite in_ids_fold. cbn. tauto. Qed.
End SpecFacts.
Arguments ids {F}.
