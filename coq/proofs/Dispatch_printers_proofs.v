(* SmtPrinter / SmtDagPrinter (pysmt/smtlib/printers.py): the
   dispatch tables and the operator spellings regenerated from the source against the hand models
   (models/SmtPrinter.v [op_head]); HRPrinter: proofs/Dispatch_hrprinter_proofs.v.
   [*_nary_symbol] is the string literal that a method of the shape
   `return self.walk_nary(formula, <literal>)` hands to walk_nary - read from the method the
   operator is dispatched to. *)
From Coq Require Import List ZArith Bool String.
From PySMT.core Require Import Syntax SmtStd.
From PySMT.gen Require Import Operators Dispatch.
From PySMT.models Require Import SmtPrinter.
From PySMT.proofs Require Import Operators_proofs Dispatch_common.
Import ListNotations.
Open Scope string_scope.

(* ------------------------------------------------------------------ SMT-LIB printers *)
(* the spelling the source passes to walk_nary is the head the model writes *)
Theorem smtprinter_spellings_match_source : forall o s,
  smtprinter_nary_symbol (nt_of_op o) = Some s -> op_head o = Some (Atom s).
Proof.
  intros o s H. destruct o; try split_kind; vm_compute in H; try discriminate H; injection H as <-; reflexivity.
Qed.

(* the tree printer and the DAG printer spell every operator alike *)
Theorem smt_printers_agree : forall n, smtprinter_nary_symbol n = smtdagprinter_nary_symbol n.
Proof. apply by_table_opt. vm_compute. reflexivity. Qed.

(* dispatch: every operator by the method of its own name; rotations and extensions share one
   method each; ALGEBRAIC_CONSTANT is not printable (walk_error); the methods that write a leaf,
   an indexed identifier or a string operator are wrapped by the annotation writer *)
Definition smt_wrapped : list node_type :=
  [NT_SYMBOL; NT_REAL_CONSTANT; NT_BOOL_CONSTANT; NT_INT_CONSTANT; NT_STR_CONSTANT; NT_BV_CONSTANT; NT_BV_EXTRACT;
   NT_BV_ROL; NT_BV_ROR; NT_BV_ZEXT; NT_BV_SEXT; NT_ARRAY_VALUE] ++ G_STR_OPERATORS ++ G_STR_RELATIONS.
Definition smt_expected (wrapper : string) (n : node_type) : string :=
  let base := if nt_in [NT_BV_ROL; NT_BV_ROR] n then "walk_bv_rotate"
              else if nt_in [NT_BV_ZEXT; NT_BV_SEXT] n then "walk_bv_extend"
              else if nt_eqb n NT_ALGEBRAIC_CONSTANT then "walk_error" else default_handler n in
  if nt_in smt_wrapped n then wrapper ++ ":" ++ base else base.

Theorem smtprinter_dispatch_matches_source : forall n, smtprinter_dispatch n = smt_expected "write_annotations" n.
Proof. apply by_table. vm_compute. reflexivity. Qed.
Theorem smtdagprinter_dispatch_matches_source : forall n, smtdagprinter_dispatch n = smt_expected "write_annotations_dag" n.
Proof. apply by_table. vm_compute. reflexivity. Qed.

(* the model writes a head for exactly the operators that are not leaves, quantifiers or array values *)
Theorem op_head_defined : forall o,
  (match op_head o with Some _ => true | None => false end) =
  negb (nt_in (G_CONSTANTS ++ G_QUANTIFIERS ++ [NT_SYMBOL; NT_ARRAY_VALUE]) (nt_of_op o)).
Proof. intro o. destruct o; try split_kind; reflexivity. Qed.

