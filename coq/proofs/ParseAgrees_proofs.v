(* C08: the term reader against the standard semantics core/SmtStd.v DIRECTLY, by induction on the
   s-expression (no bound on size or depth) - no detour through the printer.

   Fragment [corelb]: plain names (declared Boolean constants, true, false, let-bound names),
   and / or (>= 2 arguments), =>, =, ite, not (any argument), and LET with any number of bindings
   (distinct plain names, bound terms and body in the fragment; shadowing of outer names allowed).

   [elab_agrees_core]: if the recursive reading [elab] of x (Reader_proofs.v) returns i in a state
   whose cache stacks are Sc, where every FREE name of x means the same thing for the reader (the
   top of its stack) and for the standard (eval_atom in the environment R I), then i is a term t of
   sort Bool, the stacks are Sc again, and seval Sigma I (R I) x = Some (eval I t) for every
   well-formed I.  For a let this is the standard's PARALLEL reading: the bound terms are evaluated
   in the outer environment, the body in bind_env (outer) names values - whereas the reader binds the
   names in its cache, some of them EARLY (parser.py's extension: a name that means nothing outside
   is visible to the later bindings); the proof shows that an early binding is never looked up by a
   later bound term of the fragment, and that leaving the let restores the stacks.
   With Reader_proofs.machine_simple this is a statement about the stack machine get_expr itself:
   [parse_agrees_core_partial]. *)
From Coq Require Import List ZArith Bool String Ascii Lia.
From PySMT.core Require Import Syntax Sem SmtStd.
From PySMT.models Require Import TypeChecker Oracles Ctors SmtLex SmtParser.
From PySMT.proofs Require Import Reader_proofs RoundTrip_ind.
Import ListNotations.
Open Scope string_scope.
Open Scope list_scope.

(* ------------------------------------------------------------------------- the fragment *)
Definition is_none {A} (o : option A) : bool := match o with None => true | Some _ => false end.
(* a token that both sides read as a name, and as the same name *)
Definition plain_name (a : string) : bool :=
  negb (is_paren a) && match sym_name a with Some m => String.eqb m a | None => false end &&
  is_none (numeral_val a) && is_none (decimal_val a) && is_none (bvlit_val a) && is_none (strlit_val a).
Lemma plain_name_inv a : plain_name a = true ->
  is_paren a = false /\ sym_name a = Some a /\ numeral_val a = None /\ decimal_val a = None /\
  bvlit_val a = None /\ strlit_val a = None.
Proof.
  unfold plain_name. intros H.
  apply andb_true_iff in H. destruct H as [H H6]. apply andb_true_iff in H. destruct H as [H H5].
  apply andb_true_iff in H. destruct H as [H H4]. apply andb_true_iff in H. destruct H as [H H3].
  apply andb_true_iff in H. destruct H as [H1 H2]. apply negb_true_iff in H1.
  split; [exact H1|]. split.
  - destruct (sym_name a) as [m|]; [|discriminate]. apply String.eqb_eq in H2. now subst.
  - repeat split; [destruct (numeral_val a) | destruct (decimal_val a) | destruct (bvlit_val a) | destruct (strlit_val a)];
      first [reflexivity | discriminate].
Qed.
Definition core_heads : list string := ["and"; "or"; "=>"; "="; "ite"; "not"].
Definition let_name (v : string) : bool := plain_name v && negb (str_in v core_heads).
Definition head_arity_ok (h : string) (n : nat) : bool :=
  if String.eqb h "and" || String.eqb h "or" then (2 <=? n)%nat
  else if String.eqb h "=>" || String.eqb h "=" then (n =? 2)%nat
  else if String.eqb h "ite" then (n =? 3)%nat
  else if String.eqb h "not" then (n =? 1)%nat else false.
Definition bname (b : sexp) : string := match b with SList [Atom v; _] => v | _ => "" end.

Fixpoint corelb (x : sexp) : bool :=
  match x with
  | Atom a => plain_name a
  | SList (Atom h :: rest) =>
      if String.eqb h "let" then
        match rest with
        | [SList (b0 :: bs); body] =>
            forallb (fun b => match b with
                              | SList [Atom v; val] => let_name v && corelb val
                              | _ => false
                              end) (b0 :: bs)
            && nodup_str (map bname (b0 :: bs)) && corelb body
        | _ => false
        end
      else forallb corelb rest && head_arity_ok h (List.length rest)
  | SList _ => false
  end.

(* free names *)
Fixpoint fn (x : sexp) : list string :=
  match x with
  | Atom a => [a]
  | SList (Atom h :: rest) =>
      if String.eqb h "let" then
        match rest with
        | [SList bs; body] =>
            flat_map (fun b => match b with SList [_; val] => fn val | _ => [] end) bs ++
            filter (fun n => negb (str_in n (map bname bs))) (fn body)
        | _ => []
        end
      else flat_map fn rest
  | SList _ => []
  end.

Section Core.
  Variable Sg : sig.

  (* the stacks of the cache; the environments of the standard, one for every interpretation *)
  Definition scope := string -> list item.
  Definition st_ok (Sc : scope) (s : pstate) : Prop :=
    defs s = [] /\ logic_ia s = None /\ forall n, stack_of n s = Sc n.
  Definition renv := interp -> env.

  Definition bval (I : interp) (t : term) : Prop := exists b, eval I t = VBool b.
  (* what the induction carries about a term the reader returns: sort Bool, Boolean value, and no
     negation directly under a negation (Not(Not(a)) is simplified by the constructor) *)
  Definition good (t : term) : Prop :=
    tc t = Some TBool /\ (forall I, wf_interp I -> bval I t) /\
    (is_not t = true -> exists b, t = T ONot [b] /\ is_not b = false /\ tc b = Some TBool /\
                                  forall I, wf_interp I -> bval I b).
  Definition name_agrees (R : renv) (Sc : scope) (n : string) : Prop :=
    plain_name n = true /\
    exists tau, hd_error (Sc n) = Some (ITerm tau) /\ good tau /\
      forall I, wf_interp I -> eval_atom Sg I (R I) n = Some (eval I tau).
  Definition heads_free (R : renv) : Prop := forall I h, In h core_heads -> assoc h (R I) = None.

  Definition agrees (R : renv) (x : sexp) (t : term) : Prop :=
    good t /\ forall I, wf_interp I -> seval Sg I (R I) x = Some (eval I t).
  Definition spec (x : sexp) : Prop :=
    forall R Sc s i s', heads_free R -> (forall n, In n (fn x) -> name_agrees R Sc n) ->
      st_ok Sc s -> elab x s = ROk i s' ->
      st_ok Sc s' /\ exists t, i = ITerm t /\ agrees R x t.

  Lemma st_ok_ext Sc Sc' s : (forall n, Sc n = Sc' n) -> st_ok Sc s -> st_ok Sc' s.
  Proof. intros H (A & B & C). split; [exact A|]. split; [exact B|]. intros n. now rewrite C. Qed.
  Lemma cache_get_scope Sc s n : st_ok Sc s -> cache_get n s = hd_error (Sc n).
  Proof. intros (A & _ & C). rewrite (cache_get_stack s n A). now rewrite C. Qed.
  Lemma atom_scope Sc s a it : st_ok Sc s -> hd_error (Sc a) = Some it -> atom a s = ROk it s.
  Proof. intros Hs H. unfold atom. now rewrite (cache_get_scope Sc s a Hs), H. Qed.

  (* ---- applications ---- *)
  Lemma elab_list_spec R Sc args : heads_free R -> Forall spec args ->
    (forall n, In n (flat_map fn args) -> name_agrees R Sc n) ->
    forall s its s', st_ok Sc s -> elab_list args s = ROk its s' ->
      st_ok Sc s' /\ exists ts, its = map ITerm ts /\ Forall2 (agrees R) args ts.
  Proof.
    intros HF. induction 1 as [|y r Hy _ IH]; intros Hn s its s' Hi He.
    - cbn in He. inversion He; subst. split; [exact Hi|]. exists []. split; [reflexivity | constructor].
    - unfold elab_list in *. cbn [elab_list_with] in He. apply bind_ok in He. destruct He as (i & s1 & E1 & He).
      apply bind_ok in He. destruct He as (r' & s2 & E2 & He). inversion He; subst. clear He.
      assert (Hny : forall n, In n (fn y) -> name_agrees R Sc n).
      { intros n Hin. apply Hn. cbn [flat_map]. apply in_or_app. now left. }
      assert (Hnr : forall n, In n (flat_map fn r) -> name_agrees R Sc n).
      { intros n Hin. apply Hn. cbn [flat_map]. apply in_or_app. now right. }
      destruct (Hy R Sc _ _ _ HF Hny Hi E1) as (I1 & t & -> & Ht). destruct (IH Hnr _ _ _ I1 E2) as (I2 & ts & -> & Hts).
      split; [exact I2|]. exists (t :: ts). split; [reflexivity | now constructor].
  Qed.

  Lemma seval_args R I args ts : Forall2 (agrees R) args ts -> wf_interp I ->
    all_some (map (seval Sg I (R I)) args) = Some (map (eval I) ts).
  Proof.
    intros H HI. induction H as [|x t r ts' (_ & Hx) _ IH]; [reflexivity|].
    cbn [map all_some]. rewrite (Hx I HI). now rewrite IH.
  Qed.
  Lemma tcs_bool R args ts : Forall2 (agrees R) args ts -> Forall (fun t => tc t = Some TBool) ts.
  Proof. induction 1 as [|x t r ts' ((H & _) & _) _ IH]; constructor; assumption. Qed.
  Lemma bvals R I args ts : Forall2 (agrees R) args ts -> wf_interp I -> Forall (bval I) ts.
  Proof. induction 1 as [|x t r ts' ((_ & H & _) & _) _ IH]; intros HI; constructor; [apply (H I HI) | now apply IH]. Qed.

  Lemma tc_bool_list o ts : Forall (fun t => tc t = Some TBool) ts ->
    tc (T o ts) = tc_rule o (map (fun _ => TBool) ts).
  Proof.
    intros H. cbn [tc].
    assert (E : (fix go (l : list term) : option (list ty) :=
               match l with
               | [] => Some []
               | x :: r => match tc x, go r with Some tx, Some tr => Some (tx :: tr) | _, _ => None end
               end) ts = Some (map (fun _ => TBool) ts)).
    { induction H as [|t r Ht _ IH]; [reflexivity|]. rewrite Ht, IH. reflexivity. }
    now rewrite E.
  Qed.

  Lemma forallb_bool_tys (ts : list term) : forallb (fun x => ty_eqb x TBool) (map (fun _ : term => TBool) ts) = true.
  Proof. induction ts; cbn; auto. Qed.

  Lemma F2_length {A B} (P : A -> B -> Prop) l1 l2 : Forall2 P l1 l2 -> List.length l1 = List.length l2.
  Proof. induction 1; cbn; congruence. Qed.

  Lemma veqb_bools x y : veqb (VBool x) (VBool y) = Bool.eqb x y.
  Proof.
    destruct (Bool.eqb x y) eqn:E.
    - apply Bool.eqb_prop in E. subst. apply veqb_refl.
    - destruct (veqb (VBool x) (VBool y)) eqn:E2; [|reflexivity].
      apply veqb_true in E2. inversion E2; subst. now rewrite Bool.eqb_reflx in E.
  Qed.

  Lemma seval_app I rho h args :
    String.eqb h "let" = false -> String.eqb h "forall" = false -> String.eqb h "exists" = false ->
    String.eqb h "!" = false -> String.eqb h "_" = false ->
    seval Sg I rho (SList (Atom h :: args)) =
    match sym_name h, all_some (map (seval Sg I rho) args) with
    | Some f, Some vs => apply_sym Sg I rho f vs
    | _, _ => None
    end.
  Proof. intros H1 H2 H3 H4 H5. cbn [seval]. now rewrite H1, H2, H3, H4, H5. Qed.

  Lemma apply_sym_head I rho h vs : assoc h rho = None ->
    apply_sym Sg I rho h vs = apply_sym Sg I [] h vs.
  Proof. intros H. unfold apply_sym. now rewrite H. Qed.

  Lemma call_op o ts s i s' : call (IOp o) (map ITerm ts) s = ROk i s' ->
    s' = s /\ exists t, i = ITerm t /\ apply_op o ts = Ok t.
  Proof.
    cbn [call]. rewrite terms_of_map. destruct (apply_op o ts) as [t|e]; cbn; [|discriminate].
    intros H; inversion H; subst. eauto.
  Qed.

  (* a term that is not a negation *)
  Lemma good_plain t : tc t = Some TBool -> (forall I, wf_interp I -> bval I t) -> is_not t = false -> good t.
  Proof. intros H1 H2 H3. split; [exact H1|]. split; [exact H2|]. intros H. congruence. Qed.

  Lemma head_cases h n : head_arity_ok h n = true ->
    (h = "and" \/ h = "or") /\ (2 <= n)%nat \/ h = "=>" /\ n = 2%nat \/ h = "=" /\ n = 2%nat \/
    h = "ite" /\ n = 3%nat \/ h = "not" /\ n = 1%nat.
  Proof.
    unfold head_arity_ok. intros H.
    destruct (String.eqb_spec h "and") as [->|]; [left; split; [now left | now apply Nat.leb_le]|].
    destruct (String.eqb_spec h "or") as [->|]; [left; split; [now right | now apply Nat.leb_le]|].
    cbn [orb] in H.
    destruct (String.eqb_spec h "=>") as [->|]; [right; left; split; [reflexivity | now apply Nat.eqb_eq]|].
    destruct (String.eqb_spec h "=") as [->|]; [right; right; left; split; [reflexivity | now apply Nat.eqb_eq]|].
    cbn [orb] in H.
    destruct (String.eqb_spec h "ite") as [->|]; [right; right; right; left; split; [reflexivity | now apply Nat.eqb_eq]|].
    destruct (String.eqb_spec h "not") as [->|]; [right; right; right; right; split; [reflexivity | now apply Nat.eqb_eq]|].
    discriminate H.
  Qed.

  Ltac agrees_intro I HI := split; [ | intros I HI ].

  Lemma app_agrees h args : String.eqb h "let" = false ->
    head_arity_ok h (List.length args) = true -> Forall spec args -> spec (SList (Atom h :: args)).
  Proof.
    intros Hlet Hh Hspec R Sc s i s' HF Hn Hi He.
    apply head_cases in Hh.
    assert (Hfn : forall n, In n (flat_map fn args) -> name_agrees R Sc n).
    { intros n Hin. apply Hn. cbn [fn]. now rewrite Hlet. }
    assert (Happ : app_head h = true).
    { destruct Hh as [[[->| ->] _]|[[-> _]|[[-> _]|[[-> _]|[-> _]]]]]; reflexivity. }
    assert (Hhf : forall I, assoc h (R I) = None).
    { intros I. apply HF. unfold core_heads. destruct Hh as [[[->| ->] _]|[[-> _]|[[-> _]|[[-> _]|[-> _]]]]]; cbn; tauto. }
    rewrite (elab_app h args s Happ) in He. apply bind_ok in He. destruct He as (hi & s1 & Eh & He).
    apply bind_ok in He. destruct He as (its & s2 & El & Ec).
    assert (Hhead : exists o, alookup h interpreted_table = Some (HOp o) /\ hi = IOp o /\ s1 = pop1 (pop1 s)).
    { unfold elab_head in Eh.
      destruct Hh as [[[->| ->] _]|[[-> _]|[[-> _]|[[-> _]|[-> _]]]]]; cbn in Eh; inversion Eh; subst;
        (eexists; split; [reflexivity | split; reflexivity]). }
    destruct Hhead as (o & Ht & -> & ->).
    destruct (elab_list_spec R Sc args HF Hspec Hfn (pop1 (pop1 s)) its s2 Hi El) as (I2 & ts & -> & Hts).
    apply call_op in Ec. destruct Ec as (-> & t & -> & Ha).
    split; [exact I2|]. exists t. split; [reflexivity|].
    pose proof (tcs_bool _ _ _ Hts) as Htc. pose proof (F2_length _ _ _ Hts) as Hlen.
    assert (Hsev : forall J, wf_interp J ->
              seval Sg J (R J) (SList (Atom h :: args)) =
              match sym_name h with Some f => apply_sym Sg J [] f (map (eval J) ts) | None => None end).
    { intros J HJ. rewrite seval_app;
        [|destruct Hh as [[[->| ->] _]|[[-> _]|[[-> _]|[[-> _]|[-> _]]]]]; reflexivity ..].
      rewrite (seval_args R J _ _ Hts HJ).
      assert (Hs : sym_name h = Some h)
        by (destruct Hh as [[[->| ->] _]|[[-> _]|[[-> _]|[[-> _]|[-> _]]]]]; reflexivity).
      rewrite Hs. apply apply_sym_head. apply Hhf. }
    destruct Hh as [[Hao Hnn]|[[-> Hnn]|[[-> Hnn]|[[-> Hnn]|[-> Hnn]]]]].
    - (* and / or *)
      destruct ts as [|a [|b r]]; cbn in Hlen; try lia.
      destruct Hao as [-> | ->]; cbn in Ht; inversion Ht; subst o; cbn [apply_op] in Ha;
        unfold chk in Ha; cbn [mk_and mk_or] in Ha;
        rewrite (tc_bool_list _ _ Htc) in Ha; cbn [tc_rule] in Ha; unfold type_to_type in Ha;
        rewrite forallb_bool_tys in Ha; inversion Ha; subst t.
      + agrees_intro J HJ.
        * apply good_plain; [rewrite (tc_bool_list _ _ Htc); cbn [tc_rule]; unfold type_to_type; now rewrite forallb_bool_tys | | reflexivity].
          intros J HJ. eexists. cbn [eval op_sem]. reflexivity.
        * rewrite (Hsev J HJ). reflexivity.
      + agrees_intro J HJ.
        * apply good_plain; [rewrite (tc_bool_list _ _ Htc); cbn [tc_rule]; unfold type_to_type; now rewrite forallb_bool_tys | | reflexivity].
          intros J HJ. eexists. cbn [eval op_sem]. reflexivity.
        * rewrite (Hsev J HJ). reflexivity.
    - (* => *)
      destruct ts as [|a [|b [|? ?]]]; cbn in Hlen; try lia. cbn in Ht; inversion Ht; subst o.
      cbn [apply_op bin] in Ha. unfold chk, mk_implies in Ha.
      rewrite (tc_bool_list _ _ Htc) in Ha. cbn in Ha. inversion Ha; subst t.
      agrees_intro J HJ.
      + apply good_plain; [rewrite (tc_bool_list _ _ Htc); reflexivity | | reflexivity].
        intros J HJ. eexists. cbn [eval op_sem map]. reflexivity.
      + rewrite (Hsev J HJ). reflexivity.
    - (* = on Booleans *)
      destruct ts as [|a [|b [|? ?]]]; cbn in Hlen; try lia. cbn in Ht; inversion Ht; subst o.
      inversion Htc as [|? ? Hta Htc']; subst. inversion Htc' as [|? ? Htb _]; subst.
      cbn [apply_op bin] in Ha. unfold is_bool_t in Ha. rewrite Hta in Ha. unfold chk, mk_iff in Ha.
      rewrite (tc_bool_list _ _ Htc) in Ha. cbn in Ha. inversion Ha; subst t.
      agrees_intro J HJ.
      + apply good_plain; [rewrite (tc_bool_list _ _ Htc); reflexivity | | reflexivity].
        intros J HJ. eexists. cbn [eval op_sem map]. reflexivity.
      + rewrite (Hsev J HJ). change (sym_name "=") with (Some "=").
        pose proof (bvals R J _ _ Hts HJ) as Hb. inversion Hb as [|? ? [x Hx] Hb']; subst.
        inversion Hb' as [|? ? [y Hy] _]; subst.
        cbn [map eval op_sem]. cbn. rewrite Hx, Hy. cbn. rewrite veqb_bools. now rewrite andb_true_r.
    - (* ite *)
      destruct ts as [|c [|a [|b [|? ?]]]]; cbn in Hlen; try lia. cbn in Ht; inversion Ht; subst o.
      cbn [apply_op] in Ha.
      assert (Hfirst : tern (fun c a b => chk (mk_ite c a b)) [c; a; b] = Ok (T OIte [c; a; b])).
      { cbn [tern]. unfold chk, mk_ite. rewrite (tc_bool_list _ _ Htc). reflexivity. }
      rewrite (fix_real_ok _ _ _ Hfirst) in Ha. inversion Ha; subst t.
      agrees_intro J HJ.
      + apply good_plain; [rewrite (tc_bool_list _ _ Htc); reflexivity | | reflexivity].
        intros J HJ. pose proof (bvals R J _ _ Hts HJ) as Hb. inversion Hb as [|? ? _ Hb']; subst.
        inversion Hb' as [|? ? Hba Hb'']; subst. inversion Hb'' as [|? ? Hbb _]; subst.
        unfold bval. cbn [eval op_sem map]. destruct (vbool (eval J c)); assumption.
      + rewrite (Hsev J HJ). reflexivity.
    - (* not: Not(Not(b)) is b *)
      destruct ts as [|a [|? ?]]; cbn in Hlen; try lia. cbn in Ht; inversion Ht; subst o.
      inversion Hts as [|? ? ? ? ((Hta & Hba & Hna) & Hsa) _]; subst.
      cbn [apply_op un] in Ha. destruct (is_not a) eqn:Hnot.
      + destruct (Hna eq_refl) as (b & -> & Hnb & Htb & Hbb). cbn [arg targs nth] in Ha. inversion Ha; subst t.
        agrees_intro J HJ.
        * apply good_plain; assumption.
        * rewrite (Hsev J HJ). destruct (Hbb J HJ) as [y Hy].
          change (sym_name "not") with (Some "not"). cbn [map eval op_sem]. rewrite Hy. cbn.
          now rewrite negb_involutive.
      + unfold chk in Ha. rewrite (tc_bool_list _ _ Htc) in Ha. cbn in Ha. inversion Ha; subst t.
        agrees_intro J HJ.
        * split; [rewrite (tc_bool_list _ _ Htc); reflexivity|]. split.
          -- intros J HJ. eexists. cbn [eval op_sem map]. reflexivity.
          -- intros _. exists a. split; [reflexivity|]. split; [exact Hnot|]. split; assumption.
        * rewrite (Hsev J HJ). reflexivity.
  Qed.

  (* ---- atoms ---- *)
  Lemma atom_agrees a : spec (Atom a).
  Proof.
    intros R Sc s i s' HF Hn Hi He. cbn [elab] in He.
    destruct (Hn a (or_introl eq_refl)) as (Hpl & tau & Hhd & Hg & Hev).
    rewrite (atom_scope Sc (pop1 s) a _ Hi Hhd) in He. inversion He; subst.
    split; [exact Hi|]. exists tau. split; [reflexivity|]. split; [exact Hg|].
    intros I HI. cbn [seval]. now apply Hev.
  Qed.

  (* ---- let: environments ---- *)
  Lemma mem_str_false n l : mem_str n l = false -> ~ In n l.
  Proof.
    unfold mem_str. intros H Hin. assert (E : existsb (String.eqb n) l = true); [|congruence].
    apply existsb_exists. exists n. split; [exact Hin | apply String.eqb_refl].
  Qed.
  Lemma str_in_In n l : str_in n l = true <-> In n l.
  Proof.
    unfold str_in. rewrite existsb_exists. split.
    - intros (y & Hy & E). apply String.eqb_eq in E. now subst.
    - intros H. exists n. split; [exact H | apply String.eqb_refl].
  Qed.
  Lemma str_in_false n l : str_in n l = false -> ~ In n l.
  Proof. intros H Hin. apply str_in_In in Hin. congruence. Qed.

  Lemma bind_env_out : forall ns vs rho n, ~ In n ns -> assoc n (bind_env rho ns vs) = assoc n rho.
  Proof.
    induction ns as [|m ns IH]; intros [|v vs] rho n H; cbn [bind_env]; try reflexivity.
    rewrite IH by (intros Hin; apply H; now right). cbn [assoc].
    destruct (String.eqb_spec n m) as [->|]; [exfalso; apply H; now left | reflexivity].
  Qed.
  Lemma bind_env_in : forall ns vs rho n v, nodup_str ns = true ->
    In (n, v) (combine ns vs) -> assoc n (bind_env rho ns vs) = Some v.
  Proof.
    induction ns as [|m ns IH]; intros [|w vs] rho n v Hnd Hin; cbn [combine] in Hin; try contradiction.
    cbn [nodup_str] in Hnd. apply andb_true_iff in Hnd. destruct Hnd as [Hm Hnd]. apply negb_true_iff in Hm.
    cbn [bind_env]. destruct Hin as [E|Hin].
    - inversion E; subst. rewrite bind_env_out by (now apply mem_str_false). cbn [assoc]. now rewrite String.eqb_refl.
    - now apply IH.
  Qed.

  Lemma eval_atom_plain I rho a : plain_name a = true ->
    eval_atom Sg I rho a =
    match assoc a rho with
    | Some v => Some v
    | None => eval_atom Sg I [] a
    end.
  Proof.
    intros H. destruct (plain_name_inv a H) as (_ & Hs & H1 & H2 & H3 & H4).
    unfold eval_atom. rewrite H1, H2, H3, H4, Hs. cbn [assoc]. destruct (assoc a rho); reflexivity.
  Qed.

  (* ---- let: the cache ---- *)
  Definition push (Sc : scope) (n : string) (x : item) : scope :=
    fun k => if String.eqb k n then x :: Sc n else Sc k.
  Lemma st_ok_bind Sc s n x : st_ok Sc s -> st_ok (push Sc n x) (cache_bind n x s).
  Proof.
    intros (A & B & C). split; [exact A|]. split; [exact B|]. intros k. rewrite stack_of_bind. unfold push.
    destruct (k =? n); now rewrite C.
  Qed.
  Lemma st_ok_unbind Sc s n x l : st_ok Sc s -> Sc n = x :: l ->
    exists s', cache_unbind n s = ROk tt s' /\ toks s' = toks s /\
               st_ok (fun k => if String.eqb k n then l else Sc k) s'.
  Proof.
    intros (A & B & C) H. rewrite <- C in H.
    destruct (cache_unbind_stack n s x l H) as (s' & E & D' & L' & T' & S').
    exists s'. split; [exact E|]. split; [exact T'|]. split; [congruence|]. split; [congruence|].
    intros k. rewrite S'. destruct (k =? n); [reflexivity | apply C].
  Qed.

  Lemma alookup_notin {A} n (l : list (string * A)) : ~ In n (map fst l) -> alookup n l = None.
  Proof.
    induction l as [|[k v] r IH]; intros H; [reflexivity|]. cbn [alookup].
    destruct (String.eqb_spec n k) as [->|]; [exfalso; apply H; now left|]. apply IH. intros Hin. apply H. now right.
  Qed.
  Lemma alookup_in_some {A} n (v : A) l : In (n, v) l -> exists w, alookup n l = Some w.
  Proof.
    induction l as [|[k x] r IH]; intros H; [contradiction|]. cbn [alookup].
    destruct (String.eqb_spec n k) as [->|Hne]; [eauto|]. destruct H as [E|H]; [|now apply IH].
    inversion E; subst. congruence.
  Qed.

  Lemma nodup_cons_inv v l : nodup_str (v :: l) = true -> ~ In v l /\ nodup_str l = true.
  Proof.
    cbn [nodup_str]. intros H. apply andb_true_iff in H. destruct H as [H1 H2]. apply negb_true_iff in H1.
    split; [now apply mem_str_false | exact H2].
  Qed.

  (* after the last binding: every name is bound to its value (an early binding is replaced) *)
  Lemma let_finish_scope early : forall r Sc s, nodup_str (map fst r) = true -> st_ok Sc s ->
    (forall v e, In (v, e) r -> str_in v early = true -> exists x, Sc v = [x]) ->
    exists s', let_finish r early s = ROk tt s' /\ toks s' = toks s /\
      st_ok (fun n => match alookup n r with
                      | Some e => e :: (if str_in n early then [] else Sc n)
                      | None => Sc n
                      end) s'.
  Proof.
    induction r as [|[v e] r IH]; intros Sc s Hnd Hs He.
    - exists s. split; [reflexivity|]. split; [reflexivity|]. exact Hs.
    - cbn [map fst] in Hnd. apply nodup_cons_inv in Hnd. destruct Hnd as [Hv Hnd].
      cbn [let_finish].
      assert (Hstep : exists s1 Sc1, (if str_in v early then cache_unbind v s else ROk tt s) = ROk tt s1 /\
                        toks s1 = toks s /\ st_ok Sc1 s1 /\
                        (forall k, Sc1 k = if String.eqb k v then (if str_in v early then [] else Sc v) else Sc k)).
      { destruct (str_in v early) eqn:Ev.
        - destruct (He v e (or_introl eq_refl) Ev) as [x Hx].
          destruct (st_ok_unbind Sc s v x [] Hs Hx) as (s1 & E1 & T1 & S1).
          exists s1, (fun k => if String.eqb k v then [] else Sc k). split; [exact E1|]. split; [exact T1|].
          split; [exact S1 | reflexivity].
        - exists s, Sc. split; [reflexivity|]. split; [reflexivity|]. split; [exact Hs|].
          intros k. destruct (String.eqb_spec k v) as [->|]; reflexivity. }
      destruct Hstep as (s1 & Sc1 & E1 & T1 & S1 & H1). rewrite E1. cbn [bind].
      destruct (IH (push Sc1 v e) (cache_bind v e s1) Hnd (st_ok_bind Sc1 s1 v e S1)) as (s' & E' & T' & S').
      { intros v' e' Hin Hev. assert (Hne : v' <> v).
        { intros ->. apply Hv. apply in_map_iff. exists (v, e'). now split. }
        unfold push. apply String.eqb_neq in Hne. rewrite Hne, H1, Hne. apply (He v' e'); [now right | exact Hev]. }
      exists s'. split; [exact E'|]. split; [rewrite T'; exact T1|].
      eapply st_ok_ext; [|exact S']. intros n. cbn beta. cbn [alookup]. unfold push.
      destruct (String.eqb_spec n v) as [->|Hne].
      + rewrite (alookup_notin v r Hv). rewrite H1, String.eqb_refl. reflexivity.
      + rewrite H1. apply String.eqb_neq in Hne. rewrite Hne. reflexivity.
  Qed.

  (* leaving the let *)
  Lemma unbind_all_scope : forall ns Sc s, nodup_str ns = true -> st_ok Sc s ->
    (forall n, In n ns -> Sc n <> []) ->
    exists s', unbind_all ns s = ROk tt s' /\ toks s' = toks s /\
               st_ok (fun k => if str_in k ns then tl (Sc k) else Sc k) s'.
  Proof.
    induction ns as [|n ns IH]; intros Sc s Hnd Hs Hne.
    - exists s. split; [reflexivity|]. split; [reflexivity|]. exact Hs.
    - apply nodup_cons_inv in Hnd. destruct Hnd as [Hn Hnd].
      destruct (Sc n) as [|x l] eqn:En; [exfalso; exact (Hne n (or_introl eq_refl) En)|].
      destruct (st_ok_unbind Sc s n x l Hs En) as (s1 & E1 & T1 & S1).
      cbn [unbind_all]. rewrite E1. cbn [bind].
      destruct (IH _ s1 Hnd S1) as (s' & E' & T' & S').
      { intros m Hm. cbn beta. destruct (String.eqb_spec m n) as [->|]; [contradiction|]. apply Hne. now right. }
      exists s'. split; [exact E'|]. split; [rewrite T'; exact T1|].
      eapply st_ok_ext; [|exact S']. intros k. cbn beta. cbn [str_in existsb].
      destruct (String.eqb_spec k n) as [->|Hkn].
      + cbn [orb]. assert (Hf : str_in n ns = false).
        { destruct (str_in n ns) eqn:E; [|reflexivity]. apply str_in_In in E. contradiction. }
        rewrite Hf, En. reflexivity.
      + cbn [orb]. reflexivity.
  Qed.

  (* ---- let: the loop over the bindings ---- *)
  Definition vals_of (done : list (string * term)) : list (string * item) :=
    map (fun p => (fst p, ITerm (snd p))) done.
  Definition bval_of (b : sexp) : sexp := match b with SList [_; val] => val | _ => Atom "" end.
  Definition binding_ok (b : sexp) : Prop :=
    exists v val, b = SList [Atom v; val] /\ let_name v = true /\ spec val.
  Definition bfn (bs : list sexp) : list string :=
    flat_map (fun b => match b with SList [_; val] => fn val | _ => [] end) bs.
  (* the stacks while the bindings are read: the early names are bound already *)
  Definition mid_scope (Sc : scope) (vals : list (string * item)) (early : list string) : scope :=
    fun n => if str_in n early then match alookup n vals with Some e => [e] | None => [] end else Sc n.

  Lemma map_fst_vals done : map fst (vals_of done) = map fst done.
  Proof. unfold vals_of. rewrite map_map. reflexivity. Qed.
  Lemma aset_new {A} k (v : A) l : ~ In k (map fst l) -> aset k v l = l ++ [(k, v)].
  Proof.
    induction l as [|[k' v'] r IH]; intros H; [reflexivity|]. cbn [aset].
    destruct (String.eqb_spec k k') as [->|]; [exfalso; apply H; now left|].
    cbn [app]. f_equal. apply IH. intros Hin. apply H. now right.
  Qed.
  Lemma alookup_app_l {A} k (l1 l2 : list (string * A)) w : alookup k l1 = Some w -> alookup k (l1 ++ l2) = Some w.
  Proof. induction l1 as [|[k' v] r IH]; cbn; [discriminate|]. destruct (k =? k'); auto. Qed.
  Lemma alookup_app_r {A} k (l1 l2 : list (string * A)) : alookup k l1 = None -> alookup k (l1 ++ l2) = alookup k l2.
  Proof. induction l1 as [|[k' v] r IH]; cbn; [reflexivity|]. destruct (k =? k'); [discriminate | exact IH]. Qed.

  Lemma name_agrees_scope R Sc Sc' n : Sc' n = Sc n -> name_agrees R Sc n -> name_agrees R Sc' n.
  Proof. intros E (Hp & tau & H & G). split; [exact Hp|]. exists tau. now rewrite E. Qed.

  Lemma nodup_app_l a b : nodup_str (a ++ b) = true -> nodup_str a = true.
  Proof.
    induction a as [|x r IH]; intros H; [reflexivity|]. cbn [app nodup_str] in *.
    apply andb_true_iff in H. destruct H as [H1 H2]. apply andb_true_iff. split; [|now apply IH].
    apply negb_true_iff. apply negb_true_iff in H1. unfold mem_str in *. rewrite existsb_app in H1.
    now apply orb_false_iff in H1.
  Qed.
  Lemma nodup_app_notin a x b : nodup_str (a ++ x :: b) = true -> ~ In x a.
  Proof.
    induction a as [|y r IH]; intros H; [intros []|]. cbn [app nodup_str] in H.
    apply andb_true_iff in H. destruct H as [H1 H2]. apply negb_true_iff in H1. apply mem_str_false in H1.
    intros [->|Hin]; [apply H1; apply in_or_app; right; now left | exact (IH H2 Hin)].
  Qed.

  Lemma bindings_spec R Sc : heads_free R -> forall bs, Forall binding_ok bs ->
    forall (done : list (string * term)) early st names sb,
      (forall n, In n (bfn bs) -> name_agrees R Sc n) ->
      nodup_str (map fst done ++ map bname bs) = true ->
      (forall n, str_in n early = true -> Sc n = [] /\ In n (map fst done)) ->
      st_ok (mid_scope Sc (vals_of done) early) st ->
      elab_bindings bs (vals_of done) early st = ROk names sb ->
      exists more,
        names = map fst (done ++ more) /\ map fst more = map bname bs /\
        Forall2 (fun b p => agrees R (bval_of b) (snd p)) bs more /\
        st_ok (fun n => match alookup n (vals_of (done ++ more)) with Some e => e :: Sc n | None => Sc n end) sb.
  Proof.
    intros HF. induction 1 as [|b bs Hb _ IH]; intros done early st names sb Hn Hnd Hearly Hst He.
    - (* the end of the binding list *)
      cbn [elab_bindings elab_bindings_with] in He. apply bind_ok in He. destruct He as (u & st1 & Ef & He).
      inversion He; subst. clear He. destruct u.
      cbn [map bname app] in Hnd. rewrite app_nil_r in Hnd.
      destruct (let_finish_scope early (vals_of done) (mid_scope Sc (vals_of done) early) (pop1 st)) as (s' & E' & _ & S');
        [now rewrite map_fst_vals | exact Hst | |].
      { intros v e Hin Hev. unfold mid_scope. rewrite Hev.
        destruct (alookup_in_some v e _ Hin) as [w ->]. eauto. }
      rewrite E' in Ef. inversion Ef; subst s'. exists []. rewrite app_nil_r.
      split; [now rewrite map_fst_vals|]. split; [reflexivity|]. split; [constructor|].
      eapply st_ok_ext; [|exact S']. intros n. cbn beta. unfold mid_scope.
      destruct (alookup n (vals_of done)) as [e|] eqn:El.
      + destruct (str_in n early) eqn:Ee; [|reflexivity]. now rewrite (proj1 (Hearly n Ee)).
      + destruct (str_in n early) eqn:Ee; [|reflexivity]. exfalso.
        destruct (Hearly n Ee) as [_ Hin]. rewrite <- map_fst_vals in Hin.
        apply in_map_iff in Hin. destruct Hin as ([k e] & Ek & Hin). cbn [fst] in Ek. subst k.
        destruct (alookup_in_some n e _ Hin) as [w Hw]. congruence.
    - (* one binding *)
      destruct Hb as (v & val & -> & Hlet & Hval).
      cbn [elab_bindings elab_bindings_with] in He. apply bind_ok in He. destruct He as (e & sb2 & Ev & He). cbv zeta in He.
      fold (elab_bindings bs) in He.
      cbn [map bname] in Hnd.
      pose proof (nodup_app_notin _ _ _ Hnd) as Hvdone.
      (* the bound term, read in the outer scope *)
      assert (Hnot_early : forall n, name_agrees R Sc n -> str_in n early = false).
      { intros n (_ & tau & Hhd & _). destruct (str_in n early) eqn:Ee; [|reflexivity].
        rewrite (proj1 (Hearly n Ee)) in Hhd. discriminate Hhd. }
      assert (Hnv : forall n, In n (fn val) -> name_agrees R (mid_scope Sc (vals_of done) early) n).
      { intros n Hin. assert (Ha : name_agrees R Sc n) by (apply Hn; unfold bfn; cbn [flat_map]; apply in_or_app; now left).
        apply (name_agrees_scope R Sc); [|exact Ha]. unfold mid_scope. now rewrite (Hnot_early n Ha). }
      destruct (Hval R _ (pop1 (pop1 st)) _ _ HF Hnv Hst Ev) as (S2 & tau & -> & Hag).
      (* early or not *)
      assert (Hv_early : str_in v early = false).
      { destruct (str_in v early) eqn:Ee; [|reflexivity]. exfalso. exact (Hvdone (proj2 (Hearly v Ee))). }
      assert (Hvals_v : ~ In v (map fst (vals_of done))) by (now rewrite map_fst_vals).
      rewrite (aset_new v (ITerm tau) (vals_of done) Hvals_v) in He.
      change (vals_of done ++ [(v, ITerm tau)]) with (vals_of done ++ vals_of [(v, tau)]) in He.
      unfold vals_of in He. rewrite <- map_app in He. fold (vals_of (done ++ [(v, tau)])) in He.
      set (is_early := let_early v (vals_of done) sb2) in *.
      set (early' := if is_early then v :: early else early) in *.
      set (sb3 := if is_early then cache_bind v (ITerm tau) sb2 else sb2) in *.
      assert (His : is_early = true -> Sc v = []).
      { unfold is_early, let_early. intros H. apply andb_true_iff in H. destruct H as [_ H].
        rewrite (cache_get_scope _ sb2 v S2) in H. unfold mid_scope in H. rewrite Hv_early in H.
        destruct (Sc v); [reflexivity | discriminate H]. }
      assert (Hnis : is_early = false -> Sc v <> []).
      { unfold is_early, let_early. intros H. apply andb_false_iff in H. destruct H as [H|H].
        - apply negb_false_iff in H. apply str_in_In in H. contradiction.
        - rewrite (cache_get_scope _ sb2 v S2) in H. unfold mid_scope in H. rewrite Hv_early in H.
          destruct (Sc v); [discriminate H | discriminate]. }
      assert (S3 : st_ok (mid_scope Sc (vals_of (done ++ [(v, tau)])) early') (pop1 sb3)).
      { assert (Hlk : forall k, k <> v -> alookup k (vals_of (done ++ [(v, tau)])) = alookup k (vals_of done)).
        { intros k Hk. unfold vals_of. rewrite map_app. fold (vals_of done).
          destruct (alookup k (vals_of done)) as [w|] eqn:E; [now apply alookup_app_l|].
          rewrite alookup_app_r by exact E. cbn. apply String.eqb_neq in Hk. now rewrite Hk. }
        unfold sb3, early'. destruct is_early eqn:Eis.
        - apply (st_ok_ext (push (mid_scope Sc (vals_of done) early) v (ITerm tau))); [|exact (st_ok_bind _ sb2 v _ S2)].
          intros k. unfold push, mid_scope. cbn [str_in existsb].
          destruct (String.eqb_spec k v) as [->|Hk].
          + cbn [orb]. fold (str_in v early). rewrite Hv_early, (His eq_refl).
            unfold vals_of. rewrite map_app. fold (vals_of done).
            rewrite alookup_app_r by (apply alookup_notin; exact Hvals_v). cbn. now rewrite String.eqb_refl.
          + cbn [orb]. fold (str_in k early). now rewrite (Hlk k Hk).
        - eapply st_ok_ext; [|exact S2]. intros k. unfold mid_scope.
          destruct (String.eqb_spec k v) as [->|Hk]; [now rewrite Hv_early | now rewrite (Hlk k Hk)]. }
      assert (Hearly' : forall n, str_in n early' = true -> Sc n = [] /\ In n (map fst (done ++ [(v, tau)]))).
      { intros n Hin. rewrite map_app. cbn [map fst]. unfold early' in Hin. destruct is_early eqn:Eis.
        - cbn [str_in existsb] in Hin. apply orb_true_iff in Hin. destruct Hin as [E|Hin].
          + apply String.eqb_eq in E. subst n. split; [now apply His|]. apply in_or_app. right. now left.
          + destruct (Hearly n Hin) as [A B]. split; [exact A|]. apply in_or_app. now left.
        - destruct (Hearly n Hin) as [A B]. split; [exact A|]. apply in_or_app. now left. }
      assert (Hnd' : nodup_str (map fst (done ++ [(v, tau)]) ++ map bname bs) = true).
      { rewrite map_app. cbn [map fst]. rewrite <- app_assoc. exact Hnd. }
      assert (Hn' : forall n, In n (bfn bs) -> name_agrees R Sc n).
      { intros n Hin. apply Hn. unfold bfn. cbn [flat_map]. apply in_or_app. now right. }
      destruct (IH (done ++ [(v, tau)]) early' (pop1 sb3) names sb Hn' Hnd' Hearly' S3 He) as (more & Hnames & Hmf & Hfa & Hsb).
      exists ((v, tau) :: more). rewrite <- app_assoc in Hnames, Hsb. cbn [app] in Hnames, Hsb.
      split; [exact Hnames|]. split; [cbn [map fst bname]; now rewrite Hmf|]. split; [|exact Hsb].
      constructor; [exact Hag | exact Hfa].
  Qed.

  (* ---- let: the standard's side ---- *)
  Lemma names_all_some bs : Forall binding_ok bs ->
    SmtStd.all_some (map (fun b => match b with SList [Atom x; _] => sym_name x | _ => None end) bs) = Some (map bname bs).
  Proof.
    induction 1 as [|b r (v & val & -> & Hl & _) _ IH]; [reflexivity|]. cbn [map SmtStd.all_some bname].
    unfold let_name in Hl. apply andb_true_iff in Hl. destruct Hl as [Hl _].
    destruct (plain_name_inv v Hl) as (_ & -> & _). now rewrite IH.
  Qed.
  Lemma vals_all_some R I bs (more : list (string * term)) : wf_interp I ->
    Forall2 (fun b p => agrees R (bval_of b) (snd p)) bs more -> Forall binding_ok bs ->
    SmtStd.all_some (map (fun b => match b with SList [_; e] => seval Sg I (R I) e | _ => None end) bs) =
    Some (map (eval I) (map snd more)).
  Proof.
    intros HI H. induction H as [|b p r more' Hb _ IH]; intros Hok; [reflexivity|].
    inversion Hok as [|? ? (v & val & -> & _ & _) Hok']; subst. cbn [map SmtStd.all_some bval_of] in *.
    rewrite (proj2 Hb I HI). now rewrite (IH Hok').
  Qed.
  Lemma in_combine_done (done : list (string * term)) I n tau :
    In (n, tau) done -> In (n, eval I tau) (combine (map fst done) (map (eval I) (map snd done))).
  Proof.
    induction done as [|[k t] r IH]; intros H; [contradiction|]. cbn [map fst snd combine].
    destruct H as [E|H]; [inversion E; now left | right; now apply IH].
  Qed.
  Lemma alookup_vals_in done n : In n (map fst done) ->
    exists tau, alookup n (vals_of done) = Some (ITerm tau) /\ In (n, tau) done.
  Proof.
    induction done as [|[k t] r IH]; intros H; [contradiction|]. cbn [vals_of map alookup fst snd].
    destruct (String.eqb_spec n k) as [->|Hne]; [exists t; split; [reflexivity | now left]|].
    destruct H as [E|H]; [cbn in E; congruence|]. destruct (IH H) as (tau & A & B). exists tau. split; [exact A | now right].
  Qed.

  Lemma let_agrees b0 bs body :
    Forall binding_ok (b0 :: bs) -> nodup_str (map bname (b0 :: bs)) = true -> spec body ->
    spec (SList [Atom "let"; SList (b0 :: bs); body]).
  Proof.
    intros Hbs Hnd Hbody R Sc s i s' HF Hn Hi He.
    set (bl := b0 :: bs) in *.
    unfold bl in He. rewrite (elab_let "let" b0 bs body s eq_refl) in He. fold bl in He.
    apply bind_ok in He. destruct He as (names & sb & Eb & He).
    apply bind_ok in He. destruct He as (b & s2 & Ebody & Ec).
    assert (Hfn_b : forall n, In n (bfn bl) -> name_agrees R Sc n).
    { intros n Hin. apply Hn. cbn [fn]. change ("let" =? "let") with true. cbv iota. apply in_or_app. now left. }
    assert (S0 : st_ok (mid_scope Sc (vals_of []) []) (pop1 (pop1 (pop1 s)))).
    { eapply st_ok_ext; [|exact Hi]. intros n. reflexivity. }
    destruct (bindings_spec R Sc HF bl Hbs [] [] (pop1 (pop1 (pop1 s))) names sb Hfn_b Hnd) as (more & Hnames & Hmf & Hfa & Hsb);
      [intros n H; discriminate H | exact S0 | exact Eb |].
    cbn [app] in Hnames, Hsb.
    set (ns := map fst more) in *. set (taus := map snd more).
    set (Sc_body := fun n => match alookup n (vals_of more) with Some e => e :: Sc n | None => Sc n end) in *.
    set (R_body := fun I : interp => bind_env (R I) ns (map (eval I) taus)).
    assert (Hnd_ns : nodup_str ns = true) by (now rewrite Hmf).
    assert (Hlet_ns : forall n, In n ns -> let_name n = true).
    { intros n Hin. rewrite Hmf in Hin. apply in_map_iff in Hin. destruct Hin as (b1 & <- & Hb1).
      rewrite Forall_forall in Hbs. destruct (Hbs b1 Hb1) as (v & val & -> & Hl & _). exact Hl. }
    (* the body, in the scope of the let *)
    assert (HF_body : heads_free R_body).
    { intros I h Hh. unfold R_body. rewrite bind_env_out; [now apply HF|].
      intros Hin. specialize (Hlet_ns h Hin). unfold let_name in Hlet_ns. apply andb_true_iff in Hlet_ns.
      destruct Hlet_ns as [_ Hc]. apply negb_true_iff in Hc. apply str_in_false in Hc. contradiction. }
    assert (Hn_body : forall n, In n (fn body) -> name_agrees R_body Sc_body n).
    { intros n Hin. destruct (str_in n ns) eqn:Ein.
      - apply str_in_In in Ein. destruct (alookup_vals_in more n Ein) as (tau & Hlk & Hintau).
        pose proof (Hlet_ns n Ein) as Hl. unfold let_name in Hl. apply andb_true_iff in Hl. destruct Hl as [Hpl _].
        split; [exact Hpl|]. exists tau. split; [unfold Sc_body; now rewrite Hlk|]. split.
        + clear - Hfa Hintau. induction Hfa as [|b1 p r more' Hb _ IH]; [contradiction|].
          destruct Hintau as [E|Hin]; [subst p; exact (proj1 Hb) | now apply IH].
        + intros I HI. rewrite (eval_atom_plain I _ n Hpl). unfold R_body.
          rewrite (bind_env_in ns _ (R I) n (eval I tau) Hnd_ns); [reflexivity|]. now apply in_combine_done.
      - assert (Hout : ~ In n ns) by (now apply str_in_false).
        assert (Ha : name_agrees R Sc n).
        { apply Hn. cbn [fn]. change ("let" =? "let") with true. cbv iota. apply in_or_app. right.
          apply filter_In. split; [exact Hin|]. apply negb_true_iff. fold bl. rewrite <- Hmf. exact Ein. }
        destruct Ha as (Hpl & tau & Hhd & Hg & Hev). split; [exact Hpl|]. exists tau.
        split; [unfold Sc_body; rewrite alookup_notin by (now rewrite map_fst_vals); exact Hhd|]. split; [exact Hg|].
        intros I HI. rewrite (eval_atom_plain I _ n Hpl). unfold R_body. rewrite bind_env_out by exact Hout.
        rewrite <- (eval_atom_plain I _ n Hpl). now apply Hev. }
    destruct (Hbody R_body Sc_body sb b s2 HF_body Hn_body Hsb Ebody) as (S2 & t & -> & Hgt & Hst).
    (* leaving *)
    subst names.
    cbn [call] in Ec. apply bind_ok in Ec. destruct Ec as (u & s3 & Eu & Ec). inversion Ec; subst i s3. clear Ec.
    destruct (unbind_all_scope ns Sc_body (pop1 s2)) as (s4 & E4 & _ & S4); [exact Hnd_ns | exact S2 | |].
    { intros n Hin. destruct (alookup_vals_in more n Hin) as (tau & Hlk & _).
      unfold Sc_body. rewrite Hlk. discriminate. }
    rewrite E4 in Eu. inversion Eu; subst s4.
    split.
    - eapply st_ok_ext; [|exact S4]. intros k. cbn beta. unfold Sc_body.
      destruct (str_in k ns) eqn:Ek.
      + apply str_in_In in Ek. destruct (alookup_vals_in more k Ek) as (tau & -> & _). reflexivity.
      + apply str_in_false in Ek. now rewrite alookup_notin by (now rewrite map_fst_vals).
    - exists t. split; [reflexivity|]. split; [exact Hgt|]. intros I HI.
      cbn [seval]. change ("let" =? "let") with true. cbv iota. cbv zeta.
      fold bl. rewrite (names_all_some bl Hbs), (vals_all_some R I bl more HI Hfa Hbs).
      rewrite <- Hmf. fold ns. rewrite Hnd_ns.
      assert (Hlen : (List.length ns =? 0)%nat = false).
      { rewrite Hmf. reflexivity. }
      rewrite Hlen. cbn [negb andb]. exact (Hst I HI).
  Qed.

  (* ---- the fragment, by induction on the size of the s-expression ---- *)
  Lemma elab_agrees_size : forall n x, (ssize x <= n)%nat -> corelb x = true -> spec x.
  Proof.
    induction n as [|n IHn]; intros x Hsz Hc.
    { destruct x; cbn in Hsz; lia. }
    destruct x as [a|l]; [apply atom_agrees|].
    assert (Hsub : forall y, In y l -> corelb y = true -> spec y).
    { intros y Hy. apply IHn. pose proof (ssize_in y l Hy). cbn [ssize] in Hsz. lia. }
    destruct l as [|[h|?] rest]; try discriminate Hc. cbn [corelb] in Hc.
    destruct (h =? "let") eqn:Hlet.
    - apply String.eqb_eq in Hlet. subst h.
      destruct rest as [|[?|[|b0 bs]] [|body [|? ?]]]; try discriminate Hc.
      apply andb_true_iff in Hc. destruct Hc as [Hc Hbody]. apply andb_true_iff in Hc. destruct Hc as [Hbs Hnd].
      apply let_agrees; [| exact Hnd | apply Hsub; [cbn; auto | exact Hbody]].
      apply Forall_forall. intros bd Hin. rewrite forallb_forall in Hbs. specialize (Hbs bd Hin).
      destruct bd as [a|[|[v|l1] [|val [|y l2]]]]; try discriminate Hbs.
      apply andb_true_iff in Hbs. destruct Hbs as [Hv Hval]. exists v, val. split; [reflexivity|]. split; [exact Hv|].
      apply IHn; [|exact Hval].
      pose proof (ssize_in _ _ Hin) as Hs1. cbn [ssize fold_right] in Hs1, Hsz. lia.
    - apply andb_true_iff in Hc. destruct Hc as [Hargs Hh].
      apply app_agrees; [exact Hlet | exact Hh |]. apply Forall_forall. intros y Hy.
      apply Hsub; [now right|]. rewrite forallb_forall in Hargs. now apply Hargs.
  Qed.
  Theorem elab_agrees_core : forall x, corelb x = true -> spec x.
  Proof. intros x. exact (elab_agrees_size (ssize x) x (le_n _)). Qed.

  (* names that mean what they should: true, false, declared Boolean constants *)
  Lemma good_true : good TTrue.
  Proof. apply good_plain; [reflexivity | intros I _; exists true; reflexivity | reflexivity]. Qed.
  Lemma good_false : good TFalse.
  Proof. apply good_plain; [reflexivity | intros I _; exists false; reflexivity | reflexivity]. Qed.
  Lemma name_agrees_true R Sc : (forall I, assoc "true" (R I) = None) -> hd_error (Sc "true") = Some (ITerm TTrue) ->
    name_agrees R Sc "true".
  Proof.
    intros HR H. split; [reflexivity|]. exists TTrue. split; [exact H|]. split; [exact good_true|].
    intros I _. rewrite eval_atom_plain by reflexivity. now rewrite HR.
  Qed.
  Lemma name_agrees_false R Sc : (forall I, assoc "false" (R I) = None) -> hd_error (Sc "false") = Some (ITerm TFalse) ->
    name_agrees R Sc "false".
  Proof.
    intros HR H. split; [reflexivity|]. exists TFalse. split; [exact H|]. split; [exact good_false|].
    intros I _. rewrite eval_atom_plain by reflexivity. now rewrite HR.
  Qed.
  Lemma name_agrees_const R Sc a :
    plain_name a = true -> (forall I, assoc a (R I) = None) ->
    assoc a std_consts = None -> assoc a (sg_funs Sg) = Some TBool ->
    hd_error (Sc a) = Some (ITerm (TSym a TBool)) -> name_agrees R Sc a.
  Proof.
    intros Hp HR Hc Hs H. split; [exact Hp|]. exists (TSym a TBool). split; [exact H|].
    assert (Hb : forall I, wf_interp I -> bval I (TSym a TBool)).
    { intros I [Hs1 _]. specialize (Hs1 a TBool Logic.I). cbn in Hs1. unfold bval. cbn [eval TSym].
      destruct (isym I a TBool); try contradiction. eexists; reflexivity. }
    split; [apply good_plain; [reflexivity | exact Hb | reflexivity]|].
    intros I HI. rewrite (eval_atom_plain I _ a Hp), HR.
    destruct (plain_name_inv a Hp) as (_ & Hsy & H1 & H2 & H3 & H4).
    unfold eval_atom. rewrite H1, H2, H3, H4, Hsy. cbn [assoc]. now rewrite Hc, Hs.
  Qed.
End Core.

(* ------------------------------------------------------------------------- the stack machine itself *)
Lemma corel_simple_size : forall n x, (ssize x <= n)%nat -> corelb x = true -> simpleb x = true.
Proof.
  induction n as [|n IHn]; intros x Hsz Hc.
  { destruct x; cbn in Hsz; lia. }
  destruct x as [a|l].
  - cbn [corelb] in Hc. cbn [simpleb]. destruct (plain_name_inv a Hc) as (-> & _). reflexivity.
  - assert (Hsub : forall y, In y l -> corelb y = true -> simpleb y = true).
    { intros y Hy. apply IHn. pose proof (ssize_in y l Hy). cbn [ssize] in Hsz. lia. }
    destruct l as [|[h|?] rest]; try discriminate Hc. cbn [corelb] in Hc.
    destruct (h =? "let") eqn:Hlet.
    + apply String.eqb_eq in Hlet. subst h.
      destruct rest as [|[?|[|b0 bs]] [|body [|? ?]]]; try discriminate Hc.
      apply andb_true_iff in Hc. destruct Hc as [Hc Hbody]. apply andb_true_iff in Hc. destruct Hc as [Hbs _].
      cbn [simpleb]. change (let_head "let") with true. change (is_paren "let") with false. cbn [negb andb].
      apply andb_true_iff. split; [|apply Hsub; [cbn; auto | exact Hbody]].
      apply forallb_forall. intros bd Hin. rewrite forallb_forall in Hbs. specialize (Hbs bd Hin).
      destruct bd as [a|[|[v|l1] [|val [|y l2]]]]; try discriminate Hbs.
      apply andb_true_iff in Hbs. destruct Hbs as [Hv Hval]. unfold let_name in Hv. apply andb_true_iff in Hv.
      destruct Hv as [Hv _]. destruct (plain_name_inv v Hv) as (-> & _). cbn [negb andb].
      apply IHn; [|exact Hval]. pose proof (ssize_in _ _ Hin) as Hs1. cbn [ssize fold_right] in Hs1, Hsz. lia.
    + apply andb_true_iff in Hc. destruct Hc as [Hargs Hh]. apply head_cases in Hh.
      assert (Hhd : negb (is_paren h) = true /\ let_head h = false /\ quant_head h = None /\ app_head h = true).
      { destruct Hh as [[[->| ->] _]|[[-> _]|[[-> _]|[[-> _]|[-> _]]]]]; repeat split; reflexivity. }
      cbn [simpleb]. destruct Hhd as (-> & -> & -> & ->). cbn [andb]. apply forallb_forall. intros y Hy.
      apply Hsub; [now right|]. rewrite forallb_forall in Hargs. now apply Hargs.
Qed.
Lemma corel_simple x : corelb x = true -> simpleb x = true.
Proof. exact (corel_simple_size (ssize x) x (le_n _)). Qed.

(* FULL STATEMENT (parse_agrees): std_script_ok s -> parse_model (text of s) = Ok cmds -> every
   asserted term t of cmds satisfies forall I, std_eval Sigma I (its sexp) = Some (eval I t).
   Proved here, for the term reader on the fragment Core + let, any nesting depth, any tokens after:
   whenever the recursive reading of x succeeds in a state where the free names of x mean the same
   thing on both sides, the stack machine get_expr returns exactly that result, it is a term of sort
   Bool, the cache is as it was, and the term denotes what core/SmtStd.v says x denotes (parallel
   let included).  (That the recursive reading does succeed on the fragment, and the machine's
   behaviour when it does not, are carried by the correspondence.) *)
Theorem parse_agrees_core_partial Sg (Sc : scope) x :
  corelb x = true ->
  (forall n, In n (fn x) -> name_agrees Sg (fun _ => []) Sc n) ->
  forall s i s' rest k, st_ok Sc s -> toks s = flatten x ++ rest -> elab x s = ROk i s' ->
    get_expr (cost x + k) [] s = ROk (Some i) s' /\ toks s' = rest /\ st_ok Sc s' /\
    exists t, i = ITerm t /\ tc t = Some TBool /\
              forall I, wf_interp I -> std_eval Sg I x = Some (eval I t).
Proof.
  intros Hc Hn s i s' rest k Hi Htoks He.
  destruct (machine_simple_top x (corel_simple x Hc) k s i s' rest He Htoks) as [G T].
  assert (HF : heads_free (fun _ : interp => [])) by (intros I h _; reflexivity).
  destruct (elab_agrees_core Sg x Hc (fun _ => []) Sc s i s' HF Hn Hi He) as (Hi' & t & -> & (Htc & _) & Hsem).
  split; [exact G|]. split; [exact T|]. split; [exact Hi'|].
  exists t. split; [reflexivity|]. split; [exact Htc|]. intros I HI. apply (Hsem I HI).
Qed.

(* the hypotheses are satisfiable: nested Core terms over two declared constants, a parallel let
   that swaps them, a let shadowing a let, a double negation *)
Definition ex_sig : sig := {| sg_sorts := []; sg_funs := [("p", TBool); ("q", TBool)] |}.
Definition ex_keys : list (string * list item) :=
  [("p", [ITerm (TSym "p" TBool)]); ("q", [ITerm (TSym "q" TBool)]); ("false", [ITerm TFalse]); ("true", [ITerm TTrue])].
Definition ex_state (x : sexp) : pstate :=
  mkS (flatten x) LexEof ex_keys [] None [("p", TBool); ("q", TBool)] 0%Z [] (map (fun _ => None) (flatten x)).
Definition ex_scope : scope := fun n => match alookup n ex_keys with Some l => l | None => [] end.
Definition ex_sexp : sexp :=
  SList [Atom "and"; SList [Atom "=>"; Atom "p"; SList [Atom "not"; SList [Atom "not"; Atom "q"]]];
         SList [Atom "="; Atom "q"; SList [Atom "ite"; Atom "p"; Atom "true"; SList [Atom "or"; Atom "p"; Atom "q"; Atom "false"]]]].
(* (let ((p q) (q p)) (and p (not q) (let ((r (or p q)) (p true)) (= r p)))) *)
Definition ex_let : sexp :=
  SList [Atom "let"; SList [SList [Atom "p"; Atom "q"]; SList [Atom "q"; Atom "p"]];
         SList [Atom "and"; Atom "p"; SList [Atom "not"; Atom "q"];
                SList [Atom "let"; SList [SList [Atom "r"; SList [Atom "or"; Atom "p"; Atom "q"]]; SList [Atom "p"; Atom "true"]];
                       SList [Atom "="; Atom "r"; Atom "p"]]]].

Lemma ex_names x : (forall n, In n (fn x) -> In n ["p"; "q"; "true"; "false"]) ->
  forall n, In n (fn x) -> name_agrees ex_sig (fun _ => []) ex_scope n.
Proof.
  intros H n Hin. specialize (H n Hin). cbn in H. destruct H as [<-|[<-|[<-|[<-|[]]]]].
  - apply name_agrees_const; reflexivity.
  - apply name_agrees_const; reflexivity.
  - apply name_agrees_true; reflexivity.
  - apply name_agrees_false; reflexivity.
Qed.
Lemma ex_st x : st_ok ex_scope (ex_state x).
Proof. split; [reflexivity|]. split; reflexivity. Qed.

Example ex_core : corelb ex_sexp = true /\ forall n, In n (fn ex_sexp) -> name_agrees ex_sig (fun _ => []) ex_scope n.
Proof. split; [reflexivity|]. apply ex_names. cbn. tauto. Qed.

(* the parallel let is read as the standard says: p and q are swapped, r is (or q p), the inner p is true *)
Definition ex_let_term : term :=
  T OAnd [TSym "q" TBool; T ONot [TSym "p" TBool];
          T OIff [T OOr [TSym "q" TBool; TSym "p" TBool]; TTrue]].
Example ex_let_reads :
  corelb ex_let = true /\
  (forall n, In n (fn ex_let) -> name_agrees ex_sig (fun _ => []) ex_scope n) /\
  (exists s', get_expression (ex_state ex_let) = ROk (Some (ITerm ex_let_term)) s') /\
  forall I, wf_interp I -> std_eval ex_sig I ex_let = Some (eval I ex_let_term).
Proof.
  assert (Hc : corelb ex_let = true) by reflexivity.
  assert (Hn : forall n, In n (fn ex_let) -> name_agrees ex_sig (fun _ => []) ex_scope n) by (apply ex_names; cbn; tauto).
  split; [exact Hc|]. split; [exact Hn|].
  destruct (elab ex_let (ex_state ex_let)) as [i s'|e s'] eqn:He; [|vm_compute in He; discriminate He].
  assert (Hi : i = ITerm ex_let_term) by (vm_compute in He; now inversion He).
  assert (Ht : toks (ex_state ex_let) = flatten ex_let ++ []) by (cbn [toks ex_state]; now rewrite app_nil_r).
  assert (Hfuel : exists k, expr_fuel (ex_state ex_let) = (cost ex_let + k)%nat) by (exists (expr_fuel (ex_state ex_let) - cost ex_let)%nat; vm_compute; reflexivity).
  destruct Hfuel as [k Hk].
  destruct (parse_agrees_core_partial ex_sig ex_scope ex_let Hc Hn _ _ _ [] k (ex_st ex_let) Ht He)
    as (G & _ & _ & t & Ei & _ & Hsem).
  subst i. inversion Ei; subst t. split; [|exact Hsem].
  exists s'. unfold get_expression. rewrite Hk. exact G.
Qed.
