(* C08: the reader against core/SmtStd.v's std_eval DIRECTLY (not through the printer), by
   induction on the s-expression, for the Core fragment: true, false, declared Bool constants,
   (and ..) (or ..) with at least two arguments, (=> a b), (not a) where a is not itself a negation,
   (ite c a b) and (= a b) on Booleans - any nesting depth.

   [elab_agrees_core]: if the recursive reading [elab] of x (Reader_proofs.v) returns t, then t has
   sort Bool, denotes a Boolean and std_eval Sg I x = Some (eval I t) for every well-formed
   interpretation.  With Reader_proofs.machine_simple this is a statement about the stack machine
   itself: [parse_agrees_core_partial].
   Where the general statement needs more: every operator that goes through fix_real (arithmetic,
   comparisons, ite / = on numbers) needs the sorts of the arguments to show that no Int constant is
   coerced to Real (std_eval is untyped: on an ill-sorted text it may be defined and differ);
   `not` over a negation and `=` on Booleans need "a Bool term denotes a Boolean".  Both are
   invariants of a SORTED induction (ssort next to seval), which is done here for sort Bool only. *)
From Coq Require Import List ZArith Bool String Ascii Lia.
From PySMT.core Require Import Syntax Sem SmtStd.
From PySMT.models Require Import TypeChecker Oracles Ctors SmtLex SmtParser.
From PySMT.proofs Require Import Reader_proofs RoundTrip_ind.
Import ListNotations.
Open Scope string_scope.
Open Scope list_scope.

Section Core.
  Variable Sg : sig.
  Variable D : list (string * item).
  Hypothesis D_true : alookup "true" D = Some (ITerm TTrue).
  Hypothesis D_false : alookup "false" D = Some (ITerm TFalse).

  (* a declared Boolean constant, seen from both sides *)
  Definition bool_const (a : string) : Prop :=
    is_paren a = false /\ sym_name a = Some a /\
    numeral_val a = None /\ decimal_val a = None /\ bvlit_val a = None /\ strlit_val a = None /\
    assoc a std_consts = None /\ assoc a (sg_funs Sg) = Some TBool /\
    alookup a D = Some (ITerm (TSym a TBool)).

  Definition is_neg (x : sexp) : bool :=
    match x with SList (Atom h :: _) => String.eqb h "not" | _ => false end.

  Fixpoint core (x : sexp) : Prop :=
    match x with
    | Atom a => a = "true" \/ a = "false" \/ bool_const a
    | SList (Atom h :: args) =>
        (fix all (l : list sexp) : Prop := match l with [] => True | y :: r => core y /\ all r end) args /\
        ((h = "and" \/ h = "or") /\ (2 <= List.length args)%nat \/
         h = "=>" /\ List.length args = 2%nat \/
         h = "=" /\ List.length args = 2%nat \/
         h = "ite" /\ List.length args = 3%nat \/
         h = "not" /\ exists a, args = [a] /\ is_neg a = false)
    | SList _ => False
    end.
  Lemma core_app h args : core (SList (Atom h :: args)) <->
    Forall core args /\
    ((h = "and" \/ h = "or") /\ (2 <= List.length args)%nat \/
     h = "=>" /\ List.length args = 2%nat \/ h = "=" /\ List.length args = 2%nat \/
     h = "ite" /\ List.length args = 3%nat \/ h = "not" /\ exists a, args = [a] /\ is_neg a = false).
  Proof.
    cbn [core]. split; intros [H1 H2]; split; try exact H2; clear H2.
    - induction args as [|y r IH]; constructor; [apply H1 | apply IH, H1].
    - induction H1; [exact I | split; assumption].
  Qed.

  (* what the induction carries *)
  Definition bval (I : interp) (t : term) : Prop := exists b, eval I t = VBool b.
  Definition agrees (x : sexp) (t : term) : Prop :=
    tc t = Some TBool /\ (is_neg x = false -> is_not t = false) /\
    forall I, wf_interp I -> seval Sg I [] x = Some (eval I t) /\ bval I t.

  Definition spec (x : sexp) : Prop :=
    forall s i s', inv D s -> elab x s = ROk i s' -> inv D s' /\ exists t, i = ITerm t /\ agrees x t.

  Lemma elab_list_spec args : Forall spec args -> forall s its s', inv D s ->
    elab_list args s = ROk its s' ->
    inv D s' /\ exists ts, its = map ITerm ts /\ Forall2 agrees args ts.
  Proof.
    induction 1 as [|y r Hy _ IH]; intros s its s' Hi He.
    - cbn in He. inversion He; subst. split; [exact Hi|]. exists []. split; [reflexivity | constructor].
    - unfold elab_list in *. cbn [elab_list_with] in He. apply bind_ok in He. destruct He as (i & s1 & E1 & He).
      apply bind_ok in He. destruct He as (r' & s2 & E2 & He). inversion He; subst. clear He.
      destruct (Hy _ _ _ Hi E1) as (I1 & t & -> & Ht). destruct (IH _ _ _ I1 E2) as (I2 & ts & -> & Hts).
      split; [exact I2|]. exists (t :: ts). split; [reflexivity | now constructor].
  Qed.

  Lemma seval_args I args ts : Forall2 agrees args ts -> wf_interp I ->
    all_some (map (seval Sg I []) args) = Some (map (eval I) ts).
  Proof.
    intros H HI. induction H as [|x t r ts' (_ & _ & Hx) _ IH]; [reflexivity|].
    cbn [map all_some]. destruct (Hx I HI) as [-> _]. now rewrite IH.
  Qed.
  Lemma tcs_bool args ts : Forall2 agrees args ts -> Forall (fun t => tc t = Some TBool) ts.
  Proof. induction 1 as [|x t r ts' (H & _) _ IH]; constructor; assumption. Qed.
  Lemma bvals I args ts : Forall2 agrees args ts -> wf_interp I -> Forall (bval I) ts.
  Proof. induction 1 as [|x t r ts' (_ & _ & H) _ IH]; intros HI; constructor; [apply (H I HI) | now apply IH]. Qed.

  Lemma tc_bool_list o ts : Forall (fun t => tc t = Some TBool) ts ->
    tc (T o ts) = tc_rule o (map (fun _ => TBool) ts).
  Proof.
    intros H. cbn [tc].
    assert (E : (fix go (l : list term) : option (list ty) :=
               match l with
               | [] => Some []
               | x :: r => match tc x, go r with Some tx, Some tr => Some (tx :: tr) | _, _ => None end
               end) ts = Some (map (fun _ => TBool) ts)).
    { induction H as [|t r Ht _ IH]; [reflexivity|]. rewrite Ht, IH. reflexivity. }
    now rewrite E.
  Qed.
  Lemma closed_int_bool t : tc t = Some TBool -> closed_int t = false.
  Proof. unfold closed_int. now intros ->. Qed.

  Lemma forallb_bool_tys (ts : list term) : forallb (fun x => ty_eqb x TBool) (map (fun _ : term => TBool) ts) = true.
  Proof. induction ts; cbn; auto. Qed.

  Lemma F2_length {A B} (R : A -> B -> Prop) l1 l2 : Forall2 R l1 l2 -> List.length l1 = List.length l2.
  Proof. induction 1; cbn; congruence. Qed.

  Lemma veqb_bools x y : veqb (VBool x) (VBool y) = Bool.eqb x y.
  Proof.
    destruct (Bool.eqb x y) eqn:E.
    - apply Bool.eqb_prop in E. subst. apply veqb_refl.
    - destruct (veqb (VBool x) (VBool y)) eqn:E2; [|reflexivity].
      apply veqb_true in E2. inversion E2; subst. now rewrite Bool.eqb_reflx in E.
  Qed.

  Lemma seval_app I h args :
    String.eqb h "let" = false -> String.eqb h "forall" = false -> String.eqb h "exists" = false ->
    String.eqb h "!" = false -> String.eqb h "_" = false ->
    seval Sg I [] (SList (Atom h :: args)) =
    match sym_name h, all_some (map (seval Sg I []) args) with
    | Some f, Some vs => apply_sym Sg I [] f vs
    | _, _ => None
    end.
  Proof. intros H1 H2 H3 H4 H5. cbn [seval]. now rewrite H1, H2, H3, H4, H5. Qed.

  Lemma call_op o ts s i s' : call (IOp o) (map ITerm ts) s = ROk i s' ->
    s' = s /\ exists t, i = ITerm t /\ apply_op o ts = Ok t.
  Proof.
    cbn [call]. rewrite terms_of_map. destruct (apply_op o ts) as [t|e]; cbn; [|discriminate].
    intros H; inversion H; subst. eauto.
  Qed.

  Ltac seval_head := rewrite seval_app by reflexivity.
  Ltac agrees_intro I HI := split; [ | split; [ | intros I HI; split ] ].

  Theorem elab_agrees_core : forall x, core x -> spec x.
  Proof.
    induction x as [a|l IH] using sexp_ind'; intros Hc s i s' Hi He.
    - (* atoms *)
      cbn [elab] in He. cbn [core] in Hc. split; [exact (atom_inv D a (pop1 s) i s' Hi He)|].
      destruct Hc as [->|[->|Hb]].
      + rewrite (atom_declared D _ _ (pop1 s) Hi D_true) in He. inversion He; subst.
        exists TTrue. split; [reflexivity|]. agrees_intro J HJ; try reflexivity. exists true; reflexivity.
      + rewrite (atom_declared D _ _ (pop1 s) Hi D_false) in He. inversion He; subst.
        exists TFalse. split; [reflexivity|]. agrees_intro J HJ; try reflexivity. exists false; reflexivity.
      + destruct Hb as (Hp & Hsym & Hn & Hd & Hbv & Hst & Hcst & Hsig & HD).
        rewrite (atom_declared D _ _ (pop1 s) Hi HD) in He. inversion He; subst.
        exists (TSym a TBool). split; [reflexivity|]. agrees_intro J HJ; try reflexivity.
        * cbn [seval]. unfold eval_atom. rewrite Hn, Hd, Hbv, Hst, Hsym. cbn [assoc]. now rewrite Hcst, Hsig.
        * destruct HJ as [Hs _]. specialize (Hs a TBool Logic.I). cbn in Hs. unfold bval. cbn [eval TSym].
          destruct (isym J a TBool); try contradiction. eexists; reflexivity.
    - (* applications *)
      destruct l as [|[h|?] args]; try contradiction.
      apply core_app in Hc. destruct Hc as [Hargs Hh].
      inversion IH as [|? ? _ IHargs]; subst.
      assert (Hspec : Forall spec args).
      { rewrite Forall_forall in *. intros y Hy. apply IHargs; [exact Hy | now apply Hargs]. }
      assert (Happ : app_head h = true).
      { destruct Hh as [[[->| ->] _]|[[-> _]|[[-> _]|[[-> _]|[-> _]]]]]; reflexivity. }
      rewrite (elab_app h args s Happ) in He. apply bind_ok in He. destruct He as (hi & s1 & Eh & He).
      apply bind_ok in He. destruct He as (its & s2 & El & Ec).
      assert (Hhead : exists o, alookup h interpreted_table = Some (HOp o) /\ hi = IOp o /\ s1 = pop1 (pop1 s)).
      { unfold elab_head in Eh.
        destruct Hh as [[[->| ->] _]|[[-> _]|[[-> _]|[[-> _]|[-> _]]]]]; cbn in Eh; inversion Eh; subst;
          (eexists; split; [reflexivity | split; reflexivity]). }
      destruct Hhead as (o & Ht & -> & ->).
      destruct (elab_list_spec args Hspec (pop1 (pop1 s)) its s2 Hi El) as (I2 & ts & -> & Hts).
      apply call_op in Ec. destruct Ec as (-> & t & -> & Ha).
      split; [exact I2|]. exists t. split; [reflexivity|].
      pose proof (tcs_bool _ _ Hts) as Htc. pose proof (F2_length _ _ _ Hts) as Hlen.
      destruct Hh as [[Hao Hn]|[[-> Hn]|[[-> Hn]|[[-> Hn]|[-> (x0 & -> & Hneg)]]]]].
      + (* and / or *)
        destruct ts as [|a [|b r]]; cbn in Hlen; try lia.
        destruct Hao as [-> | ->]; cbn in Ht; inversion Ht; subst o; cbn [apply_op] in Ha;
          unfold chk in Ha; cbn [mk_and mk_or] in Ha;
          rewrite (tc_bool_list _ _ Htc) in Ha; cbn [tc_rule] in Ha; unfold type_to_type in Ha;
          rewrite forallb_bool_tys in Ha; inversion Ha; subst t.
        * agrees_intro J HJ; [rewrite (tc_bool_list _ _ Htc); cbn [tc_rule]; unfold type_to_type; now rewrite forallb_bool_tys | reflexivity | |].
          -- seval_head. change (sym_name "and") with (Some "and"). rewrite (seval_args J _ _ Hts HJ). reflexivity.
          -- eexists. cbn [eval op_sem]. reflexivity.
        * agrees_intro J HJ; [rewrite (tc_bool_list _ _ Htc); cbn [tc_rule]; unfold type_to_type; now rewrite forallb_bool_tys | reflexivity | |].
          -- seval_head. change (sym_name "or") with (Some "or"). rewrite (seval_args J _ _ Hts HJ). reflexivity.
          -- eexists. cbn [eval op_sem]. reflexivity.
      + (* => *)
        destruct ts as [|a [|b [|? ?]]]; cbn in Hlen; try lia. cbn in Ht; inversion Ht; subst o.
        cbn [apply_op bin] in Ha. unfold chk, mk_implies in Ha.
        rewrite (tc_bool_list _ _ Htc) in Ha. cbn in Ha. inversion Ha; subst t.
        agrees_intro J HJ; [rewrite (tc_bool_list _ _ Htc); reflexivity | reflexivity | |].
        * seval_head. change (sym_name "=>") with (Some "=>"). rewrite (seval_args J _ _ Hts HJ). reflexivity.
        * eexists. cbn [eval op_sem map]. reflexivity.
      + (* = on Booleans *)
        destruct ts as [|a [|b [|? ?]]]; cbn in Hlen; try lia. cbn in Ht; inversion Ht; subst o.
        inversion Htc as [|? ? Hta Htc']; subst. inversion Htc' as [|? ? Htb _]; subst.
        cbn [apply_op bin] in Ha. unfold is_bool_t in Ha. rewrite Hta in Ha. unfold chk, mk_iff in Ha.
        rewrite (tc_bool_list _ _ Htc) in Ha. cbn in Ha. inversion Ha; subst t.
        agrees_intro J HJ; [rewrite (tc_bool_list _ _ Htc); reflexivity | reflexivity | |].
        * seval_head. change (sym_name "=") with (Some "="). rewrite (seval_args J _ _ Hts HJ).
          pose proof (bvals J _ _ Hts HJ) as Hb. inversion Hb as [|? ? [x Hx] Hb']; subst.
          inversion Hb' as [|? ? [y Hy] _]; subst.
          cbn [map eval op_sem]. cbn. rewrite Hx, Hy. cbn. rewrite veqb_bools. now rewrite andb_true_r.
        * eexists. cbn [eval op_sem map]. reflexivity.
      + (* ite *)
        destruct ts as [|c [|a [|b [|? ?]]]]; cbn in Hlen; try lia. cbn in Ht; inversion Ht; subst o.
        cbn [apply_op] in Ha.
        assert (Hfirst : tern (fun c a b => chk (mk_ite c a b)) [c; a; b] = Ok (T OIte [c; a; b])).
        { cbn [tern]. unfold chk, mk_ite. rewrite (tc_bool_list _ _ Htc). reflexivity. }
        rewrite (fix_real_ok _ _ _ Hfirst) in Ha. inversion Ha; subst t.
        agrees_intro J HJ; [rewrite (tc_bool_list _ _ Htc); reflexivity | reflexivity | |].
        * seval_head. change (sym_name "ite") with (Some "ite"). rewrite (seval_args J _ _ Hts HJ). reflexivity.
        * pose proof (bvals J _ _ Hts HJ) as Hb. inversion Hb as [|? ? _ Hb']; subst.
          inversion Hb' as [|? ? Hba Hb'']; subst. inversion Hb'' as [|? ? Hbb _]; subst.
          unfold bval. cbn [eval op_sem map]. destruct (vbool (eval J c)); assumption.
      + (* not *)
        destruct ts as [|a [|? ?]]; cbn in Hlen; try lia. cbn in Ht; inversion Ht; subst o.
        inversion Hts as [|? ? ? ? (Hta & Hnn & _) _]; subst.
        cbn [apply_op un] in Ha. rewrite (Hnn Hneg) in Ha. unfold chk in Ha.
        rewrite (tc_bool_list _ _ Htc) in Ha. cbn in Ha. inversion Ha; subst t.
        agrees_intro J HJ; [rewrite (tc_bool_list _ _ Htc); reflexivity | intros Hx; discriminate Hx | |].
        * seval_head. change (sym_name "not") with (Some "not"). rewrite (seval_args J _ _ Hts HJ). reflexivity.
        * eexists. cbn [eval op_sem map]. reflexivity.
  Qed.
End Core.

(* ------------------------------------------------------------------------- the stack machine itself *)
Lemma core_simple Sg D : forall x, core Sg D x -> simpleb x = true.
Proof.
  induction x as [a|l IH] using sexp_ind'; intros Hc.
  - cbn [core] in Hc. cbn [simpleb]. destruct Hc as [->|[->|(Hp & _)]]; [reflexivity | reflexivity | now rewrite Hp].
  - destruct l as [|[h|?] args]; try contradiction.
    apply core_app in Hc. destruct Hc as [Hargs Hh]. inversion IH as [|? ? _ IHargs]; subst.
    cbn [simpleb].
    assert (Hhd : negb (is_paren h) = true /\ let_head h = false /\ quant_head h = None /\ app_head h = true).
    { destruct Hh as [[[->| ->] _]|[[-> _]|[[-> _]|[[-> _]|[-> _]]]]]; repeat split; reflexivity. }
    destruct Hhd as (-> & -> & -> & ->). cbn [andb]. apply forallb_forall. intros y Hy.
    rewrite Forall_forall in *. apply IHargs; [exact Hy | now apply Hargs].
Qed.

(* FULL STATEMENT (parse_agrees): std_script_ok s -> parse_model (text of s) = Ok cmds -> every
   asserted term t of cmds satisfies forall I, std_eval Sigma I (its sexp) = Some (eval I t).
   Proved here, for the term reader on the Core fragment, any nesting depth, any stack below, any
   tokens after: whenever the recursive reading of x succeeds, the stack machine get_expr returns
   exactly that result, it is a term of sort Bool, and it denotes what core/SmtStd.v says x denotes.
   (That the recursive reading does succeed on the fragment, and the machine's behaviour when it
   does not, are carried by the correspondence.) *)
Theorem parse_agrees_core_partial Sg D :
  alookup "true" D = Some (ITerm TTrue) -> alookup "false" D = Some (ITerm TFalse) ->
  forall x, core Sg D x ->
  forall s i s' rest k, inv D s -> toks s = flatten x ++ rest -> elab x s = ROk i s' ->
    get_expr (cost x + k) [] s = ROk (Some i) s' /\ toks s' = rest /\ inv D s' /\
    exists t, i = ITerm t /\ tc t = Some TBool /\
              forall I, wf_interp I -> std_eval Sg I x = Some (eval I t).
Proof.
  intros Ht Hf x Hc s i s' rest k Hi Htoks He.
  destruct (machine_simple_top x (core_simple Sg D x Hc) k s i s' rest He Htoks) as [G T].
  destruct (elab_agrees_core Sg D Ht Hf x Hc s i s' Hi He) as (Hi' & t & -> & Htc & _ & Hsem).
  split; [exact G|]. split; [exact T|]. split; [exact Hi'|].
  exists t. split; [reflexivity|]. split; [exact Htc|]. intros I HI. apply (Hsem I HI).
Qed.

(* the hypotheses are satisfiable: a nested Core term over two declared constants *)
Definition ex_sig : sig := {| sg_sorts := []; sg_funs := [("p", TBool); ("q", TBool)] |}.
Definition ex_D : list (string * item) :=
  [("p", ITerm (TSym "p" TBool)); ("q", ITerm (TSym "q" TBool)); ("false", ITerm TFalse); ("true", ITerm TTrue)].
Definition ex_sexp : sexp :=
  SList [Atom "and"; SList [Atom "=>"; Atom "p"; SList [Atom "not"; Atom "q"]];
         SList [Atom "="; Atom "q"; SList [Atom "ite"; Atom "p"; Atom "true"; SList [Atom "or"; Atom "p"; Atom "q"; Atom "false"]]]].
Example ex_core : core ex_sig ex_D ex_sexp.
Proof.
  assert (Hp : bool_const ex_sig ex_D "p") by (repeat split; reflexivity).
  assert (Hq : bool_const ex_sig ex_D "q") by (repeat split; reflexivity).
  unfold ex_sexp.
  repeat (apply core_app; split; [repeat (first [apply Forall_nil | apply Forall_cons]) | ]);
    try (cbn [core]; tauto);
    try (left; split; [tauto | cbn; lia]);
    try (right; left; split; reflexivity);
    try (right; right; left; split; reflexivity);
    try (right; right; right; left; split; reflexivity);
    try (right; right; right; right; split; [reflexivity | eexists; split; reflexivity]).
Qed.
