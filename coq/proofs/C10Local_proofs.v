(* Semantics of the constructor stand-ins of models/C10Local.v, permutation invariance of And/Or,
   and the typing facts ("a Boolean skeleton evaluates to a Boolean") shared by the C10 proofs. *)
From Coq Require Import List ZArith Bool String Reals Permutation.
From Coq Require Import ClassicalDescription.
From PySMT.core Require Import Syntax SyntaxLemmas Sem.
From PySMT.models Require Import Oracles C10Local.
From PySMT.proofs Require Import Sets_proofs Coincidence.
Import ListNotations.
Open Scope bool_scope.

Definition is_vbool (v : value) : Prop := match v with VBool _ => True | _ => False end.
(* truth value of a term *)
Definition tv (I : interp) (t : term) : bool := vbool (eval I t).

Lemma is_vbool_eq v : is_vbool v -> v = VBool (vbool v).
Proof. destruct v; cbn; intros H; try contradiction; reflexivity. Qed.

Lemma vbool_true_iff v : vbool v = true <-> v = VBool true.
Proof. destruct v; cbn; split; intros H; try discriminate; try congruence. Qed.

Lemma holds_tv I t : holds I t <-> tv I t = true.
Proof. unfold holds, tv. symmetry. apply vbool_true_iff. Qed.

Lemma eval_eq_of_tv I a b : is_vbool (eval I a) -> is_vbool (eval I b) -> tv I a = tv I b -> eval I a = eval I b.
Proof. intros Ha Hb E. rewrite (is_vbool_eq _ Ha), (is_vbool_eq _ Hb). unfold tv in E. now rewrite E. Qed.

(* ---------------------------------------------------------------- connectives *)
Lemma eval_and I l : eval I (T OAnd l) = VBool (forallb (tv I) l).
Proof. cbn [eval]. unfold op_sem. f_equal. unfold tv. induction l; cbn; congruence. Qed.
Lemma eval_or I l : eval I (T OOr l) = VBool (existsb (tv I) l).
Proof. cbn [eval]. unfold op_sem. f_equal. unfold tv. induction l; cbn; congruence. Qed.
Lemma eval_not I a : eval I (T ONot [a]) = VBool (negb (tv I a)).
Proof. reflexivity. Qed.
Lemma eval_implies I a b : eval I (T OImplies [a; b]) = VBool (implb (tv I a) (tv I b)).
Proof. reflexivity. Qed.
Lemma eval_iff I a b : eval I (T OIff [a; b]) = VBool (Bool.eqb (tv I a) (tv I b)).
Proof. reflexivity. Qed.
Lemma eval_ite I c a b : eval I (T OIte [c; a; b]) = if tv I c then eval I a else eval I b.
Proof. reflexivity. Qed.

Lemma tv_and I l : tv I (T OAnd l) = forallb (tv I) l.
Proof. unfold tv at 1. now rewrite eval_and. Qed.
Lemma tv_or I l : tv I (T OOr l) = existsb (tv I) l.
Proof. unfold tv at 1. now rewrite eval_or. Qed.
Lemma tv_not I a : tv I (T ONot [a]) = negb (tv I a).
Proof. reflexivity. Qed.
Lemma tv_implies I a b : tv I (T OImplies [a; b]) = implb (tv I a) (tv I b).
Proof. reflexivity. Qed.
Lemma tv_iff I a b : tv I (T OIff [a; b]) = Bool.eqb (tv I a) (tv I b).
Proof. reflexivity. Qed.
Lemma tv_ite I c a b : tv I (T OIte [c; a; b]) = if tv I c then tv I a else tv I b.
Proof. unfold tv at 1. rewrite eval_ite. now destruct (tv I c). Qed.
Lemma tv_true I : tv I TTrue = true. Proof. reflexivity. Qed.
Lemma tv_false I : tv I TFalse = false. Proof. reflexivity. Qed.

Lemma tv_mk_and I l : tv I (mk_and l) = forallb (tv I) l.
Proof.
  destruct l as [|x [|y r]]; cbn [mk_and]; [reflexivity | cbn; now rewrite andb_true_r | apply tv_and].
Qed.
Lemma tv_mk_or I l : tv I (mk_or l) = existsb (tv I) l.
Proof.
  destruct l as [|x [|y r]]; cbn [mk_or]; [reflexivity | cbn; now rewrite orb_false_r | apply tv_or].
Qed.
Lemma tv_mk_not I t : tv I (mk_not t) = negb (tv I t).
Proof.
  destruct t as [o args]. destruct o; try reflexivity.
  destruct args as [|x [|y r]]; try reflexivity.
  cbn [mk_not]. rewrite tv_not. now rewrite negb_involutive.
Qed.

(* ---------------------------------------------------------------- quantifiers *)
Lemma eval_forall I vs b :
  eval I (T (OForall vs) [b]) =
  VBool (if excluded_middle_informative (forall xs, vals_ok xs vs -> tv (bind I vs xs) b = true) then true else false).
Proof.
  cbn [eval]. f_equal. apply emi_iff. split; intros H xs Hok.
  - apply holds_tv. apply H, Hok.
  - apply holds_tv. apply H, Hok.
Qed.
Lemma eval_exists I vs b :
  eval I (T (OExists vs) [b]) =
  VBool (if excluded_middle_informative (exists xs, vals_ok xs vs /\ tv (bind I vs xs) b = true) then true else false).
Proof.
  cbn [eval]. f_equal. apply emi_iff. split; intros (xs & Hok & H); exists xs; split; auto; apply holds_tv; exact H.
Qed.

Lemma tv_forall_true I vs b :
  tv I (T (OForall vs) [b]) = true <-> (forall xs, vals_ok xs vs -> tv (bind I vs xs) b = true).
Proof.
  unfold tv at 1. rewrite eval_forall. cbn.
  destruct (excluded_middle_informative _) as [e|n]; split; intros H; auto; try discriminate; try contradiction.
Qed.
Lemma tv_exists_true I vs b :
  tv I (T (OExists vs) [b]) = true <-> (exists xs, vals_ok xs vs /\ tv (bind I vs xs) b = true).
Proof.
  unfold tv at 1. rewrite eval_exists. cbn.
  destruct (excluded_middle_informative _) as [e|n]; split; intros H; auto; try discriminate; try contradiction.
Qed.

Lemma bool_eq_iff (a b : bool) : (a = true <-> b = true) -> a = b.
Proof. destruct a, b; intros [H1 H2]; auto. - symmetry; auto. Qed.

Lemma vals_ok_nil xs : vals_ok xs [] -> xs = [].
Proof. destruct xs; cbn; auto. contradiction. Qed.

Lemma tv_mk_forall_true I vs b :
  tv I (mk_forall vs b) = true <-> (forall xs, vals_ok xs vs -> tv (bind I vs xs) b = true).
Proof.
  destruct vs as [|v vs]; [|apply tv_forall_true]. cbn [mk_forall]. split.
  - intros H xs Hok. apply vals_ok_nil in Hok. subst. exact H.
  - intros H. apply (H []). exact Logic.I.
Qed.
Lemma tv_mk_exists_true I vs b :
  tv I (mk_exists vs b) = true <-> (exists xs, vals_ok xs vs /\ tv (bind I vs xs) b = true).
Proof.
  destruct vs as [|v vs]; [|apply tv_exists_true]. cbn [mk_exists]. split.
  - intros H. exists []. split; [exact Logic.I | exact H].
  - intros (xs & Hok & H). apply vals_ok_nil in Hok. subst. exact H.
Qed.

(* congruence: bodies with the same truth value under every binding *)
Lemma tv_forall_congr I vs b b' :
  (forall xs, vals_ok xs vs -> tv (bind I vs xs) b' = tv (bind I vs xs) b) ->
  tv I (mk_forall vs b') = tv I (T (OForall vs) [b]).
Proof.
  intros H. apply bool_eq_iff. rewrite tv_mk_forall_true, tv_forall_true.
  split; intros G xs Hok; [rewrite <- H | rewrite H]; auto.
Qed.
Lemma tv_exists_congr I vs b b' :
  (forall xs, vals_ok xs vs -> tv (bind I vs xs) b' = tv (bind I vs xs) b) ->
  tv I (mk_exists vs b') = tv I (T (OExists vs) [b]).
Proof.
  intros H. apply bool_eq_iff. rewrite tv_mk_exists_true, tv_exists_true.
  split; intros (xs & Hok & G); exists xs; split; auto; [rewrite <- H | rewrite H]; auto.
Qed.
(* duality *)
Lemma tv_exists_neg_congr I vs b b' :
  (forall xs, vals_ok xs vs -> tv (bind I vs xs) b' = negb (tv (bind I vs xs) b)) ->
  tv I (mk_exists vs b') = negb (tv I (T (OForall vs) [b])).
Proof.
  intros H. apply bool_eq_iff. rewrite tv_mk_exists_true, negb_true_iff. split.
  - intros (xs & Hok & G). destruct (tv I (T (OForall vs) [b])) eqn:E; auto.
    rewrite tv_forall_true in E. rewrite H, (E xs Hok) in G; auto.
  - intros E. apply Classical_Prop.NNPP. intros N.
    assert (F : tv I (T (OForall vs) [b]) = true).
    { apply tv_forall_true. intros xs Hok. destruct (tv (bind I vs xs) b) eqn:Eb; auto.
      exfalso. apply N. exists xs. split; auto. rewrite H, Eb; auto. }
    congruence.
Qed.
Lemma tv_forall_neg_congr I vs b b' :
  (forall xs, vals_ok xs vs -> tv (bind I vs xs) b' = negb (tv (bind I vs xs) b)) ->
  tv I (mk_forall vs b') = negb (tv I (T (OExists vs) [b])).
Proof.
  intros H. apply bool_eq_iff. rewrite tv_mk_forall_true, negb_true_iff. split.
  - intros G. destruct (tv I (T (OExists vs) [b])) eqn:E; auto.
    rewrite tv_exists_true in E. destruct E as (xs & Hok & E). pose proof (G xs Hok) as G'. rewrite H, E in G'; auto.
  - intros E xs Hok. rewrite H; auto. destruct (tv (bind I vs xs) b) eqn:Eb; auto.
    assert (F : tv I (T (OExists vs) [b]) = true) by (apply tv_exists_true; eauto). congruence.
Qed.

(* ---------------------------------------------------------------- permutation invariance *)
Lemma forallb_perm {A} (f : A -> bool) l l' : Permutation l l' -> forallb f l = forallb f l'.
Proof.
  induction 1; cbn; auto; try congruence.
  destruct (f x), (f y); reflexivity.
Qed.
Lemma existsb_perm {A} (f : A -> bool) l l' : Permutation l l' -> existsb f l = existsb f l'.
Proof.
  induction 1; cbn; auto; try congruence.
  destruct (f x), (f y); reflexivity.
Qed.
Theorem eval_and_perm I l l' : Permutation l l' -> eval I (T OAnd l) = eval I (T OAnd l').
Proof. intros H. rewrite !eval_and. f_equal. now apply forallb_perm. Qed.
Theorem eval_or_perm I l l' : Permutation l l' -> eval I (T OOr l) = eval I (T OOr l').
Proof. intros H. rewrite !eval_or. f_equal. now apply existsb_perm. Qed.

(* And/Or depend only on the SET of arguments (Python sets also remove duplicates) *)
Lemma forallb_incl {A} (f : A -> bool) l l' : incl l' l -> forallb f l = true -> forallb f l' = true.
Proof. rewrite !forallb_forall. intros H G x Hx. apply G, H, Hx. Qed.
Lemma forallb_same_set {A} (f : A -> bool) l l' : incl l l' -> incl l' l -> forallb f l = forallb f l'.
Proof. intros H1 H2. apply bool_eq_iff. split; apply forallb_incl; auto. Qed.
Lemma existsb_same_set {A} (f : A -> bool) l l' : incl l l' -> incl l' l -> existsb f l = existsb f l'.
Proof.
  intros H1 H2. apply bool_eq_iff. rewrite !existsb_exists. split; intros (x & Hx & E); exists x; split; auto.
Qed.
Theorem eval_and_same_set I l l' : incl l l' -> incl l' l -> eval I (T OAnd l) = eval I (T OAnd l').
Proof. intros H1 H2. rewrite !eval_and. f_equal. now apply forallb_same_set. Qed.
Theorem eval_or_same_set I l l' : incl l l' -> incl l' l -> eval I (T OOr l) = eval I (T OOr l').
Proof. intros H1 H2. rewrite !eval_or. f_equal. now apply existsb_same_set. Qed.

(* ---------------------------------------------------------------- typing of the skeleton *)
Lemma wf_bind1 I v x : wf_interp I -> has_ty x (snd v) -> wf_interp (bind1 I v x).
Proof.
  intros [H1 H2] Hx. split; [|exact H2]. intros n t. cbn.
  destruct (String.eqb n (fst v) && ty_eqb t (snd v)) eqn:E; [|apply H1].
  apply andb_true_iff in E. destruct E as [_ E]. apply ty_eqb_eq in E. subst t.
  destruct (snd v); auto.
  (* function-typed bound variable: nothing is required *)
Qed.
Lemma wf_bind : forall vs xs I, wf_interp I -> vals_ok xs vs -> wf_interp (bind I vs xs).
Proof.
  induction vs as [|v vs IH]; intros xs I HI Hok; destruct xs as [|x xs]; cbn in *; auto; try contradiction.
  destruct Hok as [Hx Hok]. apply IH; auto. now apply wf_bind1.
Qed.

Lemma atom_is_vbool I o args : wf_interp I -> bool_atom_op o args = true -> is_vbool (eval I (T o args)).
Proof.
  intros [H1 H2] H. destruct o; cbn in H; try discriminate.
  - (* symbol *) destruct t; try discriminate. cbn. specialize (H1 n TBool). cbn in H1.
    destruct (isym I n TBool); cbn in *; auto.
  - (* function *) destruct t as [| | | | w | i e | ps r | nm ta]; try discriminate. destruct r; try discriminate. cbn [eval].
    specialize (H2 n ps TBool (map (eval I) args)). destruct (ifun I n (TFun ps TBool) (map (eval I) args)); cbn in *; auto.
  - destruct args; try discriminate. exact Logic.I.
  - (* le *) cbn [eval]. unfold op_sem. destruct (map (eval I) args) as [|a [|b [|c r]]]; cbn; auto.
    destruct a, b; cbn; auto.
  - cbn [eval]. unfold op_sem. destruct (map (eval I) args) as [|a [|b [|c r]]]; cbn; auto.
    destruct a, b; cbn; auto.
  - cbn [eval]. unfold op_sem. destruct (map (eval I) args) as [|a [|b [|c r]]]; cbn; auto.
  - (* bv relation *) cbn [eval]. unfold op_sem, bvrel_sem.
    destruct k; destruct (map (eval I) args) as [|a [|b [|c r]]]; cbn; auto; destruct a; cbn; auto; destruct b; cbn; auto.
  - (* string relation *) cbn [eval]. unfold op_sem, strop_sem.
    destruct k; try discriminate; destruct (map (eval I) args) as [|a [|b [|c r]]]; cbn; auto;
      destruct a; cbn; auto; destruct b; cbn; auto.
Qed.

Lemma boolish_is_vbool : forall t I, wf_interp I -> boolish t = true -> is_vbool (eval I t).
Proof.
  induction t as [o args IH] using term_ind'. intros I HI H.
  destruct o; try (apply atom_is_vbool; [exact HI | exact H]).
  - destruct args as [|b [|c r]]; cbn in H; try discriminate. rewrite eval_forall. exact Logic.I.
  - destruct args as [|b [|c r]]; cbn in H; try discriminate. rewrite eval_exists. exact Logic.I.
  - rewrite eval_and. exact Logic.I.
  - rewrite eval_or. exact Logic.I.
  - destruct args as [|b [|c r]]; cbn in H; try discriminate. exact Logic.I.
  - destruct args as [|a [|b [|c r]]]; cbn in H; try discriminate. exact Logic.I.
  - destruct args as [|a [|b [|c r]]]; cbn in H; try discriminate. exact Logic.I.
  - (* ite *) destruct args as [|c [|a [|b [|d r]]]]; cbn in H; try discriminate.
    apply andb_true_iff in H. destruct H as [H Hb]. apply andb_true_iff in H. destruct H as [Hc Ha].
    rewrite eval_ite. inversion IH as [|? ? _ IH1]; subst. inversion IH1 as [|? ? IHa IH2]; subst.
    inversion IH2 as [|? ? IHb _]; subst. destruct (tv I c); auto.
Qed.

(* truth-value equality + both sides Boolean = equality of values *)
Lemma eval_eq_of_boolish I a b : wf_interp I -> boolish a = true -> boolish b = true ->
  tv I a = tv I b -> eval I a = eval I b.
Proof. intros HI Ha Hb. apply eval_eq_of_tv; apply boolish_is_vbool; auto. Qed.

(* boolish is preserved by the constructors *)
Lemma boolish_mk_and l : forallb boolish l = true -> boolish (mk_and l) = true.
Proof. destruct l as [|x [|y r]]; cbn [mk_and]; auto. cbn. now rewrite andb_true_r. Qed.
Lemma boolish_mk_or l : forallb boolish l = true -> boolish (mk_or l) = true.
Proof. destruct l as [|x [|y r]]; cbn [mk_or]; auto. cbn. now rewrite andb_true_r. Qed.
Lemma boolish_mk_not t : boolish t = true -> boolish (mk_not t) = true.
Proof.
  destruct t as [o args]. destruct o; auto. destruct args as [|x [|y r]]; auto.
Qed.
Lemma boolish_mk_forall vs b : boolish b = true -> boolish (mk_forall vs b) = true.
Proof. destruct vs; auto. Qed.
Lemma boolish_mk_exists vs b : boolish b = true -> boolish (mk_exists vs b) = true.
Proof. destruct vs; auto. Qed.

Lemma forallb_map {A B} (f : B -> bool) (g : A -> B) l : forallb f (map g l) = forallb (fun x => f (g x)) l.
Proof. induction l; cbn; congruence. Qed.
Lemma existsb_map {A B} (f : B -> bool) (g : A -> B) l : existsb f (map g l) = existsb (fun x => f (g x)) l.
Proof. induction l; cbn; congruence. Qed.
Lemma forallb_ext_Forall {A} (f g : A -> bool) l : Forall (fun x => f x = g x) l -> forallb f l = forallb g l.
Proof. induction 1; cbn; congruence. Qed.
Lemma existsb_ext_Forall {A} (f g : A -> bool) l : Forall (fun x => f x = g x) l -> existsb f l = existsb g l.
Proof. induction 1; cbn; congruence. Qed.
Lemma forallb_negb_existsb {A} (f : A -> bool) l : forallb (fun x => negb (f x)) l = negb (existsb f l).
Proof. induction l; cbn; auto. rewrite IHl. now rewrite negb_orb. Qed.
Lemma existsb_negb_forallb {A} (f : A -> bool) l : existsb (fun x => negb (f x)) l = negb (forallb f l).
Proof. induction l; cbn; auto. rewrite IHl. now rewrite negb_andb. Qed.
