(* Simplifier (pysmt/simplifier.py): every operator is simplified by the method of its own name
   (no operator is routed to another operator's method), except the leaves - symbols and constants -
   which go to walk_identity; models/Simplifier.v's [rule] has one arm per operator and returns the
   node unchanged exactly for those leaves. *)
From Coq Require Import List ZArith Bool String.
From PySMT.core Require Import Syntax.
From PySMT.gen Require Import Operators Dispatch.
From PySMT.models Require Import Simplifier.
From PySMT.proofs Require Import Operators_proofs Dispatch_common.
Import ListNotations.
Open Scope string_scope.

Theorem simplifier_dispatch_matches_source : forall n,
  simplifier_dispatch n =
  if nt_eqb n NT_SYMBOL || nt_in G_CONSTANTS n then "walk_identity" else default_handler n.
Proof. apply by_table. vm_compute. reflexivity. Qed.

Theorem simplifier_all_defined_in_class : forall n, simplifier_origin n = "Simplifier".
Proof. apply by_table. vm_compute. reflexivity. Qed.

Theorem walk_identity_is_the_leaf_arm : forall ora o args,
  simplifier_dispatch (nt_of_op o) = "walk_identity" -> rule ora o args = Some (T o args).
Proof.
  intros ora o args H. destruct o; try split_kind; try reflexivity; vm_compute in H; discriminate H.
Qed.

(* conversely the model leaves a node unchanged (whatever its arguments) only there *)
Theorem leaf_arm_is_walk_identity : forall o,
  nt_in G_CONSTANTS (nt_of_op o) = true \/ nt_of_op o = NT_SYMBOL ->
  simplifier_dispatch (nt_of_op o) = "walk_identity".
Proof.
  intros o [H|H]; destruct o; try split_kind; try reflexivity; try discriminate H.
Qed.
