(* C10, partitions: the conjunction (disjunction) of the yielded top-level conjuncts (disjuncts),
   taken in ANY order and with or without repetitions, has the value of the input. *)
From Coq Require Import List ZArith Bool String Reals Permutation.
From PySMT.core Require Import Syntax SyntaxLemmas Sem.
From PySMT.models Require Import Oracles C10Local Partition.
From PySMT.proofs Require Import Sets_proofs Coincidence C10Local_proofs.
Import ListNotations.
Open Scope bool_scope.
Open Scope string_scope.

Lemma forallb_concat {A} (f : A -> bool) ls : forallb f (List.concat ls) = forallb (forallb f) ls.
Proof. induction ls as [|l ls IH]; cbn; auto. now rewrite forallb_app, IH. Qed.
Lemma existsb_concat {A} (f : A -> bool) ls : existsb f (List.concat ls) = existsb (existsb f) ls.
Proof. induction ls as [|l ls IH]; cbn; auto. now rewrite existsb_app, IH. Qed.

Lemma and_leaves_tv : forall t I, forallb (tv I) (and_leaves t) = tv I t.
Proof.
  induction t as [o args IH] using term_ind'. intros I.
  destruct o; try (cbn; now rewrite andb_true_r).
  cbn [and_leaves]. rewrite forallb_concat, (forallb_perm _ _ _ (Permutation_sym (Permutation_rev _))).
  rewrite forallb_map, tv_and. apply forallb_ext_Forall.
  eapply Forall_impl; [|exact IH]. intros a Ha. apply Ha.
Qed.
Lemma or_leaves_tv : forall t I, existsb (tv I) (or_leaves t) = tv I t.
Proof.
  induction t as [o args IH] using term_ind'. intros I.
  destruct o; try (cbn; now rewrite orb_false_r).
  cbn [or_leaves]. rewrite existsb_concat, (existsb_perm _ _ _ (Permutation_sym (Permutation_rev _))).
  rewrite existsb_map, tv_or. apply existsb_ext_Forall.
  eapply Forall_impl; [|exact IH]. intros a Ha. apply Ha.
Qed.

Definition same_set (l l' : list term) : Prop := incl l l' /\ incl l' l.

Lemma cp_same_set t : same_set (conjunctive_partition t) (and_leaves t).
Proof. split; intros x Hx; apply (dedupe_In term_eqb term_eqb_eq); exact Hx. Qed.
Lemma dp_same_set t : same_set (disjunctive_partition t) (or_leaves t).
Proof. split; intros x Hx; apply (dedupe_In term_eqb term_eqb_eq); exact Hx. Qed.

(* truth-value form, every term, every interpretation, every list with the same elements as the
   partition (Python consumers put the generator into lists, sets, And(...)) *)
Theorem conj_partition_tv t I l : same_set l (conjunctive_partition t) -> tv I (mk_and l) = tv I t.
Proof.
  intros [H1 H2]. destruct (cp_same_set t) as [H3 H4].
  rewrite tv_mk_and, <- and_leaves_tv. apply forallb_same_set; eapply incl_tran; eauto.
Qed.
Theorem disj_partition_tv t I l : same_set l (disjunctive_partition t) -> tv I (mk_or l) = tv I t.
Proof.
  intros [H1 H2]. destruct (dp_same_set t) as [H3 H4].
  rewrite tv_mk_or, <- or_leaves_tv. apply existsb_same_set; eapply incl_tran; eauto.
Qed.

(* C10, partitions: value form.  The only hypothesis is that the input denotes a Boolean under I
   (true of every well-sorted Boolean formula: [boolish_is_vbool]). *)
Theorem conj_partition_gen t I l : is_vbool (eval I t) -> same_set l (conjunctive_partition t) ->
  eval I (T OAnd l) = eval I t.
Proof.
  intros Hb [H1 H2]. destruct (cp_same_set t) as [H3 H4].
  rewrite eval_and, (is_vbool_eq _ Hb). f_equal. change (vbool (eval I t)) with (tv I t).
  rewrite <- and_leaves_tv. apply forallb_same_set; eapply incl_tran; eauto.
Qed.
Theorem disj_partition_gen t I l : is_vbool (eval I t) -> same_set l (disjunctive_partition t) ->
  eval I (T OOr l) = eval I t.
Proof.
  intros Hb [H1 H2]. destruct (dp_same_set t) as [H3 H4].
  rewrite eval_or, (is_vbool_eq _ Hb). f_equal. change (vbool (eval I t)) with (tv I t).
  rewrite <- or_leaves_tv. apply existsb_same_set; eapply incl_tran; eauto.
Qed.

Lemma same_set_refl l : same_set l l.
Proof. split; apply incl_refl. Qed.
Lemma perm_same_set l l' : Permutation l l' -> same_set l l'.
Proof. intros H. split; intros x Hx; [eapply Permutation_in; eauto | eapply Permutation_in; [apply Permutation_sym|]; eauto]. Qed.

Theorem conj_partition t I : wf_interp I -> boolish t = true ->
  forall l, Permutation l (conjunctive_partition t) -> eval I (T OAnd l) = eval I t.
Proof.
  intros HI Hb l Hp. apply conj_partition_gen; [now apply boolish_is_vbool | now apply perm_same_set].
Qed.
Theorem disj_partition t I : wf_interp I -> boolish t = true ->
  forall l, Permutation l (disjunctive_partition t) -> eval I (T OOr l) = eval I t.
Proof.
  intros HI Hb l Hp. apply disj_partition_gen; [now apply boolish_is_vbool | now apply perm_same_set].
Qed.

(* shape: no conjunct is itself a conjunction, and there are no repetitions *)
Lemma and_leaves_not_and : forall t x, In x (and_leaves t) -> is_op OAnd x = false.
Proof.
  induction t as [o args IH] using term_ind'. intros x Hx.
  destruct o; try (cbn in Hx; destruct Hx as [<-|[]]; reflexivity).
  cbn [and_leaves] in Hx. apply in_concat in Hx. destruct Hx as (l & Hl & Hx).
  apply in_rev, in_map_iff in Hl. destruct Hl as (a & <- & Ha).
  rewrite Forall_forall in IH. eapply IH; eauto.
Qed.
Theorem conj_partition_shape t x : In x (conjunctive_partition t) -> is_op OAnd x = false.
Proof. intros H. apply (and_leaves_not_and t). now apply (dedupe_In term_eqb term_eqb_eq). Qed.
Lemma or_leaves_not_or : forall t x, In x (or_leaves t) -> is_op OOr x = false.
Proof.
  induction t as [o args IH] using term_ind'. intros x Hx.
  destruct o; try (cbn in Hx; destruct Hx as [<-|[]]; reflexivity).
  cbn [or_leaves] in Hx. apply in_concat in Hx. destruct Hx as (l & Hl & Hx).
  apply in_rev, in_map_iff in Hl. destruct Hl as (a & <- & Ha).
  rewrite Forall_forall in IH. eapply IH; eauto.
Qed.
Theorem disj_partition_shape t x : In x (disjunctive_partition t) -> is_op OOr x = false.
Proof. intros H. apply (or_leaves_not_or t). now apply (dedupe_In term_eqb term_eqb_eq). Qed.

Example partition_example :
  let a := TSym "a" TBool in let b := TSym "b" TBool in let c := T OLe [TSym "x" TInt; TIntC 0] in
  let t := T OAnd [a; T OAnd [b; c]; a] in
  conjunctive_partition t = [a; c; b] /\ conjunctive_partition_wl t = Some [a; c; b] /\ boolish t = true.
Proof. repeat split. Qed.
