(* C10, prenex normal form: the model of PrenexNormalizer returns a quantifier prefix over a
   quantifier-free matrix for every input whose quantifiers occur in Boolean positions only
   (any fresh-name counter, any clashes); value preservation is proved for quantifier-free
   inputs (the matrix construction: ->, <->, ite expansion) and stated in full below. *)
From Coq Require Import List ZArith Bool String Reals.
From PySMT.core Require Import Syntax SyntaxLemmas Sem.
From PySMT.models Require Import Oracles C10Local Prenex.
From PySMT.proofs Require Import Sets_proofs Coincidence C10Local_proofs Subst_proofs.
Import ListNotations.
Open Scope bool_scope.
Open Scope string_scope.

Definition qfres (r : pres) : Prop := is_qf (snd r) = true.

Lemma sym_range_qf (sub : list (var * var)) :
  range_ok is_qf (sub_terms sub).
Proof.
  induction sub as [|[k [fn fty]] sub IH]; intros v r E; [discriminate|].
  unfold sub_terms in *. cbn [map vlookup fst snd] in E. destruct (var_eqb k v).
  - injection E as <-. reflexivity.
  - eapply IH; eauto.
Qed.

Lemma rename_quants_qf : forall subL n reserved subm n' res' L' m',
  rename_quants n reserved subL subm = (n', res', L', m') -> is_qf subm = true -> is_qf m' = true.
Proof.
  induction subL as [|[q qvars] rest IH]; intros n reserved subm n' res' L' m' E H; cbn in E.
  - injection E as <- <- <- <-. exact H.
  - destruct (fresh_for n (filter (fun v => mem var_eqb v reserved) qvars)) as [n1 sub] eqn:Ef.
    match type of E with context[rename_quants n1 ?r rest ?sm] =>
      destruct (rename_quants n1 r rest sm) as [[[n2 r2] L2] m2] eqn:Er; assert (Hs : is_qf sm = true) end.
    { destruct (filter (fun v => mem var_eqb v reserved) qvars); [exact H|]. apply vsubst_qf; auto. apply sym_range_qf. }
    injection E as <- <- <- <-. eapply IH; eauto.
Qed.

Lemma cd_args_qf : forall args n reserved n' L ms,
  cd_args n reserved args = (n', L, ms) -> Forall qfres args -> forallb is_qf ms = true.
Proof.
  induction args as [|[subL subm] rest IH]; intros n reserved n' L ms E H; cbn in E.
  - injection E as <- <- <-. reflexivity.
  - destruct (rename_quants n reserved subL subm) as [[[n1 res1] L1] m1] eqn:Er.
    destruct (cd_args n1 res1 rest) as [[n2 L2] ms2] eqn:Ec.
    injection E as <- <- <-. inversion H as [|? ? Hh Ht]; subst. cbn.
    rewrite (rename_quants_qf _ _ _ _ _ _ _ _ Er Hh). eapply IH; eauto.
Qed.

Lemma conj_disj_qf is_and fvs n args n' r :
  conj_disj is_and fvs n args = (n', r) -> Forall qfres args -> qfres r.
Proof.
  unfold conj_disj. destruct (cd_args n fvs args) as [[n1 L] ms] eqn:E. intros H F. injection H as <- <-.
  unfold qfres. cbn. pose proof (cd_args_qf _ _ _ _ _ _ E F). destruct is_and; [now apply is_qf_mk_and | now apply is_qf_mk_or].
Qed.

Lemma p_not_qf r : qfres r -> qfres (p_not r).
Proof. unfold qfres, p_not. cbn. apply is_qf_mk_not. Qed.

Lemma p_implies_qf n a b ra rb n' r : p_implies n a b ra rb = (n', r) -> qfres ra -> qfres rb -> qfres r.
Proof. unfold p_implies. intros E Ha Hb. eapply conj_disj_qf; eauto. repeat constructor; auto. now apply p_not_qf. Qed.
Lemma p_iff_qf n a b ra rb n' r : p_iff n a b ra rb = (n', r) -> qfres ra -> qfres rb -> qfres r.
Proof.
  unfold p_iff. destruct (p_implies n a b ra rb) as [n1 r1] eqn:E1. destruct (p_implies n1 b a rb ra) as [n2 r2] eqn:E2.
  intros E Ha Hb. eapply conj_disj_qf; eauto. repeat constructor; [eapply p_implies_qf; eauto | eapply p_implies_qf; eauto].
Qed.
Lemma p_ite_qf n i t e ri rt re n' r : p_ite n i t e ri rt re = (n', r) -> qfres ri -> qfres rt -> qfres re -> qfres r.
Proof.
  unfold p_ite. destruct (p_implies n i t ri rt) as [n1 r1] eqn:E1.
  destruct (p_implies n1 (mk_not i) e (p_not ri) re) as [n2 r2] eqn:E2.
  intros E Hi Ht He. eapply conj_disj_qf; eauto.
  repeat constructor; [eapply p_implies_qf; eauto | eapply p_implies_qf; eauto; now apply p_not_qf].
Qed.
Lemma p_quant_qf ex vs r : qfres r -> qfres (p_quant ex vs r).
Proof. unfold qfres, p_quant. destruct (dedupe var_eqb (diff var_eqb vs (flat_map snd (fst r)))); auto. Qed.

Lemma pws_with_qf f : forall l n n' rs,
  Forall (fun x => forall n n' r, f x n = (n', Some r) -> qfres r) l ->
  pws_with f l n = (n', Some rs) -> Forall qfres rs.
Proof.
  induction l as [|x l IH]; intros n n' rs H E; cbn in E.
  - injection E as <- <-. constructor.
  - destruct (f x n) as [n1 rx] eqn:Ex. fold (pws_with f) in E. destruct (pws_with f l n1) as [n2 rr] eqn:Er.
    inversion H as [|? ? Hx Hl]; subst. destruct rx as [a|]; [|discriminate]. destruct rr as [b|]; [|discriminate].
    injection E as <- <-. constructor; [eapply Hx; eauto | eapply IH; eauto].
Qed.

Lemma atom_qf o args : is_atom_bool o = true -> forallb is_qf args = true -> is_qf (T o args) = true.
Proof. intros Ha H. rewrite is_qf_args; auto. destruct o; auto; discriminate. Qed.

Theorem pw_qf : forall t n n' r, pq_frag t = true -> pw t n = (n', Some r) -> qfres r.
Proof.
  induction t as [o args IH] using term_ind'. intros n n' r Hf E.
  assert (Atom : forall (n n' : nat) (r : pres), pq_frag (T o args) = is_atom_bool o && forallb is_qf args ->
                 (n, if is_atom_bool o then Some (@nil (bool * list var), T o args) else None) = (n', Some r) -> qfres r).
  { intros k k' r0 Hp E0. rewrite Hp in Hf. apply andb_true_iff in Hf. destruct Hf as [Ha Hq]. rewrite Ha in E0.
    injection E0 as <- <-. unfold qfres. cbn [snd]. now apply atom_qf. }
  destruct o; try (apply (Atom n n' r); [reflexivity | exact E]).
  - (* forall *) destruct args as [|b [|c l]]; try (apply (Atom n n' r); [reflexivity | exact E]).
    cbn in Hf. cbn [pw] in E. destruct (pw b n) as [n1 rb] eqn:Eb. inversion IH as [|? ? IHb _]; subst.
    destruct rb as [rb|]; cbn in E; [|discriminate]. injection E as <- <-. apply p_quant_qf. eapply IHb; eauto.
  - destruct args as [|b [|c l]]; try (apply (Atom n n' r); [reflexivity | exact E]).
    cbn in Hf. cbn [pw] in E. destruct (pw b n) as [n1 rb] eqn:Eb. inversion IH as [|? ? IHb _]; subst.
    destruct rb as [rb|]; cbn in E; [|discriminate]. injection E as <- <-. apply p_quant_qf. eapply IHb; eauto.
  - (* and *) cbn in Hf. cbn [pw] in E. destruct (pws_with (fun x k => pw x k) args n) as [n1 rs] eqn:Es.
    destruct rs as [rs|]; [|discriminate].
    destruct (conj_disj true (fv (T OAnd args)) n1 rs) as [n2 r2] eqn:Ec. injection E as <- <-.
    eapply conj_disj_qf; [exact Ec|]. eapply (pws_with_qf _ args n n1 rs); [|exact Es].
    rewrite Forall_forall in IH |- *. rewrite forallb_forall in Hf. intros x Hx k k' r0 E0. eapply IH; eauto.
  - (* or *) cbn in Hf. cbn [pw] in E. destruct (pws_with (fun x k => pw x k) args n) as [n1 rs] eqn:Es.
    destruct rs as [rs|]; [|discriminate].
    destruct (conj_disj false (fv (T OOr args)) n1 rs) as [n2 r2] eqn:Ec. injection E as <- <-.
    eapply conj_disj_qf; [exact Ec|]. eapply (pws_with_qf _ args n n1 rs); [|exact Es].
    rewrite Forall_forall in IH |- *. rewrite forallb_forall in Hf. intros x Hx k k' r0 E0. eapply IH; eauto.
  - (* not *) destruct args as [|a [|c l]]; try (apply (Atom n n' r); [reflexivity | exact E]).
    cbn in Hf. cbn [pw] in E. destruct (pw a n) as [n1 ra] eqn:Ea. inversion IH as [|? ? IHa _]; subst.
    destruct ra as [ra|]; cbn in E; [|discriminate]. injection E as <- <-. apply p_not_qf. eapply IHa; eauto.
  - (* implies *) destruct args as [|a [|b [|c l]]]; try (apply (Atom n n' r); [reflexivity | exact E]).
    cbn in Hf. apply andb_true_iff in Hf. destruct Hf as [Ha Hb]. cbn [pw] in E.
    destruct (pw a n) as [n1 ra] eqn:Ea. destruct (pw b n1) as [n2 rb] eqn:Eb.
    inversion IH as [|? ? IHa IH1]; subst. inversion IH1 as [|? ? IHb _]; subst.
    destruct ra as [ra|]; [|destruct rb; discriminate]. destruct rb as [rb|]; [|discriminate].
    destruct (p_implies n2 a b ra rb) as [n3 r3] eqn:Ei. injection E as <- <-.
    eapply p_implies_qf; eauto.
  - (* iff *) destruct args as [|a [|b [|c l]]]; try (apply (Atom n n' r); [reflexivity | exact E]).
    cbn in Hf. apply andb_true_iff in Hf. destruct Hf as [Ha Hb]. cbn [pw] in E.
    destruct (pw a n) as [n1 ra] eqn:Ea. destruct (pw b n1) as [n2 rb] eqn:Eb.
    inversion IH as [|? ? IHa IH1]; subst. inversion IH1 as [|? ? IHb _]; subst.
    destruct ra as [ra|]; [|destruct rb; discriminate]. destruct rb as [rb|]; [|discriminate].
    destruct (p_iff n2 a b ra rb) as [n3 r3] eqn:Ei. injection E as <- <-.
    eapply p_iff_qf; eauto.
  - (* ite *) destruct args as [|i [|th [|el [|d l]]]]; try (apply (Atom n n' r); [reflexivity | exact E]).
    cbn in Hf. apply andb_true_iff in Hf. destruct Hf as [Hf He]. apply andb_true_iff in Hf. destruct Hf as [Hi Ht].
    cbn [pw] in E.
    destruct (pw i n) as [n1 ri] eqn:Ei. destruct (pw th n1) as [n2 rt] eqn:Et. destruct (pw el n2) as [n3 re] eqn:Ee.
    inversion IH as [|? ? IHi IH1]; subst. inversion IH1 as [|? ? IHt IH2]; subst. inversion IH2 as [|? ? IHe _]; subst.
    destruct ri as [ri|]; [|destruct rt, re; discriminate]. destruct rt as [rt|]; [|destruct re; discriminate].
    destruct re as [re|]; [|discriminate].
    destruct (p_ite n3 i th el ri rt re) as [n4 r4] eqn:Ep. injection E as <- <-.
    eapply p_ite_qf; eauto.
Qed.

Lemma strip_qf m : is_qf m = true -> strip m = m.
Proof. destruct m as [o args]. destruct o; auto; cbn; discriminate. Qed.
Lemma strip_mk_exists vs m : strip (mk_exists vs m) = strip m.
Proof. destruct vs; reflexivity. Qed.
Lemma strip_mk_forall vs m : strip (mk_forall vs m) = strip m.
Proof. destruct vs; reflexivity. Qed.
Lemma strip_normalize : forall L m, strip (normalize L m) = strip m.
Proof.
  unfold normalize. induction L as [|[q vs] L IH]; intros m; cbn [fold_left]; auto.
  rewrite IH. cbn [fst snd]. destruct q; [apply strip_mk_exists | apply strip_mk_forall].
Qed.

(* C10, prenex, shape clause: for every fresh-name counter and every input whose quantifiers
   occur in Boolean positions only *)
Theorem prenex_shape_thm : forall n t r, pq_frag t = true -> prenex n t = Some r -> prenex_shape r = true.
Proof.
  intros n t r Hf E. unfold prenex in E. destruct (pw t n) as [n' [[L m]|]] eqn:Ep; cbn in E; [|discriminate].
  injection E as <-. unfold prenex_shape. rewrite strip_normalize.
  pose proof (pw_qf _ _ _ _ Hf Ep) as Q. unfold qfres in Q. cbn in Q. now rewrite strip_qf.
Qed.

(* ------------------------------------------------------------------ value, quantifier-free inputs *)
Definition nilres (t : term) (r : pres) : Prop := fst r = [] /\ forall I, tv I (snd r) = tv I t.

Lemma cd_args_nil : forall args n reserved, Forall (fun r => fst r = []) args ->
  cd_args n reserved args = (n, [], map snd args).
Proof.
  induction args as [|[L m] rest IH]; intros n reserved H; cbn; auto.
  inversion H as [|? ? Hh Ht]; subst. cbn in Hh. subst L. cbn. now rewrite IH.
Qed.
Lemma conj_disj_nil is_and fvs n args : Forall (fun r => fst r = []) args ->
  conj_disj is_and fvs n args = (n, ([], if is_and then mk_and (map snd args) else mk_or (map snd args))).
Proof. intros H. unfold conj_disj. now rewrite cd_args_nil. Qed.

Lemma p_implies_nil n a b ra rb : nilres a ra -> nilres b rb ->
  exists r, p_implies n a b ra rb = (n, r) /\ nilres (T OImplies [a; b]) r.
Proof.
  intros [La Ea] [Lb Eb]. unfold p_implies. rewrite conj_disj_nil.
  - eexists. split; [reflexivity|]. split; [reflexivity|]. intros I. cbn [snd map p_not].
    rewrite tv_mk_or. cbn [existsb]. rewrite tv_mk_not, Ea, Eb, tv_implies. destruct (tv I a), (tv I b); reflexivity.
  - repeat constructor; auto. cbn. now rewrite La.
Qed.

Lemma nilres_tv_congr t t' r : (forall I, tv I t = tv I t') -> nilres t r -> nilres t' r.
Proof. intros H [L E]. split; auto. intros I. now rewrite E. Qed.

Lemma pws_with_nil f : forall l n,
  Forall (fun x => forall n, exists r, f x n = (n, Some r) /\ nilres x r) l ->
  exists rs, pws_with f l n = (n, Some rs) /\ Forall2 nilres l rs.
Proof.
  induction l as [|x l IH]; intros n H; cbn.
  - exists []. split; auto.
  - inversion H as [|? ? Hx Hl]; subst. destruct (Hx n) as (r & Er & Nr). rewrite Er.
    fold (pws_with f). destruct (IH n Hl) as (rs & Es & Ns). rewrite Es. exists (r :: rs). split; auto.
Qed.

Lemma Forall2_nil_fst l rs : Forall2 nilres l rs -> Forall (fun r => fst r = []) rs.
Proof. induction 1 as [|x r l rs [H _] _ IH]; constructor; auto. Qed.
Lemma Forall2_nil_tv I l rs : Forall2 nilres l rs -> map (tv I) (map snd rs) = map (tv I) l.
Proof. induction 1 as [|x r l rs [_ H] _ IH]; cbn; auto. now rewrite H, IH. Qed.
Lemma forallb_as_map {A} (f : A -> bool) l : forallb f l = forallb (fun b => b) (map f l).
Proof. induction l; cbn; congruence. Qed.
Lemma existsb_as_map {A} (f : A -> bool) l : existsb f l = existsb (fun b => b) (map f l).
Proof. induction l; cbn; congruence. Qed.

Theorem pw_qf_input : forall t n, is_qf t = true -> pq_frag t = true ->
  exists r, pw t n = (n, Some r) /\ nilres t r.
Proof.
  induction t as [o args IH] using term_ind'. intros n Hq Hf.
  assert (Atom : pq_frag (T o args) = is_atom_bool o && forallb is_qf args ->
                 pw (T o args) n = (n, if is_atom_bool o then Some (@nil (bool * list var), T o args) else None) ->
                 exists r, pw (T o args) n = (n, Some r) /\ nilres (T o args) r).
  { intros Hp E. rewrite Hp in Hf. apply andb_true_iff in Hf. destruct Hf as [Ha _]. rewrite Ha in E.
    eexists. split; [exact E|]. split; reflexivity. }
  destruct (is_quant_op o) eqn:Hqo; [rewrite is_qf_quant in Hq by auto; discriminate|].
  rewrite is_qf_args in Hq by auto.
  assert (IH' : forall a, In a args -> pq_frag a = true -> forall n, exists r, pw a n = (n, Some r) /\ nilres a r).
  { rewrite Forall_forall in IH. rewrite forallb_forall in Hq. intros a Ha Hfa k. apply IH; auto. }
  destruct o; try discriminate Hqo; try (apply Atom; reflexivity).
  - (* and *) cbn in Hf. rewrite forallb_forall in Hf. cbn [pw].
    destruct (pws_with_nil (fun x k => pw x k) args n) as (rs & Es & Ns).
    { apply Forall_forall. intros x Hx k. apply IH'; auto. }
    rewrite Es, conj_disj_nil by (eapply Forall2_nil_fst; eauto).
    eexists. split; [reflexivity|]. split; [reflexivity|]. intros I. cbn [snd].
    rewrite tv_mk_and, tv_and, (forallb_as_map (tv I)), (forallb_as_map (tv I) args). f_equal. eapply Forall2_nil_tv; eauto.
  - (* or *) cbn in Hf. rewrite forallb_forall in Hf. cbn [pw].
    destruct (pws_with_nil (fun x k => pw x k) args n) as (rs & Es & Ns).
    { apply Forall_forall. intros x Hx k. apply IH'; auto. }
    rewrite Es, conj_disj_nil by (eapply Forall2_nil_fst; eauto).
    eexists. split; [reflexivity|]. split; [reflexivity|]. intros I. cbn [snd].
    rewrite tv_mk_or, tv_or, (existsb_as_map (tv I)), (existsb_as_map (tv I) args). f_equal. eapply Forall2_nil_tv; eauto.
  - (* not *) destruct args as [|a [|c l]]; try (apply Atom; reflexivity).
    cbn in Hf. destruct (IH' a (or_introl eq_refl) Hf n) as (ra & Ea & [La Na]). cbn [pw]. rewrite Ea. cbn.
    eexists. split; [reflexivity|]. split; [cbn; now rewrite La|]. intros I. cbn [snd p_not]. now rewrite tv_mk_not, Na, tv_not.
  - (* implies *) destruct args as [|a [|b [|c l]]]; try (apply Atom; reflexivity).
    cbn in Hf. apply andb_true_iff in Hf. destruct Hf as [Ha Hb].
    destruct (IH' a (or_introl eq_refl) Ha n) as (ra & Ea & Na). destruct (IH' b (or_intror (or_introl eq_refl)) Hb n) as (rb & Eb & Nb).
    cbn [pw]. rewrite Ea, Eb. destruct (p_implies_nil n a b ra rb Na Nb) as (r & Er & Nr). rewrite Er. eauto.
  - (* iff *) destruct args as [|a [|b [|c l]]]; try (apply Atom; reflexivity).
    cbn in Hf. apply andb_true_iff in Hf. destruct Hf as [Ha Hb].
    destruct (IH' a (or_introl eq_refl) Ha n) as (ra & Ea & Na). destruct (IH' b (or_intror (or_introl eq_refl)) Hb n) as (rb & Eb & Nb).
    cbn [pw]. rewrite Ea, Eb. unfold p_iff.
    destruct (p_implies_nil n a b ra rb Na Nb) as (r1 & E1 & [L1 N1]). rewrite E1.
    destruct (p_implies_nil n b a rb ra Nb Na) as (r2 & E2 & [L2 N2]). rewrite E2.
    rewrite conj_disj_nil by (repeat constructor; auto).
    eexists. split; [reflexivity|]. split; [reflexivity|]. intros I. cbn [snd map].
    rewrite tv_mk_and. cbn [forallb]. rewrite N1, N2, !tv_implies, tv_iff. destruct (tv I a), (tv I b); reflexivity.
  - (* ite *) destruct args as [|i [|th [|el [|d l]]]]; try (apply Atom; reflexivity).
    cbn in Hf. apply andb_true_iff in Hf. destruct Hf as [Hf He]. apply andb_true_iff in Hf. destruct Hf as [Hi Ht].
    destruct (IH' i (or_introl eq_refl) Hi n) as (ri & Ei & Ni).
    destruct (IH' th (or_intror (or_introl eq_refl)) Ht n) as (rt & Et & Nt).
    destruct (IH' el (or_intror (or_intror (or_introl eq_refl))) He n) as (re & Ee & Ne).
    cbn [pw]. rewrite Ei, Et, Ee. unfold p_ite.
    destruct (p_implies_nil n i th ri rt Ni Nt) as (r1 & E1 & [L1 N1]). rewrite E1.
    assert (Nni : nilres (mk_not i) (p_not ri)).
    { destruct Ni as [Li Ni]. split; [cbn; now rewrite Li|]. intros I. cbn [snd p_not]. now rewrite !tv_mk_not, Ni. }
    destruct (p_implies_nil n (mk_not i) el (p_not ri) re Nni Ne) as (r2 & E2 & [L2 N2]). rewrite E2.
    rewrite conj_disj_nil by (repeat constructor; auto).
    eexists. split; [reflexivity|]. split; [reflexivity|]. intros I. cbn [snd map].
    rewrite tv_mk_and. cbn [forallb]. rewrite N1, N2, !tv_implies, tv_mk_not, tv_ite.
    destruct (tv I i), (tv I th), (tv I el); reflexivity.
Qed.

(* C10, prenex, semantic clause.  FULL STATEMENT (not proved in this round; carried by the
   correspondence of models/Prenex.v plus the reference-evaluator oracle):
     forall n t r I, wf_interp I -> pq_frag t = true -> boolish t = true ->
       (no symbol of t is named "FV<k>" with k >= n) -> (bound variables have inhabited sorts) ->
       prenex n t = Some r -> eval I r = eval I t.
   PROVED PART: inputs without quantifiers (no prefix is produced; the matrix is the ->, <->,
   ite expansion of the input). *)
Theorem prenex_equiv_partial : forall n t, is_qf t = true -> pq_frag t = true ->
  exists r, prenex n t = Some r /\ forall I, holds I r <-> holds I t.
Proof.
  intros n t Hq Hf. destruct (pw_qf_input t n Hq Hf) as ([L m] & E & [HL HN]). cbn in HL, HN. subst L.
  exists m. split; [unfold prenex; rewrite E; reflexivity|]. intros I. rewrite !holds_tv. now rewrite HN.
Qed.

Example prenex_example :
  let x := ("x", TBV 2) in
  let p := T (OBVRel BUlt) [TSym "x" (TBV 2); TSym "y" (TBV 2)] in
  let t := T OAnd [p; T (OExists [x]) [T ONot [p]]] in
  pq_frag t = true /\
  prenex 0 t = Some (T (OExists [("FV0", TBV 2)])
                       [T OAnd [p; T ONot [T (OBVRel BUlt) [TSym "FV0" (TBV 2); TSym "y" (TBV 2)]]]]) /\
  prenex_shape t = false.
Proof. repeat split. Qed.
