(* C16 - the IncrementalTrackingSolver bookkeeping (models/TrackSolver.v) refines the SMT-LIB
   assertion stack (models/AssertStack.v) on every legal history; one-shot queries restore
   the assertion list.  No bound on the length of the history. *)
From Coq Require Import List Arith Bool Lia.
From PySMT.models Require Import AssertStack StackPrims TrackSolver.
From PySMT.proofs Require Import StackPrims_proofs AssertStack_proofs.
Import ListNotations.

Section Proofs.
  Variable F : Type.
  Variable fnot : F -> F.
  Notation astack := (astack F unit).
  Notation tst := (tst F).
  Notation t_step := (t_step fnot).
  Notation t_run := (t_run fnot).

  (* the backtrack points that correspond to the enclosing levels, outermost first *)
  Fixpoint abounds (e : list (level F unit)) : list nat :=
    match e with
    | [] => []
    | l :: e' => abounds e' ++ [length (asserts (items (l, e')))]
    end.

  (* state without pending pop that represents s; `stale` = points left over by
     reset_assertions, below the live ones and never reached by a legal pop *)
  Definition clean (s : astack) (c : tst) : Prop :=
    pending c = false /\ astk c = live_assertions s /\
    exists stale, bpts c = stale ++ abounds (snd s).
  (* a state represents s if clearing its pending pop gives a clean one *)
  Definition Rel (s : astack) (c : tst) : Prop :=
    exists c', cpp c = Ok c' /\ clean s c'.

  Lemma cpp_clean s c : clean s c -> cpp c = Ok c.
  Proof. intros (P & _). unfold cpp. now rewrite P. Qed.
  Lemma clean_Rel s c : clean s c -> Rel s c.
  Proof. intros H. exists c. split; [eapply cpp_clean; eauto|exact H]. Qed.

  Lemma init_clean : clean s_init (@t_init F).
  Proof. split; [reflexivity|]. split; [reflexivity|]. exists []. reflexivity. Qed.

  Lemma live_push n (s : astack) : live_assertions (s_push n s) = live_assertions s.
  Proof.
    revert s. induction n as [|n IH]; intros s; cbn [s_push]; [reflexivity|].
    rewrite IH. unfold live_assertions. now rewrite items_push1.
  Qed.

  Lemma abounds_push n (s : astack) :
    abounds (snd (s_push n s)) = abounds (snd s) ++ repeat (length (live_assertions s)) n.
  Proof.
    revert s. induction n as [|n IH]; intros s; cbn [s_push repeat]; [now rewrite app_nil_r|].
    rewrite IH. replace (live_assertions (s_push1 s)) with (live_assertions s)
      by (unfold live_assertions; now rewrite items_push1).
    destruct s as [cur e]. cbn [s_push1 fst snd abounds].
    rewrite <- app_assoc. reflexivity.
  Qed.

  Lemma live_add f (s : astack) :
    live_assertions (s_add (IAssert f) s) = live_assertions s ++ [f].
  Proof. unfold live_assertions. now rewrite items_add, asserts_app. Qed.

  (* ---- one step of each kind from a clean state -------------------------------------- *)
  Lemma clean_pop n : forall (s s' : astack) c, clean s c -> s_pop n s = Some s' ->
    exists c', pop_core n c = Ok c' /\ clean s' c'.
  Proof.
    induction n as [|n IH]; intros s s' c C H; cbn in H.
    - injection H as <-. exists c. split; [reflexivity|exact C].
    - destruct (s_pop1 s) as [s1|] eqn:E; [|discriminate].
      destruct C as (P & A & stale & B).
      destruct s as [cur e]. unfold s_pop1 in E. cbn [snd] in E.
      destruct e as [|l e]; [discriminate|]. injection E as <-.
      cbn [snd abounds] in B. rewrite app_assoc in B.
      unfold pop_core. cbn [iter_res]. unfold pop_core1 at 1. rewrite B, pop_last_app.
      cbn [bind]. apply (IH (l, e) s'); [|exact H].
      split; [exact P|]. split.
      + cbn [astk]. rewrite A. unfold live_assertions. rewrite items_cons, asserts_app.
        apply firstn_exact.
      + exists stale. reflexivity.
  Qed.

  Lemma clean_state_eta (c : tst) : pending c = false -> c = mkT (astk c) (bpts c) false.
  Proof. destruct c as [a b p]. cbn. now intros ->. Qed.

  (* the state left by is_sat / solve under non-literal assumptions represents the same s *)
  Lemma pending_Rel s c f : clean s c ->
    Rel s (mkT (astk c ++ [f]) (bpts c ++ [length (astk c)]) true).
  Proof.
    intros C. exists c. split; [|exact C].
    unfold cpp. cbn [pending astk bpts]. unfold pop_core. cbn [iter_res]. unfold pop_core1.
    cbn [bpts astk pending]. rewrite pop_last_app, firstn_exact. cbn [bind].
    destruct C as (P & _). now rewrite <- clean_state_eta.
  Qed.

  Lemma push1_clean s c : clean s c ->
    push F 1 c = Ok (mkT (astk c) (bpts c ++ [length (astk c)]) false).
  Proof.
    intros C. unfold push. rewrite (cpp_clean _ _ C). cbn [bind repeat].
    destruct C as (P & _). now rewrite P.
  Qed.

  Lemma is_sat_Rel s c f : Rel s c -> exists c', is_sat F f c = Ok c' /\ Rel s c'.
  Proof.
    intros (c0 & E & C).
    exists (mkT (astk c0 ++ [f]) (bpts c0 ++ [length (astk c0)]) true).
    split; [|now apply pending_Rel].
    unfold is_sat, push. rewrite E. cbn [bind repeat].
    destruct C as (P & _). rewrite P.
    unfold add_assertion, cpp, solve. cbn [pending bind astk bpts]. reflexivity.
  Qed.

  Lemma solve_Rel s c o : Rel s c -> exists c', solve F o c = Ok c' /\ Rel s c'.
  Proof.
    intros (c0 & E & C). unfold solve. rewrite E. cbn [bind].
    destruct o as [f|].
    - exists (mkT (astk c0 ++ [f]) (bpts c0 ++ [length (astk c0)]) true).
      split; [|now apply pending_Rel].
      rewrite (push1_clean _ _ C). cbn [bind].
      unfold add_assertion, cpp. cbn [pending bind astk bpts]. reflexivity.
    - exists c0. split; [reflexivity|now apply clean_Rel].
  Qed.

  (* ---- refinement: one step, then any history ---------------------------------------- *)
  Lemma step_refines s c x s' : Rel s c -> s_step s (to_spec x) = Some s' ->
    exists c', t_step c x = Ok c' /\ Rel s' c'.
  Proof.
    intros R H. destruct x as [f|n|n| |o|f|f|f| |o|f|f|f]; cbn [to_spec s_step] in H; cbn [t_step].
    - (* add_assertion *)
      injection H as <-. destruct R as (c0 & E & C). unfold add_assertion. rewrite E. cbn [bind].
      eexists. split; [reflexivity|]. apply clean_Rel.
      destruct C as (P & A & stale & B). split; [exact P|]. split.
      + cbn [astk]. now rewrite live_add, A.
      + exists stale. exact B.
    - (* push n *)
      injection H as <-. destruct R as (c0 & E & C). unfold push. rewrite E. cbn [bind].
      eexists. split; [reflexivity|]. apply clean_Rel.
      destruct C as (P & A & stale & B). split; [exact P|]. split.
      + cbn [astk]. now rewrite live_push.
      + exists stale. cbn [bpts]. now rewrite abounds_push, B, A, app_assoc.
    - (* pop n *)
      destruct R as (c0 & E & C). unfold pop. rewrite E. cbn [bind].
      destruct (clean_pop n s s' c0 C H) as (c' & E' & C').
      exists c'. split; [exact E'|now apply clean_Rel].
    - (* reset_assertions *)
      injection H as <-. destruct R as (c0 & E & C). unfold reset_assertions. rewrite E. cbn [bind].
      eexists. split; [reflexivity|]. apply clean_Rel.
      destruct C as (P & A & stale & B). split; [exact P|]. split; [reflexivity|].
      exists (bpts c0). cbn. now rewrite app_nil_r.
    - injection H as <-. now apply solve_Rel.
    - injection H as <-. now apply is_sat_Rel.
    - injection H as <-. unfold is_valid. now apply is_sat_Rel.
    - injection H as <-. unfold is_unsat. now apply is_sat_Rel.
    - (* reading assertions *)
      injection H as <-. destruct R as (c0 & E & C). unfold assertions. rewrite E. cbn [bind fst].
      exists c0. split; [reflexivity|now apply clean_Rel].
    - injection H as <-. now apply solve_Rel.
    - injection H as <-. now apply is_sat_Rel.
    - injection H as <-. unfold is_valid. now apply is_sat_Rel.
    - injection H as <-. unfold is_unsat. now apply is_sat_Rel.
  Qed.

  Lemma run_refines cs : forall s c s', Rel s c -> s_run s (map to_spec cs) = Some s' ->
    exists c', t_run c cs = Ok c' /\ Rel s' c'.
  Proof.
    induction cs as [|x cs IH]; intros s c s' R H; cbn in H.
    - injection H as <-. exists c. split; [reflexivity|exact R].
    - destruct (s_step s (to_spec x)) as [s1|] eqn:E; [|discriminate].
      destruct (step_refines s c x s1 R E) as (c1 & E1 & R1).
      destruct (IH s1 c1 s' R1 H) as (c' & E' & R').
      exists c'. split; [|exact R']. cbn [TrackSolver.t_run]. rewrite E1. exact E'.
  Qed.

  Lemma observe_Rel s c : Rel s c -> exists c', assertions c = Ok (c', live_assertions s) /\ Rel s c'.
  Proof.
    intros (c0 & E & C). exists c0. unfold assertions. rewrite E. cbn [bind].
    destruct C as (P & A & B). rewrite A. split; [reflexivity|]. apply clean_Rel. now split.
  Qed.

  (* MAIN (solver): after any legal history, `assertions` returns exactly the live assertions.
     The history may contain queries and reads of `assertions` anywhere. *)
  Theorem solver_tracks_live : forall cs s,
    s_run s_init (map to_spec cs) = Some s ->
    exists c c', t_run t_init cs = Ok c /\ assertions c = Ok (c', live_assertions s).
  Proof.
    intros cs s H.
    destruct (run_refines cs s_init t_init s (clean_Rel _ _ init_clean) H) as (c & E & R).
    destruct (observe_Rel s c R) as (c' & O & _).
    exists c, c'. split; assumption.
  Qed.

  (* ... hence after every step of a legal history (every prefix of a legal list is legal) *)
  Theorem solver_tracks_live_every_step : forall cs1 cs2,
    legal (map to_spec (cs1 ++ cs2)) ->
    exists s c c', s_run s_init (map to_spec cs1) = Some s /\
                   t_run t_init cs1 = Ok c /\ assertions c = Ok (c', live_assertions s).
  Proof.
    intros cs1 cs2 L. rewrite map_app in L. apply legal_prefix in L. unfold legal in L.
    destruct (s_run s_init (map to_spec cs1)) as [s|] eqn:E; [|congruence].
    destruct (solver_tracks_live cs1 s E) as (c & c' & H1 & H2).
    exists s, c, c'. repeat split; assumption.
  Qed.

  (* one-shot queries (solve, solve under assumptions, is_sat, is_valid, is_unsat) after any
     legal history: they succeed and `assertions` reads the same list after as before *)
  Theorem oneshot_restores : forall cs q,
    legal (map to_spec cs) -> oneshot q = true ->
    exists c c1 a c2 c3, t_run t_init cs = Ok c /\ assertions c = Ok (c1, a) /\
                         t_step c q = Ok c2 /\ assertions c2 = Ok (c3, a).
  Proof.
    intros cs q L Q. unfold legal in L.
    destruct (s_run s_init (map to_spec cs)) as [s|] eqn:E; [|congruence].
    destruct (run_refines cs s_init t_init s (clean_Rel _ _ init_clean) E) as (c & Ec & R).
    destruct (observe_Rel s c R) as (c1 & O1 & _).
    assert (S : s_step s (to_spec q) = Some s) by (destruct q; try discriminate; reflexivity).
    destruct (step_refines s c q s R S) as (c2 & E2 & R2).
    destruct (observe_Rel s c2 R2) as (c3 & O3 & _).
    exists c, c1, (live_assertions s), c2, c3. repeat split; assumption.
  Qed.
End Proofs.

(* the hypotheses are satisfiable by non-trivial histories *)
Definition example_history : list (scmd nat) :=
  [SAdd 0; SPush 2; SAdd 1; SIsSat 7; SIsValidUnk 6; SSolve (Some 5); SPop 1; SObserve; SReset; SPush 1; SAdd 2;
   SIsValid 3; SPop 1; SAdd 4].
Example solver_legal_history :
  s_run s_init (map to_spec example_history) = Some ([IAssert 4], []) /\
  exists c, t_run S t_init example_history = Ok c /\ assertions c = Ok (mkT [4] [1] false, [4]).
Proof.
  split; [vm_compute; reflexivity|].
  exists (mkT [4] [1] false). split; vm_compute; reflexivity.
Qed.
