(* Theorems about models/SmtLex.v (the Tokenizer model): on plain tokens separated by blanks the
   tokens come back; the source-carrying variant yields the same tokens.  (Part 1 of the C08 proofs,
   in its own file so that it depends on nothing but the lexer model.) *)
From Coq Require Import List ZArith Bool String Ascii Lia.
From PySMT.models Require Import SmtLex RoundTrip.
Import ListNotations.
Open Scope string_scope.

(* ------------------------------------------------------------------------- 1. the tokenizer *)
Definition plain_char (c : ascii) : bool := negb (is_special c).
Definition plain_tok (t : string) : Prop :=
  t = "(" \/ t = ")" \/
  (t <> "" /\ forallb plain_char (list_ascii_of_string t) = true).

Lemma string_of_rev_spec : forall l acc,
  string_of_rev l acc = (string_of_list_ascii (rev l) ++ acc)%string.
Proof.
  induction l as [|c l IH]; intros acc; cbn [string_of_rev rev].
  - reflexivity.
  - rewrite IH. clear IH. induction (rev l) as [|d r IHr]; cbn.
    + reflexivity.
    + now rewrite IHr.
Qed.

Lemma tok_of_rev (cs : list ascii) : tok_of (rev cs) = string_of_list_ascii cs.
Proof.
  unfold tok_of. rewrite string_of_rev_spec, rev_involutive.
  induction (string_of_list_ascii cs) as [|c s IH]; cbn; [reflexivity | now rewrite IH].
Qed.

Lemma emit_none r : emit None r = r.
Proof. reflexivity. Qed.

Lemma lex_go_tok : forall cs acc rest,
  forallb plain_char cs = true ->
  lex_go (MTok acc) (cs ++ " "%char :: rest)%list =
  emit (Some (tok_of (rev cs ++ acc)%list)) (lex_go MTop rest).
Proof.
  induction cs as [|c cs IH]; intros acc rest Hp.
  - reflexivity.
  - cbn [forallb] in Hp. apply andb_true_iff in Hp. destruct Hp as [Hc Hcs].
    unfold plain_char in Hc. apply negb_true_iff in Hc.
    cbn [app lex_go]. rewrite Hc. rewrite (IH (c :: acc) rest Hcs).
    cbn [rev]. now rewrite <- app_assoc.
Qed.

Lemma top_step_plain c : is_special c = false -> top_step c = (MTok [c], None).
Proof.
  unfold is_special, is_separator, top_step. intros H.
  apply orb_false_iff in H. destruct H as [H Hsemi].
  apply orb_false_iff in H. destruct H as [Hsp Hsep].
  apply orb_false_iff in Hsep. destruct Hsep as [Hsep Hdq].
  apply orb_false_iff in Hsep. destruct Hsep as [Hsep Hbar].
  apply orb_false_iff in Hsep. destruct Hsep as [Hlp Hrp].
  now rewrite Hsp, Hbar, Hdq, Hlp, Hrp, Hsemi.
Qed.

Lemma lex_go_plain_token t rest :
  plain_tok t ->
  lex_go MTop (list_ascii_of_string t ++ " "%char :: rest)%list = emit (Some t) (lex_go MTop rest).
Proof.
  intros [-> | [-> | [Hne Hp]]]; [reflexivity | reflexivity |].
  destruct t as [|c s]; [congruence|].
  cbn [list_ascii_of_string app forallb] in *.
  apply andb_true_iff in Hp. destruct Hp as [Hc Hs].
  unfold plain_char in Hc. apply negb_true_iff in Hc.
  cbn [lex_go]. rewrite (top_step_plain c Hc). rewrite emit_none.
  rewrite (lex_go_tok _ [c] rest Hs).
  replace (rev (list_ascii_of_string s) ++ [c])%list with (rev (c :: list_ascii_of_string s)) by reflexivity.
  rewrite tok_of_rev. cbn [string_of_list_ascii]. now rewrite string_of_list_ascii_of_string.
Qed.

Theorem lex_agrees_partial : forall toks,
  Forall plain_tok toks -> lex (render_sp toks) = (toks, LexEof).
Proof.
  unfold lex. induction 1 as [|t r Ht _ IH]; [reflexivity|].
  cbn [render_sp]. rewrite (lex_go_plain_token t _ Ht), IH. reflexivity.
Qed.

Example lex_agrees_example :
  Forall plain_tok ["("; "assert"; "("; "bvult"; "#b01"; "x"; ")"; ")"].
Proof.
  repeat (constructor;
          [first [now left | now (right; left) | (right; right; split; [discriminate | reflexivity])] |]).
  constructor.
Qed.

(* the tokenizer with sources (what parse_chars runs) yields the same tokens *)
Definition proj_src (x : list (string * list ascii) * lex_end) : list string * lex_end :=
  (map fst (fst x), snd x).
Lemma proj_emit o r x : proj_src (emit_src o r x) = emit o (proj_src x).
Proof. destruct o; reflexivity. Qed.
Lemma lex_src_go_tokens : forall cs m, proj_src (lex_src_go m cs) = lex_go m cs.
Proof.
  induction cs as [|c r IH]; intros m; [reflexivity|].
  destruct m; cbn [lex_go lex_src_go];
    repeat match goal with
           | |- context [let (_, _) := top_step ?x in _] => destruct (top_step x)
           | |- context [if ?b then _ else _] => destruct b
           end;
    rewrite ?proj_emit, ?IH; try reflexivity; rewrite ?proj_emit, ?IH; reflexivity.
Qed.
Theorem lex_src_tokens cs : proj_src (lex_src cs) = lex cs.
Proof. apply lex_src_go_tokens. Qed.

(* quoted symbols: the bars are dropped (so |abc| and abc are the same token - as in the standard -
   but also |5| and 5, |(| and the parenthesis: see quoted_numeral_refuted) *)
Lemma lex_quoted_drops_bars :
  lex_string "(assert |(|)" = lex_string "(assert ()".
Proof. reflexivity. Qed.

