(* Theorems about the Portfolio protocol model, for EVERY configuration (any number of members,
   any behaviours, any query script) and EVERY schedule (induction on the schedule). *)
From Coq Require Import List Bool Arith PeanoNat Lia.
From PySMT.models Require Import Portfolio.
Import ListNotations.
Open Scope bool_scope.

(* ------------------------------------------------------------------------------------ *)
(* basic facts                                                                           *)

Lemma upd_same i f k : upd i f k i = f (k i).
Proof. unfold upd. now rewrite Nat.eqb_refl. Qed.

Lemma upd_other i j f k : j <> i -> upd i f k j = k j.
Proof. intros H. unfold upd. destruct (Nat.eqb_spec j i); congruence. Qed.

Lemma run_from_app c s a b : run_from c s (a ++ b) = run_from c (run_from c s a) b.
Proof. unfold run_from. apply fold_left_app. Qed.

(* an invariant preserved by every enabled step holds after every schedule *)
Lemma run_invariant (c : config) (P : state -> Prop) :
  (forall s l s', P s -> step c s l = Some s' -> P s') ->
  forall sched s, P s -> P (run_from c s sched).
Proof.
  intros Hstep. induction sched as [|l r IH]; intros s Hs; cbn; auto.
  apply IH. unfold step_or_stay. destruct (step c s l) eqn:E; eauto.
Qed.

Lemma in_all_idx c i : In i (all_idx c) <-> i < length (members c).
Proof. unfold all_idx. rewrite in_seq. lia. Qed.

Lemma nth_error_lt {A} (l : list A) i x : nth_error l i = Some x -> i < length l.
Proof. intros H. apply nth_error_Some. congruence. Qed.

Lemma in_labels_child c i : i < length (members c) -> In (LChild i) (labels c).
Proof.
  intros H. unfold labels. right. apply in_flat_map. exists i. split.
  - now apply in_all_idx.
  - cbn; auto.
Qed.

Lemma in_labels_parent c : In LParent (labels c).
Proof. unfold labels. now left. Qed.

Lemma stuck_disabled c s l : stuck c s = true -> In l (labels c) -> step c s l = None.
Proof.
  unfold stuck. rewrite forallb_forall. intros H Hin. specialize (H l Hin).
  unfold enabled in H. destruct (step c s l); [discriminate|reflexivity].
Qed.

Lemma NoDup_app_single {A} (l : list A) x : NoDup l -> ~ In x l -> NoDup (l ++ [x]).
Proof.
  induction l as [|y r IH]; intros Hnd Hni; cbn.
  - constructor; [intros []|constructor].
  - inversion Hnd; subst. constructor.
    + intros Hin. apply in_app_or in Hin. destruct Hin as [Hin|[<-|[]]]; auto. apply Hni. now left.
    + apply IH; auto. intros Hin. apply Hni. now right.
Qed.

Lemma NoDup_app_remove_r {A} (l l' : list A) : NoDup (l ++ l') -> NoDup l.
Proof.
  induction l as [|y r IH]; intros H; [constructor|]. cbn in H. inversion H; subst. constructor.
  - intros Hin. apply H2. apply in_or_app. now left.
  - auto.
Qed.

Definition msg_idx (m : qmsg) : nat := match m with MAns i _ => i | MExc i => i end.

(* ------------------------------------------------------------------------------------ *)
(* vocabulary                                                                            *)

Definition ans_of (c : config) (i : nat) (b : bool) : Prop := nth_error (members c) i = Some (BAns b).
Definition answerer (c : config) (i : nat) : Prop := exists b, ans_of c i b.
Definition raiser (c : config) (i : nat) : Prop :=
  exists bh, nth_error (members c) i = Some bh /\ raises bh = true.

(* the members that answer agree on b *)
Definition agree (c : config) (b : bool) : Prop := forall i b', ans_of c i b' -> b' = b.

(* ------------------------------------------------------------------------------------ *)
(* Invariant 1 (every configuration): whatever travels or is recorded comes from a member
   with the matching behaviour.                                                          *)

Definition par_ok (c : config) (p : ppc) : Prop :=
  match p with
  | PWait seen => forall i, In i seen -> raiser c i
  | PDead => True
  | PTerm w b _ | PIdle w b _ | PAwait w b _ _ | PFinal w b => ans_of c w b
  | PRaise i _ | PErr i => raiser c i
  end.

Definition msg_ok (c : config) (m : qmsg) : Prop :=
  match m with MAns i b => ans_of c i b | MExc i => raiser c i end.

Definition serving (k : child) : Prop := pc k = CServe \/ exists q, pc k = CReply q.

Record safe (c : config) (s : state) : Prop := mkSafe {
  s_queue : forall m, In m (queue s) -> msg_ok c m;
  s_par : par_ok c (par s);
  s_serve : forall i, serving (kids s i) -> answerer c i;
  s_cr : forall i q, In (i, q) (cr s) -> answerer c i;
  s_resp : forall i, In i (resp s) -> answerer c i
}.

Lemma safe_init c : safe c (init c).
Proof.
  constructor; cbn; try tauto.
  intros i [H|[q H]]; discriminate.
Qed.

Lemma raiser_not_answerer c i : raiser c i -> answerer c i -> False.
Proof.
  intros (bh & Hbh & Hr) [b Hb]. unfold ans_of in Hb. rewrite Hbh in Hb. inversion Hb; subst. discriminate.
Qed.

Ltac inv_some :=
  match goal with
  | H : Some _ = Some _ |- _ => injection H as H; subst
  | H : None = Some _ |- _ => discriminate H
  end.

Lemma serving_upd_inv s i j p :
  serving (upd i (setpc p) (kids s) j) -> (j = i /\ serving (mkChild p false)) \/ (j <> i /\ serving (kids s j)).
Proof.
  intros H. destruct (Nat.eq_dec j i) as [->|Hne].
  - left. split; auto. rewrite upd_same in H. unfold serving, setpc in *. cbn in *. exact H.
  - right. split; auto. now rewrite upd_other in H.
Qed.

Lemma serving_setpend s i j : serving (upd i setpend (kids s) j) -> serving (kids s j).
Proof.
  destruct (Nat.eq_dec j i) as [->|Hne].
  - rewrite upd_same. unfold serving, setpend. cbn. auto.
  - now rewrite upd_other.
Qed.

Lemma safe_step c s l s' : safe c s -> step c s l = Some s' -> safe c s'.
Proof.
  intros [Hq Hp Hs Hc Hr] Hstep. destruct l as [|i|i]; cbn in Hstep.
  - (* parent *)
    unfold parent_step in Hstep.
    destruct (par s) as [seen|w b todo|e todo|w b rest|w b q rest|e| |w b] eqn:Epar.
    + destruct (queue s) as [|m r] eqn:Eq.
      { destruct (forallb _ (all_idx c)); inv_some. constructor; cbn; auto. }
      assert (Hm : msg_ok c m) by (apply Hq; now left).
      assert (Hr' : forall m', In m' r -> msg_ok c m') by (intros m' Hin; apply Hq; now right).
      destruct m as [i b|i].
      * inv_some. constructor; cbn; auto.
      * destruct (eoe c || Nat.eqb (S (length seen)) (length (members c))); inv_some; constructor; cbn; auto.
        cbn in Hp. intros j [<-|Hj]; auto.
    + destruct todo as [|j t]; inv_some; constructor; cbn; auto.
      destruct (Nat.eqb j w); auto. intros i Hi. apply Hs. eapply serving_setpend; eauto.
    + destruct todo as [|j t]; inv_some; constructor; cbn; auto.
      intros i Hi. apply Hs. eapply serving_setpend; eauto.
    + destruct rest as [|q t]; inv_some; constructor; cbn; auto.
      intros i Hi. apply Hs. eapply serving_setpend; eauto.
    + destruct (cr s) as [|[i q'] r] eqn:Ecr; [discriminate|]. inv_some.
      constructor; cbn; auto.
      * intros i0 q0 Hin. apply (Hc i0 q0). now right.
      * intros i0 [<-|Hin]; auto. apply (Hc i q'). now left.
    + discriminate.
    + discriminate.
    + discriminate.
  - (* child *)
    unfold child_step in Hstep.
    destruct (nth_error (members c) i) as [bh|] eqn:Em; [|discriminate].
    destruct (pend (kids s i) && negb (latency c)); [discriminate|].
    destruct (pc (kids s i)) as [| |q| |] eqn:Epc.
    + destruct bh as [b| | |]; inv_some; constructor; cbn; auto.
      * intros m Hin. apply in_app_or in Hin. destruct Hin as [Hin|[<-|[]]]; auto; try exact Em.
      * intros j Hj. apply serving_upd_inv in Hj. destruct Hj as [[-> _]|[_ Hj]]; auto. now exists b.
      * intros m Hin. apply in_app_or in Hin. destruct Hin as [Hin|[<-|[]]]; auto.
        exists BRaise; auto.
      * intros j Hj. apply serving_upd_inv in Hj. destruct Hj as [[-> [H|[q H]]]|[_ Hj]]; auto; discriminate.
      * intros m Hin. apply in_app_or in Hin. destruct Hin as [Hin|[<-|[]]]; auto.
        exists BUnknown; auto.
      * intros j Hj. apply serving_upd_inv in Hj. destruct Hj as [[-> [H|[q H]]]|[_ Hj]]; auto; discriminate.
      * intros j Hj. apply serving_upd_inv in Hj. destruct Hj as [[-> [H|[q H]]]|[_ Hj]]; auto; discriminate.
    + assert (Hi : answerer c i) by (apply Hs; left; exact Epc).
      destruct (cq s) as [|[q|] r]; [discriminate| |]; inv_some; constructor; cbn; auto;
        intros j Hj; apply serving_upd_inv in Hj; destruct Hj as [[-> _]|[_ Hj]]; auto.
    + assert (Hi : answerer c i) by (apply Hs; right; eexists; exact Epc).
      inv_some. constructor; cbn; auto.
      * intros j Hj. apply serving_upd_inv in Hj. destruct Hj as [[-> _]|[_ Hj]]; auto.
      * intros j q0 Hin. apply in_app_or in Hin. destruct Hin as [Hin|[E|[]]]; eauto. now inversion E; subst.
    + discriminate.
    + discriminate.
  - (* kill *)
    unfold kill_step in Hstep.
    destruct (nth_error (members c) i); [|discriminate].
    destruct (pend (kids s i) && alive (kids s i)); inv_some.
    constructor; cbn; auto.
    intros j Hj. apply serving_upd_inv in Hj. destruct Hj as [[-> [H|[q H]]]|[_ Hj]]; auto; discriminate.
Qed.

Lemma safe_run c sched : safe c (run c sched).
Proof. unfold run. apply run_invariant; [apply safe_step | apply safe_init]. Qed.

(* ------------------------------------------------------------------------------------ *)
(* verdict_agreed / failures_ignored / model_from_winner (first half)                     *)

(* whenever _solve has returned, it returned the answer of the member it kept *)
Theorem verdict_from_member : forall c sched w b,
  returned (run c sched) = Some (w, b) -> ans_of c w b.
Proof.
  intros c sched w b H. pose proof (s_par _ _ (safe_run c sched)) as Hp.
  unfold returned in H. destruct (par (run c sched)); try discriminate; inversion H; subst; exact Hp.
Qed.

Theorem verdict_agreed : forall c b, agree c b ->
  forall sched w b', returned (run c sched) = Some (w, b') -> b' = b.
Proof. intros c b Ha sched w b' H. apply (Ha w). eapply verdict_from_member; eauto. Qed.

(* non-vacuity: a race between an answering, a raising, an unknown and a silent member *)
Example verdict_agreed_example :
  let c := mkCfg [BRaise; BAns true; BUnknown; BAns true; BExit] false false [QModel] in
  agree c true /\
  returned (run c [LChild 0; LChild 3; LChild 1; LParent; LParent; LParent; LParent; LParent; LParent; LParent; LParent]) = Some (3, true).
Proof.
  split; [|reflexivity].
  intros i b' H. unfold ans_of in H. cbn in H.
  do 5 (destruct i as [|i]; cbn in H; [congruence|]). destruct i; discriminate.
Qed.

(* ------------------------------------------------------------------------------------ *)
(* the failure counter: `failed == len(processes)` means that EVERY member reported a failure *)

Definition fails_all (c : config) : Prop :=
  forall i bh, nth_error (members c) i = Some bh -> answers bh = false.

Lemma all_fail_spec c : all_fail c = true <-> fails_all c.
Proof.
  unfold all_fail, fails_all. rewrite forallb_forall. split.
  - intros H i bh Hn. apply nth_error_In in Hn. specialize (H bh Hn). now destruct (answers bh).
  - intros H bh Hin. apply In_nth_error in Hin. destruct Hin as [i Hi]. now rewrite (H i bh Hi).
Qed.

Definition pending_idx (seen : list nat) (s : state) : list nat := seen ++ map msg_idx (queue s).

Definition counted (c : config) (s : state) : Prop :=
  match par s with
  | PWait seen =>
      NoDup (pending_idx seen s) /\ (forall i, In i (pending_idx seen s) -> pc (kids s i) <> CRun)
  | PRaise _ _ | PErr _ => eoe c = true \/ fails_all c
  | _ => True
  end.

(* a duplicate-free list of members that has as many entries as there are members is all of them *)
Lemma full_count_all_fail c l :
  NoDup l -> (forall i, In i l -> raiser c i) -> length l = length (members c) -> fails_all c.
Proof.
  intros Hnd Hr Hlen i bh Hbh.
  assert (Hincl : incl (all_idx c) l).
  { apply NoDup_length_incl; auto.
    - unfold all_idx. rewrite seq_length. lia.
    - intros j Hj. apply in_all_idx. destruct (Hr j Hj) as (bh' & Hb' & _). eapply nth_error_lt; eauto. }
  assert (Hi : In i l) by (apply Hincl, in_all_idx; eapply nth_error_lt; eauto).
  destruct (Hr i Hi) as (bh' & Hb' & Hrs). rewrite Hbh in Hb'. inversion Hb'; subst. now destruct bh'.
Qed.

Lemma counted_init c : counted c (init c).
Proof. cbn. split; [constructor | intros i []]. Qed.

Lemma pc_upd_not_run s i p j :
  p <> CRun -> pc (kids s j) <> CRun -> pc (upd i (setpc p) (kids s) j) <> CRun.
Proof.
  intros Hp H. destruct (Nat.eq_dec j i) as [->|Hn]; [rewrite upd_same; exact Hp | rewrite upd_other; auto].
Qed.

Lemma counted_step c s l s' : safe c s -> counted c s -> step c s l = Some s' -> counted c s'.
Proof.
  intros Hsafe Hc Hstep. unfold counted in Hc. destruct l as [|i|i]; cbn in Hstep.
  - unfold parent_step in Hstep.
    destruct (par s) as [seen|w b todo|e todo|w b rest|w b q rest|e| |w b] eqn:Epar.
    + destruct Hc as [Hnd Hnr]. unfold pending_idx in *.
      destruct (queue s) as [|m r] eqn:Eq.
      { destruct (forallb _ (all_idx c)); inv_some. exact I. }
      destruct m as [i b|i]; [inv_some; exact I|].
      cbn [map msg_idx] in Hnd, Hnr.
      assert (Hnd' : NoDup (i :: seen ++ map msg_idx r)).
      { constructor; [apply (NoDup_remove_2 _ _ _ Hnd) | apply (NoDup_remove_1 _ _ _ Hnd)]. }
      assert (Hri : raiser c i) by (apply (s_queue _ _ Hsafe (MExc i)); rewrite Eq; now left).
      pose proof (s_par _ _ Hsafe) as Hp. rewrite Epar in Hp. cbn in Hp.
      destruct (eoe c) eqn:Ee; cbn [orb] in Hstep.
      * inv_some. unfold counted; cbn. now left.
      * destruct (Nat.eqb_spec (S (length seen)) (length (members c))) as [Hlen|Hlen]; inv_some; unfold counted; cbn.
        -- right. apply (full_count_all_fail c (i :: seen)); auto.
           ++ inversion Hnd' as [|? ? Hx Hr]; subst. constructor.
              ** intros Hin. apply Hx. apply in_or_app. now left.
              ** eapply NoDup_app_remove_r; eauto.
           ++ intros j [<-|Hj]; auto.
        -- unfold pending_idx. cbn [kids queue app]. split; [exact Hnd'|].
           intros j Hj. apply Hnr. destruct Hj as [<-|Hj]; [apply in_or_app; right; now left|].
           apply in_app_or in Hj. apply in_or_app. destruct Hj; [left|right; right]; auto.
    + destruct todo; inv_some; exact I.
    + destruct todo; inv_some; exact Hc.
    + destruct rest; inv_some; exact I.
    + destruct (cr s) as [|[? ?] ?]; inv_some; exact I.
    + discriminate.
    + discriminate.
    + discriminate.
  - unfold child_step in Hstep.
    destruct (nth_error (members c) i) as [bh|] eqn:Em; [|discriminate].
    destruct (pend (kids s i) && negb (latency c)); [discriminate|].
    destruct (par s) as [seen|w b todo|e todo|w b rest|w b q rest|e| |w b] eqn:Epar;
      try (destruct (pc (kids s i)); [destruct bh| destruct (cq s) as [|[|] ?] | | |]; try discriminate; inv_some;
           unfold counted; cbn [par]; exact Hc).
    destruct Hc as [Hnd Hnr]. unfold pending_idx in *.
    destruct (pc (kids s i)) as [| |q| |] eqn:Epc.
    + assert (Hni : ~ In i (seen ++ map msg_idx (queue s))) by (intros Hin; apply (Hnr i Hin); exact Epc).
      assert (Hnd' : NoDup (seen ++ map msg_idx (queue s) ++ [i])).
      { rewrite app_assoc. apply NoDup_app_single; auto. }
      assert (Hput : forall p m, p <> CRun -> msg_idx m = i ->
                counted c (mkSt (upd i (setpc p) (kids s)) (queue s ++ [m]) (cq s) (cr s) (PWait seen) (resp s))).
      { intros p m Hp Hm. unfold counted, pending_idx; cbn [par kids queue]. rewrite map_app. cbn [map]. rewrite Hm.
        split; [exact Hnd'|]. intros j Hj. rewrite app_assoc in Hj. apply in_app_or in Hj.
        destruct Hj as [Hj|[<-|[]]]; [apply pc_upd_not_run; auto | rewrite upd_same; exact Hp]. }
      destruct bh as [b| | |]; inv_some; try (apply Hput; [discriminate | reflexivity]).
      unfold counted, pending_idx; cbn [par kids queue]. split; auto.
      intros j Hj; apply pc_upd_not_run; [discriminate | auto].
    + destruct (cq s) as [|[q|] r]; [discriminate| |]; inv_some; unfold counted, pending_idx; cbn [par kids queue];
        (split; [auto|]); intros j Hj; (apply pc_upd_not_run; [discriminate | auto]).
    + inv_some. unfold counted, pending_idx; cbn [par kids queue]. split; auto.
      intros j Hj; apply pc_upd_not_run; [discriminate | auto].
    + discriminate.
    + discriminate.
  - unfold kill_step in Hstep.
    destruct (nth_error (members c) i) as [bh0|]; [|discriminate].
    destruct (pend (kids s i) && alive (kids s i)); inv_some.
    unfold counted; cbn [par].
    destruct (par s) as [seen|w b todo|e todo|w b rest|w b q rest|e| |w b] eqn:Epar; auto.
    destruct Hc as [Hnd Hnr]. unfold pending_idx in *. cbn [kids queue]. split; auto.
    intros j Hj; apply pc_upd_not_run; [discriminate | auto].
Qed.

Lemma safe_counted_run c sched : safe c (run c sched) /\ counted c (run c sched).
Proof.
  unfold run. apply (run_invariant c (fun s => safe c s /\ counted c s)).
  - intros s l s' [Hs Hc] Hstep. split; [eapply safe_step; eauto | eapply counted_step; eauto].
  - split; [apply safe_init | apply counted_init].
Qed.

(* failures_ignored: with exit_on_exception off, the call turns into a member's error only
   when EVERY member failed - never while another member answers *)
Theorem failures_ignored : forall c, eoe c = false ->
  forall sched i, par (run c sched) = PErr i -> all_fail c = true.
Proof.
  intros c He sched i E. destruct (safe_counted_run c sched) as [_ Hc].
  unfold counted in Hc. rewrite E in Hc. apply all_fail_spec. destruct Hc; [congruence|auto].
Qed.

(* an error is always the exception of a member that did raise / answer unknown, and it is
   raised either because exit_on_exception asks for it or because nobody is left *)
Theorem error_only_from_failure : forall c sched i,
  par (run c sched) = PErr i -> raiser c i /\ (eoe c = true \/ all_fail c = true).
Proof.
  intros c sched i E. destruct (safe_counted_run c sched) as [Hs Hc].
  pose proof (s_par _ _ Hs) as Hp. rewrite E in Hp. split; [exact Hp|].
  unfold counted in Hc. rewrite E in Hc. destruct Hc; [now left | right; now apply all_fail_spec].
Qed.

(* every reply the parent consumed for get_model / get_value came from a member that answered;
   if the answering members agree, that member answered exactly the verdict _solve returned *)
Theorem model_from_answerer : forall c sched i,
  In i (resp (run c sched)) -> answerer c i.
Proof. intros c sched i H. exact (s_resp _ _ (safe_run c sched) i H). Qed.

Theorem model_from_agreeing_member : forall c b, agree c b ->
  forall sched w b' i, returned (run c sched) = Some (w, b') -> In i (resp (run c sched)) ->
  ans_of c i b' /\ b' = b.
Proof.
  intros c b Ha sched w b' i Hret Hin.
  assert (b' = b) by (eapply verdict_agreed; eauto). subst b'.
  destruct (model_from_answerer c sched i Hin) as [bi Hbi].
  rewrite <- (Ha i bi Hbi). auto.
Qed.

(* ------------------------------------------------------------------------------------ *)
(* Invariant 2 (latency c = false): channel discipline of the single control pipe.        *)

Definition nobody_pend (s : state) : Prop := forall j, pend (kids s j) = false.
Definition quiet (s : state) : Prop :=
  cq s = [] /\ cr s = [] /\ resp s = [] /\ forall j q, pc (kids s j) <> CReply q.
Definition losers_pend (c : config) (s : state) (w : nat) (todo : list nat) : Prop :=
  forall j, j < length (members c) -> j <> w -> In j todo \/ pend (kids s j) = true.
Definition winner_ready (s : state) (w : nat) : Prop :=
  pc (kids s w) = CServe /\ pend (kids s w) = false.
Definition resp_all (s : state) (w : nat) : Prop := forall i, In i (resp s) -> i = w.

Definition good (c : config) (s : state) : Prop :=
  match par s with
  | PWait _ =>
      nobody_pend s /\ quiet s /\
      (forall i b, In (MAns i b) (queue s) -> pc (kids s i) = CServe) /\
      (forall i, i < length (members c) ->
         pc (kids s i) = CRun \/ (pc (kids s i) = CDone /\ ~ answerer c i) \/ exists b, In (MAns i b) (queue s))
  | PTerm w b todo => quiet s /\ winner_ready s w /\ losers_pend c s w todo
  | PDead => fails_all c
  | PRaise _ _ | PErr _ => True
  | PIdle w b rest =>
      cq s = [] /\ cr s = [] /\ winner_ready s w /\ losers_pend c s w [] /\ resp_all s w
  | PAwait w b q rest =>
      losers_pend c s w [] /\ pend (kids s w) = false /\ resp_all s w /\
      ((cq s = [WQuery q] /\ cr s = [] /\ pc (kids s w) = CServe) \/
       (cq s = [] /\ cr s = [] /\ pc (kids s w) = CReply q) \/
       (cq s = [] /\ cr s = [(w, q)] /\ pc (kids s w) = CServe))
  | PFinal w b => resp_all s w
  end.

Lemma good_init c : good c (init c).
Proof.
  cbn. repeat split; try reflexivity; try (intros; discriminate); try tauto; auto.
Qed.

Lemma pc_setpend k : pc (setpend k) = pc k. Proof. reflexivity. Qed.
Lemma pend_setpc p k : pend (setpc p k) = pend k. Proof. reflexivity. Qed.

Lemma quiet_kids s kids' q1 :
  quiet s -> (forall j q, pc (kids' j) <> CReply q) ->
  quiet (mkSt kids' q1 (cq s) (cr s) (par s) (resp s)).
Proof. intros (A & B & C & D) H. repeat split; auto. Qed.

Lemma losers_pend_upd_pc c s w todo i p :
  losers_pend c s w todo ->
  forall q1 q2 q3 p4 r5, losers_pend c (mkSt (upd i (setpc p) (kids s)) q1 q2 q3 p4 r5) w todo.
Proof.
  intros H q1 q2 q3 p4 r5 j Hj Hne. cbn. destruct (H j Hj Hne) as [Hin|Hp]; auto. right.
  destruct (Nat.eq_dec j i) as [->|Hji].
  - rewrite upd_same. exact Hp.
  - rewrite upd_other; auto.
Qed.

Ltac proj := cbn [kids queue cq cr par resp pc pend setpc setpend].

Lemma good_step c s l s' :
  latency c = false -> safe c s -> good c s -> step c s l = Some s' -> good c s'.
Proof.
  intros Hlat Hsafe Hg Hstep. unfold good in Hg. destruct l as [|i|i]; cbn in Hstep.
  - (* ---------------- parent ---------------- *)
    unfold parent_step in Hstep.
    destruct (par s) as [seen|w b todo|e todo|w b rest|w b q rest|e| |w b] eqn:Epar.
    + destruct Hg as (Hnp & Hquiet & Hserve & Hlive).
      destruct (queue s) as [|m r] eqn:Eq.
      { (* the liveness poll: nobody is alive, nothing is queued: every member failed *)
        destruct (forallb (fun i => negb (alive (kids s i))) (all_idx c)) eqn:Eall; inv_some.
        unfold good; proj. intros i bh Hbh.
        assert (Hi : i < length (members c)) by (eapply nth_error_lt; eauto).
        rewrite forallb_forall in Eall. specialize (Eall i (proj2 (in_all_idx c i) Hi)).
        destruct (Hlive i Hi) as [Hrun|[[Hdone Hna]|[b []]]].
        - unfold alive in Eall. rewrite Hrun in Eall. discriminate.
        - destruct bh; auto. exfalso. apply Hna. eexists; exact Hbh. }
      destruct m as [i b|i].
      * inv_some. unfold good; proj. split; [|split].
        -- destruct Hquiet as (A & B & C & D). repeat split; auto.
        -- split; [apply (Hserve i b); now left | apply Hnp].
        -- intros j Hj _. left. now apply in_all_idx.
      * destruct (eoe c || Nat.eqb (S (length seen)) (length (members c))); inv_some; unfold good; proj; auto.
        split; [exact Hnp|]. split; [destruct Hquiet as (A & B & C & D); repeat split; auto|].
        split.
        -- intros i0 b0 Hin. apply (Hserve i0 b0). now right.
        -- intros i0 Hi0. destruct (Hlive i0 Hi0) as [H|[H|[b0 [E|Hin]]]]; auto; [discriminate|].
           right; right. exists b0. exact Hin.
    + destruct Hg as (Hquiet & Hw & Hlos).
      destruct todo as [|j t]; inv_some; unfold good; proj.
      * destruct Hquiet as (A & B & C & D). repeat split; auto; try apply Hw.
        intros i Hin. rewrite C in Hin. destruct Hin.
      * destruct (Nat.eqb_spec j w) as [->|Hjw].
        -- split; [exact Hquiet|]. split; [exact Hw|].
           intros j Hj Hne. destruct (Hlos j Hj Hne) as [[->|Hin]|Hp]; auto; congruence.
        -- split; [|split].
           ++ destruct Hquiet as (A & B & C & D). repeat split; auto.
              proj. intros j0 q0. destruct (Nat.eq_dec j0 j) as [->|Hn].
              ** rewrite upd_same, pc_setpend. apply D.
              ** rewrite upd_other; auto.
           ++ unfold winner_ready; proj. rewrite upd_other; auto.
           ++ intros j0 Hj0 Hne. proj. destruct (Nat.eq_dec j0 j) as [->|Hn].
              ** right. now rewrite upd_same.
              ** rewrite upd_other; auto. destruct (Hlos j0 Hj0 Hne) as [[->|Hin]|Hp]; auto; congruence.
    + destruct todo; inv_some; unfold good; proj; auto.
    + destruct Hg as (Hcq & Hcr & Hw & Hlos & Hresp).
      destruct rest as [|q t]; inv_some; unfold good; proj; auto.
      split; [exact Hlos|]. split; [apply Hw|]. split; [exact Hresp|].
      left. rewrite Hcq. repeat split; auto. apply Hw.
    + destruct Hg as (Hlos & Hpw & Hresp & Hcases).
      destruct (cr s) as [|[i q'] r] eqn:Ecr; [discriminate|]. inv_some.
      destruct Hcases as [(_ & B & _)|[(_ & B & _)|(A & B & C)]]; try discriminate.
      inversion B; subst. unfold good; proj. repeat split; auto.
      intros i [<-|Hin]; auto.
    + discriminate.
    + discriminate.
    + discriminate.
  - (* ---------------- child ---------------- *)
    unfold child_step in Hstep.
    destruct (nth_error (members c) i) as [bh|] eqn:Em; [|discriminate].
    assert (Hilt : i < length (members c)) by (eapply nth_error_lt; eauto).
    rewrite Hlat in Hstep. cbn [negb] in Hstep. rewrite andb_true_r in Hstep.
    destruct (pend (kids s i)) eqn:Epend; [discriminate|].
    destruct (par s) as [seen|w b todo|e todo|w b rest|w b q rest|e| |w b] eqn:Epar.
    + (* PWait *)
      destruct Hg as (Hnp & Hquiet & Hserve & Hlive).
      destruct (pc (kids s i)) as [| |q| |] eqn:Epc.
      * assert (Hnoans : forall b0, ~ In (MAns i b0) (queue s))
          by (intros b0 Hin; specialize (Hserve i b0 Hin); congruence).
        assert (Hkeep : forall j q0, pc (upd i (setpc CServe) (kids s) j) <> CReply q0 /\
                                     pc (upd i (setpc CDone) (kids s) j) <> CReply q0).
        { destruct Hquiet as (_ & _ & _ & D). intros j q0.
          destruct (Nat.eq_dec j i) as [->|Hn]; [rewrite !upd_same; proj; split; discriminate|].
          rewrite !upd_other; auto. }
        assert (Hnp' : forall p, nobody_pend (mkSt (upd i (setpc p) (kids s)) [] [] [] (PWait seen) [])).
        { intros p j. proj. destruct (Nat.eq_dec j i) as [->|Hn]; [rewrite upd_same; proj; apply Hnp|].
          rewrite upd_other; auto. }
        (* the three ways of leaving s.solve() without an answer *)
        assert (Hfail : forall qx, (forall b0, In (MAns i b0) qx -> In (MAns i b0) (queue s)) ->
                  (forall j b0, In (MAns j b0) (queue s) -> In (MAns j b0) qx) ->
                  (forall j b0, In (MAns j b0) qx -> In (MAns j b0) (queue s)) ->
                  ~ answerer c i ->
                  good c (mkSt (upd i (setpc CDone) (kids s)) qx (cq s) (cr s) (PWait seen) (resp s))).
        { intros qx Hsub Hmono Hback Hna. unfold good; proj.
          split; [exact (Hnp' CDone)|].
          split; [destruct Hquiet as (A & B & C & D); repeat split; auto; apply Hkeep|].
          split.
          - intros i0 b0 Hin. destruct (Nat.eq_dec i0 i) as [->|Hn]; [exfalso; eapply Hnoans; eauto|].
            rewrite upd_other; eauto.
          - intros i0 Hi0. destruct (Nat.eq_dec i0 i) as [->|Hn].
            + right; left. rewrite upd_same. proj. auto.
            + rewrite upd_other; auto. destruct (Hlive i0 Hi0) as [H|[H|[b0 Hin]]]; auto.
              right; right. exists b0. auto. }
        destruct bh as [b| | |]; inv_some.
        -- unfold good; proj.
           split; [exact (Hnp' CServe)|]. split; [destruct Hquiet as (A & B & C & D); repeat split; auto; apply Hkeep|].
           split.
           ++ intros i0 b0 Hin. destruct (Nat.eq_dec i0 i) as [->|Hn]; [now rewrite upd_same|].
              rewrite upd_other; auto. apply in_app_or in Hin. destruct Hin as [Hin|[E|[]]]; [eauto|].
              inversion E; congruence.
           ++ intros i0 Hi0. destruct (Nat.eq_dec i0 i) as [->|Hn].
              ** right; right. exists b. apply in_or_app; right; now left.
              ** rewrite upd_other; auto. destruct (Hlive i0 Hi0) as [H|[H|[b0 Hin]]]; auto.
                 right; right. exists b0. apply in_or_app; now left.
        -- apply Hfail.
           ++ intros b0 Hin. apply in_app_or in Hin. destruct Hin as [Hin|[E|[]]]; [auto|discriminate].
           ++ intros j b0 Hin. apply in_or_app; now left.
           ++ intros j b0 Hin. apply in_app_or in Hin. destruct Hin as [Hin|[E|[]]]; [auto|discriminate].
           ++ intros [b0 Hb0]. unfold ans_of in Hb0. congruence.
        -- apply Hfail.
           ++ intros b0 Hin. apply in_app_or in Hin. destruct Hin as [Hin|[E|[]]]; [auto|discriminate].
           ++ intros j b0 Hin. apply in_or_app; now left.
           ++ intros j b0 Hin. apply in_app_or in Hin. destruct Hin as [Hin|[E|[]]]; [auto|discriminate].
           ++ intros [b0 Hb0]. unfold ans_of in Hb0. congruence.
        -- apply Hfail; auto.
           intros [b0 Hb0]. unfold ans_of in Hb0. congruence.
      * destruct Hquiet as (A & _). rewrite A in Hstep. discriminate.
      * destruct Hquiet as (_ & _ & _ & D). exfalso. eapply D; eauto.
      * discriminate.
      * discriminate.
    + (* PTerm *)
      destruct Hg as (Hquiet & Hw & Hlos).
      destruct (pc (kids s i)) as [| |q| |] eqn:Epc.
      * assert (Hiw : i <> w) by (intros ->; destruct Hw as [Hw _]; congruence).
        assert (Hkeep : forall p, p = CServe \/ p = CDone -> forall j q0, pc (upd i (setpc p) (kids s) j) <> CReply q0).
        { destruct Hquiet as (_ & _ & _ & D). intros p Hp j q0.
          destruct (Nat.eq_dec j i) as [->|Hn]; [rewrite upd_same; proj; destruct Hp; subst; discriminate|].
          rewrite upd_other; auto. }
        assert (Hw' : forall p q1 q2 q3 p4 r5, winner_ready (mkSt (upd i (setpc p) (kids s)) q1 q2 q3 p4 r5) w).
        { intros. unfold winner_ready; proj. rewrite upd_other; auto. }
        destruct bh as [b0| | |]; inv_some; unfold good; proj;
          (split; [destruct Hquiet as (A & B & C & D); repeat split; auto; apply Hkeep; auto|]);
          (split; [apply Hw'|]); apply losers_pend_upd_pc; exact Hlos.
      * destruct Hquiet as (A & _). rewrite A in Hstep. discriminate.
      * destruct Hquiet as (_ & _ & _ & D). exfalso. eapply D; eauto.
      * discriminate.
      * discriminate.
    + (* PRaise *)
      destruct (pc (kids s i)); [destruct bh| destruct (cq s) as [|[|] ?] | | |]; try discriminate; inv_some;
        unfold good; proj; exact I.
    + (* PIdle *)
      destruct Hg as (Hcq & Hcr & Hw & Hlos & Hresp).
      destruct (Nat.eq_dec i w) as [->|Hiw].
      * destruct Hw as [Hpc _]. rewrite Hpc, Hcq in Hstep. discriminate.
      * destruct (Hlos i Hilt Hiw) as [[]|Hp]. congruence.
    + (* PAwait *)
      destruct Hg as (Hlos & Hpw & Hresp & Hcases).
      destruct (Nat.eq_dec i w) as [->|Hiw].
      * destruct Hcases as [(A & B & C)|[(A & B & C)|(A & B & C)]]; rewrite C in Hstep.
        -- rewrite A in Hstep. inv_some. unfold good; proj.
           split; [apply losers_pend_upd_pc; exact Hlos|]. split; [now rewrite upd_same|].
           split; [exact Hresp|]. right; left. repeat split; auto. now rewrite upd_same.
        -- inv_some. unfold good; proj.
           split; [apply losers_pend_upd_pc; exact Hlos|]. split; [now rewrite upd_same|].
           split; [exact Hresp|]. right; right. rewrite B. repeat split; auto. now rewrite upd_same.
        -- rewrite A in Hstep. discriminate.
      * destruct (Hlos i Hilt Hiw) as [[]|Hp]. congruence.
    + (* PErr *)
      destruct (pc (kids s i)); [destruct bh| destruct (cq s) as [|[|] ?] | | |]; try discriminate; inv_some;
        unfold good; proj; exact I.
    + (* PDead *)
      destruct (pc (kids s i)); [destruct bh| destruct (cq s) as [|[|] ?] | | |]; try discriminate; inv_some;
        unfold good; proj; exact Hg.
    + (* PFinal *)
      destruct (pc (kids s i)); [destruct bh| destruct (cq s) as [|[|] ?] | | |]; try discriminate; inv_some;
        unfold good; proj; exact Hg.
  - (* ---------------- kill ---------------- *)
    unfold kill_step in Hstep.
    destruct (nth_error (members c) i) as [bh|] eqn:Em; [|discriminate].
    destruct (pend (kids s i)) eqn:Epend; [|discriminate]. cbn [andb] in Hstep.
    destruct (alive (kids s i)) eqn:Ealive; inv_some.
    assert (Hnr : forall j q0, pc (kids s j) <> CReply q0 -> pc (upd i (setpc CDead) (kids s) j) <> CReply q0).
    { intros j q0 H. destruct (Nat.eq_dec j i) as [->|Hn]; [rewrite upd_same; proj; discriminate|].
      rewrite upd_other; auto. }
    unfold good; proj.
    destruct (par s) as [seen|w b todo|e todo|w b rest|w b q rest|e| |w b] eqn:Epar; auto.
    + destruct Hg as (Hnp & _). rewrite (Hnp i) in Epend. discriminate.
    + destruct Hg as (Hquiet & Hw & Hlos).
      assert (Hiw : i <> w) by (intros ->; destruct Hw as [_ Hw]; congruence).
      split; [destruct Hquiet as (A & B & C & D); repeat split; auto; proj; intros j0 q0; apply Hnr; apply D|].
      split; [unfold winner_ready; proj; rewrite upd_other; auto|].
      apply losers_pend_upd_pc; exact Hlos.
    + destruct Hg as (Hcq & Hcr & Hw & Hlos & Hresp).
      assert (Hiw : i <> w) by (intros ->; destruct Hw as [_ Hw]; congruence).
      repeat split; auto; try (proj; rewrite upd_other; auto; apply Hw).
      apply losers_pend_upd_pc; exact Hlos.
    + destruct Hg as (Hlos & Hpw & Hresp & Hcases).
      assert (Hiw : i <> w) by (intros ->; congruence).
      split; [apply losers_pend_upd_pc; exact Hlos|]. split; [rewrite upd_other; auto|].
      split; [exact Hresp|]. rewrite upd_other; auto.
Qed.

Lemma safe_good_run c sched : latency c = false -> safe c (run c sched) /\ good c (run c sched).
Proof.
  intros Hlat. unfold run.
  apply (run_invariant c (fun s => safe c s /\ good c s)).
  - intros s l s' [Hs Hg] Hstep. split; [eapply safe_step; eauto | eapply good_step; eauto].
  - split; [apply safe_init | apply good_init].
Qed.

(* model_from_winner: with default signal semantics the member that serves get_model /
   get_value is exactly the member whose verdict _solve returned *)
Theorem model_from_winner : forall c, latency c = false ->
  forall sched w b i, returned (run c sched) = Some (w, b) -> In i (resp (run c sched)) ->
  i = w /\ ans_of c w b.
Proof.
  intros c Hlat sched w b i Hret Hin.
  split; [|eapply verdict_from_member; eauto].
  destruct (safe_good_run c sched Hlat) as [_ Hg]. unfold good in Hg. unfold returned in Hret.
  destruct (par (run c sched)); try discriminate; inversion Hret; subst.
  - destruct Hg as (_ & _ & _ & _ & Hr). auto.
  - destruct Hg as (_ & _ & Hr & _). auto.
  - auto.
Qed.

Example model_from_winner_example :
  let c := mkCfg [BAns true; BAns true] false false [QModel; QValue] in
  let s := run c [LChild 1; LChild 0; LParent; LParent; LParent; LParent; LParent; LChild 1; LChild 1;
                  LParent; LParent; LChild 1; LChild 1; LParent; LParent] in
  returned s = Some (1, true) /\ resp s = [1; 1] /\ final s = true.
Proof. repeat split. Qed.

(* ------------------------------------------------------------------------------------ *)
(* no_stuck_state: absence of reachable deadlock, for EVERY configuration                 *)

Theorem no_stuck_state : forall c, latency c = false ->
  forall sched, stuck c (run c sched) = true -> final (run c sched) = true.
Proof.
  intros c Hlat sched Hstuck.
  destruct (safe_good_run c sched Hlat) as [Hsafe Hg].
  set (s := run c sched) in *.
  pose proof (stuck_disabled c s LParent Hstuck (in_labels_parent c)) as Hpar.
  cbn in Hpar. unfold parent_step in Hpar. unfold good in Hg. unfold final.
  destruct (par s) as [seen|w b todo|e todo|w b rest|w b q rest|e| |w b] eqn:Epar; auto; exfalso.
  - destruct Hg as (Hnp & Hquiet & Hserve & Hlive).
    destruct (queue s) as [|m r] eqn:Eq.
    + (* nothing queued: either a member is still solving (it can move) or the poll fires *)
      destruct (forallb (fun i => negb (alive (kids s i))) (all_idx c)) eqn:Eall; [discriminate|].
      assert (Hex : exists i, In i (all_idx c) /\ alive (kids s i) = true).
      { clear -Eall. induction (all_idx c) as [|x r IH]; cbn in Eall; [discriminate|].
        destruct (alive (kids s x)) eqn:Ea; cbn in Eall.
        - exists x. split; [now left|auto].
        - destruct (IH Eall) as (i & Hi & Hai). exists i. split; [now right|auto]. }
      destruct Hex as (i & Hi & Hai). apply in_all_idx in Hi.
      destruct (Hlive i Hi) as [Hrun|[[Hdone _]|[b []]]].
      * destruct (nth_error (members c) i) as [bh|] eqn:Ebh; [|apply nth_error_None in Ebh; lia].
        pose proof (stuck_disabled c s (LChild i) Hstuck (in_labels_child c i Hi)) as Hc.
        cbn in Hc. unfold child_step in Hc. rewrite Ebh, (Hnp i), Hrun in Hc. cbn in Hc.
        destruct bh; discriminate.
      * unfold alive in Hai. rewrite Hdone in Hai. discriminate.
    + destruct m; [discriminate|]. destruct (eoe c || _); discriminate.
  - destruct todo; discriminate.
  - destruct todo; discriminate.
  - destruct rest; discriminate.
  - destruct Hg as (Hlos & Hpw & Hresp & Hcases).
    pose proof (s_par _ _ Hsafe) as Hp. rewrite Epar in Hp. cbn in Hp.
    pose proof (stuck_disabled c s (LChild w) Hstuck (in_labels_child c w (nth_error_lt _ _ _ Hp))) as Hc.
    cbn in Hc. unfold child_step in Hc. rewrite Hp, Hpw in Hc. cbn in Hc.
    destruct Hcases as [(A & B & C)|[(A & B & C)|(A & B & C)]].
    + rewrite C, A in Hc. discriminate.
    + rewrite C in Hc. discriminate.
    + rewrite B in Hpar. discriminate.
Qed.

Example no_stuck_state_example :
  let c := mkCfg [BRaise; BAns false; BExit] false false [QValue] in
  let s := run c [LChild 0; LChild 2; LParent; LChild 1; LParent; LParent; LParent; LParent; LParent;
                  LParent; LChild 1; LChild 1; LParent; LParent; LChild 1; LKill 0; LKill 1; LKill 2] in
  stuck c s = true /\ outcome_of c s = OVerdict false 1 [1].
Proof. split; reflexivity. Qed.

(* with signal latency the single shared control pipe lets a loser take the query and die *)
Theorem no_stuck_state_latency_refuted :
  exists c sched, latency c = true /\ (forall i, i < length (members c) -> answerer c i) /\
    stuck c (run c sched) = true /\ final (run c sched) = false /\
    outcome_of c (run c sched) = OBlockedQuery true 0 [].
Proof.
  exists (mkCfg [BAns true; BAns true] false true [QModel]).
  exists [LChild 0; LChild 1; LParent; LParent; LParent; LParent; LParent; LChild 1; LKill 1].
  split; [reflexivity|]. split; [|repeat split].
  intros i Hi. cbn in Hi. destruct i as [|[|i]]; [exists true; reflexivity | exists true; reflexivity | lia].
Qed.

(* ... and lets a loser (which answered too) serve the query instead of the survivor *)
Theorem responder_not_winner_under_latency :
  exists c sched, latency c = true /\
    outcome_of c (run c sched) = OVerdict true 0 [1].
Proof.
  exists (mkCfg [BAns true; BAns true] false true [QModel]).
  exists [LChild 0; LChild 1; LParent; LParent; LParent; LParent; LParent; LChild 1; LChild 1; LParent; LParent].
  split; reflexivity.
Qed.

(* ------------------------------------------------------------------------------------ *)
(* all_fail_reports: every member fails -> the call reports an error, it does not block    *)

Definition is_error (s : state) : Prop := (exists i, par s = PErr i) \/ par s = PDead.

Theorem all_fail_reports : forall c, latency c = false -> all_fail c = true ->
  forall sched, stuck c (run c sched) = true -> is_error (run c sched).
Proof.
  intros c Hlat Hf sched Hstuck.
  pose proof (no_stuck_state c Hlat sched Hstuck) as Hfin.
  pose proof (s_par _ _ (safe_run c sched)) as Hp.
  unfold final in Hfin. unfold is_error.
  destruct (par (run c sched)) eqn:E; try discriminate; eauto.
  cbn in Hp. apply all_fail_spec in Hf. specialize (Hf _ _ Hp). discriminate.
Qed.

(* and conversely the "nobody is left" error is never raised while some member answers *)
Theorem no_answer_error_only_if_all_fail : forall c, latency c = false ->
  forall sched, par (run c sched) = PDead -> all_fail c = true.
Proof.
  intros c Hlat sched E. destruct (safe_good_run c sched Hlat) as [_ Hg].
  unfold good in Hg. rewrite E in Hg. now apply all_fail_spec.
Qed.

Example all_fail_reports_examples :
  (let c := mkCfg [BRaise; BUnknown] false false [QModel] in
   all_fail c = true /\
   outcome_of c (run c [LChild 0; LChild 1; LParent; LParent; LParent; LParent; LParent]) = OError 1) /\
  (let c := mkCfg [BExit; BRaise; BExit] false false [] in
   all_fail c = true /\ outcome_of c (run c [LChild 1; LChild 0; LParent; LChild 2; LParent]) = ONoAnswer) /\
  (let c := mkCfg [BExit; BExit] true false [] in
   all_fail c = true /\ outcome_of c (run c [LChild 0; LChild 1; LParent]) = ONoAnswer).
Proof. repeat split. Qed.

(* ------------------------------------------------------------------------------------ *)
(* every enabled step decreases a measure: executions are finite, so absence of deadlock  *)
(* (no_stuck_state) means every maximal execution ends with the call finished              *)

Definition cw (p : cpc) : nat :=
  match p with CRun => 3 | CServe => 1 | CReply _ => 3 | CDone => 0 | CDead => 0 end.
Fixpoint sumw (k : nat -> child) (l : list nat) : nat :=
  match l with [] => 0 | i :: r => cw (pc (k i)) + sumw k r end.
Definition pw (c : config) (p : ppc) : nat :=
  match p with
  | PWait _ => 6 * length (script c) + length (members c) + 7
  | PTerm _ _ todo => length todo + 6 * length (script c) + 6
  | PRaise _ todo => length todo + 1
  | PIdle _ _ rest => 6 * length rest + 5
  | PAwait _ _ _ rest => 6 * length rest + 6
  | PErr _ | PDead | PFinal _ _ => 0
  end.
Definition measure (c : config) (s : state) : nat :=
  pw c (par s) + sumw (kids s) (all_idx c) + length (queue s) + 3 * length (cq s) + length (cr s).

Lemma sumw_upd_notin l i f k : ~ In i l -> sumw (upd i f k) l = sumw k l.
Proof.
  induction l as [|x r IH]; intros H; cbn [sumw]; auto.
  rewrite upd_other by (intros ->; apply H; now left).
  rewrite IH; auto. intros Hin. apply H. now right.
Qed.

Lemma sumw_upd_in l i f k : NoDup l -> In i l ->
  sumw (upd i f k) l + cw (pc (k i)) = sumw k l + cw (pc (f (k i))).
Proof.
  induction l as [|x r IH]; intros Hnd Hin; [destruct Hin|].
  inversion Hnd as [|? ? Hx Hr]; subst. cbn [sumw].
  destruct (Nat.eq_dec x i) as [->|Hne].
  - rewrite upd_same. rewrite (sumw_upd_notin r i f k Hx). lia.
  - destruct Hin as [->|Hin]; [congruence|]. rewrite upd_other by auto.
    specialize (IH Hr Hin). lia.
Qed.

Lemma sumw_upd_samew l i f k : (forall x, cw (pc (f x)) = cw (pc x)) -> sumw (upd i f k) l = sumw k l.
Proof.
  intros H. induction l as [|x r IH]; cbn [sumw]; auto.
  rewrite IH. destruct (Nat.eq_dec x i) as [->|Hne]; [rewrite upd_same, H | rewrite upd_other]; auto.
Qed.

Lemma all_idx_nodup c : NoDup (all_idx c).
Proof. apply seq_NoDup. Qed.

Theorem step_decreases : forall c s l s', step c s l = Some s' -> measure c s' < measure c s.
Proof.
  intros c s l s' Hstep. destruct l as [|i|i]; cbn in Hstep.
  - unfold parent_step in Hstep. unfold measure.
    destruct (par s) as [seen|w b todo|e todo|w b rest|w b q rest|e| |w b] eqn:Epar.
    + assert (Hn : length (all_idx c) = length (members c)) by (unfold all_idx; apply seq_length).
      destruct (queue s) as [|m r] eqn:Eq.
      { destruct (forallb _ (all_idx c)); inv_some. cbn [kids queue cq cr par resp pw length]. lia. }
      destruct m as [i b|i]; [|destruct (eoe c || _)]; inv_some; cbn [kids queue cq cr par resp pw length]; lia.
    + destruct todo as [|j t]; inv_some; cbn [kids queue cq cr par resp pw length]; [lia|].
      destruct (Nat.eqb j w); [lia|].
      rewrite (sumw_upd_samew (all_idx c) j setpend (kids s)) by reflexivity. lia.
    + destruct todo as [|j t]; inv_some; cbn [kids queue cq cr par resp pw length]; [lia|].
      rewrite (sumw_upd_samew (all_idx c) j setpend (kids s)) by reflexivity. lia.
    + destruct rest as [|q t]; inv_some; cbn [kids queue cq cr par resp pw length]; rewrite app_length; cbn [length].
      * rewrite (sumw_upd_samew (all_idx c) w setpend (kids s)) by reflexivity. lia.
      * lia.
    + destruct (cr s) as [|[i q'] r] eqn:Ecr; [discriminate|]. inv_some.
      cbn [kids queue cq cr par resp pw length]. lia.
    + discriminate.
    + discriminate.
    + discriminate.
  - unfold child_step in Hstep.
    destruct (nth_error (members c) i) as [bh|] eqn:Em; [|discriminate].
    assert (Hin : In i (all_idx c)) by (apply in_all_idx; eapply nth_error_lt; eauto).
    destruct (pend (kids s i) && negb (latency c)); [discriminate|].
    unfold measure.
    destruct (pc (kids s i)) as [| |q| |] eqn:Epc.
    + destruct bh as [b| | |]; inv_some; cbn [kids queue cq cr par resp];
        match goal with |- context [upd i ?f (kids s)] =>
          pose proof (sumw_upd_in (all_idx c) i f (kids s) (all_idx_nodup c) Hin) as E end;
        rewrite Epc in E; cbn in E; try rewrite app_length; cbn [length]; lia.
    + destruct (cq s) as [|[q|] r] eqn:Ecq; [discriminate| |]; inv_some; cbn [kids queue cq cr par resp];
        match goal with |- context [upd i ?f (kids s)] =>
          pose proof (sumw_upd_in (all_idx c) i f (kids s) (all_idx_nodup c) Hin) as E end;
        rewrite Epc in E; cbn in E; cbn [length]; lia.
    + inv_some. cbn [kids queue cq cr par resp].
      match goal with |- context [upd i ?f (kids s)] =>
        pose proof (sumw_upd_in (all_idx c) i f (kids s) (all_idx_nodup c) Hin) as E end.
      rewrite Epc in E; cbn in E. rewrite app_length; cbn [length]. lia.
    + discriminate.
    + discriminate.
  - unfold kill_step in Hstep.
    destruct (nth_error (members c) i) as [bh|] eqn:Em; [|discriminate].
    assert (Hin : In i (all_idx c)) by (apply in_all_idx; eapply nth_error_lt; eauto).
    destruct (pend (kids s i)); [|discriminate]. cbn [andb] in Hstep.
    destruct (alive (kids s i)) eqn:Ea; inv_some. unfold measure. cbn [kids queue cq cr par resp].
    pose proof (sumw_upd_in (all_idx c) i (setpc CDead) (kids s) (all_idx_nodup c) Hin) as E.
    unfold alive in Ea. destruct (pc (kids s i)); try discriminate; cbn in E; lia.
Qed.
