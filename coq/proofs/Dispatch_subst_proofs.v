(* Substituter / MGSubstituter / MSSubstituter (pysmt/substituter.py): the dispatch tables
   regenerated from the source against the case analysis of models/Substituter.v:
   quantifiers have their own methods, EVERY other operator goes to the one replace method of the
   concrete class (so the model's single non-quantifier arm is right), and the rebuilding is
   IdentityDagWalker's own-named method for each operator, except FUNCTION, which Substituter overrides
   (the model's [rebuild_fn] looks at function interpretations only there). *)
From Coq Require Import List ZArith Bool String.
From PySMT.core Require Import Syntax.
From PySMT.gen Require Import Operators Dispatch.
From PySMT.models Require Import TypeChecker Oracles Substituter.
From PySMT.proofs Require Import Operators_proofs Dispatch_common.
Import ListNotations.
Open Scope string_scope.

Theorem mgsubst_dispatch_matches_source : forall o,
  mgsubst_dispatch (nt_of_op o) =
  match is_quant o with Some (true, _) => "walk_forall" | Some (false, _) => "walk_exists" | None => "walk_identity_or_replace" end.
Proof. intro o. destruct o; try split_kind; reflexivity. Qed.

Theorem mssubst_dispatch_matches_source : forall o,
  mssubst_dispatch (nt_of_op o) =
  match is_quant o with Some (true, _) => "walk_forall" | Some (false, _) => "walk_exists" | None => "walk_replace" end.
Proof. intro o. destruct o; try split_kind; reflexivity. Qed.

(* is_quant is the translated group QUANTIFIERS *)
Theorem is_quant_is_QUANTIFIERS : forall o,
  (match is_quant o with Some _ => true | None => false end) = nt_in G_QUANTIFIERS (nt_of_op o).
Proof. intro o. destruct o; try split_kind; reflexivity. Qed.

(* the rebuilding step: each operator by the method of its own name, defined by IdentityDagWalker,
   FUNCTION by Substituter.walk_function *)
Theorem subst_dispatch_is_by_name : forall n, subst_dispatch n = default_handler n.
Proof. apply by_table. vm_compute. reflexivity. Qed.

Theorem subst_origin_matches_source : forall n,
  subst_origin n = if nt_eqb n NT_FUNCTION then "Substituter" else "IdentityDagWalker".
Proof. apply by_table. vm_compute. reflexivity. Qed.

Theorem rebuild_fn_only_looks_at_functions : forall ds p o args,
  subst_origin (nt_of_op o) = "IdentityDagWalker" -> rebuild_fn ds p o args = checked (rebuild o args).
Proof.
  intros ds p o args H. destruct o; try split_kind; try reflexivity. vm_compute in H. discriminate H.
Qed.
