(* Theorems about the SmtLibSolver protocol model (wrapper after the C17 fixes a-d), for every
   API history. *)
From Coq Require Import List Bool Arith Lia.
From PySMT.models Require Import SmtLibSolver.
Import ListNotations.
Open Scope bool_scope.

(* ====================================================================== *)
(* A. Reply synchronisation                                                *)
(* ====================================================================== *)

Lemma read_line_nls m tl : read_line (repeat NL (S m) ++ tl) = Some ([], repeat NL m ++ tl).
Proof. reflexivity. Qed.

Lemma read_sexp_nls m k tl : read_sexp (repeat NL m ++ Body k :: tl) = Some (k, tl).
Proof. induction m as [|m IH]; cbn; auto. Qed.

Lemma line_is_refl k : line_is [k] k = true.
Proof. cbn. apply Nat.eqb_refl. Qed.

(* an older unread reply in the pipe: every later read is wrong *)
Lemma sync_broken : forall cmds k m j rest, j < k ->
  forallb (fun b => b) (sync_flags k (repeat NL m ++ Body j :: rest) cmds) = sync_ok PBroken cmds.
Proof.
  induction cmds as [|c r IH]; intros k m j rest Hlt; [reflexivity|].
  cbn [sync_flags sync_ok]. rewrite <- app_assoc. cbn [app].
  destruct (reads c) eqn:Er.
  - (* ReadLine *)
    destruct m as [|m].
    + cbn [repeat app read_line].
      destruct (read_line (rest ++ [Body k; NL])) as [[l p']|]; cbn [forallb].
      * replace (line_is (j :: l) k) with false; [reflexivity|].
        destruct l; cbn; auto. symmetry. apply Nat.eqb_neq. lia.
      * reflexivity.
    + rewrite read_line_nls. reflexivity.
  - (* ReadSexp *)
    rewrite read_sexp_nls.
    replace (j =? k) with false by (symmetry; apply Nat.eqb_neq; lia).
    destruct (read_line (rest ++ [Body k; NL])) as [[l p'']|]; reflexivity.
  - (* NoRead *)
    cbn [forallb andb].
    change (Body j :: rest ++ [Body k; NL]) with (Body j :: (rest ++ [Body k; NL])).
    apply IH. lia.
Qed.

Lemma sync_clean : forall cmds k,
  forallb (fun b => b) (sync_flags k [] cmds) = sync_ok PClean cmds.
Proof.
  induction cmds as [|c r IH]; intros k; [reflexivity|].
  cbn [sync_flags sync_ok app].
  destruct (reads c) eqn:Er.
  - cbn [read_line]. rewrite line_is_refl. cbn [forallb andb]. apply IH.
  - cbn [read_sexp read_line]. rewrite Nat.eqb_refl. cbn [forallb andb]. apply IH.
  - cbn [forallb andb]. apply (sync_broken r (S k) 0 k [NL]). lia.
Qed.

(* EXACT criterion for every command stream: every read is attributed to its own command
   unless something is sent after `exit` (whose reply is never read) *)
Theorem in_sync_iff : forall cmds, in_sync cmds = sync_ok PClean cmds.
Proof. intros cmds. unfold in_sync. apply sync_clean. Qed.

(* -- history level ------------------------------------------------------ *)
Definition reading (c : command) : bool := match reads c with NoRead => false | _ => true end.

Definition only (P : command -> bool) (a : M) : Prop := forall w, forallb P (snd (a w)) = true.

Lemma only_seq P a b : only P a -> only P b -> only P (seq a b).
Proof.
  intros Ha Hb w. unfold seq. specialize (Ha w). destruct (a w) as [w1 c1].
  specialize (Hb w1). destruct (b w1) as [w2 c2]. cbn in *. rewrite forallb_app, Ha, Hb. reflexivity.
Qed.
Lemma only_guard P a : only P a -> only P (guard a).
Proof. intros Ha w. unfold guard. destruct (werr w); [reflexivity | apply Ha]. Qed.
Lemma only_emit P c : P c = true -> only P (emit c).
Proof. intros Hc. apply only_guard. intros w. cbn. rewrite Hc. reflexivity. Qed.
Lemma only_nil P (f : wstate -> wstate) : only P (guard (fun w => (f w, []))).
Proof. apply only_guard. intros w. reflexivity. Qed.
Lemma only_ret P : only P ret. Proof. intros w. reflexivity. Qed.
Lemma only_push_level P : only P w_push_level. Proof. apply only_nil. Qed.
Lemma only_set_pending P b : only P (set_pending b). Proof. apply only_nil. Qed.
Lemma only_reset_record P : only P w_reset_record. Proof. apply only_nil. Qed.
Lemma only_pop_level P : only P w_pop_level.
Proof. apply only_guard. intros w. destruct (decl w); destruct (sdecl w); reflexivity. Qed.
Lemma only_record_sort P s : only P (w_record_sort s).
Proof. apply only_guard. intros w. destruct (sdecl w); reflexivity. Qed.
Lemma only_record P s : only P (w_record s).
Proof. apply only_guard. intros w. destruct (decl w); reflexivity. Qed.
Lemma only_repeat_m P a : only P a -> forall n, only P (repeat_m n a).
Proof. intros Ha. induction n as [|n IH]; [apply only_ret | apply only_seq; assumption]. Qed.
Lemma only_clear : only reading clear_pending.
Proof.
  apply only_guard. intros w. destruct (pending w); [|reflexivity].
  apply (only_seq reading); [apply only_set_pending|].
  apply only_seq; [apply only_emit; reflexivity | apply only_pop_level].
Qed.
Lemma only_declare_missing : forall fv, only reading (declare_missing fv).
Proof.
  induction fv as [|d r IH]; [intros w; reflexivity|].
  cbn [declare_missing]. apply only_seq; [|exact IH].
  apply only_guard. intros w. destruct (declared_in (fst d) (decl w)); [reflexivity|].
  apply (only_seq reading); [apply only_emit; reflexivity | apply only_record].
Qed.
Lemma only_declare_missing_sorts : forall ss, only reading (declare_missing_sorts ss).
Proof.
  induction ss as [|d r IH]; [intros w; reflexivity|].
  cbn [declare_missing_sorts]. apply only_seq; [|exact IH].
  apply only_guard. intros w. destruct (declared_in d (sdecl w)); [reflexivity|].
  apply (only_seq reading); [apply only_emit; reflexivity | apply only_record_sort].
Qed.
Lemma only_add f : only reading (add_assertion f).
Proof.
  apply only_seq; [apply only_clear|]. apply only_seq; [apply only_declare_missing_sorts|].
  apply only_seq; [apply only_declare_missing|]. apply only_emit; reflexivity.
Qed.
Lemma only_push n : only reading (push n).
Proof.
  apply only_seq; [apply only_clear|].
  apply only_seq; [apply only_repeat_m, only_push_level | apply only_emit; reflexivity].
Qed.
Lemma only_pop n : only reading (pop n).
Proof.
  apply only_seq; [apply only_clear|].
  apply only_seq; [apply only_emit; reflexivity | apply only_repeat_m, only_pop_level].
Qed.
Lemma only_solve : only reading solve.
Proof. apply only_seq; [apply only_clear | apply only_emit; reflexivity]. Qed.
Lemma only_reset : only reading reset_assertions.
Proof.
  apply only_seq; [apply only_clear|].
  apply only_seq; [apply only_emit; reflexivity | apply only_reset_record].
Qed.
Lemma only_is_sat f : only reading (is_sat f).
Proof.
  apply only_seq; [apply only_push|]. apply only_seq; [apply only_add|].
  apply only_seq; [apply only_solve | apply only_set_pending].
Qed.
Lemma only_get_model : only reading get_model.
Proof. apply only_guard. intros w. cbn. induction (concat (decl w)); cbn; auto. Qed.

Lemma reading_call_cmds a w : a <> AExit -> forallb reading (snd (api_step w a)) = true.
Proof.
  destruct a; cbn [api_step]; intros H; try congruence;
    first [apply only_add | apply only_push | apply only_pop | apply only_solve
          | apply only_reset | apply only_is_sat | apply only_get_model
          | apply (only_emit reading); reflexivity
          | apply only_guard; intros w0; reflexivity].
Qed.

Lemma sync_ok_reading : forall cs rest, forallb reading cs = true ->
  sync_ok PClean (cs ++ rest) = sync_ok PClean rest.
Proof.
  induction cs as [|c r IH]; intros rest H; [reflexivity|].
  cbn in H. apply andb_true_iff in H. destruct H as [Hc Hr].
  cbn [app sync_ok]. unfold reading in Hc. destruct (reads c); try discriminate; apply IH, Hr.
Qed.

(* exit (which terminates the solver process) can only be the last call *)
Fixpoint exit_last (h : list api_call) : bool :=
  match h with
  | [] => true
  | AExit :: r => match r with [] => true | _ => false end
  | _ :: r => exit_last r
  end.

Lemma run_api_cons w a r :
  snd (run_api w (a :: r)) = snd (api_step w a) ++ snd (run_api (fst (api_step w a)) r).
Proof.
  cbn [run_api]. destruct (api_step w a) as [w1 c1]. cbn [fst snd].
  destruct (run_api w1 r) as [w2 c2]. reflexivity.
Qed.

Lemma sync_run : forall h w, exit_last h = true -> sync_ok PClean (snd (run_api w h)) = true.
Proof.
  induction h as [|a r IH]; intros w H; [reflexivity|].
  rewrite run_api_cons.
  assert (Hd : {a = AExit} + {a <> AExit}) by (destruct a; (left; reflexivity) || (right; discriminate)).
  destruct Hd as [->|Hne].
  - cbn in H. destruct r; [|discriminate]. cbn. unfold exit_, emit, guard.
    destruct (werr w); reflexivity.
  - rewrite sync_ok_reading by (apply reading_call_cmds; exact Hne).
    apply IH. destruct a; cbn in H; try exact H. congruence.
Qed.

(* FULL CLAUSE: for every history (exit, if any, last) every reply is read by the command that
   caused it *)
Theorem replies_in_sync : forall h, exit_last h = true -> in_sync (stream h) = true.
Proof.
  intros h H. rewrite in_sync_iff. unfold stream.
  change (preamble ++ snd (run_api w_init h))
    with ([CSetOption; CSetOption; CSetOption; CSetLogic] ++ snd (run_api w_init h)).
  rewrite sync_ok_reading by reflexivity. apply sync_run, H.
Qed.

Lemma user_legal_exit_last : forall h d, user_legal d h = true -> exit_last h = true.
Proof.
  induction h as [|a r IH]; intros d H; [reflexivity|].
  destruct a; cbn in H |- *; try (eapply IH; exact H).
  - apply andb_true_iff in H. eapply IH. exact (proj2 H).
  - exact H.
Qed.

(* value queries in the middle of a history, get_model at depth, then more commands *)
Example sync_example :
  in_sync (stream [AAdd (FAtom 0 (plain [0]) []); ASolve; AGetValue [0]; ASolve; APush 2; AAdd (FAtom 1 (plain [1]) []);
                   AIsSat (FAtom 2 (plain [2]) []); AGetModel; APop 2; AReset; ASolve; AExit]) = true.
Proof. reflexivity. Qed.

(* ====================================================================== *)
(* B. Legality of the emitted stream                                       *)
(* ====================================================================== *)

Lemma mem_In x l : mem x l = true -> In x l.
Proof.
  unfold mem. intros H. apply existsb_exists in H. destruct H as (y & Hy & E).
  apply Nat.eqb_eq in E. subst. exact Hy.
Qed.
Lemma In_mem x l : In x l -> mem x l = true.
Proof. intros H. unfold mem. apply existsb_exists. exists x. split; auto. apply Nat.eqb_refl. Qed.

Lemma s_declared_map x s : s_declared x s = declared_in x (map ldecl s).
Proof. unfold s_declared, declared_in. induction s as [|l r IH]; cbn; congruence. Qed.

Lemma s_declared_cons x l r : s_declared x r = true -> s_declared x (l :: r) = true.
Proof. unfold s_declared. cbn. intros ->. apply orb_true_r. Qed.

Lemma s_declared_push x n s : s_declared x (repeat (mkL [] [] []) n ++ s) = s_declared x s.
Proof. induction n as [|n IH]; cbn; auto. Qed.

Lemma s_sort_declared_map x s : s_sort_declared x s = declared_in x (map lsorts s).
Proof. unfold s_sort_declared, declared_in. induction s as [|l r IH]; cbn; congruence. Qed.
Lemma s_sort_declared_push x n s : s_sort_declared x (repeat (mkL [] [] []) n ++ s) = s_sort_declared x s.
Proof. induction n as [|n IH]; cbn; auto. Qed.

Lemma s_declared_add x y l r a b : s_declared x (l :: r) = true ->
  s_declared x (mkL (y :: ldecl l) a b :: r) = true.
Proof.
  unfold s_declared. cbn [existsb ldecl]. unfold mem. cbn [existsb]. intros H.
  apply orb_true_iff in H. destruct H as [H|H]; rewrite H.
  - rewrite orb_true_r. reflexivity.
  - apply orb_true_r.
Qed.

(* every level's assertions mention only symbols declared at that level or below *)
Fixpoint wf_levels (s : sstate) : Prop :=
  match s with
  | [] => True
  | l :: r => (forall f x, In f (lasserts l) -> In x (fvs f) -> s_declared x (l :: r) = true)
              /\ wf_levels r
  end.

Lemma wf_skipn : forall n s, wf_levels s -> wf_levels (skipn n s).
Proof.
  induction n as [|n IH]; intros s H; [exact H|]. destruct s as [|l r]; [exact I|].
  cbn. apply IH. exact (proj2 H).
Qed.
Lemma wf_push : forall n s, wf_levels s -> wf_levels (repeat (mkL [] [] []) n ++ s).
Proof.
  induction n as [|n IH]; intros s H; [exact H|]. cbn. split; [intros f x []|]. apply IH, H.
Qed.
Lemma wf_live : forall s f x, wf_levels s -> In f (live s) -> In x (fvs f) -> s_declared x s = true.
Proof.
  induction s as [|l r IH]; intros f x Hwf Hf Hx; [destruct Hf|].
  unfold live in Hf. cbn in Hf. apply in_app_or in Hf. destruct Hf as [Hf|Hf].
  - exact (proj1 Hwf f x Hf Hx).
  - apply s_declared_cons. apply (IH f x); auto. exact (proj2 Hwf).
Qed.

Section Legal.
  Variable decide : list form -> bool.
  Notation sexec := (spec_exec decide).
  Notation sstep := (spec_step decide).

  Lemma spec_exec_app : forall c1 c2 s,
    sexec s (c1 ++ c2) =
    let (s1, r1) := sexec s c1 in let (s2, r2) := sexec s1 c2 in (s2, r1 ++ r2).
  Proof.
    induction c1 as [|c r IH]; intros c2 s; cbn [app spec_exec].
    - destruct (sexec s c2); reflexivity.
    - destruct (sstep s c) as [s1 rp]. rewrite IH. destruct (sexec s1 r) as [s2 r2].
      destruct (sexec s2 c2) as [s3 r3]. reflexivity.
  Qed.

  (* invariant of the strict solver itself, for EVERY command stream *)
  Lemma spec_step_wf s c : wf_levels s -> wf_levels (fst (sstep s c)).
  Proof.
    intros Hwf. destruct c; cbn [spec_step]; try exact Hwf.
    - destruct (s_sort_declared s0 s) eqn:E; [exact Hwf|]. destruct s as [|l r]; [exact I|].
      cbn [fst]. destruct Hwf as [H1 H2]. split; [|exact H2].
      intros f x Hf Hx. cbn [lasserts] in Hf. exact (H1 f x Hf Hx).
    - destruct (s_declared x s) eqn:E; [exact Hwf|]. destruct (sort_ok so s); [|exact Hwf].
      destruct s as [|l r]; [exact I|].
      cbn [fst]. destruct Hwf as [H1 H2]. split; [|exact H2].
      intros f y Hf Hy. cbn [lasserts] in Hf. apply s_declared_add. exact (H1 f y Hf Hy).
    - destruct (forallb (fun x => s_declared x s) (fvs f)) eqn:E; [|exact Hwf].
      destruct (forallb (fun x => s_sort_declared x s) (fsorts f)); [|exact Hwf]. cbn [andb].
      destruct s as [|l r]; [exact I|]. cbn [fst]. destruct Hwf as [H1 H2]. split; [|exact H2].
      intros g x Hg Hx. cbn [lasserts] in Hg. destruct Hg as [<-|Hg].
      + rewrite forallb_forall in E. exact (E x Hx).
      + exact (H1 g x Hg Hx).
    - cbn [fst]. apply wf_push, Hwf.
    - destruct (n <? length s); cbn [fst]; [apply wf_skipn|]; exact Hwf.
    - destruct (forallb (fun x => s_declared x s) t); exact Hwf.
    - cbn. split; [intros f x []|exact I].
  Qed.
  Lemma spec_exec_wf : forall cs s, wf_levels s -> wf_levels (fst (sexec s cs)).
  Proof.
    induction cs as [|c r IH]; intros s H; [exact H|]. cbn [spec_exec].
    pose proof (spec_step_wf s c H) as H1. destruct (sstep s c) as [s1 rp]. cbn [fst] in H1.
    specialize (IH s1 H1). destruct (sexec s1 r) as [s2 rs]. exact IH.
  Qed.

  Definition runs (a : M) (w : wstate) (s : sstate) (w' : wstate) (s' : sstate)
             (cs : list command) (rs : list reply) : Prop :=
    a w = (w', cs) /\ sexec s cs = (s', rs).

  Lemma runs_seq a b w s w1 s1 c1 r1 w2 s2 c2 r2 :
    runs a w s w1 s1 c1 r1 -> runs b w1 s1 w2 s2 c2 r2 ->
    runs (seq a b) w s w2 s2 (c1 ++ c2) (r1 ++ r2).
  Proof.
    intros [Ha Hs] [Hb Hs2]. split.
    - unfold seq. rewrite Ha, Hb. reflexivity.
    - rewrite spec_exec_app, Hs, Hs2. reflexivity.
  Qed.
  Lemma runs_wf a w s w' s' cs rs : runs a w s w' s' cs rs -> wf_levels s -> wf_levels s'.
  Proof. intros [_ H] Hwf. pose proof (spec_exec_wf cs s Hwf) as H1. rewrite H in H1. exact H1. Qed.

  Lemma no_error_app r1 r2 : no_error (r1 ++ r2) = no_error r1 && no_error r2.
  Proof. apply forallb_app. Qed.

  (* the wrapper's record and the solver agree; the solver's assertion stack below the
     pending one-shot level is the stack the user means *)
  Definition Inv (w : wstate) (s : sstate) (i : ideal) (d : nat) : Prop :=
    werr w = false /\ map ldecl s = decl w /\
    map lasserts (if pending w then tl s else s) = i /\ length i = S d /\ wf_levels s /\
    map lsorts s = sdecl w.

  Lemma clear_ok w s i d : Inv w s i d ->
    exists w' s' cs rs, runs clear_pending w s w' s' cs rs /\ no_error rs = true /\
      Inv w' s' i d /\ pending w' = false.
  Proof.
    intros (He & Hd & Ha & Hl & Hwf & Hs). destruct w as [dl sl p e]. cbn in He, Hd, Ha, Hs. subst e.
    destruct p.
    - destruct s as [|l0 [|l1 s2]]; cbn in Ha; subst i; try discriminate.
      cbn in Hd, Hs. subst dl sl.
      exists (mkW (ldecl l1 :: map ldecl s2) (lsorts l1 :: map lsorts s2) false false),
             (l1 :: s2), [CPop 1], [RSuccess].
      split; [split; reflexivity|]. split; [reflexivity|]. split; [|reflexivity].
      unfold Inv. cbn. split; [reflexivity|]. split; [reflexivity|]. split; [reflexivity|].
      split; [exact Hl|]. split; [exact (proj2 Hwf) | reflexivity].
    - exists (mkW dl sl false false), s, [], []. split; [split; reflexivity|].
      split; [reflexivity|]. split; [|reflexivity].
      unfold Inv. cbn. split; [reflexivity|]. split; [exact Hd|]. split; [exact Ha|].
      split; [exact Hl|]. split; [exact Hwf | exact Hs].
  Qed.

  Lemma sort_ok_ext so s s' : map lsorts s' = map lsorts s -> sort_ok so s' = sort_ok so s.
  Proof. intros H. destruct so; [|reflexivity]. cbn. rewrite !s_sort_declared_map, H. reflexivity. Qed.
  Lemma s_declared_ext x s s' : map ldecl s' = map ldecl s -> s_declared x s' = s_declared x s.
  Proof. intros H. rewrite !s_declared_map, H. reflexivity. Qed.
  Lemma sorts_of_in : forall l y x, In (y, Some x) l -> In x (sorts_of l).
  Proof.
    induction l as [|[z [t|]] r IH]; intros y x H; [destruct H| |].
    - destruct H as [H|H]; [injection H as _ ->; left; reflexivity | right; eapply IH; exact H].
    - destruct H as [H|H]; [discriminate | eapply IH; exact H].
  Qed.

  (* declaring the missing sorts: the symbol record and the assertions are untouched *)
  Lemma declare_missing_sorts_ok : forall ss w s, werr w = false -> map ldecl s = decl w ->
    map lsorts s = sdecl w -> s <> [] ->
    exists w' s' cs rs, runs (declare_missing_sorts ss) w s w' s' cs rs /\ no_error rs = true /\
      werr w' = false /\ map ldecl s' = decl w' /\ map lsorts s' = sdecl w' /\
      pending w' = pending w /\ map lasserts s' = map lasserts s /\ map ldecl s' = map ldecl s /\
      (forall x, s_sort_declared x s = true -> s_sort_declared x s' = true) /\
      (forall x, In x ss -> s_sort_declared x s' = true).
  Proof.
    induction ss as [|d r IH]; intros w s He Hd Hs Hne.
    - exists w, s, [], []. split; [split; reflexivity|]. repeat split; auto; intros x [].
    - destruct w as [dl sl p e]. cbn in He, Hd, Hs. subst e dl sl.
      destruct (declared_in d (map lsorts s)) eqn:Ed.
      + destruct (IH (mkW (map ldecl s) (map lsorts s) p false) s)
          as (w' & s' & cs & rs & Hr & Hn & P1 & P2 & P3 & P4 & P5 & P6 & P7 & P8); auto.
        exists w', s', ([] ++ cs), ([] ++ rs). split.
        * cbn [declare_missing_sorts]. eapply runs_seq; [|exact Hr]. split; [|reflexivity].
          unfold guard. cbn [werr decl sdecl pending]. rewrite Ed. reflexivity.
        * repeat split; auto. intros x [<-|Hx]; [|auto]. apply P7. rewrite s_sort_declared_map. exact Ed.
      + destruct s as [|l rest]; [congruence|].
        set (s1 := mkL (ldecl l) (lasserts l) (d :: lsorts l) :: rest).
        destruct (IH (mkW (map ldecl s1) (map lsorts s1) p false) s1)
          as (w' & s' & cs & rs & Hr & Hn & P1 & P2 & P3 & P4 & P5 & P6 & P7 & P8); auto; [discriminate|].
        exists w', s', ([CDeclareSort d] ++ cs), ([RSuccess] ++ rs). split.
        * cbn [declare_missing_sorts]. eapply runs_seq; [|exact Hr]. split.
          -- unfold guard. cbn [werr decl sdecl pending]. rewrite Ed. reflexivity.
          -- cbn [spec_exec spec_step]. rewrite s_sort_declared_map, Ed. reflexivity.
        * assert (Hmono : forall x, s_sort_declared x (l :: rest) = true -> s_sort_declared x s1 = true).
          { intros x. unfold s_sort_declared, s1. cbn [existsb lsorts]. unfold mem. cbn [existsb].
            intros H. apply orb_true_iff in H. destruct H as [H|H]; rewrite H.
            - rewrite orb_true_r. reflexivity.
            - apply orb_true_r. }
          split; [cbn; exact Hn|]. split; [exact P1|]. split; [exact P2|]. split; [exact P3|].
          split; [exact P4|]. split; [rewrite P5; reflexivity|]. split; [rewrite P6; reflexivity|].
          split; [intros x Hx; apply P7, Hmono, Hx|].
          intros x [<-|Hx]; [|auto]. apply P7. unfold s_sort_declared, s1. cbn. rewrite Nat.eqb_refl. reflexivity.
  Qed.

  Lemma declare_missing_ok : forall fv w s, werr w = false -> map ldecl s = decl w ->
    map lsorts s = sdecl w -> s <> [] ->
    (forall d, In d fv -> sort_ok (snd d) s = true) ->
    exists w' s' cs rs, runs (declare_missing fv) w s w' s' cs rs /\ no_error rs = true /\
      werr w' = false /\ map ldecl s' = decl w' /\ pending w' = pending w /\
      map lasserts s' = map lasserts s /\
      (forall x, s_declared x s = true -> s_declared x s' = true) /\
      (forall x, In x (map fst fv) -> s_declared x s' = true) /\
      map lsorts s' = map lsorts s /\ sdecl w' = sdecl w.
  Proof.
    induction fv as [|d r IH]; intros w s He Hd Hs Hne Hso.
    - exists w, s, [], []. split; [split; reflexivity|]. repeat split; auto; intros x [].
    - destruct w as [dl sl p e]. cbn in He, Hd, Hs. subst e dl sl.
      assert (Hso' : forall d0, In d0 r -> sort_ok (snd d0) s = true) by (intros d0 H0; apply Hso; right; exact H0).
      destruct (declared_in (fst d) (map ldecl s)) eqn:Ed.
      + destruct (IH (mkW (map ldecl s) (map lsorts s) p false) s)
          as (w' & s' & cs & rs & Hr & Hn & P1 & P2 & P3 & P4 & P5 & P6 & P7 & P8); auto.
        exists w', s', ([] ++ cs), ([] ++ rs). split.
        * cbn [declare_missing]. eapply runs_seq; [|exact Hr]. split; [|reflexivity].
          unfold guard. cbn [werr decl sdecl pending]. rewrite Ed. reflexivity.
        * repeat split; auto. intros x [<-|Hx]; [|auto]. apply P5. rewrite s_declared_map. exact Ed.
      + destruct s as [|l rest]; [congruence|].
        set (s1 := mkL (fst d :: ldecl l) (lasserts l) (lsorts l) :: rest).
        assert (Hls : map lsorts s1 = map lsorts (l :: rest)) by reflexivity.
        assert (Hso1 : forall d0, In d0 r -> sort_ok (snd d0) s1 = true)
          by (intros d0 H0; rewrite (sort_ok_ext _ _ _ Hls); apply Hso'; exact H0).
        assert (Hne1 : s1 <> []) by discriminate.
        destruct (IH (mkW (map ldecl s1) (map lsorts s1) p false) s1 eq_refl eq_refl eq_refl Hne1 Hso1)
          as (w' & s' & cs & rs & Hr & Hn & P1 & P2 & P3 & P4 & P5 & P6 & P7 & P8).
        exists w', s', ([CDeclare (fst d) (snd d)] ++ cs), ([RSuccess] ++ rs). split.
        * cbn [declare_missing]. eapply runs_seq; [|exact Hr]. split.
          -- unfold guard. cbn [werr decl sdecl pending]. rewrite Ed. reflexivity.
          -- cbn [spec_exec spec_step]. rewrite s_declared_map, Ed.
             rewrite (Hso d (or_introl eq_refl)). reflexivity.
        * assert (Hmono : forall x, s_declared x (l :: rest) = true -> s_declared x s1 = true).
          { intros x H. unfold s1. apply s_declared_add. exact H. }
          split; [cbn; exact Hn|]. split; [exact P1|]. split; [exact P2|]. split; [exact P3|].
          split; [rewrite P4; reflexivity|]. split; [intros x Hx; apply P5, Hmono, Hx|].
          split; [|split; [rewrite P7; exact Hls | exact P8]].
          intros x [<-|Hx]; [|auto]. apply P5. unfold s_declared, s1. cbn. rewrite Nat.eqb_refl. reflexivity.
  Qed.

  Lemma live_concat s : live s = concat (map lasserts s).
  Proof. unfold live. apply flat_map_concat_map. Qed.

  Lemma emit_runs c w s : werr w = false ->
    runs (emit c) w s w (fst (sstep s c)) [c] [snd (sstep s c)].
  Proof.
    intros He. split; [unfold emit, guard; rewrite He; reflexivity|].
    cbn. destruct (sstep s c); reflexivity.
  Qed.

  Lemma add_ok f w s i d : Inv w s i d ->
    exists w' s' cs rs, runs (add_assertion f) w s w' s' cs rs /\ no_error rs = true /\
      Inv w' s' (ideal_step i (AAdd f)) d /\ pending w' = false.
  Proof.
    intros HI. destruct (clear_ok w s i d HI) as (w1 & s1 & c1 & r1 & R1 & N1 & I1 & P1).
    destruct I1 as (He & Hd & Ha & Hl & Hwf & Hs). rewrite P1 in Ha.
    assert (Hne : s1 <> []) by (intros ->; cbn in Ha; subst i; discriminate).
    (* sorts *)
    destruct (declare_missing_sorts_ok (fsorts f) w1 s1 He Hd Hs Hne)
      as (w0 & s0 & c0 & r0 & R0 & N0 & T1 & T2 & T3 & T4 & T5 & T6 & T7 & T8).
    assert (Hne0 : s0 <> []) by (intros ->; destruct s1; [congruence | discriminate]).
    assert (Hso : forall d0, In d0 (fva f) -> sort_ok (snd d0) s0 = true).
    { intros [y [x|]] H0; [|reflexivity]. cbn. apply T8. unfold fsorts. apply in_or_app. left.
      eapply sorts_of_in. exact H0. }
    (* symbols *)
    destruct (declare_missing_ok (fva f) w0 s0 T1 T2 T3 Hne0 Hso)
      as (w2 & s2 & c2 & r2 & R2 & N2 & Q1 & Q2 & Q3 & Q4 & Q5 & Q6 & Q7 & Q8).
    assert (Hall : forallb (fun x => s_declared x s2) (fvs f) = true)
      by (apply forallb_forall; exact Q6).
    assert (Hsorts : forallb (fun x => s_sort_declared x s2) (fsorts f) = true).
    { apply forallb_forall. intros x Hx. rewrite s_sort_declared_map, Q7, <- s_sort_declared_map.
      apply T8, Hx. }
    destruct s2 as [|l rest]; [destruct s0; cbn in Q4; [congruence|discriminate]|].
    pose proof (emit_runs (CAssert f) w2 (l :: rest) Q1) as R3.
    cbn [spec_step] in R3. rewrite Hall, Hsorts in R3. cbn [andb fst snd] in R3.
    exists w2, (mkL (ldecl l) (f :: lasserts l) (lsorts l) :: rest),
           (c1 ++ c0 ++ c2 ++ [CAssert f]), (r1 ++ r0 ++ r2 ++ [RSuccess]).
    split; [eapply runs_seq; [exact R1|]; eapply runs_seq; [exact R0|]; eapply runs_seq;
            [exact R2 | exact R3]|].
    split; [rewrite !no_error_app, N1, N0, N2; reflexivity|].
    split; [|congruence].
    assert (Hwf2 : wf_levels (mkL (ldecl l) (f :: lasserts l) (lsorts l) :: rest)).
    { eapply runs_wf; [exact R3|]. eapply runs_wf; [exact R2|]. eapply runs_wf; [exact R0 | exact Hwf]. }
    unfold Inv. rewrite Q3, T4, P1. cbn [map ldecl lasserts lsorts] in *.
    split; [exact Q1|]. split; [exact Q2|].
    rewrite <- Ha, <- T5, <- Q4 in Hl |- *. cbn [ideal_step].
    split; [reflexivity|]. split; [exact Hl|]. split; [exact Hwf2|].
    rewrite Q8, <- T3, <- Q7. reflexivity.
  Qed.

  Lemma inv_nonempty w s i d : Inv w s i d -> s <> [].
  Proof.
    intros (_ & _ & Ha & Hl & _) ->. destruct (pending w); cbn in Ha; subst i; discriminate.
  Qed.

  Lemma push_level_runs w s : werr w = false ->
    runs w_push_level w s (mkW ([] :: decl w) ([] :: sdecl w) (pending w) false) s [] [].
  Proof. intros He. split; [unfold w_push_level, guard; rewrite He|]; reflexivity. Qed.
  Lemma set_pending_runs b w s : werr w = false ->
    runs (set_pending b) w s (mkW (decl w) (sdecl w) b false) s [] [].
  Proof. intros He. split; [unfold set_pending, guard; rewrite He|]; reflexivity. Qed.

  Lemma repeat_cons_comm {A} (x : A) n l : repeat x n ++ x :: l = x :: repeat x n ++ l.
  Proof. induction n as [|n IH]; cbn; [reflexivity | rewrite IH; reflexivity]. Qed.
  Lemma map_repeat_l {A B} (f : A -> B) x n : map f (repeat x n) = repeat (f x) n.
  Proof. induction n as [|n IH]; cbn; [reflexivity | rewrite IH; reflexivity]. Qed.
  Lemma skipn_map_l {A B} (f : A -> B) : forall n l, skipn n (map f l) = map f (skipn n l).
  Proof. induction n as [|n IH]; intros [|x l]; cbn; auto. Qed.

  Lemma push_levels_runs : forall n w s, werr w = false ->
    runs (repeat_m n w_push_level) w s
         (mkW (repeat [] n ++ decl w) (repeat [] n ++ sdecl w) (pending w) false) s [] [].
  Proof.
    induction n as [|n IH]; intros w s He.
    - destruct w as [dl sl p e]. cbn in He. subst e. split; reflexivity.
    - pose proof (push_level_runs w s He) as R1.
      pose proof (IH (mkW ([] :: decl w) ([] :: sdecl w) (pending w) false) s eq_refl) as R2.
      cbn [decl sdecl pending] in R2. rewrite !repeat_cons_comm in R2.
      exact (runs_seq _ _ _ _ _ _ _ _ _ _ _ _ R1 R2).
  Qed.

  Lemma pop_levels_runs : forall n w s, werr w = false -> n <= length (decl w) ->
    n <= length (sdecl w) ->
    runs (repeat_m n w_pop_level) w s
         (mkW (skipn n (decl w)) (skipn n (sdecl w)) (pending w) false) s [] [].
  Proof.
    induction n as [|n IH]; intros w s He Hn Hm.
    - destruct w as [dl sl p e]. cbn in He. subst e. split; reflexivity.
    - destruct w as [dl sl p e]. cbn in He, Hn, Hm. subst e.
      destruct dl as [|t dl]; [cbn in Hn; lia|]. destruct sl as [|u sl]; [cbn in Hm; lia|].
      assert (R1 : runs w_pop_level (mkW (t :: dl) (u :: sl) p false) s (mkW dl sl p false) s [] [])
        by (split; reflexivity).
      pose proof (IH (mkW dl sl p false) s eq_refl) as R2. cbn [decl sdecl pending] in R2.
      assert (Hn' : n <= length dl) by (cbn in Hn; lia).
      assert (Hm' : n <= length sl) by (cbn in Hm; lia).
      exact (runs_seq _ _ _ _ _ _ _ _ _ _ _ _ R1 (R2 Hn' Hm')).
  Qed.

  Lemma push_ok n w s i d : Inv w s i d ->
    exists w' s' cs rs, runs (push n) w s w' s' cs rs /\ no_error rs = true /\
      Inv w' s' (repeat [] n ++ i) (d + n) /\ pending w' = false.
  Proof.
    intros HI. destruct (clear_ok w s i d HI) as (w1 & s1 & c1 & r1 & R1 & N1 & I1 & P1).
    destruct I1 as (He & Hd & Ha & Hl & Hwf & Hs). rewrite P1 in Ha.
    pose proof (push_levels_runs n w1 s1 He) as R2.
    set (w2 := mkW (repeat [] n ++ decl w1) (repeat [] n ++ sdecl w1) (pending w1) false) in *.
    pose proof (emit_runs (CPush n) w2 s1 eq_refl) as R3. cbn [spec_step fst snd] in R3.
    exists w2, (repeat (mkL [] [] []) n ++ s1), (c1 ++ [] ++ [CPush n]), (r1 ++ [] ++ [RSuccess]).
    split; [eapply runs_seq; [exact R1|]; eapply runs_seq; [exact R2 | exact R3]|].
    split; [rewrite !no_error_app, N1; reflexivity|].
    split; [|exact P1].
    unfold Inv, w2. cbn [werr decl sdecl pending]. rewrite P1.
    rewrite !map_app, !map_repeat_l. cbn [ldecl lasserts lsorts].
    split; [reflexivity|]. split; [congruence|]. split; [congruence|].
    split; [rewrite app_length, repeat_length; lia|]. split; [apply wf_push, Hwf | congruence].
  Qed.

  Lemma pop_ok n w s i d : Inv w s i d -> n <= d ->
    exists w' s' cs rs, runs (pop n) w s w' s' cs rs /\ no_error rs = true /\
      Inv w' s' (skipn n i) (d - n) /\ pending w' = false.
  Proof.
    intros HI Hd1. destruct (clear_ok w s i d HI) as (w1 & s1 & c1 & r1 & R1 & N1 & I1 & P1).
    destruct I1 as (He & Hd & Ha & Hl & Hwf & Hs). rewrite P1 in Ha.
    assert (Hlen : length s1 = S d) by (rewrite <- Hl, <- Ha, map_length; reflexivity).
    assert (Hn : n <= length (decl w1)) by (rewrite <- Hd, map_length; lia).
    assert (Hm : n <= length (sdecl w1)) by (rewrite <- Hs, map_length; lia).
    pose proof (pop_levels_runs n w1 (skipn n s1) He Hn Hm) as R2.
    set (w2 := mkW (skipn n (decl w1)) (skipn n (sdecl w1)) (pending w1) false) in *.
    pose proof (emit_runs (CPop n) w1 s1 He) as R3. cbn [spec_step] in R3.
    assert (Hlt : (n <? length s1) = true) by (apply Nat.ltb_lt; lia).
    rewrite Hlt in R3. cbn [fst snd] in R3.
    exists w2, (skipn n s1), (c1 ++ [CPop n] ++ []), (r1 ++ [RSuccess] ++ []).
    split; [eapply runs_seq; [exact R1|]; eapply runs_seq; [exact R3 | exact R2]|].
    split; [rewrite !no_error_app, N1; reflexivity|].
    split; [|exact P1].
    unfold Inv, w2. cbn [werr decl sdecl pending]. rewrite P1.
    split; [reflexivity|]. split; [rewrite <- Hd, skipn_map_l; reflexivity|].
    split; [rewrite <- Ha, skipn_map_l; reflexivity|].
    split; [rewrite skipn_length; lia|]. split; [apply wf_skipn, Hwf|].
    rewrite <- Hs, skipn_map_l; reflexivity.
  Qed.

  Lemma reset_ok w s i d : Inv w s i d ->
    exists w' s' cs rs, runs reset_assertions w s w' s' cs rs /\ no_error rs = true /\
      Inv w' s' ideal_init 0 /\ pending w' = false.
  Proof.
    intros HI. destruct (clear_ok w s i d HI) as (w1 & s1 & c1 & r1 & R1 & N1 & I1 & P1).
    destruct I1 as (He & Hd & Ha & Hl & Hwf & Hs).
    pose proof (emit_runs CResetAssertions w1 s1 He) as R2. cbn [spec_step fst snd] in R2.
    assert (R3 : runs w_reset_record w1 s_init (mkW [[]] [[]] (pending w1) false) s_init [] [])
      by (split; [unfold w_reset_record, guard; rewrite He|]; reflexivity).
    exists (mkW [[]] [[]] (pending w1) false), s_init, (c1 ++ [CResetAssertions] ++ []), (r1 ++ [RSuccess] ++ []).
    split; [eapply runs_seq; [exact R1|]; eapply runs_seq; [exact R2 | exact R3]|].
    split; [rewrite !no_error_app, N1; reflexivity|].
    split; [|exact P1].
    unfold Inv. cbn [werr decl sdecl pending]. rewrite P1. cbn.
    split; [reflexivity|]. split; [reflexivity|]. split; [reflexivity|].
    split; [reflexivity|]. split; [split; [intros f x []|exact I] | reflexivity].
  Qed.

  Lemma solve_ok w s i d : Inv w s i d ->
    exists w' s' cs rs, runs solve w s w' s' cs rs /\ no_error rs = true /\
      Inv w' s' i d /\ pending w' = false /\ verdict_of rs = Some (decide (ideal_live i)).
  Proof.
    intros HI. destruct (clear_ok w s i d HI) as (w1 & s1 & c1 & r1 & R1 & N1 & I1 & P1).
    pose proof I1 as (He & Hd & Ha & Hl & Hwf & Hs). rewrite P1 in Ha.
    pose proof (emit_runs CCheckSat w1 s1 He) as R3. cbn [spec_step fst snd] in R3.
    exists w1, s1, (c1 ++ [CCheckSat]), (r1 ++ [RVerdict (decide (live s1))]).
    split; [eapply runs_seq; [exact R1 | exact R3]|].
    split; [rewrite !no_error_app, N1; reflexivity|].
    split; [exact I1|]. split; [exact P1|].
    unfold verdict_of. rewrite last_last. rewrite live_concat, Ha. reflexivity.
  Qed.

  Lemma inv_declared w s i d f x : Inv w s i d -> In f (ideal_live i) -> In x (fvs f) ->
    s_declared x s = true.
  Proof.
    intros (He & Hd & Ha & Hl & Hwf & Hs) Hf Hx. unfold ideal_live in Hf. rewrite <- Ha in Hf.
    destruct (pending w).
    - destruct s as [|l r]; [destruct Hf|]. cbn [tl] in Hf. apply s_declared_cons.
      apply (wf_live r f x); [exact (proj2 Hwf) | rewrite live_concat; exact Hf | exact Hx].
    - apply (wf_live s f x); [exact Hwf | rewrite live_concat; exact Hf | exact Hx].
  Qed.

  (* a value query mentions only symbols the wrapper has declared: the solver knows them all *)
  Lemma get_value_ok t w s i d : Inv w s i d ->
    let t' := filter (fun x => declared_in x (decl w)) t in
    runs (get_value t) w s w s [CGetValue t'] [RValue t'].
  Proof.
    intros HI t'. pose proof HI as (He & Hd & _).
    assert (Hall : forallb (fun x => s_declared x s) t' = true).
    { apply forallb_forall. intros x Hx. apply filter_In in Hx. destruct Hx as [_ Hx].
      rewrite s_declared_map, Hd. exact Hx. }
    split.
    - unfold get_value, guard. rewrite He. reflexivity.
    - cbn [spec_exec spec_step]. fold t'. rewrite Hall. reflexivity.
  Qed.

  Lemma value_queries_ok : forall l s, (forall x, In x l -> s_declared x s = true) ->
    sexec s (map (fun x => CGetValue [x]) l) = (s, map (fun x => RValue [x]) l).
  Proof.
    induction l as [|y r IH]; intros s H; [reflexivity|].
    cbn [map spec_exec spec_step forallb]. rewrite (H y) by (left; reflexivity). cbn [andb].
    rewrite IH; [reflexivity|]. intros x Hx. apply H. right. exact Hx.
  Qed.
  Lemma no_error_values l : no_error (map (fun x => RValue [x]) l) = true.
  Proof. induction l; cbn; auto. Qed.

  Lemma in_concat_declared : forall s x, In x (concat (map ldecl s)) -> s_declared x s = true.
  Proof.
    induction s as [|l r IH]; intros x H; [destruct H|].
    cbn in H. apply in_app_or in H. unfold s_declared. cbn [existsb]. destruct H as [H|H].
    - rewrite (In_mem x _ H). reflexivity.
    - apply IH in H. unfold s_declared in H. rewrite H. apply orb_true_r.
  Qed.
  Lemma declared_in_concat : forall s x, s_declared x s = true -> In x (concat (map ldecl s)).
  Proof.
    induction s as [|l r IH]; intros x H; [discriminate|].
    unfold s_declared in H. cbn [existsb] in H. apply orb_true_iff in H. cbn. apply in_or_app.
    destruct H as [H|H]; [left; apply mem_In, H | right; apply IH, H].
  Qed.

  Lemma get_model_ok w s i d : Inv w s i d ->
    runs get_model w s w s (map (fun x => CGetValue [x]) (model_queries w))
         (map (fun x => RValue [x]) (model_queries w)).
  Proof.
    intros (He & Hd & _). unfold model_queries. split.
    - unfold get_model, guard. rewrite He. reflexivity.
    - apply value_queries_ok. intros x Hx. rewrite <- Hd in Hx. apply in_concat_declared, Hx.
  Qed.

  Lemma is_sat_ok f w s i d : Inv w s i d ->
    exists w' s' cs rs, runs (is_sat f) w s w' s' cs rs /\ no_error rs = true /\
      Inv w' s' i d /\ verdict_of rs = Some (decide (f :: ideal_live i)).
  Proof.
    intros HI. pose proof HI as (_ & _ & _ & Hlen & _).
    destruct (push_ok 1 w s i d HI) as (w1 & s1 & c1 & r1 & R1 & N1 & I1 & P1).
    cbn [repeat app] in I1.
    destruct (add_ok f w1 s1 _ _ I1) as (w2 & s2 & c2 & r2 & R2 & N2 & I2 & P2).
    cbn [ideal_step] in I2.
    destruct (solve_ok w2 s2 _ _ I2) as (w3 & s3 & c3 & r3 & R3 & N3 & I3 & P3 & V3).
    pose proof I3 as (He & Hd & Ha & Hl & Hwf & Hs). rewrite P3 in Ha.
    pose proof (set_pending_runs true w3 s3 He) as R4.
    exists (mkW (decl w3) (sdecl w3) true false), s3, (c1 ++ c2 ++ c3 ++ []), (r1 ++ r2 ++ r3 ++ []).
    split; [eapply runs_seq; [exact R1|]; eapply runs_seq; [exact R2|]; eapply runs_seq;
            [exact R3 | exact R4]|].
    split; [rewrite !no_error_app, N1, N2, N3; reflexivity|].
    split.
    - unfold Inv. cbn [werr decl sdecl pending]. split; [reflexivity|]. split; [exact Hd|].
      destruct s3 as [|l r]; [discriminate|]. cbn [tl]. cbn in Ha. injection Ha as _ Ha.
      split; [exact Ha|]. split; [exact Hlen|]. split; [exact Hwf | exact Hs].
    - rewrite app_nil_r. unfold verdict_of in *. rewrite !app_assoc.
      destruct r3 as [|x r3'] using rev_ind; [discriminate|].
      rewrite last_last in V3. rewrite !app_assoc, last_last. exact V3.
  Qed.

  (* ---- one API call ---- *)
  Definition depth_after (d : nat) (a : api_call) : nat :=
    match a with APush n => d + n | APop n => d - n | AReset => 0 | _ => d end.
  Definition call_legal (i : ideal) (d : nat) (a : api_call) : bool :=
    match a with
    | APop n => n <=? d
    | _ => true
    end.

  Lemma api_ok a w s i d : Inv w s i d -> call_legal i d a = true ->
    exists w' s' cs rs, runs (fun w => api_step w a) w s w' s' cs rs /\ no_error rs = true /\
      Inv w' s' (ideal_step i a) (depth_after d a) /\
      (a = ASolve -> verdict_of rs = Some (decide (ideal_live i))) /\
      (forall f, check_formula a = Some f -> verdict_of rs = Some (decide (f :: ideal_live i))).
  Proof.
    intros HI Hc. destruct a; cbn [api_step call_legal] in *.
    - destruct (add_ok f w s i d HI) as (w' & s' & cs & rs & R & N & I' & _).
      exists w', s', cs, rs. split; [exact R|]. split; [exact N|]. split; [exact I'|].
      split; [discriminate | intros g E; discriminate E].
    - destruct (push_ok n w s i d HI) as (w' & s' & cs & rs & R & N & I' & _).
      exists w', s', cs, rs. cbn [depth_after ideal_step].
      split; [exact R|]. split; [exact N|]. split; [exact I'|].
      split; [discriminate | intros g E; discriminate E].
    - apply Nat.leb_le in Hc.
      destruct (pop_ok n w s i d HI Hc) as (w' & s' & cs & rs & R & N & I' & _).
      exists w', s', cs, rs. split; [exact R|]. split; [exact N|]. split; [exact I'|].
      split; [discriminate | intros g E; discriminate E].
    - destruct (solve_ok w s i d HI) as (w' & s' & cs & rs & R & N & I' & _ & V).
      exists w', s', cs, rs. split; [exact R|]. split; [exact N|]. split; [exact I'|].
      split; [intros _; exact V | intros g E; discriminate E].
    - exists w, s, [CGetValue (filter (fun x => declared_in x (decl w)) t)],
             [RValue (filter (fun x => declared_in x (decl w)) t)].
      split; [exact (get_value_ok t w s i d HI)|]. split; [reflexivity|]. split; [exact HI|].
      split; [discriminate | intros g E; discriminate E].
    - exists w, s, (map (fun x => CGetValue [x]) (model_queries w)),
             (map (fun x => RValue [x]) (model_queries w)).
      split; [exact (get_model_ok w s i d HI)|]. split; [apply no_error_values|].
      split; [exact HI|]. split; [discriminate | intros g E; discriminate E].
    - destruct (reset_ok w s i d HI) as (w' & s' & cs & rs & R & N & I' & _).
      exists w', s', cs, rs. split; [exact R|]. split; [exact N|]. split; [exact I'|].
      split; [discriminate | intros g E; discriminate E].
    - destruct (is_sat_ok f w s i d HI) as (w' & s' & cs & rs & R & N & I' & V).
      exists w', s', cs, rs. split; [exact R|]. split; [exact N|]. split; [exact I'|].
      split; [discriminate|]. intros g E. cbn in E. injection E as <-. exact V.
    - destruct (is_sat_ok (FNot f) w s i d HI) as (w' & s' & cs & rs & R & N & I' & V).
      exists w', s', cs, rs. split; [exact R|]. split; [exact N|]. split; [exact I'|].
      split; [discriminate|]. intros g E. cbn in E. injection E as <-. exact V.
    - destruct (is_sat_ok f w s i d HI) as (w' & s' & cs & rs & R & N & I' & V).
      exists w', s', cs, rs. split; [exact R|]. split; [exact N|]. split; [exact I'|].
      split; [discriminate|]. intros g E. cbn in E. injection E as <-. exact V.
    - pose proof HI as (He & _).
      pose proof (emit_runs CExit w s He) as R. cbn [spec_step fst snd] in R.
      exists w, s, [CExit], [RSuccess]. split; [exact R|]. split; [reflexivity|].
      split; [exact HI|]. split; [discriminate | intros g E; discriminate E].
  Qed.

  (* ---- whole histories ---- *)
  Fixpoint history_legal (i : ideal) (d : nat) (h : list api_call) : bool :=
    match h with
    | [] => true
    | a :: r => call_legal i d a &&
                match a with AExit => match r with [] => true | _ => false end | _ => true end &&
                history_legal (ideal_step i a) (depth_after d a) r
    end.

  (* history_legal is exactly the user-level discipline of the model file *)
  Lemma history_legal_user : forall h i d, history_legal i d h = user_legal d h.
  Proof.
    induction h as [|a r IH]; intros i d; [reflexivity|].
    cbn [history_legal]. rewrite IH.
    destruct a; cbn [user_legal call_legal depth_after andb]; try rewrite andb_true_r; try reflexivity.
    destruct r; reflexivity.
  Qed.

  Fixpoint ideal_run (i : ideal) (h : list api_call) : ideal :=
    match h with [] => i | a :: r => ideal_run (ideal_step i a) r end.
  Fixpoint depth_run (d : nat) (h : list api_call) : nat :=
    match h with [] => d | a :: r => depth_run (depth_after d a) r end.

  Lemma run_ok : forall h w s i d, Inv w s i d -> history_legal i d h = true ->
    exists w' s' cs rs, run_api w h = (w', cs) /\ sexec s cs = (s', rs) /\ no_error rs = true /\
      Inv w' s' (ideal_run i h) (depth_run d h).
  Proof.
    induction h as [|a r IH]; intros w s i d HI HL.
    - exists w, s, [], []. repeat split; auto; apply HI.
    - cbn [history_legal] in HL. apply andb_true_iff in HL. destruct HL as [HL Hr].
      apply andb_true_iff in HL. destruct HL as [Hc _].
      destruct (api_ok a w s i d HI Hc) as (w1 & s1 & c1 & r1 & [R1 S1] & N1 & I1 & _).
      destruct (IH w1 s1 _ _ I1 Hr) as (w2 & s2 & c2 & r2 & R2 & S2 & N2 & I2).
      exists w2, s2, (c1 ++ c2), (r1 ++ r2). cbn [run_api ideal_run depth_run].
      rewrite R1, R2. split; [reflexivity|].
      split; [rewrite spec_exec_app, S1, S2; reflexivity|].
      split; [rewrite no_error_app, N1, N2; reflexivity | exact I2].
  Qed.

  Lemma inv_init : Inv w_init s_init ideal_init 0.
  Proof.
    unfold Inv. cbn. split; [reflexivity|]. split; [reflexivity|]. split; [reflexivity|].
    split; [reflexivity|]. split; [split; [intros f x []|exact I] | reflexivity].
  Qed.

  (* FULL CLAUSE: on EVERY history that respects the user-level stack discipline (push(n) /
     pop(n) for any n, reset_assertions, one-shot checks, get_value of any term and get_model
     anywhere, exit last) the emitted stream is accepted by the strict solver (every sort and
     symbol declared before use, exactly once while in scope, push/pop mirrored level by level)
     and the wrapper raises no internal error *)
  Theorem stream_legal : forall h, user_legal 0 h = true ->
    accepted decide (stream h) = true /\ werr (final h) = false.
  Proof.
    intros h HL. rewrite <- (history_legal_user h ideal_init 0) in HL.
    destruct (run_ok h w_init s_init ideal_init 0 inv_init HL)
      as (w' & s' & cs & rs & R & S & N & I').
    unfold accepted, spec_run, stream, final. rewrite R. cbn [fst snd].
    rewrite spec_exec_app. cbn [preamble spec_exec spec_step]. fold s_init. rewrite S. cbn [snd].
    split; [cbn; exact N | apply I'].
  Qed.

  (* the solver's assertion stack after a legal history is the one the user means; every
     symbol of a live assertion is declared in the solver *)
  Theorem state_tracks_ideal : forall h, user_legal 0 h = true ->
    exists s', fst (sexec s_init (snd (run_api w_init h))) = s' /\
      Inv (final h) s' (ideal_run ideal_init h) (depth_run 0 h).
  Proof.
    intros h HL. rewrite <- (history_legal_user h ideal_init 0) in HL.
    destruct (run_ok h w_init s_init ideal_init 0 inv_init HL)
      as (w' & s' & cs & rs & R & S & N & I').
    exists s'. unfold final. rewrite R. cbn [fst snd]. rewrite S. split; [reflexivity | exact I'].
  Qed.

  (* VERDICTS: a solving call made after a legal history returns exactly what the solver's
     decision procedure says about the assertions the user means (plus the checked formula for
     the one-shot calls); is_valid / is_unsat negate it *)
  Theorem verdict_faithful : forall h a, user_legal 0 (h ++ [a]) = true ->
    let w := final h in
    let s := fst (sexec s_init (snd (run_api w_init h))) in
    let rs := snd (sexec s (snd (api_step w a))) in
    let live_now := ideal_live (ideal_run ideal_init h) in
    (a = ASolve -> verdict_of rs = Some (decide live_now)) /\
    (forall f, check_formula a = Some f -> verdict_of rs = Some (decide (f :: live_now))).
  Proof.
    intros h a HL. rewrite <- (history_legal_user (h ++ [a]) ideal_init 0) in HL.
    assert (Hsplit : forall h i d, history_legal i d (h ++ [a]) = true ->
              history_legal i d h = true /\
              call_legal (ideal_run i h) (depth_run d h) a = true).
    { clear. induction h as [|b r IH]; intros i d H.
      - cbn in H. rewrite !andb_true_iff in H. cbn. tauto.
      - cbn [app history_legal] in H. rewrite !andb_true_iff in H.
        destruct H as [[H1 H3] H4]. destruct (IH _ _ H4) as (Q1 & Q3).
        cbn [history_legal ideal_run depth_run]. rewrite H1, Q1. cbn [andb].
        split; [|assumption].
        destruct b; auto. destruct r; [reflexivity | destruct (r ++ [a]); discriminate]. }
    destruct (Hsplit h _ _ HL) as (HLh & Hc).
    destruct (run_ok h w_init s_init ideal_init 0 inv_init HLh)
      as (w' & s' & cs & rs & R & S & N & I').
    cbn zeta. unfold final. rewrite R. cbn [fst snd]. rewrite S. cbn [fst].
    destruct (api_ok a w' s' _ _ I' Hc) as (w2 & s2 & c2 & r2 & [R2 S2] & _ & _ & V1 & V2).
    rewrite R2. cbn [snd]. rewrite S2. cbn [snd]. split; assumption.
  Qed.

  (* FULL CLAUSE: after every legal history, at every depth and with or without a pending
     one-shot level, get_model asks the solver about every symbol of every live assertion (and
     the strict solver answers each query: get_model_ok) *)
  Theorem model_complete : forall h, user_legal 0 h = true ->
    forall f x, In f (ideal_live (ideal_run ideal_init h)) -> In x (fvs f) ->
      In x (model_queries (final h)).
  Proof.
    intros h HL f x Hf Hx.
    destruct (state_tracks_ideal h HL) as (s' & _ & HI).
    pose proof (inv_declared _ _ _ _ f x HI Hf Hx) as Hdecl.
    destruct HI as (_ & Hdl & _). unfold model_queries. rewrite <- Hdl.
    apply declared_in_concat, Hdecl.
  Qed.
End Legal.

(* the side condition is satisfiable by a non-trivial history: multi-level push/pop, a one-shot
   check whose pending level is cleared by the next call, value queries in the middle, reset;
   symbols 5 and 6 have the custom sort 0, whose name collides with symbol 0 *)
Definition legal_example : list api_call :=
  [AAdd (FAtom 0 [(0, None); (1, None); (5, Some 0); (6, Some 0)] []); APush 2; AAdd (FAtom 1 (plain [1; 2]) []); AIsSat (FAtom 2 (plain [3]) []); APush 1;
   AAdd (FNot (FAtom 3 (plain [0; 3]) [])); ASolve; AGetValue [0; 3]; AGetModel; APop 2;
   AIsValid (FAtom 4 (plain [2]) []); APop 1; ASolve; AReset; AAdd (FAtom 5 (plain [0]) []); ASolve; AGetModel; AExit].
Example legal_example_ok : user_legal 0 legal_example = true.
Proof. reflexivity. Qed.
Example legal_example_stream :
  snd (run_api w_init legal_example) =
  [CDeclareSort 0; CDeclare 0 None; CDeclare 1 None; CDeclare 5 (Some 0); CDeclare 6 (Some 0); CAssert (FAtom 0 [(0, None); (1, None); (5, Some 0); (6, Some 0)] []); CPush 2; CDeclare 2 None; CAssert (FAtom 1 [(1, None); (2, None)] []); CPush 1; CDeclare 3 None; CAssert (FAtom 2 [(3, None)] []); CCheckSat; CPop 1; CPush 1; CDeclare 3 None; CAssert (FNot (FAtom 3 [(0, None); (3, None)] [])); CCheckSat; CGetValue [0; 3]; CGetValue [3]; CGetValue [2]; CGetValue [6]; CGetValue [5]; CGetValue [1]; CGetValue [0]; CPop 2; CPush 1; CDeclare 2 None; CAssert (FNot (FAtom 4 [(2, None)] [])); CCheckSat; CPop 1; CPop 1; CCheckSat; CResetAssertions; CDeclare 0 None; CAssert (FAtom 5 [(0, None)] []); CCheckSat; CGetValue [0]; CExit].
Proof. reflexivity. Qed.

(* ====================================================================== *)
(* C. Histories that refuted clauses before the fixes (a-e) are handled    *)
(* ====================================================================== *)

Definition X := FAtom 0 (plain [0]) [].
Definition Y := FAtom 1 (plain [1]) [].

Definition legal_and_quiet (decide : list form -> bool) (h : list api_call) : bool :=
  accepted decide (stream h) && negb (werr (final h)).

(* get_value of a symbol that no assertion mentions: nothing undeclared is sent *)
Definition value_witness : list api_call := [AAdd X; ASolve; AGetValue [1]; AGetValue [0; 1]].
Example value_witness_ok :
  snd (run_api w_init value_witness) =
    [CDeclare 0 None; CAssert X; CCheckSat; CGetValue []; CGetValue [0]] /\
  forall decide, legal_and_quiet decide value_witness = true.
Proof. split; reflexivity. Qed.

Example former_witnesses_ok :
  forallb (fun h => legal_and_quiet (fun _ => true) h && in_sync (stream h))
    [ [AAdd X; ASolve; AGetValue [0]; ASolve];
      [APush 1; AAdd X; APush 1; APop 2; AAdd X];
      [APush 2; APop 1; APop 1; AAdd X];
      [APush 1; APush 1; APop 2; AAdd X; APush 2; APop 1; APop 1; AAdd X];
      [AAdd X; AReset; AAdd X] ] = true /\
  model_queries (final [AAdd X; APush 1; AAdd Y]) = [1; 0] /\
  model_queries (final [AAdd X; AIsSat Y]) = [1; 0].
Proof. repeat split; reflexivity. Qed.

(* a sort that occurs only in binders / array constants of a formula whose free symbols are
   all declared already: it is declared before the assertion, re-declared after a pop and after
   reset_assertions (sort 7 with no free symbol of that sort) *)
Example bound_sort_example :
  let q := FAtom 1 (plain [0]) [7] in
  snd (run_api w_init [AAdd X; AAdd q; APush 1; AIsSat (FAtom 2 [] [8]); APop 1; AAdd (FAtom 3 [] [8]);
                       AReset; AAdd q]) =
  [CDeclare 0 None; CAssert X; CDeclareSort 7; CAssert q; CPush 1; CPush 1; CDeclareSort 8;
   CAssert (FAtom 2 [] [8]); CCheckSat; CPop 1; CPop 1; CDeclareSort 8; CAssert (FAtom 3 [] [8]);
   CResetAssertions; CDeclareSort 7; CDeclare 0 None; CAssert q].
Proof. reflexivity. Qed.

(* ====================================================================== *)
(* D. Shortcuts return the corresponding truth                             *)
(* ====================================================================== *)
Section Truth.
  (* the external solver: a decision procedure that is correct for some semantics of the
     opaque formulas in which FNot is negation *)
  Variable interp : Type.
  Variable holds : interp -> form -> bool.
  Variable decide : list form -> bool.
  Definition sat_by (I : interp) (fs : list form) : Prop := forall g, In g fs -> holds I g = true.
  Hypothesis decide_correct : forall fs, decide fs = true <-> exists I, sat_by I fs.
  Hypothesis holds_not : forall I f, holds I (FNot f) = negb (holds I f).

  Theorem shortcut_truth : forall h a v, user_legal 0 (h ++ [a]) = true ->
    let w := final h in
    let s := fst (spec_exec decide s_init (snd (run_api w_init h))) in
    let rs := snd (spec_exec decide s (snd (api_step w a))) in
    let live_now := ideal_live (ideal_run ideal_init h) in
    verdict_of rs = Some v ->
    match a with
    | ASolve => v = true <-> exists I, sat_by I live_now
    | AIsSat f => shortcut_result a v = true <-> exists I, sat_by I live_now /\ holds I f = true
    | AIsUnsat f => shortcut_result a v = true <-> ~ exists I, sat_by I live_now /\ holds I f = true
    | AIsValid f => shortcut_result a v = true <-> forall I, sat_by I live_now -> holds I f = true
    | _ => True
    end.
  Proof.
    intros h a v HL w s rs live_now Hv.
    destruct (verdict_faithful decide h a HL) as [V1 V2]. fold w s rs live_now in V1, V2.
    assert (Hcons : forall f, (exists I, sat_by I (f :: live_now)) <->
                              (exists I, sat_by I live_now /\ holds I f = true)).
    { intros f. split; intros [I H]; exists I.
      - split; [intros g Hg; apply H; right; exact Hg | apply H; left; reflexivity].
      - intros g [<-|Hg]; [apply H | apply (proj1 H g Hg)]. }
    destruct a; auto.
    - rewrite (V1 eq_refl) in Hv. injection Hv as <-. apply decide_correct.
    - rewrite (V2 f eq_refl) in Hv. injection Hv as <-. cbn [shortcut_result].
      rewrite decide_correct. apply Hcons.
    - rewrite (V2 (FNot f) eq_refl) in Hv. injection Hv as <-. cbn [shortcut_result].
      rewrite negb_true_iff. split.
      + intros Hd I HI. destruct (holds I f) eqn:E; [reflexivity|]. exfalso.
        assert (Hex : decide (FNot f :: live_now) = true).
        { apply decide_correct, Hcons. exists I. split; [exact HI|]. rewrite holds_not, E. reflexivity. }
        congruence.
      + intros Hall. destruct (decide (FNot f :: live_now)) eqn:E; [|reflexivity]. exfalso.
        apply decide_correct, Hcons in E. destruct E as (I & HI & Hn).
        rewrite holds_not, (Hall I HI) in Hn. discriminate.
    - rewrite (V2 f eq_refl) in Hv. injection Hv as <-. cbn [shortcut_result].
      rewrite negb_true_iff. rewrite <- Hcons, <- decide_correct.
      destruct (decide (f :: live_now)); split; intros H; congruence.
  Qed.
End Truth.

(* the hypotheses of section Truth are satisfiable: propositional atoms numbered by id *)
Fixpoint ex_holds (I : nat -> bool) (f : form) : bool :=
  match f with FAtom id _ _ => I id | FNot g => negb (ex_holds I g) end.
Example truth_hypotheses_satisfiable :
  (forall I f, ex_holds I (FNot f) = negb (ex_holds I f)) /\
  sat_by (nat -> bool) ex_holds (fun n => Nat.eqb n 0) [FAtom 0 (plain [0]) []; FNot (FAtom 1 (plain [1]) [])].
Proof. split; [reflexivity|]. intros g [<-|[<-|[]]]; reflexivity. Qed.
