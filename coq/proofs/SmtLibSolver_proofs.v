(* Theorems about the SmtLibSolver protocol model, for every API history. *)
From Coq Require Import List Bool Arith Lia.
From PySMT.models Require Import SmtLibSolver.
Import ListNotations.
Open Scope bool_scope.

(* ====================================================================== *)
(* A. Reply synchronisation                                                *)
(* ====================================================================== *)

Lemma read_line_nls m tl : read_line (repeat NL (S m) ++ tl) = Some ([], repeat NL m ++ tl).
Proof. reflexivity. Qed.

Lemma read_sexp_nls m k tl : read_sexp (repeat NL m ++ Body k :: tl) = Some (k, tl).
Proof. induction m as [|m IH]; cbn; auto. Qed.

Lemma line_is_refl k : line_is [k] k = true.
Proof. cbn. apply Nat.eqb_refl. Qed.

(* an older unread reply in the pipe: every later read is wrong *)
Lemma sync_broken : forall cmds k m j rest, j < k ->
  forallb (fun b => b) (sync_flags k (repeat NL m ++ Body j :: rest) cmds) = sync_ok PBroken cmds.
Proof.
  induction cmds as [|c r IH]; intros k m j rest Hlt; [reflexivity|].
  cbn [sync_flags sync_ok]. rewrite <- app_assoc. cbn [app].
  destruct (reads c) eqn:Er.
  - (* ReadLine *)
    destruct m as [|m].
    + cbn [repeat app read_line].
      destruct (read_line (rest ++ [Body k; NL])) as [[l p']|]; cbn [forallb].
      * replace (line_is (j :: l) k) with false; [reflexivity|].
        destruct l; cbn; auto. symmetry. apply Nat.eqb_neq. lia.
      * reflexivity.
    + rewrite read_line_nls. reflexivity.
  - (* ReadSexp *)
    rewrite read_sexp_nls. cbn [forallb].
    replace (j =? k) with false; [reflexivity|]. symmetry. apply Nat.eqb_neq. lia.
  - (* NoRead *)
    cbn [forallb andb].
    change (Body j :: rest ++ [Body k; NL]) with (Body j :: (rest ++ [Body k; NL])).
    apply IH. lia.
Qed.

Definition pipe_of (m : nat) : pstate := match m with 0 => PClean | S _ => PDirty end.

Lemma sync_clean_dirty : forall cmds k m,
  forallb (fun b => b) (sync_flags k (repeat NL m) cmds) = sync_ok (pipe_of m) cmds.
Proof.
  induction cmds as [|c r IH]; intros k m; [reflexivity|].
  cbn [sync_flags sync_ok].
  destruct (reads c) eqn:Er.
  - destruct m as [|m].
    + cbn [repeat app read_line pipe_of]. rewrite line_is_refl. cbn [forallb andb].
      apply (IH (S k) 0).
    + rewrite read_line_nls. reflexivity.
  - rewrite read_sexp_nls. rewrite Nat.eqb_refl. cbn [forallb andb].
    change [NL] with (repeat NL 1). rewrite (IH (S k) 1). destruct m; reflexivity.
  - cbn [forallb andb].
    rewrite (sync_broken r (S k) m k [NL]) by lia. destruct m; reflexivity.
Qed.

(* EXACT criterion for every command stream: the reads stay attributed to their own
   commands iff no line-reading command follows a get-value (and nothing reads after exit) *)
Theorem in_sync_iff : forall cmds, in_sync cmds = sync_ok PClean cmds.
Proof. intros cmds. unfold in_sync. apply (sync_clean_dirty cmds 0 0). Qed.

(* -- history level ------------------------------------------------------ *)
Definition is_line (c : command) : bool := match reads c with ReadLine => true | _ => false end.
Definition is_value (c : command) : bool := match reads c with ReadSexp => true | _ => false end.

Definition only (P : command -> bool) (a : M) : Prop := forall w, forallb P (snd (a w)) = true.

Lemma only_seq P a b : only P a -> only P b -> only P (seq a b).
Proof.
  intros Ha Hb w. unfold seq. specialize (Ha w). destruct (a w) as [w1 c1].
  specialize (Hb w1). destruct (b w1) as [w2 c2]. cbn in *. rewrite forallb_app, Ha, Hb. reflexivity.
Qed.
Lemma only_guard P a : only P a -> only P (guard a).
Proof. intros Ha w. unfold guard. destruct (werr w); [reflexivity | apply Ha]. Qed.
Lemma only_emit P c : P c = true -> only P (emit c).
Proof. intros Hc. apply only_guard. intros w. cbn. rewrite Hc. reflexivity. Qed.
Lemma only_nil P (f : wstate -> wstate) : only P (guard (fun w => (f w, []))).
Proof. apply only_guard. intros w. reflexivity. Qed.
Lemma only_push_level P : only P w_push_level. Proof. apply only_nil. Qed.
Lemma only_set_pending P b : only P (set_pending b). Proof. apply only_nil. Qed.
Lemma only_pop_level P : only P w_pop_level.
Proof. apply only_guard. intros w. destruct (decl w); reflexivity. Qed.
Lemma only_record P s : only P (w_record s).
Proof. apply only_guard. intros w. destruct (decl w); reflexivity. Qed.
Lemma only_clear : only is_line clear_pending.
Proof.
  apply only_guard. intros w. destruct (pending w); [|reflexivity].
  apply (only_seq is_line); [apply only_set_pending|].
  apply only_seq; [apply only_pop_level | apply only_emit; reflexivity].
Qed.
Lemma only_declare_missing : forall fv, only is_line (declare_missing fv).
Proof.
  induction fv as [|d r IH]; [intros w; reflexivity|].
  cbn [declare_missing]. apply only_seq; [|exact IH].
  apply only_guard. intros w. destruct (declared_in d (decl w)); [reflexivity|].
  apply (only_seq is_line); [apply only_emit; reflexivity | apply only_record].
Qed.
Lemma only_add f : only is_line (add_assertion f).
Proof.
  apply only_seq; [apply only_clear|]. apply only_seq; [apply only_declare_missing|].
  apply only_emit; reflexivity.
Qed.
Lemma only_push n : only is_line (push n).
Proof.
  apply only_seq; [apply only_clear|]. apply only_seq; [apply only_push_level|].
  apply only_emit; reflexivity.
Qed.
Lemma only_pop n : only is_line (pop n).
Proof.
  apply only_seq; [apply only_clear|]. apply only_seq; [apply only_pop_level|].
  apply only_emit; reflexivity.
Qed.
Lemma only_solve : only is_line solve.
Proof. apply only_seq; [apply only_clear | apply only_emit; reflexivity]. Qed.
Lemma only_reset : only is_line reset_assertions.
Proof. apply only_seq; [apply only_clear | apply only_emit; reflexivity]. Qed.
Lemma only_is_sat f : only is_line (is_sat f).
Proof.
  apply only_seq; [apply only_push|]. apply only_seq; [apply only_add|].
  apply only_seq; [apply only_solve | apply only_set_pending].
Qed.
Lemma only_get_model : only is_value get_model.
Proof.
  apply only_guard. intros w. destruct (decl w) as [|top r]; [reflexivity|].
  cbn. induction top; cbn; auto.
Qed.

(* calls that ask for values / all other calls except exit *)
Definition value_call (a : api_call) : bool :=
  match a with AGetValue _ | AGetModel => true | _ => false end.
Definition line_call (a : api_call) : bool :=
  match a with AGetValue _ | AGetModel | AExit => false | _ => true end.

Lemma line_call_cmds a w : line_call a = true -> forallb is_line (snd (api_step w a)) = true.
Proof.
  destruct a; cbn [line_call api_step]; intros H; try discriminate;
    first [apply only_add | apply only_push | apply only_pop | apply only_solve
          | apply only_reset | apply only_is_sat].
Qed.
Lemma value_call_cmds a w : value_call a = true -> forallb is_value (snd (api_step w a)) = true.
Proof.
  destruct a; cbn [value_call api_step]; intros H; try discriminate.
  - apply (only_emit is_value); reflexivity.
  - apply only_get_model.
Qed.

Lemma sync_ok_lines : forall cs rest, forallb is_line cs = true ->
  sync_ok PClean (cs ++ rest) = sync_ok PClean rest.
Proof.
  induction cs as [|c r IH]; intros rest H; [reflexivity|].
  cbn in H. apply andb_true_iff in H. destruct H as [Hc Hr].
  cbn [app sync_ok]. unfold is_line in Hc. destruct (reads c); try discriminate. apply IH, Hr.
Qed.
Lemma sync_ok_values : forall cs rest st, st <> PBroken -> forallb is_value cs = true ->
  exists st', st' <> PBroken /\ sync_ok st (cs ++ rest) = sync_ok st' rest.
Proof.
  induction cs as [|c r IH]; intros rest st Hst H; [exists st; auto|].
  cbn in H. apply andb_true_iff in H. destruct H as [Hc Hr].
  cbn [app sync_ok]. unfold is_value in Hc. destruct (reads c); try discriminate.
  destruct (IH rest PDirty) as (st' & H1 & H2); [discriminate | exact Hr |].
  exists st'. split; auto. destruct st; auto. congruence.
Qed.

(* line calls first, then value queries, then (optionally) exit *)
Fixpoint values_last (seen_value : bool) (h : list api_call) : bool :=
  match h with
  | [] => true
  | AExit :: r => match r with [] => true | _ => false end
  | a :: r => if value_call a then values_last true r
              else negb seen_value && values_last false r
  end.

Lemma run_api_cons w a r :
  snd (run_api w (a :: r)) = snd (api_step w a) ++ snd (run_api (fst (api_step w a)) r).
Proof.
  cbn [run_api]. destruct (api_step w a) as [w1 c1]. cbn [fst snd].
  destruct (run_api w1 r) as [w2 c2]. reflexivity.
Qed.

Lemma sync_values_tail : forall h w st, st <> PBroken -> values_last true h = true ->
  sync_ok st (snd (run_api w h)) = true.
Proof.
  induction h as [|a r IH]; intros w st Hst H; [reflexivity|].
  rewrite run_api_cons.
  destruct (value_call a) eqn:Ev.
  - assert (Hr : values_last true r = true) by (destruct a; cbn in *; try discriminate; exact H).
    destruct (sync_ok_values (snd (api_step w a)) (snd (run_api (fst (api_step w a)) r)) st Hst
                (value_call_cmds a w Ev)) as (st' & H1 & H2).
    rewrite H2. apply IH; auto.
  - destruct a; cbn in Ev, H; try discriminate.
    destruct r; [|discriminate]. cbn. unfold exit_, emit, guard.
    destruct (werr w); cbn; [reflexivity|]. destruct st; reflexivity.
Qed.

Lemma sync_values_last : forall h w, values_last false h = true ->
  sync_ok PClean (snd (run_api w h)) = true.
Proof.
  induction h as [|a r IH]; intros w H; [reflexivity|].
  destruct (value_call a) eqn:Ev.
  - apply sync_values_tail; [discriminate|].
    destruct a; cbn in Ev |- *; try discriminate; cbn in H; exact H.
  - destruct (line_call a) eqn:El.
    + rewrite run_api_cons. rewrite sync_ok_lines by (apply line_call_cmds; exact El).
      apply IH. destruct a; cbn in Ev, El, H |- *; try discriminate; exact H.
    + destruct a; cbn in Ev, El; try discriminate.
      apply sync_values_tail; [discriminate|]. exact H.
Qed.

(* PARTIAL (history level): if all value queries come after all other calls, every reply is
   read by the command that caused it *)
Theorem replies_in_sync_partial : forall h, values_last false h = true -> in_sync (stream h) = true.
Proof.
  intros h H. rewrite in_sync_iff. unfold stream.
  change (preamble ++ snd (run_api w_init h))
    with ([CSetOption; CSetOption; CSetOption; CSetLogic] ++ snd (run_api w_init h)).
  rewrite sync_ok_lines by reflexivity. apply sync_values_last, H.
Qed.

(* the side condition is satisfiable by a non-trivial history *)
Example values_last_example :
  values_last false [APush 1; AAdd (FAtom 0 [0; 1]); AIsSat (FAtom 1 [2]); ASolve;
                     AGetValue [0]; AGetModel; AExit] = true.
Proof. reflexivity. Qed.

(* REFUTED (full clause): assert x; solve; get_value x; solve -- the second check-sat reads the
   newline left behind by the get-value reply instead of its own verdict *)
Definition sync_witness : list api_call :=
  [AAdd (FAtom 0 [0]); ASolve; AGetValue [0]; ASolve].
Theorem replies_in_sync_refuted :
  exists h, user_legal 0 h = true /\ unit_levels h = true /\ in_sync (stream h) = false.
Proof. exists sync_witness. repeat split; reflexivity. Qed.

(* ====================================================================== *)
(* B. Legality of the emitted stream                                       *)
(* ====================================================================== *)

Lemma mem_In x l : mem x l = true -> In x l.
Proof.
  unfold mem. intros H. apply existsb_exists in H. destruct H as (y & Hy & E).
  apply Nat.eqb_eq in E. subst. exact Hy.
Qed.
Lemma In_mem x l : In x l -> mem x l = true.
Proof. intros H. unfold mem. apply existsb_exists. exists x. split; auto. apply Nat.eqb_refl. Qed.

Lemma s_declared_map x s : s_declared x s = declared_in x (map ldecl s).
Proof. unfold s_declared, declared_in. induction s as [|l r IH]; cbn; congruence. Qed.

Lemma s_declared_cons x l r : s_declared x r = true -> s_declared x (l :: r) = true.
Proof. unfold s_declared. cbn. intros ->. apply orb_true_r. Qed.

Lemma s_declared_push x n s : s_declared x (repeat (mkL [] []) n ++ s) = s_declared x s.
Proof. induction n as [|n IH]; cbn; auto. Qed.

Lemma s_declared_add x y l r a : s_declared x (l :: r) = true ->
  s_declared x (mkL (y :: ldecl l) a :: r) = true.
Proof.
  unfold s_declared. cbn [existsb ldecl]. unfold mem. cbn [existsb]. intros H.
  apply orb_true_iff in H. destruct H as [H|H]; rewrite H.
  - rewrite orb_true_r. reflexivity.
  - apply orb_true_r.
Qed.

(* every level's assertions mention only symbols declared at that level or below *)
Fixpoint wf_levels (s : sstate) : Prop :=
  match s with
  | [] => True
  | l :: r => (forall f x, In f (lasserts l) -> In x (fvs f) -> s_declared x (l :: r) = true)
              /\ wf_levels r
  end.

Lemma wf_skipn : forall n s, wf_levels s -> wf_levels (skipn n s).
Proof.
  induction n as [|n IH]; intros s H; [exact H|]. destruct s as [|l r]; [exact I|].
  cbn. apply IH. exact (proj2 H).
Qed.
Lemma wf_push : forall n s, wf_levels s -> wf_levels (repeat (mkL [] []) n ++ s).
Proof.
  induction n as [|n IH]; intros s H; [exact H|]. cbn. split; [intros f x []|]. apply IH, H.
Qed.
Lemma wf_live : forall s f x, wf_levels s -> In f (live s) -> In x (fvs f) -> s_declared x s = true.
Proof.
  induction s as [|l r IH]; intros f x Hwf Hf Hx; [destruct Hf|].
  unfold live in Hf. cbn in Hf. apply in_app_or in Hf. destruct Hf as [Hf|Hf].
  - exact (proj1 Hwf f x Hf Hx).
  - apply s_declared_cons. apply (IH f x); auto. exact (proj2 Hwf).
Qed.

Section Legal.
  Variable decide : list form -> bool.
  Notation sexec := (spec_exec decide).
  Notation sstep := (spec_step decide).

  Lemma spec_exec_app : forall c1 c2 s,
    sexec s (c1 ++ c2) =
    let (s1, r1) := sexec s c1 in let (s2, r2) := sexec s1 c2 in (s2, r1 ++ r2).
  Proof.
    induction c1 as [|c r IH]; intros c2 s; cbn [app spec_exec].
    - destruct (sexec s c2); reflexivity.
    - destruct (sstep s c) as [s1 rp]. rewrite IH. destruct (sexec s1 r) as [s2 r2].
      destruct (sexec s2 c2) as [s3 r3]. reflexivity.
  Qed.

  (* invariant of the strict solver itself, for EVERY command stream *)
  Lemma spec_step_wf s c : wf_levels s -> wf_levels (fst (sstep s c)).
  Proof.
    intros Hwf. destruct c; cbn [spec_step]; try exact Hwf.
    - destruct (s_declared s0 s) eqn:E; [exact Hwf|]. destruct s as [|l r]; [exact I|].
      cbn [fst]. destruct Hwf as [H1 H2]. split; [|exact H2].
      intros f x Hf Hx. cbn [lasserts] in Hf. apply s_declared_add. exact (H1 f x Hf Hx).
    - destruct (forallb (fun x => s_declared x s) (fvs f)) eqn:E; [|exact Hwf].
      destruct s as [|l r]; [exact I|]. cbn [fst]. destruct Hwf as [H1 H2]. split; [|exact H2].
      intros g x Hg Hx. cbn [lasserts] in Hg. destruct Hg as [<-|Hg].
      + rewrite forallb_forall in E. exact (E x Hx).
      + exact (H1 g x Hg Hx).
    - cbn [fst]. apply wf_push, Hwf.
    - destruct (n <? length s); cbn [fst]; [apply wf_skipn|]; exact Hwf.
    - destruct (forallb (fun x => s_declared x s) t); exact Hwf.
    - cbn. split; [intros f x []|exact I].
  Qed.
  Lemma spec_exec_wf : forall cs s, wf_levels s -> wf_levels (fst (sexec s cs)).
  Proof.
    induction cs as [|c r IH]; intros s H; [exact H|]. cbn [spec_exec].
    pose proof (spec_step_wf s c H) as H1. destruct (sstep s c) as [s1 rp]. cbn [fst] in H1.
    specialize (IH s1 H1). destruct (sexec s1 r) as [s2 rs]. exact IH.
  Qed.

  Definition runs (a : M) (w : wstate) (s : sstate) (w' : wstate) (s' : sstate)
             (cs : list command) (rs : list reply) : Prop :=
    a w = (w', cs) /\ sexec s cs = (s', rs).

  Lemma runs_seq a b w s w1 s1 c1 r1 w2 s2 c2 r2 :
    runs a w s w1 s1 c1 r1 -> runs b w1 s1 w2 s2 c2 r2 ->
    runs (seq a b) w s w2 s2 (c1 ++ c2) (r1 ++ r2).
  Proof.
    intros [Ha Hs] [Hb Hs2]. split.
    - unfold seq. rewrite Ha, Hb. reflexivity.
    - rewrite spec_exec_app, Hs, Hs2. reflexivity.
  Qed.
  Lemma runs_wf a w s w' s' cs rs : runs a w s w' s' cs rs -> wf_levels s -> wf_levels s'.
  Proof. intros [_ H] Hwf. pose proof (spec_exec_wf cs s Hwf) as H1. rewrite H in H1. exact H1. Qed.

  Lemma no_error_app r1 r2 : no_error (r1 ++ r2) = no_error r1 && no_error r2.
  Proof. apply forallb_app. Qed.

  (* the wrapper's record and the solver agree; the solver's assertion stack below the
     pending one-shot level is the stack the user means *)
  Definition Inv (w : wstate) (s : sstate) (i : ideal) (d : nat) : Prop :=
    werr w = false /\ map ldecl s = decl w /\
    map lasserts (if pending w then tl s else s) = i /\ length i = S d /\ wf_levels s.

  Lemma clear_ok w s i d : Inv w s i d ->
    exists w' s' cs rs, runs clear_pending w s w' s' cs rs /\ no_error rs = true /\
      Inv w' s' i d /\ pending w' = false.
  Proof.
    intros (He & Hd & Ha & Hl & Hwf). destruct w as [dl p e]. cbn in He, Hd, Ha. subst e.
    destruct p.
    - destruct s as [|l0 [|l1 s2]]; cbn in Ha; subst i; try discriminate.
      cbn in Hd. subst dl.
      exists (mkW (ldecl l1 :: map ldecl s2) false false), (l1 :: s2), [CPop 1], [RSuccess].
      split; [split; reflexivity|]. split; [reflexivity|]. split; [|reflexivity].
      unfold Inv. cbn. split; [reflexivity|]. split; [reflexivity|]. split; [reflexivity|].
      split; [exact Hl | exact (proj2 Hwf)].
    - exists (mkW dl false false), s, [], []. split; [split; reflexivity|].
      split; [reflexivity|]. split; [|reflexivity].
      unfold Inv. cbn. split; [reflexivity|]. split; [exact Hd|]. split; [exact Ha|].
      split; [exact Hl | exact Hwf].
  Qed.

  Lemma declare_missing_ok : forall fv w s, werr w = false -> map ldecl s = decl w -> s <> [] ->
    exists w' s' cs rs, runs (declare_missing fv) w s w' s' cs rs /\ no_error rs = true /\
      werr w' = false /\ map ldecl s' = decl w' /\ pending w' = pending w /\
      map lasserts s' = map lasserts s /\
      (forall x, s_declared x s = true -> s_declared x s' = true) /\
      (forall x, In x fv -> s_declared x s' = true).
  Proof.
    induction fv as [|d r IH]; intros w s He Hd Hne.
    - exists w, s, [], []. split; [split; reflexivity|]. repeat split; auto; intros x [].
    - destruct w as [dl p e]. cbn in He, Hd. subst e dl.
      destruct (declared_in d (map ldecl s)) eqn:Ed.
      + destruct (IH (mkW (map ldecl s) p false) s) as (w' & s' & cs & rs & Hr & Hn & P1 & P2 & P3 & P4 & P5 & P6);
          auto.
        exists w', s', ([] ++ cs), ([] ++ rs). split.
        * cbn [declare_missing]. eapply runs_seq; [|exact Hr]. split; [|reflexivity].
          unfold guard. cbn [werr decl pending]. rewrite Ed. reflexivity.
        * repeat split; auto. intros x [<-|Hx]; [|auto]. apply P5. rewrite s_declared_map. exact Ed.
      + destruct s as [|l rest]; [congruence|].
        set (s1 := mkL (d :: ldecl l) (lasserts l) :: rest).
        destruct (IH (mkW (map ldecl s1) p false) s1) as (w' & s' & cs & rs & Hr & Hn & P1 & P2 & P3 & P4 & P5 & P6);
          auto; [discriminate|].
        exists w', s', ([CDeclare d] ++ cs), ([RSuccess] ++ rs). split.
        * cbn [declare_missing]. eapply runs_seq; [|exact Hr]. split.
          -- unfold guard. cbn [werr decl pending]. rewrite Ed. reflexivity.
          -- cbn [spec_exec spec_step]. rewrite s_declared_map, Ed. reflexivity.
        * assert (Hmono : forall x, s_declared x (l :: rest) = true -> s_declared x s1 = true).
          { intros x H. unfold s1. apply s_declared_add. exact H. }
          split; [cbn; exact Hn|]. split; [exact P1|]. split; [exact P2|]. split; [exact P3|].
          split; [rewrite P4; reflexivity|]. split; [intros x Hx; apply P5, Hmono, Hx|].
          intros x [<-|Hx]; [|auto]. apply P5. unfold s_declared, s1. cbn. rewrite Nat.eqb_refl. reflexivity.
  Qed.

  Lemma live_concat s : live s = concat (map lasserts s).
  Proof. unfold live. apply flat_map_concat_map. Qed.

  Lemma emit_runs c w s : werr w = false ->
    runs (emit c) w s w (fst (sstep s c)) [c] [snd (sstep s c)].
  Proof.
    intros He. split; [unfold emit, guard; rewrite He; reflexivity|].
    cbn. destruct (sstep s c); reflexivity.
  Qed.

  Lemma add_ok f w s i d : Inv w s i d ->
    exists w' s' cs rs, runs (add_assertion f) w s w' s' cs rs /\ no_error rs = true /\
      Inv w' s' (ideal_step i (AAdd f)) d /\ pending w' = false.
  Proof.
    intros HI. destruct (clear_ok w s i d HI) as (w1 & s1 & c1 & r1 & R1 & N1 & I1 & P1).
    destruct I1 as (He & Hd & Ha & Hl & Hwf). rewrite P1 in Ha.
    assert (Hne : s1 <> []) by (intros ->; cbn in Ha; subst i; discriminate).
    destruct (declare_missing_ok (fvs f) w1 s1 He Hd Hne)
      as (w2 & s2 & c2 & r2 & R2 & N2 & Q1 & Q2 & Q3 & Q4 & Q5 & Q6).
    assert (Hall : forallb (fun x => s_declared x s2) (fvs f) = true)
      by (apply forallb_forall; exact Q6).
    destruct s2 as [|l rest]; [destruct s1; cbn in Q4; [congruence|discriminate]|].
    pose proof (emit_runs (CAssert f) w2 (l :: rest) Q1) as R3.
    cbn [spec_step] in R3. rewrite Hall in R3. cbn [fst snd] in R3.
    exists w2, (mkL (ldecl l) (f :: lasserts l) :: rest), (c1 ++ c2 ++ [CAssert f]), (r1 ++ r2 ++ [RSuccess]).
    split; [eapply runs_seq; [exact R1|]; eapply runs_seq; [exact R2 | exact R3]|].
    split; [rewrite !no_error_app, N1, N2; reflexivity|].
    split; [|congruence].
    assert (Hwf2 : wf_levels (mkL (ldecl l) (f :: lasserts l) :: rest)).
    { eapply runs_wf; [exact R3|]. eapply runs_wf; [exact R2 | exact Hwf]. }
    unfold Inv. rewrite Q3, P1. cbn [map ldecl lasserts] in *.
    split; [exact Q1|]. split; [exact Q2|].
    rewrite <- Ha, <- Q4 in Hl |- *. cbn [ideal_step].
    split; [reflexivity|]. split; [exact Hl | exact Hwf2].
  Qed.

  Lemma inv_nonempty w s i d : Inv w s i d -> s <> [].
  Proof.
    intros (_ & _ & Ha & Hl & _) ->. destruct (pending w); cbn in Ha; subst i; discriminate.
  Qed.

  Lemma push_level_runs w s : werr w = false ->
    runs w_push_level w s (mkW ([] :: decl w) (pending w) false) s [] [].
  Proof. intros He. split; [unfold w_push_level, guard; rewrite He|]; reflexivity. Qed.
  Lemma set_pending_runs b w s : werr w = false ->
    runs (set_pending b) w s (mkW (decl w) b false) s [] [].
  Proof. intros He. split; [unfold set_pending, guard; rewrite He|]; reflexivity. Qed.

  Lemma push_ok w s i d : Inv w s i d ->
    exists w' s' cs rs, runs (push 1) w s w' s' cs rs /\ no_error rs = true /\
      Inv w' s' ([] :: i) (S d) /\ pending w' = false.
  Proof.
    intros HI. destruct (clear_ok w s i d HI) as (w1 & s1 & c1 & r1 & R1 & N1 & I1 & P1).
    destruct I1 as (He & Hd & Ha & Hl & Hwf). rewrite P1 in Ha.
    pose proof (push_level_runs w1 s1 He) as R2.
    set (w2 := mkW ([] :: decl w1) (pending w1) false) in *.
    pose proof (emit_runs (CPush 1) w2 s1 eq_refl) as R3. cbn [spec_step fst snd repeat app] in R3.
    exists w2, (mkL [] [] :: s1), (c1 ++ [] ++ [CPush 1]), (r1 ++ [] ++ [RSuccess]).
    split; [eapply runs_seq; [exact R1|]; eapply runs_seq; [exact R2 | exact R3]|].
    split; [rewrite !no_error_app, N1; reflexivity|].
    split; [|exact P1].
    unfold Inv, w2. cbn [werr decl pending]. rewrite P1. cbn [map ldecl lasserts length].
    split; [reflexivity|]. split; [congruence|]. split; [congruence|]. split; [congruence|].
    split; [intros f x []|exact Hwf].
  Qed.

  Lemma pop_ok w s i d : Inv w s i d -> 1 <= d ->
    exists w' s' cs rs, runs (pop 1) w s w' s' cs rs /\ no_error rs = true /\
      Inv w' s' (skipn 1 i) (d - 1) /\ pending w' = false.
  Proof.
    intros HI Hd1. destruct (clear_ok w s i d HI) as (w1 & s1 & c1 & r1 & R1 & N1 & I1 & P1).
    destruct I1 as (He & Hd & Ha & Hl & Hwf). rewrite P1 in Ha.
    destruct w1 as [dl p e]. cbn in He, Hd, P1. subst e p dl.
    destruct s1 as [|l0 [|l1 s2]]; cbn in Ha; subst i; cbn in Hl; try lia.
    exists (mkW (ldecl l1 :: map ldecl s2) false false), (l1 :: s2),
           (c1 ++ [] ++ [CPop 1]), (r1 ++ [] ++ [RSuccess]).
    split; [eapply runs_seq; [exact R1|]; eapply runs_seq; split; reflexivity|].
    split; [rewrite !no_error_app, N1; reflexivity|].
    split; [|reflexivity].
    unfold Inv. cbn. split; [reflexivity|]. split; [reflexivity|]. split; [reflexivity|].
    split; [lia | exact (proj2 Hwf)].
  Qed.

  Lemma solve_ok w s i d : Inv w s i d ->
    exists w' s' cs rs, runs solve w s w' s' cs rs /\ no_error rs = true /\
      Inv w' s' i d /\ pending w' = false /\ verdict_of rs = Some (decide (ideal_live i)).
  Proof.
    intros HI. destruct (clear_ok w s i d HI) as (w1 & s1 & c1 & r1 & R1 & N1 & I1 & P1).
    pose proof I1 as (He & Hd & Ha & Hl & Hwf). rewrite P1 in Ha.
    pose proof (emit_runs CCheckSat w1 s1 He) as R3. cbn [spec_step fst snd] in R3.
    exists w1, s1, (c1 ++ [CCheckSat]), (r1 ++ [RVerdict (decide (live s1))]).
    split; [eapply runs_seq; [exact R1 | exact R3]|].
    split; [rewrite !no_error_app, N1; reflexivity|].
    split; [exact I1|]. split; [exact P1|].
    unfold verdict_of. rewrite last_last. rewrite live_concat, Ha. reflexivity.
  Qed.

  Lemma inv_declared w s i d f x : Inv w s i d -> In f (ideal_live i) -> In x (fvs f) ->
    s_declared x s = true.
  Proof.
    intros (He & Hd & Ha & Hl & Hwf) Hf Hx. unfold ideal_live in Hf. rewrite <- Ha in Hf.
    destruct (pending w).
    - destruct s as [|l r]; [destruct Hf|]. cbn [tl] in Hf. apply s_declared_cons.
      apply (wf_live r f x); [exact (proj2 Hwf) | rewrite live_concat; exact Hf | exact Hx].
    - apply (wf_live s f x); [exact Hwf | rewrite live_concat; exact Hf | exact Hx].
  Qed.

  (* the symbols of the live assertions: what a value query may mention *)
  Definition in_live (i : ideal) (x : sym) : bool :=
    existsb (fun f => mem x (fvs f)) (ideal_live i).

  Lemma get_value_ok t w s i d : Inv w s i d -> forallb (in_live i) t = true ->
    runs (get_value t) w s w s [CGetValue t] [RValue t].
  Proof.
    intros HI Ht. pose proof HI as (He & _).
    pose proof (emit_runs (CGetValue t) w s He) as R. cbn [spec_step] in R.
    assert (Hall : forallb (fun x => s_declared x s) t = true).
    { apply forallb_forall. intros x Hx. rewrite forallb_forall in Ht. specialize (Ht x Hx).
      unfold in_live in Ht. apply existsb_exists in Ht. destruct Ht as (f & Hf & Hm).
      apply (inv_declared w s i d f x HI Hf). apply mem_In, Hm. }
    rewrite Hall in R. exact R.
  Qed.

  Lemma value_queries_ok : forall l s, (forall x, In x l -> s_declared x s = true) ->
    sexec s (map (fun x => CGetValue [x]) l) = (s, map (fun x => RValue [x]) l).
  Proof.
    induction l as [|y r IH]; intros s H; [reflexivity|].
    cbn [map spec_exec spec_step forallb]. rewrite (H y) by (left; reflexivity). cbn [andb].
    rewrite IH; [reflexivity|]. intros x Hx. apply H. right. exact Hx.
  Qed.
  Lemma no_error_values l : no_error (map (fun x => RValue [x]) l) = true.
  Proof. induction l; cbn; auto. Qed.

  Lemma get_model_ok w s i d : Inv w s i d ->
    runs get_model w s w s (map (fun x => CGetValue [x]) (model_queries w))
         (map (fun x => RValue [x]) (model_queries w)).
  Proof.
    intros HI. pose proof (inv_nonempty w s i d HI) as Hne.
    destruct HI as (He & Hd & _). destruct s as [|l r]; [congruence|].
    unfold model_queries. rewrite <- Hd. cbn [map hd]. split.
    - unfold get_model, guard. rewrite He, <- Hd. reflexivity.
    - apply value_queries_ok. intros x Hx. unfold s_declared. cbn [existsb].
      rewrite (In_mem x _ Hx). reflexivity.
  Qed.

  Lemma is_sat_ok f w s i d : Inv w s i d ->
    exists w' s' cs rs, runs (is_sat f) w s w' s' cs rs /\ no_error rs = true /\
      Inv w' s' i d /\ verdict_of rs = Some (decide (f :: ideal_live i)).
  Proof.
    intros HI. pose proof HI as (_ & _ & _ & Hlen & _).
    destruct (push_ok w s i d HI) as (w1 & s1 & c1 & r1 & R1 & N1 & I1 & P1).
    destruct (add_ok f w1 s1 _ _ I1) as (w2 & s2 & c2 & r2 & R2 & N2 & I2 & P2).
    cbn [ideal_step] in I2.
    destruct (solve_ok w2 s2 _ _ I2) as (w3 & s3 & c3 & r3 & R3 & N3 & I3 & P3 & V3).
    pose proof I3 as (He & Hd & Ha & Hl & Hwf). rewrite P3 in Ha.
    pose proof (set_pending_runs true w3 s3 He) as R4.
    exists (mkW (decl w3) true false), s3, (c1 ++ c2 ++ c3 ++ []), (r1 ++ r2 ++ r3 ++ []).
    split; [eapply runs_seq; [exact R1|]; eapply runs_seq; [exact R2|]; eapply runs_seq;
            [exact R3 | exact R4]|].
    split; [rewrite !no_error_app, N1, N2, N3; reflexivity|].
    split.
    - unfold Inv. cbn [werr decl pending]. split; [reflexivity|]. split; [exact Hd|].
      destruct s3 as [|l r]; [discriminate|]. cbn [tl]. cbn in Ha. injection Ha as _ Ha.
      split; [exact Ha|]. split; [exact Hlen | exact Hwf].
    - rewrite app_nil_r. unfold verdict_of in *. rewrite !app_assoc.
      destruct r3 as [|x r3'] using rev_ind; [discriminate|].
      rewrite last_last in V3. rewrite !app_assoc, last_last. exact V3.
  Qed.

  (* ---- one API call ---- *)
  Definition depth_after (d : nat) (a : api_call) : nat :=
    match a with APush n => d + n | APop n => d - n | AReset => 0 | _ => d end.
  Definition call_legal (i : ideal) (d : nat) (a : api_call) : bool :=
    match a with
    | APop n => n <=? d
    | AGetValue t => forallb (in_live i) t
    | _ => true
    end.

  Lemma api_ok a w s i d : Inv w s i d -> unit_call a = true -> call_legal i d a = true ->
    exists w' s' cs rs, runs (fun w => api_step w a) w s w' s' cs rs /\ no_error rs = true /\
      Inv w' s' (ideal_step i a) (depth_after d a) /\
      (a = ASolve -> verdict_of rs = Some (decide (ideal_live i))) /\
      (forall f, check_formula a = Some f -> verdict_of rs = Some (decide (f :: ideal_live i))).
  Proof.
    intros HI Hu Hc. destruct a; cbn [api_step unit_call call_legal] in *; try discriminate.
    - destruct (add_ok f w s i d HI) as (w' & s' & cs & rs & R & N & I' & _).
      exists w', s', cs, rs. split; [exact R|]. split; [exact N|]. split; [exact I'|].
      split; [discriminate | intros g E; discriminate E].
    - apply Nat.eqb_eq in Hu. subst n.
      destruct (push_ok w s i d HI) as (w' & s' & cs & rs & R & N & I' & _).
      exists w', s', cs, rs. cbn [depth_after ideal_step repeat app]. rewrite Nat.add_1_r.
      split; [exact R|]. split; [exact N|]. split; [exact I'|].
      split; [discriminate | intros g E; discriminate E].
    - apply Nat.eqb_eq in Hu. subst n. apply Nat.leb_le in Hc.
      destruct (pop_ok w s i d HI Hc) as (w' & s' & cs & rs & R & N & I' & _).
      exists w', s', cs, rs. split; [exact R|]. split; [exact N|]. split; [exact I'|].
      split; [discriminate | intros g E; discriminate E].
    - destruct (solve_ok w s i d HI) as (w' & s' & cs & rs & R & N & I' & _ & V).
      exists w', s', cs, rs. split; [exact R|]. split; [exact N|]. split; [exact I'|].
      split; [intros _; exact V | intros g E; discriminate E].
    - exists w, s, [CGetValue t], [RValue t].
      split; [exact (get_value_ok t w s i d HI Hc)|]. split; [reflexivity|]. split; [exact HI|].
      split; [discriminate | intros g E; discriminate E].
    - exists w, s, (map (fun x => CGetValue [x]) (model_queries w)),
             (map (fun x => RValue [x]) (model_queries w)).
      split; [exact (get_model_ok w s i d HI)|]. split; [apply no_error_values|].
      split; [exact HI|]. split; [discriminate | intros g E; discriminate E].
    - destruct (is_sat_ok f w s i d HI) as (w' & s' & cs & rs & R & N & I' & V).
      exists w', s', cs, rs. split; [exact R|]. split; [exact N|]. split; [exact I'|].
      split; [discriminate|]. intros g E. cbn in E. injection E as <-. exact V.
    - destruct (is_sat_ok (FNot f) w s i d HI) as (w' & s' & cs & rs & R & N & I' & V).
      exists w', s', cs, rs. split; [exact R|]. split; [exact N|]. split; [exact I'|].
      split; [discriminate|]. intros g E. cbn in E. injection E as <-. exact V.
    - destruct (is_sat_ok f w s i d HI) as (w' & s' & cs & rs & R & N & I' & V).
      exists w', s', cs, rs. split; [exact R|]. split; [exact N|]. split; [exact I'|].
      split; [discriminate|]. intros g E. cbn in E. injection E as <-. exact V.
    - pose proof HI as (He & _).
      pose proof (emit_runs CExit w s He) as R. cbn [spec_step fst snd] in R.
      exists w, s, [CExit], [RSuccess]. split; [exact R|]. split; [reflexivity|].
      split; [exact HI|]. split; [discriminate | intros g E; discriminate E].
  Qed.

  (* ---- whole histories ---- *)
  Fixpoint history_legal (i : ideal) (d : nat) (h : list api_call) : bool :=
    match h with
    | [] => true
    | a :: r => unit_call a && call_legal i d a &&
                match a with AExit => match r with [] => true | _ => false end | _ => true end &&
                history_legal (ideal_step i a) (depth_after d a) r
    end.

  Fixpoint ideal_run (i : ideal) (h : list api_call) : ideal :=
    match h with [] => i | a :: r => ideal_run (ideal_step i a) r end.
  Fixpoint depth_run (d : nat) (h : list api_call) : nat :=
    match h with [] => d | a :: r => depth_run (depth_after d a) r end.

  Lemma run_ok : forall h w s i d, Inv w s i d -> history_legal i d h = true ->
    exists w' s' cs rs, run_api w h = (w', cs) /\ sexec s cs = (s', rs) /\ no_error rs = true /\
      Inv w' s' (ideal_run i h) (depth_run d h).
  Proof.
    induction h as [|a r IH]; intros w s i d HI HL.
    - exists w, s, [], []. repeat split; auto; apply HI.
    - cbn [history_legal] in HL. apply andb_true_iff in HL. destruct HL as [HL Hr].
      apply andb_true_iff in HL. destruct HL as [HL _].
      apply andb_true_iff in HL. destruct HL as [Hu Hc].
      destruct (api_ok a w s i d HI Hu Hc) as (w1 & s1 & c1 & r1 & [R1 S1] & N1 & I1 & _).
      destruct (IH w1 s1 _ _ I1 Hr) as (w2 & s2 & c2 & r2 & R2 & S2 & N2 & I2).
      exists w2, s2, (c1 ++ c2), (r1 ++ r2). cbn [run_api ideal_run depth_run].
      rewrite R1, R2. split; [reflexivity|].
      split; [rewrite spec_exec_app, S1, S2; reflexivity|].
      split; [rewrite no_error_app, N1, N2; reflexivity | exact I2].
  Qed.

  Lemma inv_init : Inv w_init s_init ideal_init 0.
  Proof.
    unfold Inv. cbn. split; [reflexivity|]. split; [reflexivity|]. split; [reflexivity|].
    split; [reflexivity|]. split; [intros f x []|exact I].
  Qed.

  (* PARTIAL: on histories that push / pop one level at a time, never reset, respect the
     user-level stack discipline and query only symbols of live assertions, the emitted stream
     is accepted by the strict solver (declared before use, exactly once while in scope,
     push/pop mirrored) and the wrapper raises no internal error *)
  Theorem stream_legal_partial : forall h, history_legal ideal_init 0 h = true ->
    accepted decide (stream h) = true /\ werr (final h) = false.
  Proof.
    intros h HL. destruct (run_ok h w_init s_init ideal_init 0 inv_init HL)
      as (w' & s' & cs & rs & R & S & N & I').
    unfold accepted, spec_run, stream, final. rewrite R. cbn [fst snd].
    rewrite spec_exec_app. cbn [preamble spec_exec spec_step]. fold s_init. rewrite S. cbn [snd].
    split; [cbn; exact N | apply I'].
  Qed.

  (* the solver's assertion stack after a legal history is the one the user means; every
     symbol of a live assertion is declared in the solver *)
  Theorem state_tracks_ideal : forall h, history_legal ideal_init 0 h = true ->
    exists s', fst (sexec s_init (snd (run_api w_init h))) = s' /\
      Inv (final h) s' (ideal_run ideal_init h) (depth_run 0 h).
  Proof.
    intros h HL. destruct (run_ok h w_init s_init ideal_init 0 inv_init HL)
      as (w' & s' & cs & rs & R & S & N & I').
    exists s'. unfold final. rewrite R. cbn [fst snd]. rewrite S. split; [reflexivity | exact I'].
  Qed.

  (* VERDICTS: a solving call made after a legal history returns exactly what the solver's
     decision procedure says about the assertions the user means (plus the checked formula for
     the one-shot calls); is_valid / is_unsat negate it *)
  Theorem verdict_faithful : forall h a, history_legal ideal_init 0 (h ++ [a]) = true ->
    let w := final h in
    let s := fst (sexec s_init (snd (run_api w_init h))) in
    let rs := snd (sexec s (snd (api_step w a))) in
    let live_now := ideal_live (ideal_run ideal_init h) in
    (a = ASolve -> verdict_of rs = Some (decide live_now)) /\
    (forall f, check_formula a = Some f -> verdict_of rs = Some (decide (f :: live_now))).
  Proof.
    intros h a HL.
    assert (Hsplit : forall h i d, history_legal i d (h ++ [a]) = true ->
              history_legal i d h = true /\
              unit_call a = true /\ call_legal (ideal_run i h) (depth_run d h) a = true).
    { clear. induction h as [|b r IH]; intros i d H.
      - cbn in H. rewrite !andb_true_iff in H. cbn. tauto.
      - cbn [app history_legal] in H. rewrite !andb_true_iff in H.
        destruct H as [[[H1 H2] H3] H4]. destruct (IH _ _ H4) as (Q1 & Q2 & Q3).
        cbn [history_legal ideal_run depth_run]. rewrite H1, H2, Q1. cbn [andb].
        split; [|split; assumption].
        destruct b; auto. destruct r; [reflexivity | destruct (r ++ [a]); discriminate]. }
    destruct (Hsplit h _ _ HL) as (HLh & Hu & Hc).
    destruct (run_ok h w_init s_init ideal_init 0 inv_init HLh)
      as (w' & s' & cs & rs & R & S & N & I').
    cbn zeta. unfold final. rewrite R. cbn [fst snd]. rewrite S. cbn [fst].
    destruct (api_ok a w' s' _ _ I' Hu Hc) as (w2 & s2 & c2 & r2 & [R2 S2] & _ & _ & V1 & V2).
    rewrite R2. cbn [snd]. rewrite S2. cbn [snd]. split; assumption.
  Qed.

  (* MODEL: at user level 0 with no one-shot level pending, get_model asks the solver about
     every symbol of every live assertion (and the strict solver answers each query) *)
  Theorem model_complete_partial : forall h, history_legal ideal_init 0 h = true ->
    depth_run 0 h = 0 -> pending (final h) = false ->
    forall f x, In f (ideal_live (ideal_run ideal_init h)) -> In x (fvs f) ->
      In x (model_queries (final h)).
  Proof.
    intros h HL Hd Hp f x Hf Hx.
    destruct (state_tracks_ideal h HL) as (s' & _ & HI).
    pose proof (inv_declared _ _ _ _ f x HI Hf Hx) as Hdecl.
    destruct HI as (He & Hdl & Ha & Hl & Hwf). rewrite Hp in Ha. rewrite Hd in Hl.
    destruct s' as [|l [|l1 r]]; cbn in Ha; rewrite <- Ha in Hl; cbn in Hl; try lia.
    unfold model_queries. rewrite <- Hdl. cbn [map hd].
    unfold s_declared in Hdecl. cbn [existsb] in Hdecl. rewrite orb_false_r in Hdecl.
    apply mem_In, Hdecl.
  Qed.
End Legal.

(* the side conditions are satisfiable by a non-trivial history (three levels, a one-shot check
   whose pending level is cleared by the next call, value queries on live symbols) *)
Definition legal_example : list api_call :=
  [AAdd (FAtom 0 [0; 1]); APush 1; AAdd (FAtom 1 [1; 2]); AIsSat (FAtom 2 [3]); APush 1;
   AAdd (FNot (FAtom 3 [0; 3])); ASolve; APop 1; AIsValid (FAtom 4 [2]); APop 1; ASolve;
   AGetValue [0; 1]; AGetModel; AExit].
Example legal_example_ok : history_legal ideal_init 0 legal_example = true.
Proof. reflexivity. Qed.
Example legal_example_stream :
  snd (run_api w_init legal_example) =
  [CDeclare 0; CDeclare 1; CAssert (FAtom 0 [0; 1]); CPush 1; CDeclare 2; CAssert (FAtom 1 [1; 2]);
   CPush 1; CDeclare 3; CAssert (FAtom 2 [3]); CCheckSat; CPop 1; CPush 1; CDeclare 3;
   CAssert (FNot (FAtom 3 [0; 3])); CCheckSat; CPop 1; CPush 1; CAssert (FNot (FAtom 4 [2]));
   CCheckSat; CPop 1; CPop 1; CCheckSat; CGetValue [0; 1]; CGetValue [1]; CGetValue [0]; CExit].
Proof. reflexivity. Qed.

(* the hypotheses of model_complete_partial are satisfiable after pushes, pops and one-shot checks *)
Example model_complete_example :
  let h := [AAdd (FAtom 0 [0; 1]); APush 1; AAdd (FAtom 1 [2]); AIsSat (FAtom 2 [3]); APop 1;
            AAdd (FAtom 3 [1; 4]); ASolve] in
  history_legal ideal_init 0 h = true /\ depth_run 0 h = 0 /\ pending (final h) = false /\
  model_queries (final h) = [4; 1; 0].
Proof. repeat split; reflexivity. Qed.

(* ====================================================================== *)
(* C. The full clauses are FALSE of the faithful model: witnesses          *)
(* ====================================================================== *)

Definition X := FAtom 0 [0].
Definition Y := FAtom 1 [1].

(* pop(2) removes ONE set of the wrapper's record but two solver levels: x is used after its
   declaration went out of scope *)
Definition pop2_witness : list api_call := [APush 1; AAdd X; APush 1; APop 2; AAdd X].
(* push(2) records one level: the second pop(1) empties declared_vars, the next declaration
   raises IndexError *)
Definition push2_witness : list api_call := [APush 2; APop 1; APop 1; AAdd X].
(* push(2) ... the wrapper forgets x while the solver still has it: x is declared twice in scope *)
Definition redeclare_witness : list api_call :=
  [APush 1; APush 1; APop 2; AAdd X; APush 2; APop 1; APop 1; AAdd X].
(* reset_assertions keeps the declaration record although the solver forgot the declarations *)
Definition reset_witness : list api_call := [AAdd X; AReset; AAdd X].

(* get_value never declares: a symbol that occurs in no (simplified) assertion is sent undeclared *)
Definition value_witness : list api_call := [AAdd X; ASolve; AGetValue [1]].

Definition legal_and_quiet (decide : list form -> bool) (h : list api_call) : bool :=
  accepted decide (stream h) && negb (werr (final h)).

Theorem stream_legal_refuted_pop_n : user_legal 0 pop2_witness = true /\
  forall decide, accepted decide (stream pop2_witness) = false.
Proof. split; reflexivity. Qed.
Theorem stream_legal_refuted_push_n : user_legal 0 push2_witness = true /\
  werr (final push2_witness) = true.
Proof. split; reflexivity. Qed.
Theorem stream_legal_refuted_redeclare : user_legal 0 redeclare_witness = true /\
  forall decide, accepted decide (stream redeclare_witness) = false.
Proof. split; reflexivity. Qed.
Theorem stream_legal_refuted_reset : user_legal 0 reset_witness = true /\
  forall decide, accepted decide (stream reset_witness) = false.
Proof. split; reflexivity. Qed.

Theorem stream_legal_refuted_value : user_legal 0 value_witness = true /\
  forall decide, accepted decide (stream value_witness) = false.
Proof. split; reflexivity. Qed.

(* the full clause "every user-legal history yields a legal stream and no internal error" *)
Theorem stream_legal_refuted :
  exists h, user_legal 0 h = true /\ forall decide, legal_and_quiet decide h = false.
Proof. exists pop2_witness. split; reflexivity. Qed.

(* get_model reads declared_vars[-1] only: a symbol declared below the top level is missing *)
Definition model_witness : list api_call := [AAdd X; APush 1; AAdd Y].
Theorem model_complete_refuted :
  exists h f x, history_legal ideal_init 0 h = true /\
    In f (ideal_live (ideal_run ideal_init h)) /\ In x (fvs f) /\
    ~ In x (model_queries (final h)).
Proof.
  exists model_witness, X, 0. split; [reflexivity|]. split; [cbn; auto|]. split; [cbn; auto|].
  cbn. intros [H|[]]. discriminate.
Qed.
(* same defect through the pending level of a one-shot check: is_sat(y); get_model() *)
Definition model_witness_pending : list api_call := [AAdd X; AIsSat Y].
Theorem model_complete_refuted_pending :
  history_legal ideal_init 0 model_witness_pending = true /\
  depth_run 0 model_witness_pending = 0 /\
  In X (ideal_live (ideal_run ideal_init model_witness_pending)) /\
  ~ In 0 (model_queries (final model_witness_pending)).
Proof.
  split; [reflexivity|]. split; [reflexivity|]. split; [cbn; auto|].
  cbn. intros [H|[]]. discriminate.
Qed.

(* ====================================================================== *)
(* D. Shortcuts return the corresponding truth                             *)
(* ====================================================================== *)
Section Truth.
  (* the external solver: a decision procedure that is correct for some semantics of the
     opaque formulas in which FNot is negation *)
  Variable interp : Type.
  Variable holds : interp -> form -> bool.
  Variable decide : list form -> bool.
  Definition sat_by (I : interp) (fs : list form) : Prop := forall g, In g fs -> holds I g = true.
  Hypothesis decide_correct : forall fs, decide fs = true <-> exists I, sat_by I fs.
  Hypothesis holds_not : forall I f, holds I (FNot f) = negb (holds I f).

  Theorem shortcut_truth : forall h a v, history_legal ideal_init 0 (h ++ [a]) = true ->
    let w := final h in
    let s := fst (spec_exec decide s_init (snd (run_api w_init h))) in
    let rs := snd (spec_exec decide s (snd (api_step w a))) in
    let live_now := ideal_live (ideal_run ideal_init h) in
    verdict_of rs = Some v ->
    match a with
    | ASolve => v = true <-> exists I, sat_by I live_now
    | AIsSat f => shortcut_result a v = true <-> exists I, sat_by I live_now /\ holds I f = true
    | AIsUnsat f => shortcut_result a v = true <-> ~ exists I, sat_by I live_now /\ holds I f = true
    | AIsValid f => shortcut_result a v = true <-> forall I, sat_by I live_now -> holds I f = true
    | _ => True
    end.
  Proof.
    intros h a v HL w s rs live_now Hv.
    destruct (verdict_faithful decide h a HL) as [V1 V2]. fold w s rs live_now in V1, V2.
    assert (Hcons : forall f, (exists I, sat_by I (f :: live_now)) <->
                              (exists I, sat_by I live_now /\ holds I f = true)).
    { intros f. split; intros [I H]; exists I.
      - split; [intros g Hg; apply H; right; exact Hg | apply H; left; reflexivity].
      - intros g [<-|Hg]; [apply H | apply (proj1 H g Hg)]. }
    destruct a; auto.
    - rewrite (V1 eq_refl) in Hv. injection Hv as <-. apply decide_correct.
    - rewrite (V2 f eq_refl) in Hv. injection Hv as <-. cbn [shortcut_result].
      rewrite decide_correct. apply Hcons.
    - rewrite (V2 (FNot f) eq_refl) in Hv. injection Hv as <-. cbn [shortcut_result].
      rewrite negb_true_iff. split.
      + intros Hd I HI. destruct (holds I f) eqn:E; [reflexivity|]. exfalso.
        assert (Hex : decide (FNot f :: live_now) = true).
        { apply decide_correct, Hcons. exists I. split; [exact HI|]. rewrite holds_not, E. reflexivity. }
        congruence.
      + intros Hall. destruct (decide (FNot f :: live_now)) eqn:E; [|reflexivity]. exfalso.
        apply decide_correct, Hcons in E. destruct E as (I & HI & Hn).
        rewrite holds_not, (Hall I HI) in Hn. discriminate.
    - rewrite (V2 f eq_refl) in Hv. injection Hv as <-. cbn [shortcut_result].
      rewrite negb_true_iff. rewrite <- Hcons, <- decide_correct.
      destruct (decide (f :: live_now)); split; intros H; congruence.
  Qed.
End Truth.

(* the hypotheses of section Truth are satisfiable: propositional atoms numbered by id *)
Fixpoint ex_holds (I : nat -> bool) (f : form) : bool :=
  match f with FAtom id _ => I id | FNot g => negb (ex_holds I g) end.
Example truth_hypotheses_satisfiable :
  (forall I f, ex_holds I (FNot f) = negb (ex_holds I f)) /\
  sat_by (nat -> bool) ex_holds (fun n => Nat.eqb n 0) [FAtom 0 [0]; FNot (FAtom 1 [1])].
Proof. split; [reflexivity|]. intros g [<-|[<-|[]]]; reflexivity. Qed.
