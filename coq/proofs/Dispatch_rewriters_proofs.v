(* NNFizer, PrenexNormalizer, AIGer (pysmt/rewritings.py): the dispatch tables regenerated from
   the source agree with the case analysis of the hand models (models/Nnf.v, Prenex.v, Aig.v):
   the operators the models treat by their "otherwise" arm are exactly those the source sends to
   the leaf handlers (walk_symbol / walk_function / walk_constant / walk_theory_relation /
   walk_theory_op, walk_nop), each connective has the handler of its own arm, and the leaf
   handlers compute what the "otherwise" arm computes. *)
From Coq Require Import List ZArith Bool String.
From PySMT.core Require Import Syntax.
From PySMT.gen Require Import Operators Dispatch.
From PySMT.models Require Import TypeChecker Oracles C10Local Nnf Prenex Aig.
From PySMT.proofs Require Import Operators_proofs Dispatch_common.
Import ListNotations.
Open Scope bool_scope.
Ltac by_op o := destruct o; try reflexivity; split_kind; reflexivity.

(* NNF / AIG atoms: everything that is not a Boolean operator (connective or quantifier) or an ITE *)
Theorem nnf_atom_op_is_not_BOOL_OPERATORS : forall o,
  Nnf.is_atom_op o = negb (nt_in G_BOOL_OPERATORS (nt_of_op o) || nt_eqb (nt_of_op o) NT_ITE).
Proof. intro o. by_op o. Qed.

Theorem aig_atom_op_is_not_BOOL_OPERATORS : forall o,
  aig_atom_op o = negb (nt_in G_BOOL_OPERATORS (nt_of_op o) || nt_eqb (nt_of_op o) NT_ITE).
Proof. intro o. by_op o. Qed.


(* ------------------------------------------------------------------ NNFizer *)
Inductive nnf_handler :=
| N_forall | N_exists | N_and | N_or | N_not | N_implies | N_iff | N_ite
| N_symbol | N_function | N_constant | N_theory_op | N_theory_relation.
Definition nnf_handler_of_name :=
  hlookup [("walk_forall", N_forall); ("walk_exists", N_exists); ("walk_and", N_and); ("walk_or", N_or); ("walk_not", N_not);
          ("walk_implies", N_implies); ("walk_iff", N_iff); ("walk_ite", N_ite); ("walk_symbol", N_symbol);
          ("walk_function", N_function); ("walk_constant", N_constant); ("walk_theory_op", N_theory_op);
          ("walk_theory_relation", N_theory_relation)]%string.
Definition nnf_is_leaf_handler (h : nnf_handler) : bool :=
  match h with N_symbol | N_function | N_constant | N_theory_op | N_theory_relation => true | _ => false end.

(* the handler the model's arm of an operator corresponds to; the leaf classes are the translated groups *)
Definition nnf_expected (n : node_type) : option nnf_handler :=
  match n with
  | NT_FORALL => Some N_forall | NT_EXISTS => Some N_exists | NT_AND => Some N_and | NT_OR => Some N_or
  | NT_NOT => Some N_not | NT_IMPLIES => Some N_implies | NT_IFF => Some N_iff | NT_ITE => Some N_ite
  | NT_SYMBOL => Some N_symbol | NT_FUNCTION => Some N_function
  | _ => if nt_in G_CONSTANTS n then Some N_constant
         else if nt_in G_RELATIONS n then Some N_theory_relation
         else if nt_in G_THEORY_OPERATORS n then Some N_theory_op else None
  end.

Theorem nnf_dispatch_matches_source : forall n, nnf_handler_of_name (nnf_dispatch n) = nnf_expected n /\ nnf_expected n <> None.
Proof. apply node_type_case. repeat constructor; vm_compute; congruence. Qed.

(* what a leaf handler returns (the formula; its negation under a negation) is the model's otherwise arm *)
Theorem nnf_leaf_handlers_are_the_otherwise_arm : forall o h args,
  nnf_handler_of_name (nnf_dispatch (nt_of_op o)) = Some h -> nnf_is_leaf_handler h = true ->
  nnf_p true (T o args) = T o args /\
  nnf_p false (T o args) = (if nt_eqb (nt_of_op o) NT_SYMBOL then T ONot [T o args] else mk_not (T o args)) /\
  Nnf.is_atom_op o = true.
Proof.
  intros o h args Hh Hl. destruct o; try split_kind; vm_compute in Hh; injection Hh as <-; try discriminate Hl;
    repeat split; reflexivity.
Qed.

(* ------------------------------------------------------------------ AIGer *)
Inductive aig_handler := G_quantifier | G_and | G_or | G_not | G_implies | G_iff | G_ite | G_nop.
Definition aig_handler_of_name :=
  hlookup [("walk_quantifier", G_quantifier); ("walk_and", G_and); ("walk_or", G_or); ("walk_not", G_not);
          ("walk_implies", G_implies); ("walk_iff", G_iff); ("walk_ite", G_ite); ("walk_nop", G_nop)]%string.
Definition aig_expected (n : node_type) : option aig_handler :=
  match n with
  | NT_AND => Some G_and | NT_OR => Some G_or | NT_NOT => Some G_not | NT_IMPLIES => Some G_implies
  | NT_IFF => Some G_iff | NT_ITE => Some G_ite
  | _ => if nt_in G_QUANTIFIERS n then Some G_quantifier
         else if nt_in (G_RELATIONS ++ G_THEORY_OPERATORS ++ G_CONSTANTS ++ [NT_SYMBOL; NT_FUNCTION]) n then Some G_nop else None
  end.

Theorem aig_dispatch_matches_source : forall n, aig_handler_of_name (aig_dispatch n) = aig_expected n /\ aig_expected n <> None.
Proof. apply node_type_case. repeat constructor; vm_compute; congruence. Qed.

Theorem aig_nop_is_the_otherwise_arm : forall o args,
  aig_handler_of_name (aig_dispatch (nt_of_op o)) = Some G_nop ->
  aig (T o args) = T o args /\ aig_atom_op o = true.
Proof.
  intros o args Hh. destruct o; try split_kind; vm_compute in Hh; try discriminate Hh; split; reflexivity.
Qed.

(* ------------------------------------------------------------------ PrenexNormalizer *)
Inductive prenex_handler :=
| P_quantifier | P_conj_disj | P_not | P_implies | P_iff | P_ite
| P_symbol | P_function | P_constant | P_theory_op | P_theory_relation.
Definition prenex_handler_of_name :=
  hlookup [("walk_quantifier", P_quantifier); ("walk_conj_disj", P_conj_disj); ("walk_not", P_not); ("walk_implies", P_implies);
          ("walk_iff", P_iff); ("walk_ite", P_ite); ("walk_symbol", P_symbol); ("walk_function", P_function);
          ("walk_constant", P_constant); ("walk_theory_op", P_theory_op); ("walk_theory_relation", P_theory_relation)]%string.
Definition prenex_expected (n : node_type) : option prenex_handler :=
  match n with
  | NT_AND | NT_OR => Some P_conj_disj | NT_NOT => Some P_not | NT_IMPLIES => Some P_implies | NT_IFF => Some P_iff
  | NT_ITE => Some P_ite | NT_SYMBOL => Some P_symbol | NT_FUNCTION => Some P_function
  | _ => if nt_in G_QUANTIFIERS n then Some P_quantifier
         else if nt_in G_CONSTANTS n then Some P_constant
         else if nt_in G_RELATIONS n then Some P_theory_relation
         else if nt_in G_THEORY_OPERATORS n then Some P_theory_op else None
  end.

Theorem prenex_dispatch_matches_source : forall n,
  prenex_handler_of_name (prenex_dispatch n) = prenex_expected n /\ prenex_expected n <> None.
Proof. apply node_type_case. repeat constructor; vm_compute; congruence. Qed.

(* the five leaf methods: ([], formula) for a relation, a Boolean symbol / constant / function
   application, None otherwise - the model's [is_atom_bool] arm *)
Definition prenex_leaf_rule (h : prenex_handler) (o : op) : option bool :=
  match h with
  | P_theory_relation => Some true
  | P_theory_op => Some false
  | P_symbol => match o with OSymbol _ ty => Some (ty_eqb ty TBool) | _ => None end
  | P_constant => Some (match o with OBoolC _ => true | _ => false end)
  | P_function => match o with OFunction _ (TFun _ r) => Some (ty_eqb r TBool) | OFunction _ _ => Some false | _ => None end
  | _ => None
  end.

Theorem prenex_leaf_handlers_are_the_otherwise_arm : forall o h b args n,
  prenex_handler_of_name (prenex_dispatch (nt_of_op o)) = Some h -> prenex_leaf_rule h o = Some b ->
  pw (T o args) n = (n, if b then Some ([], T o args) else None) /\ is_atom_bool o = b.
Proof.
  intros o h b args n Hh Hb. destruct o; try split_kind; vm_compute in Hh; injection Hh as <-;
    cbn [prenex_leaf_rule] in Hb; try discriminate Hb; try (injection Hb as <-; split; reflexivity).
  - (* symbol *) injection Hb as <-. destruct t; split; reflexivity.
  - (* function *) destruct t as [| | | | | | ps r |]; try (injection Hb as <-; split; reflexivity).
    injection Hb as <-. destruct r; split; reflexivity.
Qed.
