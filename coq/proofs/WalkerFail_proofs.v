(* C15 on the walker model: a failing call leaves no trace. *)
From Coq Require Import List Arith Bool Lia.
From PySMT.core Require Import DagWalk.
From PySMT.models Require Import WalkerFail.
From PySMT.proofs Require Import DagWalk_proofs.
Import ListNotations.

(* ------------- answers depend on memo and stack only (not on the ghost counters) ---------- *)
Section Core.
  Variable A : Type.
  Variable children : nat -> list nat.
  Variable f : nat -> list A -> option A.

  Definition core (s1 s2 : st A) : Prop := mm s1 = mm s2 /\ stk s1 = stk s2.

  Lemma core_refl s : core s s. Proof. split; reflexivity. Qed.

  Lemma step_core s1 s2 : core s1 s2 ->
    match step A children f s1, step A children f s2 with
    | Cont a, Cont b => core a b
    | Raise e a, Raise e' b => e = e' /\ core a b
    | _, _ => False
    end.
  Proof.
    destruct s1 as [m1 k1 c1 p1 l1], s2 as [m2 k2 c2 p2 l2]. intros [Hm Hk]. cbn in Hm, Hk. subst.
    unfold step. cbn [stk mm calls pops log]. destruct k2 as [|[[|] n] r].
    - split; reflexivity.
    - destruct (inm A m2 n); [split; reflexivity|].
      destruct (lookup_all A m2 (children n)) as [args|]; [|split; [reflexivity|split; reflexivity]].
      destruct (f n args); [split; reflexivity|split; [reflexivity|split; reflexivity]].
    - split; reflexivity.
  Qed.

  Lemma run_core : forall fuel s1 s2, core s1 s2 ->
    match run A children f fuel s1, run A children f fuel s2 with
    | Done a, Done b => core a b
    | Failed e a, Failed e' b => e = e' /\ core a b
    | OutOfFuel a, OutOfFuel b => core a b
    | _, _ => False
    end.
  Proof.
    induction fuel as [|fuel IH]; intros s1 s2 Hc; pose proof (step_core s1 s2 Hc) as Hs;
      pose proof Hc as [Hm Hk]; cbn [run]; rewrite Hk; destruct (stk s2) as [|e r]; try exact Hc.
    destruct (step A children f s1) as [a|e1 a], (step A children f s2) as [b|e2 b]; try contradiction.
    - apply IH. exact Hs.
    - exact Hs.
  Qed.

  Lemma walk_core early oneshot fuel w1 w2 root : core w1 w2 ->
    snd (walk A children f early oneshot fuel w1 root) = snd (walk A children f early oneshot fuel w2 root) /\
    core (fst (walk A children f early oneshot fuel w1 root)) (fst (walk A children f early oneshot fuel w2 root)).
  Proof.
    intros Hc. pose proof Hc as [Hm Hk]. unfold walk. rewrite Hm.
    destruct (if early then mm w2 root else None) as [v|]; [split; [reflexivity|exact Hc]|].
    unfold iter_walk.
    assert (Hc0 : core (with_stk A w1 ((false, root) :: stk w1)) (with_stk A w2 ((false, root) :: stk w2))).
    { split; cbn; [exact Hm|rewrite Hk; reflexivity]. }
    pose proof (run_core fuel _ _ Hc0) as Hr.
    destruct (run A children f fuel (with_stk A w1 ((false, root) :: stk w1))) as [a|e1 a|a],
             (run A children f fuel (with_stk A w2 ((false, root) :: stk w2))) as [b|e2 b|b]; try contradiction.
    - destruct Hr as [Hma Hka]. rewrite Hma. destruct (mm b root); destruct oneshot; cbn; (split; [reflexivity|]);
        split; cbn; auto.
    - destruct Hr as [<- [Hma Hka]]. destruct oneshot; cbn; (split; [reflexivity|]); split; cbn; auto.
    - destruct Hr as [Hma Hka]. destruct oneshot; cbn; (split; [reflexivity|]); split; cbn; auto.
  Qed.
End Core.

Section CoreCalls.
  Variable A P : Type.
  Variable children : nat -> list nat.
  Variable f : P -> nat -> list A -> option A.
  Variable early oneshot : bool.
  Variable fuel : nat.

  Lemma answers_core : forall cs w1 w2, core A w1 w2 ->
    answers A P children f early oneshot fuel w1 cs = answers A P children f early oneshot fuel w2 cs.
  Proof.
    induction cs as [|c cs IH]; intros w1 w2 Hc; unfold answers; cbn; [reflexivity|].
    unfold do_call. destruct (walk_core A children (f (fst c)) early oneshot fuel w1 w2 (snd c) Hc) as [Ha Hs].
    destruct (walk A children (f (fst c)) early oneshot fuel w1 (snd c)) as [s1 a1].
    destruct (walk A children (f (fst c)) early oneshot fuel w2 (snd c)) as [s2 a2]. cbn [fst snd] in *. subst a2.
    specialize (IH s1 s2 Hs). unfold answers in IH.
    destruct (run_calls A P children f early oneshot fuel s1 cs) as [t1 l1].
    destruct (run_calls A P children f early oneshot fuel s2 cs) as [t2 l2]. cbn [snd] in *. rewrite IH. reflexivity.
  Qed.
End CoreCalls.

(* ------------- persistent walkers (simplifier, type checker, oracles): one callback ------ *)
Section Persistent.
  Variable A : Type.
  Variable children : nat -> list nat.
  Hypothesis children_lt : forall n c, In c (children n) -> c < n.
  Variable f : nat -> list A -> option A.
  Variable early : bool.
  Variable fuel : nat.

  Local Notation F := (F A children f).
  Local Notation clean := (clean A children f).
  Local Notation fp := (fun _ : unit => f).
  Local Notation do_call := (do_call A unit children fp early false fuel).
  Local Notation answers := (answers A unit children fp early false fuel).
  Local Notation run_calls := (run_calls A unit children fp early false fuel).

  (* the only requirement on a call: the loop is given enough fuel (Python has no fuel) *)
  Definition call_ok (c : call unit) : Prop := enough_fuel children (snd c) <= fuel.

  (* ANY call, returning or raising at ANY node, leaves a clean walker whose memo has only grown *)
  Lemma do_call_clean w c : clean w -> call_ok c ->
    clean (fst (do_call w c)) /\ sub A (mm w) (mm (fst (do_call w c))).
  Proof.
    intros Hc Hfuel. unfold WalkerFail.do_call. cbn [fst snd].
    destruct (walk A children f early false fuel w (snd c)) as [s a] eqn:E.
    destruct (walk_memo_inv A children children_lt f early false w (snd c) fuel s a Hc Hfuel E) as (H1 & H2 & _).
    cbn [fst]. split; [exact H1|exact (H2 eq_refl)].
  Qed.

  Lemma do_call_indep w1 w2 c : clean w1 -> clean w2 -> call_ok c ->
    ans_equiv (snd (do_call w1 c)) (snd (do_call w2 c)).
  Proof.
    intros H1 H2 Hfuel. unfold WalkerFail.do_call. cbn [fst snd].
    destruct (F (snd c)) as [v|] eqn:HF.
    - destruct (walk_ok A children children_lt f early false w1 (snd c) fuel v H1 Hfuel HF) as (s1 & n1 & E1 & _).
      destruct (walk_ok A children children_lt f early false w2 (snd c) fuel v H2 Hfuel HF) as (s2 & n2 & E2 & _).
      rewrite E1, E2. reflexivity.
    - destruct (walk_err A children children_lt f early false w1 (snd c) fuel H1 Hfuel HF) as (s1 & x1 & E1 & _).
      destruct (walk_err A children children_lt f early false w2 (snd c) fuel H2 Hfuel HF) as (s2 & x2 & E2 & _).
      rewrite E1, E2. exact I.
  Qed.

  Theorem transparent_seq : forall cs w1 w2, clean w1 -> clean w2 -> Forall call_ok cs ->
    Forall2 ans_equiv (answers w1 cs) (answers w2 cs).
  Proof.
    induction cs as [|c cs IH]; intros w1 w2 H1 H2 Hok; unfold WalkerFail.answers; cbn.
    - constructor.
    - inversion Hok as [|? ? Hc Hcs]; subst.
      pose proof (proj1 (do_call_clean w1 c H1 Hc)) as C1. pose proof (proj1 (do_call_clean w2 c H2 Hc)) as C2.
      pose proof (do_call_indep w1 w2 c H1 H2 Hc) as Ha.
      destruct (do_call w1 c) as [s1 a1]. destruct (do_call w2 c) as [s2 a2]. cbn [fst snd] in *.
      specialize (IH s1 s2 C1 C2 Hcs). unfold WalkerFail.answers in IH.
      destruct (run_calls s1 cs) as [t1 l1]. destruct (run_calls s2 cs) as [t2 l2]. cbn [snd] in *.
      constructor; assumption.
  Qed.

  (* failure_transparent: after a call that raised (the callback failed at ANY node of the
     traversal) the walker has an empty stack and a correct memo that has only grown, and every
     later history answers as if the failing call had never been made *)
  Theorem failure_transparent : forall w c w' e later, clean w -> call_ok c -> Forall call_ok later ->
    do_call w c = (w', Err e) ->
    stk w' = [] /\ Mok A children f (mm w') /\ sub A (mm w) (mm w') /\
    Forall2 ans_equiv (answers w' later) (answers w later).
  Proof.
    intros w c w' e later Hc Hok Hl E.
    destruct (do_call_clean w c Hc Hok) as [[Hs Hm] Hsub]. rewrite E in *. cbn [fst] in *.
    split; [exact Hs|]. split; [exact Hm|]. split; [exact Hsub|].
    apply transparent_seq; [split; assumption|exact Hc|exact Hl].
  Qed.

  (* and every later answer is the fresh-environment answer *)
  Corollary later_as_fresh : forall w c later, clean w -> call_ok c -> Forall call_ok later ->
    Forall2 ans_equiv (answers (fst (do_call w c)) later) (map (fresh_answer A unit children fp early false fuel) later).
  Proof.
    intros w c later Hc Hok Hl.
    assert (Hw : clean (fst (do_call w c))) by (apply do_call_clean; assumption).
    revert Hw. generalize (fst (do_call w c)). induction later as [|d later IH]; intros w0 Hw0;
      unfold WalkerFail.answers; cbn.
    - constructor.
    - inversion Hl as [|? ? Hd Hl']; subst.
      pose proof (proj1 (do_call_clean w0 d Hw0 Hd)) as C1.
      pose proof (do_call_indep w0 (init A) d Hw0 (clean_init A children f) Hd) as Ha.
      destruct (do_call w0 d) as [s1 a1]. cbn [fst snd] in *.
      specialize (IH Hl' s1 C1). unfold WalkerFail.answers in IH.
      destruct (run_calls s1 later) as [t1 l1]. cbn [snd] in *. constructor; assumption.
  Qed.
End Persistent.

(* ------------- one-shot walkers (substituter, DAG printer): callback depends on kwargs ---- *)
Section OneShot.
  Variable A P : Type.
  Variable children : nat -> list nat.
  Hypothesis children_lt : forall n c, In c (children n) -> c < n.
  Variable f : P -> nat -> list A -> option A.
  Variable early : bool.
  Variable fuel : nat.
  Local Notation do_call := (do_call A P children f early true fuel).
  Local Notation answers := (answers A P children f early true fuel).

  Definition pristine (w : st A) : Prop := stk w = [] /\ mm w = mempty A.

  Lemma pristine_clean w p : pristine w -> clean A children (f p) w.
  Proof. intros [Hs Hm]. split; [exact Hs|]. rewrite Hm. apply Mok_empty. Qed.

  (* ANY call, returning or raising at ANY node, leaves stack and table empty *)
  Theorem oneshot_pristine : forall w c, pristine w -> enough_fuel children (snd c) <= fuel ->
    pristine (fst (do_call w c)).
  Proof.
    intros w c Hp Hfuel. pose proof Hp as [Hst Hm]. unfold WalkerFail.do_call.
    destruct (walk A children (f (fst c)) early true fuel w (snd c)) as [s a] eqn:E. cbn [fst].
    destruct (walk_memo_inv A children children_lt (f (fst c)) early true w (snd c) fuel s a
                (pristine_clean w (fst c) Hp) Hfuel E) as ([Hs _] & _).
    split; [exact Hs|]. unfold walk in E. rewrite Hm in E.
    assert (Hn : (if early then mempty A (snd c) else None) = None) by (destruct early; reflexivity).
    rewrite Hn in E. destruct (iter_walk A children (f (fst c)) fuel w (snd c)) as [s0 a0].
    inversion E. reflexivity.
  Qed.

  (* failure_transparent for the one-shot walker: the state after a failing call is the state
     before it (up to the ghost counters), so every later history gives the SAME answers *)
  Theorem failure_transparent_oneshot : forall w c w' e later, pristine w ->
    enough_fuel children (snd c) <= fuel -> do_call w c = (w', Err e) ->
    pristine w' /\ answers w' later = answers w later.
  Proof.
    intros w c w' e later Hp Hfuel E.
    pose proof (oneshot_pristine w c Hp Hfuel) as Hp'. rewrite E in Hp'. cbn [fst] in Hp'.
    split; [exact Hp'|]. apply answers_core. destruct Hp as [H1 H2], Hp' as [H3 H4].
    split; [rewrite H4, H2; reflexivity|rewrite H3, H1; reflexivity].
  Qed.
End OneShot.

(* ------------- the two-call histories that used to expose the defects (regression) -------- *)
Module Witness.
  (* node 2 = op(0, 1) *)
  Definition ch (n : nat) : list nat := match n with 2 => [0; 1] | _ => [] end.
  Lemma ch_lt : forall n c, In c (ch n) -> c < n.
  Proof. intros [|[|[|n]]] c; cbn; intros H; repeat (destruct H as [<-|H]; [lia|]); destruct H. Qed.

  (* (a) persistent walker: the callback raises at node 1 (an operator without a walk_ method).
     First call: walk(2) raises.  Second call: walk(0) answers as in a fresh walker
     (before c824285: KeyError while emptying the left-over stack [(false,0); (true,2)]). *)
  Definition g (_ : unit) (n : nat) (args : list nat) : option nat :=
    if Nat.eqb n 1 then None else Some (n + list_sum args).
  Definition w1 := fst (do_call nat unit ch g true false 100 (init nat) (tt, 2)).
  Example first_call_raises : snd (do_call nat unit ch g true false 100 (init nat) (tt, 2)) = Err (ECallback 1).
  Proof. reflexivity. Qed.
  Example no_residue : stk w1 = [].
  Proof. reflexivity. Qed.
  Example later_after_failure : answers nat unit ch g true false 100 w1 [(tt, 0)] = [Ok 0].
  Proof. reflexivity. Qed.
  Example later_without_failure : answers nat unit ch g true false 100 (init nat) [(tt, 0)] = [Ok 0].
  Proof. reflexivity. Qed.

  (* (b) one-shot walker: kwargs p select the substitution; with p = 0 the callback raises at
     node 0 after node 1 was memoised.  The table is cleared; the next call with p = 1 computes
     its own value (before 4d718bf: the stale Ok 1). *)
  Definition h (p : nat) (n : nat) (args : list nat) : option nat :=
    if Nat.eqb p 0 && Nat.eqb n 0 then None else Some (100 * p + n + list_sum args).
  Definition v1 := fst (do_call nat nat ch h true true 100 (init nat) (0, 2)).
  Example oneshot_first_raises : snd (do_call nat nat ch h true true 100 (init nat) (0, 2)) = Err (ECallback 0).
  Proof. reflexivity. Qed.
  Example oneshot_table_cleared : mm v1 1 = None /\ stk v1 = [].
  Proof. split; reflexivity. Qed.
  Example oneshot_later : answers nat nat ch h true true 100 v1 [(1, 1)] = [Ok 101].
  Proof. reflexivity. Qed.
End Witness.
