(* C15 on the walker model: what a failing call leaves behind and when later calls can tell. *)
From Coq Require Import List Arith Bool Lia.
From PySMT.core Require Import DagWalk.
From PySMT.models Require Import WalkerFail.
From PySMT.proofs Require Import DagWalk_proofs.
Import ListNotations.

(* ------------- persistent walkers (simplifier, type checker, oracles): one callback ------ *)
Section Persistent.
  Variable A : Type.
  Variable children : nat -> list nat.
  Hypothesis children_lt : forall n c, In c (children n) -> c < n.
  Variable f : nat -> list A -> option A.
  Variable early : bool.
  Variable fuel : nat.

  Local Notation F := (F A children f).
  Local Notation clean := (clean A children f).
  Local Notation fp := (fun _ : unit => f).
  Local Notation do_call := (do_call A unit children fp early false fuel).
  Local Notation answers := (answers A unit children fp early false fuel).
  Local Notation run_calls := (run_calls A unit children fp early false fuel).

  (* the exact side condition under which a failing call is invisible afterwards: if the fold
     fails at all, it fails at the root itself (every proper sub-term succeeds) *)
  Definition root_fail_only (root : nat) : Prop :=
    F root = None -> forall ch, In ch (children root) -> F ch <> None.
  Definition call_ok (c : call unit) : Prop :=
    enough_fuel children (snd c) <= fuel /\ root_fail_only (snd c).

  Lemma do_call_clean w c : clean w -> call_ok c -> clean (fst (do_call w c)).
  Proof.
    intros Hc [Hfuel Hroot]. unfold WalkerFail.do_call. cbn [fst snd] in *.
    destruct (F (snd c)) as [v|] eqn:HF.
    - destruct (walk_ok A children children_lt f early false w (snd c) fuel v Hc Hfuel HF)
        as (s & new & Hw & Hcl & _). rewrite Hw. exact Hcl.
    - destruct (walk_err A children children_lt f early false w (snd c) fuel Hc Hfuel HF)
        as (s & x & Hw & Hm & _ & Hr & HFx & _ & _ & _ & Hshape). rewrite Hw. cbn [fst].
      destruct Hshape as [[_ Hst]|[Hne _]]; [split; assumption|].
      exfalso. inversion Hr as [|? ch ? Hch Hr']; subst; [congruence|].
      apply (Hroot HF ch Hch). eapply F_none_up; eauto.
  Qed.

  Lemma do_call_indep w1 w2 c : clean w1 -> clean w2 -> enough_fuel children (snd c) <= fuel ->
    ans_equiv (snd (do_call w1 c)) (snd (do_call w2 c)).
  Proof.
    intros H1 H2 Hfuel. unfold WalkerFail.do_call. cbn [fst snd].
    destruct (F (snd c)) as [v|] eqn:HF.
    - destruct (walk_ok A children children_lt f early false w1 (snd c) fuel v H1 Hfuel HF) as (s1 & n1 & E1 & _).
      destruct (walk_ok A children children_lt f early false w2 (snd c) fuel v H2 Hfuel HF) as (s2 & n2 & E2 & _).
      rewrite E1, E2. reflexivity.
    - destruct (walk_err A children children_lt f early false w1 (snd c) fuel H1 Hfuel HF) as (s1 & x1 & E1 & _).
      destruct (walk_err A children children_lt f early false w2 (snd c) fuel H2 Hfuel HF) as (s2 & x2 & E2 & _).
      rewrite E1, E2. exact I.
  Qed.

  Theorem transparent_seq : forall cs w1 w2, clean w1 -> clean w2 -> Forall call_ok cs ->
    Forall2 ans_equiv (answers w1 cs) (answers w2 cs).
  Proof.
    induction cs as [|c cs IH]; intros w1 w2 H1 H2 Hok; unfold WalkerFail.answers; cbn.
    - constructor.
    - inversion Hok as [|? ? Hc Hcs]; subst.
      pose proof (do_call_clean w1 c H1 Hc) as C1. pose proof (do_call_clean w2 c H2 Hc) as C2.
      pose proof (do_call_indep w1 w2 c H1 H2 (proj1 Hc)) as Ha.
      destruct (do_call w1 c) as [s1 a1]. destruct (do_call w2 c) as [s2 a2]. cbn [fst snd] in *.
      specialize (IH s1 s2 C1 C2 Hcs). unfold WalkerFail.answers in IH.
      destruct (run_calls s1 cs) as [t1 l1]. destruct (run_calls s2 cs) as [t2 l2]. cbn [snd] in *.
      constructor; assumption.
  Qed.

  (* failure_transparent, provable part: a call whose failure (if any) is at its root leaves
     the walker in a state from which every later history answers as if the call had not been
     made (later calls may fail too, under the same condition) *)
  Theorem failure_transparent_partial : forall w c later, clean w -> call_ok c ->
    Forall call_ok later ->
    Forall2 ans_equiv (answers (fst (do_call w c)) later) (answers w later).
  Proof.
    intros w c later Hc Hok Hl. apply transparent_seq; [apply do_call_clean; assumption|assumption|assumption].
  Qed.

  (* and every later answer is the fresh-environment answer *)
  Corollary later_as_fresh : forall w c later, clean w -> call_ok c -> Forall call_ok later ->
    Forall2 ans_equiv (answers (fst (do_call w c)) later) (map (fresh_answer A unit children fp early false fuel) later).
  Proof.
    intros w c later Hc Hok Hl.
    assert (Hw : clean (fst (do_call w c))) by (apply do_call_clean; assumption).
    revert Hw. generalize (fst (do_call w c)). induction later as [|d later IH]; intros w0 Hw0;
      unfold WalkerFail.answers; cbn.
    - constructor.
    - inversion Hl as [|? ? Hd Hl']; subst.
      pose proof (do_call_clean w0 d Hw0 Hd) as C1.
      pose proof (do_call_indep w0 (init A) d Hw0 (clean_init A children f) (proj1 Hd)) as Ha.
      destruct (do_call w0 d) as [s1 a1]. cbn [fst snd] in *.
      specialize (IH Hl' s1 C1). unfold WalkerFail.answers in IH.
      destruct (run_calls s1 later) as [t1 l1]. cbn [snd] in *. constructor; assumption.
  Qed.
End Persistent.

(* ------------- one-shot walkers (substituter, DAG printer): callback depends on kwargs ---- *)
Section OneShot.
  Variable A P : Type.
  Variable children : nat -> list nat.
  Hypothesis children_lt : forall n c, In c (children n) -> c < n.
  Variable f : P -> nat -> list A -> option A.
  Variable early : bool.
  Variable fuel : nat.
  Local Notation do_call := (do_call A P children f early true fuel).

  Definition pristine (w : st A) : Prop := stk w = [] /\ mm w = mempty A.

  (* between calls that did not raise the table is empty and the stack is empty; a call that
     raises at a LEAF root (nothing was memoised before the exception) keeps it so *)
  Theorem oneshot_pristine : forall w c, pristine w -> enough_fuel children (snd c) <= fuel ->
    (F A children (f (fst c)) (snd c) = None -> children (snd c) = []) ->
    pristine (fst (do_call w c)).
  Proof.
    intros w c [Hst Hm] Hfuel Hleaf. unfold WalkerFail.do_call.
    assert (Hc : clean A children (f (fst c)) w).
    { split; [exact Hst|]. rewrite Hm. apply Mok_empty. }
    destruct (F A children (f (fst c)) (snd c)) as [v|] eqn:HF.
    - destruct (walk_ok A children children_lt (f (fst c)) early true w (snd c) fuel v Hc Hfuel HF)
        as (s & new & Hw & [Hs _] & Hmm & _). rewrite Hw. cbn [fst]. split; [exact Hs|].
      (* either the early hit (impossible on an empty table: same state) or cleared *)
      unfold DagWalk.walk in Hw. rewrite Hm in Hw. destruct early; cbn in Hw.
      + destruct (iter_walk A children (f (fst c)) fuel w (snd c)) as [s0 [v0|e0|]]; inversion Hw; reflexivity.
      + destruct (iter_walk A children (f (fst c)) fuel w (snd c)) as [s0 [v0|e0|]]; inversion Hw; reflexivity.
    - destruct (walk_err A children children_lt (f (fst c)) early true w (snd c) fuel Hc Hfuel HF)
        as (s & x & Hw & _ & _ & Hr & _ & _ & _ & _ & Hshape). rewrite Hw. cbn [fst].
      specialize (Hleaf eq_refl).
      assert (x = snd c).
      { inversion Hr as [|? ch ? Hch _]; subst; [reflexivity|]. rewrite Hleaf in Hch. destruct Hch. }
      subst x. destruct Hshape as [[_ Hs]|[Hne _]]; [|congruence]. split; [exact Hs|].
      (* nothing was memoised: the run is  (F,root) -> (T,root) -> raise *)
      unfold DagWalk.walk in Hw. rewrite Hm in Hw.
      assert (Hiw : iter_walk A children (f (fst c)) fuel w (snd c) = (s, Err (ECallback (snd c)))).
      { destruct early; cbn in Hw; destruct (iter_walk A children (f (fst c)) fuel w (snd c)) as [s0 [v0|e0|]];
          inversion Hw; reflexivity. }
      clear Hw. unfold DagWalk.iter_walk in Hiw. rewrite Hst in Hiw.
      destruct fuel as [|[|k]]; cbn in Hiw.
      * inversion Hiw.
      * unfold DagWalk.push_with_children in Hiw. rewrite Hleaf in Hiw. cbn in Hiw. inversion Hiw.
      * unfold DagWalk.push_with_children in Hiw. rewrite Hleaf in Hiw. cbn in Hiw.
        rewrite Hm in Hiw. cbn in Hiw. rewrite Hleaf in Hiw. cbn in Hiw.
        destruct (f (fst c) (snd c) []) as [v|]; cbn in Hiw.
        { exfalso. destruct k; cbn in Hiw; unfold DagWalk.upd in Hiw; rewrite Nat.eqb_refl in Hiw; inversion Hiw. }
        inversion Hiw. subst s. cbn. reflexivity.
  Qed.
End OneShot.

(* ------------- refutation of the full statement: concrete two-call histories ------------- *)
Module Witness.
  (* node 2 = op(0, 1) *)
  Definition ch (n : nat) : list nat := match n with 2 => [0; 1] | _ => [] end.
  Lemma ch_lt : forall n c, In c (ch n) -> c < n.
  Proof. intros [|[|[|n]]] c; cbn; intros H; repeat (destruct H as [<-|H]; [lia|]); destruct H. Qed.

  (* (a) persistent walker (env.simplifier and the oracles): the callback raises at node 1
     (an operator without a walk_ method).  First call: walk(2) raises.  Second call: walk(0),
     a leaf that is fine on its own, dies with KeyError while emptying the left-over stack. *)
  Definition g (_ : unit) (n : nat) (args : list nat) : option nat :=
    if Nat.eqb n 1 then None else Some (n + list_sum args).
  Definition w1 := fst (do_call nat unit ch g true false 100 (init nat) (tt, 2)).
  Example first_call_raises : snd (do_call nat unit ch g true false 100 (init nat) (tt, 2)) = Err (ECallback 1).
  Proof. reflexivity. Qed.
  Example residue : stk w1 = [(false, 0); (true, 2)].
  Proof. reflexivity. Qed.
  Example later_after_failure : answers nat unit ch g true false 100 w1 [(tt, 0)] = [Err (EKey 2)].
  Proof. reflexivity. Qed.
  Example later_without_failure : answers nat unit ch g true false 100 (init nat) [(tt, 0)] = [Ok 0].
  Proof. reflexivity. Qed.

  (* (b) one-shot walker (env.substituter): kwargs p select the substitution; with p = 0 the
     callback raises at node 0 (the rebuilt node is ill-typed), after node 1 was memoised.
     The table is not cleared; the next call, with another substitution p = 1, is answered
     from it: a wrong VALUE, no exception. *)
  Definition h (p : nat) (n : nat) (args : list nat) : option nat :=
    if Nat.eqb p 0 && Nat.eqb n 0 then None else Some (100 * p + n + list_sum args).
  Definition v1 := fst (do_call nat nat ch h true true 100 (init nat) (0, 2)).
  Example oneshot_first_raises : snd (do_call nat nat ch h true true 100 (init nat) (0, 2)) = Err (ECallback 0).
  Proof. reflexivity. Qed.
  Example oneshot_table_survives : mm v1 1 = Some 1 /\ stk v1 = [(true, 2)].
  Proof. split; reflexivity. Qed.
  Example oneshot_later_stale : answers nat nat ch h true true 100 v1 [(1, 1)] = [Ok 1].
  Proof. reflexivity. Qed.
  Example oneshot_later_fresh : answers nat nat ch h true true 100 (init nat) [(1, 1)] = [Ok 101].
  Proof. reflexivity. Qed.
End Witness.

(* the full-strength statement of C15 on the model ... *)
Definition failure_transparent_stmt : Prop :=
  forall (A P : Type) (children : nat -> list nat) (f : P -> nat -> list A -> option A)
         (early oneshot : bool) (fuel : nat) (w w' : st A) (c : call P) (e : err) (later : list (call P)),
    (forall n c, In c (children n) -> c < n) ->
    stk w = [] -> mm w = mempty A ->
    (forall d, In d (c :: later) -> enough_fuel children (snd d) <= fuel) ->
    do_call A P children f early oneshot fuel w c = (w', Err e) ->
    answers A P children f early oneshot fuel w' later = answers A P children f early oneshot fuel w later.

(* ... is false of the faithful model, for persistent and for one-shot walkers *)
Theorem failure_transparent_refuted : ~ failure_transparent_stmt.
Proof.
  intros H.
  specialize (H nat unit Witness.ch Witness.g true false 100 (init nat) Witness.w1 (tt, 2) (ECallback 1)
                [(tt, 0)] Witness.ch_lt eq_refl eq_refl).
  assert (Hf : forall d, In d [(tt, 2); (tt, 0)] -> enough_fuel Witness.ch (snd d) <= 100).
  { intros d [<-|[<-|[]]]; vm_compute; lia. }
  specialize (H Hf eq_refl). vm_compute in H. discriminate.
Qed.

Theorem failure_transparent_refuted_oneshot :
  exists later, answers nat nat Witness.ch Witness.h true true 100 Witness.v1 later
                <> answers nat nat Witness.ch Witness.h true true 100 (init nat) later
                /\ (forall a, In a (answers nat nat Witness.ch Witness.h true true 100 Witness.v1 later) ->
                    exists v, a = Ok v).
Proof.
  exists [(1, 1)]. split; [vm_compute; discriminate|].
  intros a [<-|[]]. vm_compute. eauto.
Qed.
